#!/usr/bin/env python3
"""seed_recheck.py [jobs] [id ...] : re-run every property's check (static analysis only) against each confirmed seeded change in a
scratch copy of /repo (outside /repo and /verif, removed afterwards) and refresh `caught` / `caught_by` in seeded/<id>/meta.json.
Nothing else in meta.json is touched (first_verdict and strengthened keep the history)."""
import json, os, re, subprocess, sys, tempfile, shutil, glob
from concurrent.futures import ThreadPoolExecutor

V = os.path.dirname(os.path.dirname(os.path.abspath(__file__)))
ENV = dict(os.environ, GOFLAGS='-mod=mod', GOPROXY='off', GOSUMDB='off', GOTOOLCHAIN='local')

def one(sd):
    sid = os.path.basename(sd)
    mp = os.path.join(sd, 'meta.json')
    meta = json.load(open(mp))
    d = tempfile.mkdtemp(prefix='seedre.', dir='/tmp')
    try:
        subprocess.run(['rsync', '-a', '--exclude', '.git', '/repo/', d + '/'], check=True)
        p = subprocess.run('patch -p1 -s < %s' % os.path.join(sd, 'patch.diff'), shell=True, cwd=d, stdout=subprocess.PIPE, stderr=subprocess.STDOUT, text=True)
        if p.returncode != 0:
            return sid, 'STALE (patch does not apply)', None
        out = subprocess.run([V + '/bin/lemolint', 'check', 'all', '--repo', d, '--verif', V, '--no-evidence'], env=ENV, stdout=subprocess.PIPE, stderr=subprocess.STDOUT, text=True).stdout
        caught, cur = {}, []
        for l in out.splitlines():
            m = re.match(r'^(?:VIOLATED|UNDECIDED) (.+?): [a-z-]+ — ', l)
            if m:
                cur.append(m.group(1)); continue
            m = re.match(r'^(C\d\d): \d+ obligations', l)
            if m:
                if cur:
                    caught[m.group(1)] = cur
                cur = []
        if not re.search(r'^C20: \d+ obligations', out, re.M):
            return sid, 'CHECKER ERROR: ' + out[-300:], None
        meta['caught'] = meta['property'] in caught
        meta['caught_by'] = caught
        json.dump(meta, open(mp, 'w'), indent=1, ensure_ascii=False)
        return sid, 'caught' if meta['caught'] else 'MISSED', caught.get(meta['property'], [])[:2]
    finally:
        shutil.rmtree(d, ignore_errors=True)

def main():
    jobs = int(sys.argv[1]) if len(sys.argv) > 1 else 4
    ids = sys.argv[2:]
    sds = sorted(glob.glob(os.path.join(V, 'seeded', '*-*')))
    if ids:
        sds = [s for s in sds if os.path.basename(s) in ids]
    bad = 0
    with ThreadPoolExecutor(jobs) as ex:
        for sid, verdict, keys in ex.map(one, sds):
            print(sid, verdict, keys or '')
            if verdict != 'caught':
                bad += 1
    print('seed_recheck: %d seeds, %d not caught' % (len(sds), bad))
    sys.exit(1 if bad else 0)

main()
