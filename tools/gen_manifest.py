#!/usr/bin/env python3
"""Writes /verif/MANIFEST.json from the table below. A property is claimed when it has an entry in CLAIMED;
every other property of properties.jsonl is listed under not_applicable with its reason."""
import json, os, subprocess

V = os.path.dirname(os.path.dirname(os.path.abspath(__file__)))
props = [json.loads(l) for l in open(os.path.join(V, 'properties.jsonl'))]

# id -> (design section, technique, what the check decides, what it assumes)
CLAIMED = {}

def claim(pid, technique, text, note):
    CLAIMED[pid] = dict(technique=technique, text=text, note=note)

NOT_YET = "not claimed yet: the rule table for this property is still being built (see DESIGN.md §3 for the planned clauses)"

exec(open(os.path.join(V, 'tools', 'claims.py')).read())

checks = []
for p in props:
    pid = p['id']
    if pid not in CLAIMED:
        continue
    cl = CLAIMED[pid]
    checks.append({
        "property_id": pid,
        "quick_cmd": "./check.sh %s quick" % pid,
        "thorough_cmd": "./check.sh %s thorough" % pid,
        "evidence_file": "/verif/evidence/%s.json" % pid,
        "replay_cmd_template": "./check.sh %s quick  # re-evaluates every rule instance; the file {path} names the violated obligation" % pid,
        "engine": "lemolint",
        "level_claimed": {
            "category": "other",
            "text": cl['text'],
            "design_ref": "DESIGN.md §3 " + pid,
        },
        "level_note": cl['note'],
        "technique": cl['technique'],
    })

na = [{"property_id": p['id'], "reason": NA.get(p['id'], NOT_YET)} for p in props if p['id'] not in CLAIMED]

manifest = {
    "version": 1,
    "setup_cmd": "cd /verif/lint && GOFLAGS=-mod=mod GOPROXY=off GOSUMDB=off GOTOOLCHAIN=local go build -o ../bin/lemolint ./cmd/lemolint",
    "hooks": {
        "guard": "verif",
        "enable": "none needed: the checks read /repo's source (go/packages + go/ssa) and never build or run it with hooks",
        "baseline_off_cmd": "cd /repo && go test -json -vet=off -count=1 -timeout 25m ./...",
        "source_commits": [],
        "add_only": True,
    },
    "engines": [{
        "name": "lemolint",
        "path": "/verif/lint",
        "serves_properties": sorted(CLAIMED.keys()),
        "kind_free_text": "repository-specific static analyser over go/packages, go/ssa (dominators, CFG reachability with correlated-nil-test pruning, value slices), VTA call graph; rule tables per property in lint/internal/rules; a source-to-source pre-pass (lint/internal/normalize, go/packages overlay) inlines private helpers and local closures that the reference tree (reference/functions.txt) does not know, so that extract-function refactorings do not change a verdict",
    }],
    "checks": checks,
    "not_applicable": na,
    "notes": "Static analysis only (nothing from /repo is built or run; the thorough tier re-analyses scratch copies with mutants, seeded changes and behaviour-preserving refactors applied). Every claimed property is claimed at level 'other' for named structural clauses that are necessary conditions of the behaviour; the behavioural cores that are not decided are listed per property in evidence coverage.not_decided and in DESIGN.md §4. Genuine defects found are either repaired by 'fix:' commits in /repo or listed in /verif/known_findings.json.",
}
json.dump(manifest, open(os.path.join(V, 'MANIFEST.json'), 'w'), indent=1)
print("claimed:", sorted(CLAIMED.keys()))
print("not claimed:", [x['property_id'] for x in na])
