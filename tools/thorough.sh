#!/bin/sh
# thorough tier, after the quick analysis passed (steps 1–2 decide the exit status, step 3 is informational): (1) the same rules on the second build configuration that selects different source files
# (build tag nocgo selects signature_nocgo.go; the repository does not type-check with CGO_ENABLED=0 alone or for 32-bit targets, so there
# are no such runs), in its own process; (2) the mutant self test of the property: every mutant under /verif/mutations/<Cxx>/ and every
# caught seeded change for <Cxx> is applied to a scratch copy of /repo (outside /repo and /verif, removed at once), must still build, and
# must be reported. The outcome is added to the evidence file written by the quick part.
set -u
cd "$(dirname "$0")/.." || exit 2
PROP="$1"
REPO="${VERIF_REPO:-/repo}"
st=0
cfgs=""
for cfg in TAGS=nocgo; do
  echo "== $PROP under $cfg"
  if ./bin/lemolint check "$PROP" --repo "$REPO" --verif "$(pwd)" --tier thorough --goenv "$cfg" --no-evidence; then cfgs="$cfgs $cfg:ok"; else cfgs="$cfgs $cfg:FAILED"; st=1; fi
done
log=$(mktemp /tmp/lemoselftest.XXXXXX)
if [ -d "mutations/$PROP" ]; then
  ./tools/selftest.sh "$PROP" 4 | tee "$log" || st=1
fi
# (3) informational: the kept behaviour-preserving refactors (notes/benign) must leave this property's check silent. The outcome is recorded in
# the evidence; it does not change the exit status (it measures the checker, not the repository).
blog=$(mktemp /tmp/lemobenign.XXXXXX)
./tools/benign_check.sh 4 "$PROP" > "$blog" 2>&1 || true
grep -v "^BENIGN-QUIET" "$blog" | sed 's/^VIOLATED/benign-variant-reported/; s/^UNDECIDED/benign-variant-undecided/' | head -20
python3 - "$PROP" "$log" "$cfgs" "$blog" <<'PY'
import json, sys, re
prop, log, cfgs = sys.argv[1], sys.argv[2], sys.argv[3]
btxt = open(sys.argv[4]).read()
p = '/verif/evidence/%s.json' % prop
try:
    d = json.load(open(p))
except Exception:
    sys.exit(0)
txt = open(log).read()
caught = len(re.findall(r'^MUTANT-CAUGHT', txt, re.M)); missed = len(re.findall(r'^MUTANT-(MISSED|NOBUILD)', txt, re.M)); stale = len(re.findall(r'^MUTANT-STALE', txt, re.M))
d['tier'] = 'thorough'
d['coverage']['extra_build_configurations'] = cfgs.split()
d['coverage']['selftest'] = {'mutants_applied': caught + missed, 'reported': caught, 'not_reported': missed, 'stale_skipped': stale,
                             'samples': re.findall(r'^MUTANT-\w+ (\S+)', txt, re.M)[:8]}
d['coverage']['benign_refactors'] = {'applied': len(re.findall(r'^BENIGN-(QUIET|ALARM)', btxt, re.M)), 'quiet': len(re.findall(r'^BENIGN-QUIET', btxt, re.M)),
                                     'alarming': re.findall(r'^BENIGN-ALARM (\S+)', btxt, re.M), 'stale_skipped': len(re.findall(r'^BENIGN-STALE', btxt, re.M))}
json.dump(d, open(p, 'w'), indent=1)
PY
rm -f "$log" "$blog"
exit $st
