#!/bin/sh
# thorough tier, after the quick analysis passed: (1) the same rules on the other build configurations that select different
# source files (build tag nocgo selects signature_nocgo.go; the repository does not type-check for 32-bit targets, so no GOARCH=386 run), each in its own process; (2) the seeded-mutant self test of the property: every mutant under
# /verif/mutations/<Cxx>/ is applied to a scratch copy of /repo (outside /repo and /verif), must still build, and must be reported.
set -u
cd "$(dirname "$0")/.." || exit 2
PROP="$1"
REPO="${VERIF_REPO:-/repo}"
st=0
for cfg in TAGS=nocgo; do
  echo "== $PROP under $cfg"
  ./bin/lemolint check "$PROP" --repo "$REPO" --verif "$(pwd)" --tier thorough --goenv "$cfg" --no-evidence || st=1
done
if [ -d "mutations/$PROP" ]; then
  ./tools/selftest.sh "$PROP" || st=1
fi
exit $st
