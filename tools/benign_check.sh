#!/bin/bash
# usage: benign_check.sh [jobs] [Cxx]   (default: all properties)
# Applies every behaviour-preserving refactor kept under notes/benign/*.diff (written by independent sub-agents; each builds and keeps the
# tests of its packages passing) to a scratch copy of /repo made outside /repo and /verif, runs all 20 checks on the copy (static analysis
# only) and requires that NO obligation is reported: the checks must stay silent on code where the properties hold.
# A refactor that no longer applies to the current tree is reported STALE and skipped.
set -u
cd "$(dirname "$0")/.." || exit 2
export GOFLAGS=-mod=mod GOPROXY=off GOSUMDB=off GOTOOLCHAIN=local
REPO="${VERIF_REPO:-/repo}"
JOBS="${1:-3}"
PROP="${2:-all}"
V="$(pwd)"
one() {
  m="$1"
  D=$(mktemp -d /tmp/lemoben.XXXXXX)
  rsync -a --exclude .git "$REPO"/ "$D"/
  if ! (cd "$D" && patch -p1 -s < "$V/$m") >/dev/null 2>&1; then
    echo "BENIGN-STALE $m"; rm -rf "$D"; return 0
  fi
  out=$("$V/bin/lemolint" check "$PROP" --repo "$D" --verif "$V" --no-evidence 2>&1)
  rm -rf "$D"
  bad=$(echo "$out" | grep -E "^(VIOLATED|UNDECIDED)" | head -3)
  last=C20; [ "$PROP" != all ] && last="$PROP"
  if [ -n "$bad" ] || ! echo "$out" | grep -q "^$last: "; then
    echo "BENIGN-ALARM $m"; echo "$bad" | cut -c1-240; return 1
  fi
  echo "BENIGN-QUIET $m"; return 0
}
fail=0; n=0; pids=()
for m in notes/benign/*.diff; do
  [ -f "$m" ] || continue
  n=$((n+1))
  one "$m" &
  pids+=($!)
  if [ ${#pids[@]} -ge "$JOBS" ]; then
    wait "${pids[0]}" || fail=1
    pids=("${pids[@]:1}")
  fi
done
for p in "${pids[@]:-}"; do [ -n "$p" ] && { wait "$p" || fail=1; }; done
echo "benign_check: $n refactors, fail=$fail"
exit $fail
