#!/usr/bin/env python3-vt
import json, jsonschema, glob, sys
jsonschema.validate(json.load(open('/verif/MANIFEST.json')), json.load(open('/root/.vp/MANIFEST.schema.json')))
es = json.load(open('/root/.vp/EVIDENCE.schema.json'))
for f in sorted(glob.glob('/verif/evidence/C*.json')):
    jsonschema.validate(json.load(open(f)), es)
print("manifest and", len(glob.glob('/verif/evidence/C*.json')), "evidence files valid")
