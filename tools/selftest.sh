#!/bin/sh
# usage: selftest.sh <Cxx>|all  — applies every mutations/<Cxx>/*.diff to a scratch copy of /repo and expects the check to fire.
set -u
cd "$(dirname "$0")/.." || exit 2
export GOFLAGS=-mod=mod GOPROXY=off GOSUMDB=off GOTOOLCHAIN=local
REPO="${VERIF_REPO:-/repo}"
props="$1"
[ "$props" = all ] && props=$(ls mutations 2>/dev/null)
fail=0; n=0
for P in $props; do
  for m in mutations/$P/*.diff; do
    [ -f "$m" ] || continue
    n=$((n+1))
    D=$(mktemp -d /tmp/lemomut.XXXXXX)
    rsync -a --exclude .git "$REPO"/ "$D"/
    if ! (cd "$D" && patch -p1 -s < "$OLDPWD/$m") >/dev/null 2>&1; then
      echo "MUTANT-STALE $m (does not apply to the current tree)"; rm -rf "$D"; continue
    fi
    if ! (cd "$D" && go build ./... ) >/dev/null 2>&1; then
      echo "MUTANT-NOBUILD $m"; rm -rf "$D"; fail=1; continue
    fi
    out=$(./bin/lemolint check "$P" --repo "$D" --verif "$(pwd)" --no-evidence 2>&1)
    rc=$?
    want=$(sed -n 's/^# expect: *//p' "$m" | head -1)
    if [ $rc -eq 1 ] && echo "$out" | grep -q "^VIOLATION property=$P" && { [ -z "$want" ] || echo "$out" | grep -qF "$want"; }; then
      echo "MUTANT-CAUGHT $m"
    else
      echo "MUTANT-MISSED $m (rc=$rc, expected obligation: ${want:-any})"; fail=1
    fi
    rm -rf "$D"
  done
done
echo "selftest: $n mutants, fail=$fail"
exit $fail
