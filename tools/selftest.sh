#!/bin/bash
# usage: selftest.sh <Cxx>|all [jobs]
# Applies every mutations/<Cxx>/*.diff (and seeded/<id>/patch.diff that names <Cxx>) to a scratch copy of /repo made outside /repo and
# /verif, requires the mutant to build, runs the property's check on the copy (static analysis of the copy, nothing is executed from it)
# and requires the expected obligation to be reported. A mutant that no longer applies to the current tree is reported STALE and skipped.
set -u
cd "$(dirname "$0")/.." || exit 2
export GOFLAGS=-mod=mod GOPROXY=off GOSUMDB=off GOTOOLCHAIN=local
REPO="${VERIF_REPO:-/repo}"
JOBS="${2:-4}"
props="$1"
[ "$props" = all ] && props=$(ls mutations 2>/dev/null)
V="$(pwd)"

one() {
  P="$1"; m="$2"
  D=$(mktemp -d /tmp/lemomut.XXXXXX)
  rsync -a --exclude .git "$REPO"/ "$D"/
  if ! (cd "$D" && patch -p1 -s < "$V/$m") >/dev/null 2>&1; then
    echo "MUTANT-STALE $m (does not apply to the current tree)"; rm -rf "$D"; return 0
  fi
  if ! (cd "$D" && go build ./... ) >/dev/null 2>&1; then
    # the mutant was checked to build on the tree it was made for; if it does not build on the current tree, the tree has moved on: skip it
    echo "MUTANT-STALE $m (applies but does not build on the current tree)"; rm -rf "$D"; return 0
  fi
  out=$("$V/bin/lemolint" check "$P" --repo "$D" --verif "$V" --no-evidence 2>&1)
  rc=$?
  want=$(sed -n 's/^# expect: *//p' "$V/$m" | head -1)
  rm -rf "$D"
  if [ $rc -eq 1 ] && echo "$out" | grep -q "^VIOLATION property=$P" && { [ -z "$want" ] || echo "$out" | grep -qF -- "$want"; }; then
    echo "MUTANT-CAUGHT $m"; return 0
  fi
  echo "MUTANT-MISSED $m (rc=$rc, expected obligation: ${want:-any})"; return 1
}

fail=0; n=0; pids=()
for P in $props; do
  list=$(ls mutations/$P/*.diff 2>/dev/null)
  # seeded changes from independent agents that break this property
  for meta in seeded/*/meta.json; do
    [ -f "$meta" ] || continue
    if grep -q "\"property\": *\"$P\"" "$meta" && grep -q '"caught": *true' "$meta"; then
      list="$list $(dirname "$meta")/patch.diff"
    fi
  done
  for m in $list; do
    [ -f "$m" ] || continue
    n=$((n+1))
    one "$P" "$m" &
    pids+=($!)
    if [ ${#pids[@]} -ge "$JOBS" ]; then
      wait "${pids[0]}" || fail=1
      pids=("${pids[@]:1}")
    fi
  done
done
for p in "${pids[@]:-}"; do [ -n "$p" ] && { wait "$p" || fail=1; }; done
echo "selftest: $n mutants, fail=$fail"
exit $fail
