# executed by gen_manifest.py: claim(id, technique, text, note); NA = reasons for properties not claimed
NA = {}

claim("C02",
      "heeded-guard dominance + quantity-guard slices + field coverage of the header hash + value flow of the stored block (SSA/CFG)",
      "Decides, for all paths of the acceptance code at once, the structural necessary conditions of sound block acceptance: every "
      "acceptance check (10 helpers, 18 quantity comparisons) is executed and heeded before the save on every path from InsertBlock; each "
      "comparison is computed from the stated header/body quantity; Header.Hash covers every field but the signature; the stored block "
      "is the locally re-sealed one; no chain-state mutator runs before verification accepted. It does not decide that the compared "
      "constants/tolerances are right, nor slot arithmetic or execution correctness.",
      "go/types + go/ssa of x/tools v0.29.0; default build configuration (thorough adds CGO_ENABLED=0 and GOARCH=386); the frozen rule "
      "table in lint/internal/rules/c02.go; mutators considered are the frozen list in clause C02.4")

claim("C18",
      "must-lockset dataflow with caller-context (SSA), lock re-entry scan, guarded-action dominance, paired-effect and order rules",
      "Decides the structural necessary conditions of the pool behaving like a set: every access to TxPool.{txs,cap,hashIndexMap} and "
      "TxGuard.{blockBuckets,blockCache,txTracer} holds the owning mutex for writing on every path from every resolved caller (no "
      "re-acquisition of a held mutex); GetTxs hands out only non-nil entries that passed the expiry test (box and each sub-tx) and "
      "stops at the requested size; an index entry is deleted only after a successful lookup and together with the slot it names; "
      "addTx indexes after the existence test; add/del/exist agree on box expansion; on a fork switch AddTxs(old fork) precedes "
      "DelTxs(new fork); the miner packages only what passed the TxGuard.ExistTx filter. It does not decide linearizability of "
      "interleaved operations nor capacity arithmetic.",
      "lock identity is type based (all instances of a type share a key); callbacks passed as arguments are assumed to run "
      "synchronously under the caller's locks; go/ssa + go/types of x/tools v0.29.0; rule table lint/internal/rules/c18.go")

claim("C19",
      "must-lockset dataflow with caller context over a frozen state-item→lock table, lock re-entry and lock-order cycle detection (SSA)",
      "Decides, for every resolved path from every caller (goroutine starts and function values are lock-free contexts), that the engine "
      "mutations run under DPoVP.chainLock and that each shared item (signature cache, last-confirm record, unconfirmed block tree and stable "
      "root, WAL index and offset, term list, evil-deputy map) is only touched under its lock, that the fork head is atomic, that no mutex is "
      "re-acquired while held and that the lock order is acyclic. Eight accesses violate the table today (unlocked ChainDatabase readers, "
      "FileQueue.Offset) and are recorded as known findings D15/D16. It does not decide linearizability or the validity of emitted signatures "
      "as values.",
      "must-lockset approximation, lock identity per type (not per instance); callbacks passed as call arguments are assumed synchronous; "
      "races inside goleveldb/metrics are out of scope; go/ssa + go/types of x/tools v0.29.0; rule table lint/internal/rules/c19.go")
