# executed by gen_manifest.py: claim(id, technique, text, note); NA = reasons for properties not claimed
NA = {}

claim("C02",
      "heeded-guard dominance + quantity-guard slices + field coverage of the header hash + value flow of the stored block (SSA/CFG)",
      "Decides, for all paths of the acceptance code at once, the structural necessary conditions of sound block acceptance: every "
      "acceptance check (10 helpers, 18 quantity comparisons) is executed and heeded before the save on every path from InsertBlock; each "
      "comparison is computed from the stated header/body quantity; Header.Hash covers every field but the signature; the stored block "
      "is the locally re-sealed one; no chain-state mutator runs before verification accepted. It does not decide that the compared "
      "constants/tolerances are right, nor slot arithmetic or execution correctness.",
      "go/types + go/ssa of x/tools v0.29.0; default build configuration (thorough adds CGO_ENABLED=0 and GOARCH=386); the frozen rule "
      "table in lint/internal/rules/c02.go; mutators considered are the frozen list in clause C02.4")
