# executed by gen_manifest.py: claim(id, technique, text, note); NA = reasons for properties not claimed
NA = {}

claim("C02",
      "heeded-guard dominance + quantity-guard slices + field coverage of the header hash + value flow of the stored block (SSA/CFG)",
      "Decides, for all paths of the acceptance code at once, the structural necessary conditions of sound block acceptance: every "
      "acceptance check (10 helpers, 18 quantity comparisons) is executed and heeded before the save on every path from InsertBlock; each "
      "comparison is computed from the stated header/body quantity; Header.Hash covers every field but the signature; the stored block "
      "is the locally re-sealed one; no chain-state mutator runs before verification accepted. It does not decide that the compared "
      "constants/tolerances are right, nor slot arithmetic or execution correctness.",
      "go/types + go/ssa of x/tools v0.29.0; default build configuration (thorough adds CGO_ENABLED=0 and GOARCH=386); the frozen rule "
      "table in lint/internal/rules/c02.go; mutators considered are the frozen list in clause C02.4")

claim("C18",
      "must-lockset dataflow with caller-context (SSA), lock re-entry scan, guarded-action dominance, paired-effect and order rules",
      "Decides the structural necessary conditions of the pool behaving like a set: every access to TxPool.{txs,cap,hashIndexMap} and "
      "TxGuard.{blockBuckets,blockCache,txTracer} holds the owning mutex for writing on every path from every resolved caller (no "
      "re-acquisition of a held mutex); GetTxs hands out only non-nil entries that passed the expiry test (box and each sub-tx) and "
      "stops at the requested size; an index entry is deleted only after a successful lookup and together with the slot it names; "
      "addTx indexes after the existence test; add/del/exist agree on box expansion; on a fork switch AddTxs(old fork) precedes "
      "DelTxs(new fork); the miner packages only what passed the TxGuard.ExistTx filter. It does not decide linearizability of "
      "interleaved operations nor capacity arithmetic.",
      "lock identity is type based (all instances of a type share a key); callbacks passed as arguments are assumed to run "
      "synchronously under the caller's locks; go/ssa + go/types of x/tools v0.29.0; rule table lint/internal/rules/c18.go")

claim("C19",
      "must-lockset dataflow with caller context over a frozen state-item→lock table, lock re-entry and lock-order cycle detection (SSA)",
      "Decides, for every resolved path from every caller (goroutine starts and function values are lock-free contexts), that the engine "
      "mutations run under DPoVP.chainLock and that each shared item (signature cache, last-confirm record, unconfirmed block tree and stable "
      "root, WAL index and offset, term list, evil-deputy map) is only touched under its lock, that the fork head is atomic, that no mutex is "
      "re-acquired while held and that the lock order is acyclic. Eight accesses violate the table today (unlocked ChainDatabase readers, "
      "FileQueue.Offset) and are recorded as known findings D15/D16. It does not decide linearizability or the validity of emitted signatures "
      "as values.",
      "must-lockset approximation, lock identity per type (not per instance); callbacks passed as call arguments are assumed synchronous; "
      "races inside goleveldb/metrics are out of scope; go/ssa + go/types of x/tools v0.29.0; rule table lint/internal/rules/c19.go")

claim("C15",
      "wire-value bounds and library preconditions by dominating tests with statically evaluated constants (SSA) + heeded-guard dominance for decode/code/range checks + closed inventory of panic/type-assertion sites over the VTA call-graph closure of the network roots",
      "Decides, for every path of the frame reader, the two encryption handshakes, the 12 message handlers and the block/confirm insertion at once: "
      "(1) the two allocations whose size is read off the connection (Peer.readConn, readHandshakeBuf) are dominated by a rejection above a constant "
      "<= params.MaxPackageLength (package-level variables such as PackageMaxLen are resolved from their initialiser and must have no other writer), and all "
      "three rlp streams over received bytes read from a *bytes.Reader, i.e. are limited to the bytes received; (2) CryptBlocks runs only on whole blocks into a "
      "destination of the same length, byte-order decoders and constant cuts of byte slices in network/p2p act on buffers of proven length, and make(len(x)-k) "
      "is preceded by a rejection of len(x) < k (this is how D34 ecies.symDecrypt and D35 Peer.unpackFrame were found; both are repaired and discharged); "
      "(3) every handler and the protocol handshake leave on a decode error, the two handshake readers may ignore it only while their targets are fresh structs of "
      "fixed-size byte arrays; (5) CheckCode is heeded before a frame is queued, the dispatcher rejects unknown codes, a handler error ends the handler loop, "
      "From>To and StaHeight>CurHeight are rejected before any work starts; (6) the 108 explicit panic sites and single-result type assertions reachable from the "
      "network roots are exactly the 88 inventoried (function, kind) entries, each with its invariant; a new site fails the check; GetCorrectMiner's unit assertion "
      "is behind the ErrSmallerMineTime rejection (D20); NewTermRecord's vote-order panic is the recorded finding D8; (4) no function of the network, consensus, pool and store packages re-acquires a mutex it holds (D11) and (7) every access to peerSet.peers and the two message caches holds the owning mutex on every path from every caller (D21). "
      "It does NOT decide: bounds checks with variable bounds, indexing, nil dereference, division by zero, nil-map writes; CPU or memory exhaustion by many "
      "well-formed messages; goroutine leaks; deadlocks other than lock re-entry; nor that "
      "the invariants cited in the inventory hold beyond the rules of C02/C05/C07 they cite.",
      "go/types + go/ssa + VTA call graph of x/tools v0.29.0 (reachability is over-approximated; the closure stops at common/log and metrics and skips *_for_test helpers); "
      "the frozen inventory lint/internal/rules/c15_inventory.go with hand-written invariants; trusted result lengths crypto.Keccak256 = 32, elliptic.Marshal >= 1; "
      "rlp.Stream.Reset's limiting of a *bytes.Reader and the rlp decoder's own size enforcement are trusted; length tests must stand in the function that slices or allocates")
claim("C20",
      "language-version aware loop-variable capture scan (typed AST) + slice aliasing rule for append-to-prefix (SSA) + branch/dominance shape of the out-of-order paths and the tx batch handler (SSA/CFG)",
      "Decides narrow structural necessary conditions of sync convergence only: (1) under the module's language version (go 1.14, read from the type checker's "
      "configuration and cross-checked with go.mod) no go/defer closure inside a loop of network, network/p2p, chain/consensus refers to a variable declared by "
      "the loop statement (D12: handleTxsMsg rebinds tx; the captured cell is also shown on SSA to be allocated per iteration and to hold the verified tx); "
      "(2) in packages network and store no append(x[:k], ...) without capacity limit is followed by an element access to the old x, to an earlier load of its "
      "variable or to a slice cut from it, before the variable is assigned again (D13: BlockCache.Add; the delete idiom in BlockCache.Remove is the positive control, "
      "the same-length splice in the cbTable printer is the one named exemption); (3) in rcvBlockLoop a block is inserted only when HasBlock(parent) holds, the "
      "parent-unknown branch alone reaches blockCache.Add with the tested block and then requests height-1 twice from the sender, the timer branch walks the cache "
      "with a callback that inserts a block once its parent is known and re-arms the timer, insertBlock merges cached confirms (popped by the block's own height and "
      "hash, stored into Block.Confirms) before InsertBlock and returns its verdict, handleConfirmMsg pushes the decoded confirm to confirmsCache exactly on the "
      "unknown-block branch; (4) in handleTxsMsg the goroutine that calls AddTx is started only after VerifyTxBody accepted, in every iteration, and AddTx is behind "
      "a denied ExistTx on the same transaction. It does NOT decide convergence itself - equality of end states over permutations, duplications and interleavings "
      "of deliveries is a property of histories - nor that BlockCache stays sorted and loses nothing, eviction, timing, peer choice, or exactly-once across batches.",
      "go/types + go/ssa of x/tools v0.29.0 (go/ssa honours the go 1.14 loop semantics because go/packages hands the go directive to the type checker); "
      "the aliasing rule flags any element access to the old slice (not only indices >= k) and trusts that a store to the variable makes later loads fresh; default build configuration")

claim("C14",
      "codec sibling agreement (field-sensitive SSA writes/slices), registry + dynamic-shape tables, sentinel-keyed guard inventory with normalised control conditions, who-may-call",
      "Decides, for every path of the codec code at once, the structural necessary conditions of round-tripping encodings: for Header, AccountData (incl. "
      "rlpCandidate / rlpVersionRecord), Event, EventForStorage, ChangeLog, Profile and Transaction the EncodeRLP side, the shadow wire struct and the DecodeRLP side carry the same "
      "fields wired name to name (elided header roots restored, the hand-written ChangeLog decoder reads the elements in wire order, frames with List/ListEnd and rejects unknown types); no "
      "repository type has a one-sided custom codec; ChangeLog/Event/DeputyNode hashes are Keccak of exactly that encoding; all 19 change-log types are registered once with non-nil "
      "functions and, per type and slot, constructor shapes ⊆ decoder shapes ⊆ redo-accepted shapes (4 empty-payload shapes exempt as unreachable, D30); the 14 canonical-form guards of "
      "common/rlp are present under the right comparison on the right quantity and their errors propagate; encoders do not emit maps in map order (AccountData exempt, store-only); the "
      "change-log decode path has no unchecked assertion/panic/indexing and unchecked payload assertions elsewhere only see the locally built journal; Profile maps are pre-allocated before "
      "reflective decodes; each wire message code is decoded into the type it is sent as; txdata's JSON codec carries all 17 fields both ways. It does NOT decide round-trip equality or byte "
      "canonicity as value properties, the base26 address text form, JSON value formats, or the reflection-driven generic rlp encoder.",
      "go/types + go/ssa of x/tools v0.29.0, default build configuration; the frozen tables in lint/internal/rules/c14*.go (exemptions: Header.signerNodeID, ChangeLog.OldVal, Event derived "
      "fields, AccountData legacy TxHashList/TxCount, trie.fullNode encode-only, 4 unreachable decoder shapes, AccountData map order); reflection in common/rlp is trusted to use declaration order and "
      "struct tags symmetrically; dynamic shapes are read off MakeInterface operands in constructors/decoders (a shape passed through a parameter makes the obligation undecided)")

claim("C05",
      "closed classified writer set + amount identity on SSA values + heeded-guard/ordering of the gas bracket + interprocedural single-sink value flow of gas + validated-use of signed tx fields (SSA/CFG)",
      "Decides structural necessary conditions of LEMO conservation for all paths at once: every call site of AccountAccessor.SetBalance (15, incl. journal "
      "replay) lies in a frozen, classified table and the Transfer/CanTransfer hooks are only ever bound to transaction.Transfer/CanTransfer; Transfer, Refund "
      "and self-destruct move one SSA amount between two accounts' own balances with the credited balance read after the debit; applyTx buys gas, pays intrinsic "
      "gas, executes and refunds in that order with every rejection heeded, buyGas/refundGas use limit×price and rest×price of the same tx and payer, handleTx "
      "reports limit−rest, and Process/ApplyTxs/RunBoxTxs charge gas×GasPrice() of the applied tx once after the loop on every successful exit; per execution root "
      "the gas result of each applyTx call must reach exactly one chargeForGas site (this reports D22: box sub-tx gas reaches two sites — recorded as known finding); "
      "Account.SetBalance keeps its negative-panics guard, GetBalance returns a copy, each debit is dominated by a sufficiency comparison on the same account and "
      "amount; minting and deposit refunds are dominated by IsRewardBlock(height); ApplyTxs reverts to the per-tx snapshot on every applyTx error edge; every "
      "*big.Int field of txdata is rejected when negative by VerifyTxBody unconditionally and the block path reaches that test for every tx and box sub-tx (D32 fix). "
      "It does NOT decide the numeric equalities (sum of balances, Σ debits = Σ credits, salary shares ≤ reward, once-per-term reward), value flows inside the EVM "
      "beyond the Transfer hook, flows of the gas figure through fields/maps/interfaces (reported undecided if they appear), or that chargeForGas finds an income address.",
      "go/types + go/ssa of x/tools v0.29.0, default build configuration; the frozen tables in lint/internal/rules/c05.go (writer table, three gas-accumulating loops, "
      "two execution roots); math/big modelled as z.Op(x,y): x,y flow into z and the result; standard-library and vendored callees are leaves; arithmetic feeding "
      "SetBalance must be visible at the call site (a helper around Sub/Add needs re-anchoring)")

claim("C11",
      "ordering/dominance in Finalize + class-hierarchy reachability of balance writers + closed writer sets + candidate-state edge guards + sign-fact validated-use on vote arithmetic (SSA/CFG)",
      "Narrow structural clauses only. Decides that the end-of-block vote adjustment (ChangeVotesByBalance) runs after issueTermReward and refundCandidateDeposit, "
      "on the manager that is then finalised, is derived from all BalanceLog entries, and that no call after it in Finalize/RunBlock/MineBlock can reach "
      "AccountAccessor.SetBalance (CHA-style closure over repository functions incl. interface methods and registered function values, with positive controls); fees are "
      "charged inside Process/ApplyTxs before Finalize; the call sites of SetVotes (10) and SetVoteFor (4) lie in frozen tables, nobody computes into the pointer GetVotes "
      "returns, and CallVoteTx moves the old vote before overwriting VoteFor; debits/adjustments only touch accounts tested to be candidates, a non-candidate target is "
      "rejected, unregistration zeroes votes; every SetVotes fed by big.Int Sub/Add must have a delta proven ≥ 0 or a heeded comparison of operands/result — violated at the "
      "two debit sites (D19, known findings). It does NOT decide the tally equation (votes = deposit/rate + Σ voter balances/rate), the arithmetic of the adjustment, "
      "or whether counts are right — only whether the adjustment sees every balance change and whether negative counts are prevented.",
      "go/types + go/ssa of x/tools v0.29.0; frozen tables in lint/internal/rules/c11.go; reachability treats library functions as leaves and resolves function values "
      "by signature among address-taken repository functions; writes to the vote fields that bypass the accessor interface (decoders, Copy) are out of scope")

claim("C07",
      "inter-procedural write-set (effects) analysis with context binding for undo-covers-do, payload type tables, journal-before-write dominance, who-may-call, path-sensitive snapshot/revert pairing (SSA)",
      "Decides the structural necessary conditions of a faithful change journal for all paths at once: all 19 log types are registered with "
      "decoders, redo, undo, constructor and journalling setter; every SafeAccount method pushes a constructor-made log before it calls a raw "
      "*Account mutator (mutators are found by write set, not by name); raw mutators, assertions to *Account and the un-journalled PopEvent are "
      "unreachable outside package account and Manager hands out SafeAccounts only; for every log type each account-state location written by the "
      "setter is written by the registered undo (or restored by RevertToSnapshot itself) and by the redo; constructors record OldVal from a read of "
      "the account and undo restores from it; the dynamic payload shapes a constructor can store are accepted by the undo's assertions (an undo error "
      "panics); in all 11 functions that take a snapshot every failing execution or journalling step passes RevertToSnapshot(same snapshot) on every "
      "path to a return or the next iteration; RebuildAll replays from the parent state, skips exactly the four root logs and heeds Redo errors; "
      "Account.Save stores code only when there is code and clears the dirty flag. One recorded finding (CodeLog keeps no old value). It does not "
      "decide that undo restores the same VALUE, deep-copy aliasing of OldVal, or the behaviour of nested snapshot histories.",
      "write sets are over-approximated by access paths (depth 9) with one level of calling context; cache-fill locations (trie, cached) are not "
      "account state; three reasoned exemptions (event list has no reader; asset roots of a self-destructing contract are empty) whose premises are "
      "checked; go/ssa + go/types of x/tools v0.29.0; rule table lint/internal/rules/c07.go")

claim("C16",
      "ordered heeded guards in the interpreter loop + jump-table registry with static write reachability + path-sensitive snapshot/revert pairing + closed writers of gas/depth/readOnly + nondeterminism-source scan of package vm (AST/SSA/CFG)",
      "Decides, for all bytecode and all paths at once, the structural necessary conditions of the contract sandbox: in Interpreter.Run every path to "
      "operation.execute has passed the valid test, validateStack, enforceRestrictions, the two memory-size overflow tests, gasCost and a heeded "
      "UseGas(cost) before mem.Resize, and execute's error / the reverts flag end the frame with an error, inside a depth++ / deferred depth-- bracket; "
      "the 256-entry jump table is complete for its 137 valid opcodes and every opcode whose execute function statically reaches an account mutator "
      "(22 classified) or EVM.Create carries writes:true (8 today), CALL's value transfer being covered by the explicit branch of enforceRestrictions, "
      "whose readOnly shape is decided path-sensitively; all six call kinds refuse depth > CallCreateDepth before run, move value only behind "
      "CanTransfer(same sender, same amount), take the snapshot before any write and revert to it on every error path after run (Create: also code-store "
      "failure and oversize code); StaticCall sets readOnly and resets it only if it set it; UseGas is refuse-or-subtract, Contract.Gas / EVM.depth / "
      "readOnly / abort / the table have closed writer sets, nested frames get only gas that was deducted first and give back only their own remainder, "
      "precompiles run after UseGas(RequiredGas); package vm has no goroutine, select, order-sensitive map range, and its six clock reads flow only into "
      "the Tracer. It does not decide termination or gas <= limit as arithmetic facts, the correctness of individual opcodes and gas formulas, precompile "
      "panics on odd inputs, nor that RevertToSnapshot restores the state exactly (C07).",
      "go/types + go/ssa of x/tools v0.29.0, default build configuration; package-level error variables are non-nil; the frozen tables in "
      "lint/internal/rules/c16.go (six call kinds, reader/mutator classification of AccountAccessor and AccountManager methods, permitted writers); static "
      "call reachability inside package vm stops at the call kinds and at run (the nested frame is constrained through the inherited readOnly flag); the "
      "state-writing precompile setRewardValue is outside the writes flag and only its membership in a closed set is decided")

claim("C08",
      "ordering / heeded-error dominance across closures and helpers + value flow of cursors + evaluated emptiness guard + checksum written⇒verified + recovery-hook reachability + errcheck of the commit path (SSA/CFG)",
      "Decides, for all paths of the storage code at once, the structural necessary conditions of crash durability: FileUtilsFlush writes, syncs and only then "
      "reports success; FileQueue.Put/PutBatch hand a record to the asynchronous bitcask writer and return nil only after the flush of exactly that record "
      "succeeded, and the append cursors advance by the flushed length; BitCask.Put orders data ≺ LevelDB position ≺ cursor and the writer reports Done only "
      "after a successful put and its write extension; blockCommit puts block, height index and every account record into the one committed batch, commits "
      "(heeded) before leveldb.SetCurrentBlock, and moves the pointer before the candidate file is rewritten; SetStableBlock advances LastConfirm and prunes only "
      "after blockCommit succeeded; saveToStore (SetBlock, Manager.Save → Account.Save → trie commits, every error heeded) succeeds before UpdateStable; tmp.data "
      "is removed only on the evaluated `len(Index)==0` edge under IndexRW, entries leave the index only for the last pending write reported on DoneChan; start-up "
      "opens the writer, replays every intact record, treats a torn tail (ErrRecordBroken) as end of log and reads the stable block only after the replay; "
      "RecordHead.Crc is written from CheckSum(body) and compared before a record is handed out; no error is dropped in the 170 store functions on the "
      "commit/start-up path (2 reasoned exemptions). Reported and recorded as known findings: contextHead.Crc is the constant 0 and never checked and "
      "RunContext.load drops the decode error (D27); the recovery hook commitStableBlock/AfterScan is unreachable from the write extension BeansDB.Start "
      "installs (D25). It does not decide behaviour under an actual crash or torn write (nothing is interrupted or compared), LevelDB's own durability "
      "(LevelDBDatabase.Put passes nil write options: index entries, cursors and the stable pointer are not synced by the call that writes them), nor that a "
      "restarted node equals a continuous one.",
      "go/types + go/ssa of x/tools v0.29.0, default build configuration; closure resolution assumes a function literal bound to a once-assigned local variable "
      "runs synchronously where it is called; reachability for C08.9/C08.7 follows static calls, function literals, go/defer and interface invocations to every "
      "repository implementation (callbacks out of dependencies, e.g. rlp reflection, are not followed); os.File.Write is trusted to return an error on a short "
      "write; the frozen anchors and the two errcheck exemptions in lint/internal/rules/c08.go, c08b.go")

claim("C03",
      "guarded-action dominance + comparison-shape checks + closed caller/writer sets + value provenance of the dedup key (SSA/CFG)",
      "Decides, for all paths at once, the structural necessary conditions of finality on one node: StableBlockStore.SetStableBlock is reachable "
      "only inside StableManager.UpdateStable behind a strict `block.Height > stable.Height` test and the heeded quorum test, whose every `true` "
      "outcome is `len(Confirms)+1 >= q` with q a ceil(2/3) quantity of the deputy table; nobody else calls SetStableBlock / blockCommit / "
      "leveldb.SetCurrentBlock or writes ChainDatabase.LastConfirm, and the block made stable is taken from the unconfirmed tree and committed "
      "along its path to the old stable block; Block.Confirms has a closed writer set and every signature VerifyNewConfirms returns was appended "
      "behind an accepted RecoverNodeID over the block hash, a non-nil GetDeputyByNodeID and a membership test keyed by the *recovered node id* "
      "(set seeded with the header signer and the existing confirms; the D4 repair is discharged, reverting it is caught); UpdateStable precedes the "
      "fork update, which re-picks the head with ChooseNewFork(stable) when the current fork was cut. One recorded finding: TryConfirm can count the "
      "node itself twice through the other encoding of its own signature (consequence of D6). It does not decide fork-choice correctness, agreement "
      "between nodes, the arithmetic of the threshold, nor that the unconfirmed tree holds only descendants of the stable block.",
      "go/types + go/ssa of x/tools v0.29.0, default build configuration; frozen caller/writer tables in lint/internal/rules/c03.go; interface calls "
      "matched by method family (no pointer analysis); guards must live in the named functions (a guard moved into a new helper needs a table update)")

claim("C13",
      "heeded-guard dominance + value identity of the checked header + write-set scan over the call closure of MineBlock + phi/compare shape of max()",
      "Narrow structural clauses only. Decides that DPoVP.MineBlock heeds Validator.VerifyMiner on the very header PrepareHeader returned (no "
      "successful exit and no saveNewBlock without it), that VerifyMiner and VerifyBeforeTxProcess both resolve to verifyMiner with the validator's "
      "own mineTimeout and deputy table, that this header is what the assembler executes, seals and signs; that Header.Time/MinerAddress/Height/"
      "ParentHash have a closed writer set in the repository (PrepareHeader, the two codecs, genesis) and none of those writers is among the ~650 "
      "functions that can run below MineBlock between PrepareHeader and the signature; that Seal stores only roots/GasUsed/DeputyRoot into the header "
      "it seals and SignData is added only after SignBlock; and that PrepareHeader sets Time = max(parent.Time, now in seconds), Height = parent+1, "
      "ParentHash = parent.Hash(), MinerAddress = own address of the new height. Slot arithmetic is NOT decided: uniqueness and rotation of the "
      "in-turn deputy, the modulo/window computation of GetCorrectMiner, agreement of GetNextMineWindow with it, timers of the miner loop.",
      "go/types + go/ssa; the reach set follows static callees, closures and interface calls by method family inside chain/{consensus,transaction,"
      "account,vm,types,txpool,deputynode,params}, common/{crypto,merkle}; storage, RLP reflection and logging are leaves (trusted not to receive "
      "the *Header under construction); positive controls keep the scan from being vacuous")

claim("C10",
      "sibling agreement of the two deputy-loading sites + value provenance of rank/votes + must-call/order of the ranking feed + comparator shape of the selection sort + restart / fork structural clauses (SSA/CFG)",
      "Decides, for all paths at once, the structural necessary conditions of election integrity: LoadTopCandidates has exactly two call sites (Seal, "
      "verifyDeputy), both pass the block's ParentHash and run exactly on the IsSnapshotBlock(own height) branch; Seal puts the loaded list into the body and "
      "writes its Merkle root into the header of the block it returns; GetCandidatesTop answers for the asked hash; the rank handed to NewDeputyNode is the "
      "0-based index over the top list cut to DeputyCount and the votes must be that same element's Total (today they are a second read of post-block account "
      "state: D8, recorded, together with NewTermRecord's votes-order panic it leaves undischarged); Manager.Save feeds CandidatesRanking(newBlockHash, logs of "
      "type VotesLog) on every successful path before clearing, the logs reach CBlock.Ranking of that block, the all-candidates index is written before updateTop "
      "reads it; VoteTop.ranking swaps on fewer votes and, only on equality, on the larger address, cut to max_candidate_count at every Rank call; NewChainDataBase "
      "re-inserts every candidate it ranks into LastConfirm.CandidateTrieDB (D26, fixed); a child block's Top/index are clones of one parent's; every list "
      "ranked by updateTop must have passed filterUnregisters (the two full re-rank branches do not: new finding, recorded). It does NOT decide that the "
      "incremental four-branch updateTop equals a full sort over a history, that a restarted node's list equals a never-stopped node's as values, that candidates "
      "unregistered in earlier blocks leave the index, nor non-emptiness of the snapshot list.",
      "go/types + go/ssa of x/tools v0.29.0, default build configuration; the frozen rule table in lint/internal/rules/c10.go (anchors: Seal, verifyDeputy, "
      "DPoVP.LoadTopCandidates, Manager.Save, ChainDatabase.{CandidatesRanking,GetCandidatesTop,SetBlock}, CBlock.{Ranking,updateTop}, VoteTop.{Rank,ranking}, "
      "NewChainDataBase, NewNormalBlock, NewTermRecord); CandidateLoader has DPoVP as its only non-test implementation (checked on every run); big.Int.Cmp and "
      "bytes.Compare have their documented meaning")

claim("C12",
      "validated-use of external amounts (sign test dominance, through decoder helpers) + guarded-action authorisation cuts + value identity of the amount on both sides + closed writer sets + snapshot/revert pairing (SSA/CFG)",
      "Decides, for all paths of the four asset transactions at once: every flow of IssueAsset.Amount / ReplenishAsset.Amount / TransferAsset.Amount into a "
      "SetEquityState or SetAssetCodeTotalSupply argument (8 flows) is dominated by a heeded Sign()/Cmp(0) test on the same value whose negative edge cannot reach "
      "the write (D7 fixed: discharged; only the JSON decoders write those fields); with the accepting edges of each authorisation test removed no equity/supply "
      "write is reachable (issuer = sender in issue and modify, judgeReplenish's four refusals heeded in replenish, asset id belongs to the asset code, freeze "
      "test in issue and transfer, caller's equity >= amount for divisible transfers) and the records tested are the records written; issue/replenish add one and "
      "the same amount (constant 1 only on the !IsDivisible branch) to the supply record and to the receiver's equity on every successful path, transfer credits "
      "or burns exactly the SSA amount it debits, once per path, debit after credit from a fresh read, no accepting exit between them; outside package account "
      "the two setters have 5 + 3 call sites, all in the three transactions, and the only subtracting writes are the caller's own debit and the burn; "
      "TransferAssetTx snapshots before its writes and reverts to that snapshot on the error edge of run. It does NOT decide the invariant sum(equity) = supply "
      "over histories, non-negativity of equities as values, the journalled undo (C07), nor the bodies of the setters.",
      "go/types + go/ssa of x/tools v0.29.0, default build configuration; the frozen rule table in lint/internal/rules/c12.go; math/big Add/Sub/Cmp/Sign/NewInt "
      "have their documented meaning; a non-nil transaction-level error returned by the asset functions makes the caller discard the whole transaction "
      "(TxProcessor reverts / rejects the block), so only the vm-error edge needs the local revert")

claim("C01",
      "nondeterminism-source scan over the VTA call-graph closure of execution/finalisation/sealing/hashing (goroutines, select, randomness, clock flows, map-iteration form classification, node-local store reads), order/dominance rules for the shared transition, switch-table agreement, value provenance of published versions",
      "Decides structural necessary conditions of a deterministic state transition for every function reachable from Process, ApplyTxs, Finalize, Seal, "
      "the account manager's merge/finalise/save and the hash/encode methods (about 900 functions): no goroutine, select or randomness; every wall-clock "
      "value flows only into comparisons (the miner's selection), logs, metrics or the tracer, and the validator and the box executor pass an unlimited "
      "time budget; every map iteration is a keyed copy, a commutative accumulation, a collect-then-sort, or one of 12 loops listed with the reason that "
      "makes it order-insensitive (a new loop fails); the chain database is read only through block- or content-hash keyed methods (three reads that depend "
      "on the node's stable pointer are recorded as finding D18); miner and validator run the same applyTx, then Finalize (votes pass, merge, finalise in "
      "that order), then seal the product; the four tx-type tables are exhaustive over the dispatcher's 11 types; published change-log versions derive "
      "from the parent's record, not from the provisional counter; the validator aborts on a bad transaction and on a gas mismatch. It does not decide "
      "equality of hashes or account state between two executions, EVM arithmetic, or nondeterminism inside cgo/goleveldb.",
      "VTA call graph over-approximates reachability; the closure stops at common/log, metrics, common/subscribe, store and store/leveldb; the 12 listed "
      "loops are confirmed by reading, not proved; go/ssa + go/types of x/tools v0.29.0; rule table lint/internal/rules/c01.go")

claim("C09",
      "copy-on-write ownership analysis of PatriciaTrie.put (SSA writes vs. dominating `node.dye == dye` edges) + fresh-copy / who-may-construct / who-may-write rules + order and guard-scope rules for pruning",
      "Decides, for every path of the code at once, the structural necessary conditions of fork-isolated per-block views: in PatriciaTrie.put every write to memory of a "
      "node the activation did not allocate itself (8 in-place writes: field store, children element, append / insert helper on the children array, hand-over to a callee that "
      "writes) is only reachable through the equal edge of `thatNode.dye == dye`, callees are resolved and classified by what they do (read-only, returns a private copy), no fresh "
      "node takes over a foreign node's children array (this rule found defect D36, repaired in /repo and now discharged; a revert is caught), and the only exception is the "
      "prefix branch that is unreachable while all keys of one trie have one length (the five key producers are checked to derive from Address.Hex()). It further decides that "
      "NewNormalBlock is the only constructor of a non-genesis CBlock and Clone()s all three structures of the parent that SetBlock looked up by ParentHash, that the clones own "
      "their trie header / top list and PatriciaNode.Clone copies the children index by index; that the non-copying insert/Insert is called only from the read-through cache fill "
      "(miss branch, value read from disk) and the start-up loader; that SetStableBlock orders heeded blockCommit before the LastConfirm assignment before clear, clear deletes exactly "
      "Walk(old root, exclude new root) plus the new root, Walk skips exactly the excluded child, and UnConfirmBlocks has no other writer; that collected descends/appends only under "
      "dye equality and terminal && data != nil, every node on put's write path is dyed before publication and blockCommit persists Collect(own height) of the committed block's own "
      "trie into the batch it commits. It does NOT decide functional correctness of trie search/insert (child selection, ordering, prefix split/merge, the early return when the same "
      "dye writes a key twice), the stale-cache question when the stable value changes, that the dye passed to Put equals the height later collected, nor memory growth.",
      "go/types + go/ssa of x/tools v0.29.0, default build configuration; same-node identity is SSA value identity (or a re-load of the same field path); Address.Hex() having one "
      "length and the account / candidate wrappers never sharing one PatriciaTrie are trusted for the allow-listed prefix branch; frozen caller / writer sets in "
      "lint/internal/rules/c09.go; thread-safety of the views is C19's subject")

claim("C17",
      "narrow structural clauses only: sibling agreement of key transformation, order / every-iteration rules on the dirty-storage flush and the node-database commit, value identity of (hash, buffer) in hasher.store, index-preserving leaf fill (SSA value flow + CFG)",
      "Decides five code-shape conditions that are necessary for 'commitments bind content': SecureTrie.TryGet/TryUpdate/TryDelete all reach the inner trie under hashKey(key parameter) "
      "and hashKey is Reset;Write(key);Sum, Trie.TryGet/TryUpdate/TryDelete pass keybytesToHex(key) down and install the returned root only after a nil error; StorageCache.Update applies "
      "every dirty entry in every iteration (TryDelete only for an empty value, else TryUpdate) under the entry's own key, removes it, turns a failing trie call into a failing return and "
      "evaluates tr.Hash() only behind the loop exit; StorageCache.Save refuses while dirty is non-empty or the committed root differs; Account.updateTrie pairs each of the four caches "
      "with its own root field; hasher.store inserts the buffer it encoded under Keccak(Reset;Write;Sum) of that very buffer or the node's cached hash; TrieDatabase.Commit passes a "
      "heeded commit(node,batch) and a heeded batch.Commit() of the same batch before uncache(node), commit recurses (heeded) into every child before Put(hash, nodes[hash].Blob); each of "
      "the three MerkleRootSha methods fills leaves[i] from Hash() of element i in a loop that starts at 0, steps by 1, runs to len(list) without other exit, and returns "
      "merkle.New(leaves).Root(). NOT decided, and said so in the evidence: the root as a function of the key/value set (order, commit and eviction independence), proof soundness and the "
      "Merkle tree shape incl. the odd-tail rule — a mutant inside Trie.insert/delete, hasher.hash/hashChildren or merkle.calculateNodes is not detected; coverage of all fields by the "
      "element hashes is decided by C02.2/C04.1/C14.2, not here.",
      "go/types + go/ssa of x/tools v0.29.0, default build configuration; the node's cached hash (node.cache()) is trusted to be the hash of the node's encoding; Keccak and RLP are "
      "trusted; frozen pairing table (cache field -> root field) and method list in lint/internal/rules/c17.go")

claim("C04",
      "field coverage of the transaction identity + heeded-guard / must-call / control-scope rules over the replay guard, test-and-insert recognition, guarded Ecrecover consumers (SSA/CFG)",
      "Decides, for all paths at once, the structural necessary conditions of replay protection: Transaction.Hash is computed from every authenticated field of "
      "txdata and both signature lists, from neither GasUsed nor the JSON Hash field, and from everything each of the three signing hashes covers; the ancestor test "
      "ExistTxs(parent, block.Txs) is heeded on the acceptance path and the three TxTracer siblings (AddTrace/DelTrace/LoadTraces) all expand box sub transactions; "
      "every inserted, mined and (on start) reloaded block reaches TxGuard.SaveBlock, which traces every transaction; both expiry comparisons and the chain id comparison "
      "of VerifyTxBody reject, a box applies them to each sub transaction with the caller's clock and refuses nested boxes; verifyTxs tests-and-inserts the identity of "
      "every transaction and every box sub transaction into one set and a hit rejects; every recovered signature takes part in the decision or rejects (single signature "
      "rule, non-member and duplicate rejection); DelOldBlocks prunes at stableTime-MaxTxLifeTime and forgets only expired blocks; the miner hands the assembler exactly the "
      "pool list filtered through txGuard.ExistTx against the parent it builds on. The canonical (low s) signature clause is decided per Ecrecover consumer: every use of a recovered key is dominated by a heeded "
      "canonical-form test (resolved through callees down to ValidateSignatureValues and its s > n/2 comparison) of the very bytes recovered from. It does not decide the bucket arithmetic of TimeBuckets, the fork walk of BlockCache.SliceOnFork, staleness of the "
      "per-transaction hash cache, behaviour across fork switches, nor anything cryptographic.",
      "go/types + go/ssa of x/tools v0.29.0, default (cgo) build configuration only — the repository does not type-check with CGO_ENABLED=0 or the nocgo tag; anchors and "
      "constants resolved by object (params.BoxTx, params.MaxTxLifeTime by value); the frozen rule table in lint/internal/rules/c04.go; no recorded finding")

claim("C06",
      "guarded-action dominance in applyTx + closed caller sets + field coverage of the three signing hashes + decision-guard / path-cut / control-correlation rules over the signature check (SSA/CFG)",
      "Decides the structural necessary conditions of 'only authorised transactions change state': in applyTx every TxProcessor action and every call that is handed the gas "
      "pool runs only after a heeded VerifyTxBeforeApply(tx), which heeds verifyTransactionSigs; handleTx, the gas helpers and the nine per-type executors are called from "
      "applyTx/handleTx only and box sub transactions run through applyTx one by one; DefaultSigner.Hash covers every content field, ReimbursementTxSigner.Hash everything but gas "
      "price/limit, GasPayerSigner.Hash covers Sigs, gas price and gas limit, each GetSigners recovers over its own hash from its own list and recoverSigners turns every "
      "signature into an address or fails; every success path of checkSignersWeight runs over 'signer = sender' or 'sum of registered weights >= 100', the branch being chosen "
      "by the sender account's own signer list; every success path of verifyTransactionSigs runs over verified payer signatures or 'gasPayer = from', and the gas-less signing "
      "hash is selected under the very condition under which the payer signatures are verified; a multisig configuration is validated (count, weight range, duplicate address, "
      "total weight) before SetSingers, on another account only for an unset temp address of the sender; the weight loop counts every signer once (seen-set, D3 repaired). "
      "It does not decide cryptographic soundness, what executors do with the sender's authority, nor signature canonical form (reported under C04.5, D6).",
      "go/types + go/ssa of x/tools v0.29.0, default build configuration; the frozen rule table in lint/internal/rules/c06.go (verification family, executor list, permitted "
      "callers of SetSingers incl. the journal's redoSigner/undoSigner); constants SignerWeightThreshold / MaxSignersNumber matched by value")

# clauses added after the independent seeded changes (DESIGN §8); appended to the level text
EXTRA = {
 "C20": " Round 2: a confirm for an unknown block is cached on every path; nothing but the operator's file and listed parents puts a block on the blacklist. Round 3: every consumed timer tick re-arms the timer; the pool's existence test and insert share one hold of its mutex (C18.3 evaluated here); cached confirms are merged before every hand-over of a block to InsertBlock, helper or written-out form. Round 4: sends of package network on its own channels block (no select-with-default). Round 5: the confirm filters' error decides nothing unless the good list is empty; needConfirm measures against the later of last signature and stable block.",
 "C19": " Round 2: the confirm filter and the save of filtered confirms hold chainLock; the pending-write index rules are evaluated here as well. Round 3: saveNewBlock records a block in the replay guard before publishing it as the head; RPC account reads go through the canonical (stable, copied) account view only. Round 4: the loop-variable capture rule of C20.1 is evaluated here as well. Round 5: the re-entry rule counts a read lock inside a read lock; the last-signed record is compared and written under one hold. Round 6: a term record is written only by the function that allocated it (published records are read without the manager's lock).",
 "C17": " Round 2: Hash/Commit answer from hashRoot over the current root or from a memo every content write drops; the value slot of a branch node and a short node's value child are never passed to the recursive hash. Round 3: nothing is appended to a slice read from a node's key (the backing array is shared between trie versions). Round 4: MerkleTree.nodes is made in place or extends itself; the proof walker matches a short node's key against the front of the remaining key. Round 5: stores into a branch node's children go to a node copied or made in that function.",
 "C12": " Round 2: the equity trie root has a closed writer set and its raw setter is reached only from the EquityRootLog's redo/undo. Round 3: no in-place big.Int mutation on shared receivers; IsValuable compares old and new symmetrically. Round 4: the five asset setters push their change log before the raw write. Round 5: the copy-at-the-boundary clause C09.6 is evaluated here as well.",
 "C08": " Round 2: an accepted recovery scan returns the scan cursor, not the file size; RunContext.Flush reports success only after the file was replaced, or skips under a dirty flag that every writer of the candidate cache raises; every insert into the pending-write index counts the pending writes of its key. Round 3: the candidate cache cursor after a load comes from the input length; the replay-guard reload clause is evaluated here as well.",
 "C06": " Round 2: SetSingers installs a freshly built list; signing hashes read fields directly or through faithful accessors. Round 3: the C04 clauses (canonical signatures, identity) are evaluated here as well. Round 4: no possibly-successful return of VerifyTxBeforeApply around verifyTransactionSigs. Round 5: IsValuable's whole-value clause is evaluated here as well (a weights-only signer change must survive the merge).",
 "C05": " Round 2: the journal clauses of C07 and the sandbox clauses of C16 are evaluated under C05 as well. Round 3: fees go to the income address in the miner's current profile; no stale candidate-profile write-back. Round 4: the account copy handed to an execution owns what it writes in place (C09.6 clause).",
 "C04": " Round 2: the identity memo (Transaction.hash) is filled only by Hash from rlpHash of the receiver, reset on whole-struct copies, and its address goes nowhere else; every TxTracer.DelTrace argument derives from a TimeBuckets.Expire result, interprocedurally through helper parameters. Round 3: onStableChanged receives the block UpdateStable promoted. Round 4: recoverSigners recovers from an element of the signature list itself; the identity functions read no field of Transaction but data.",
 "C01": " Also: block gas is accounted identically by miner and validator (closed callers of the gas pool, filled once from header.GasLimit), and the change-journal clauses of C07 are evaluated here as well (independence from discarded candidates needs an exact revert). Round 2: nothing is carried from one block's execution to the next (package-level writes in the closure are table-listed; executor fields are constructor-only or unconditionally re-initialised before the first transaction; Reset(ParentHash) dominates every applyTx and return), and the map-order exemption of ChangeVotesByBalance has needMerge(VotesLog)=true as a partially evaluated premise. Round 3: node-local state of shared objects read inside the closure is table-listed (outside-state rule). Round 4: the provisional version map of an account is read by the version accessor only (C07.10). Round 5: the header the miner executes with is the header it seals (C13.2 clause).",
 "C02": " Also: after a restart the replay guard is refilled over the window measured from the stable block's time (not the wall clock). Round 2: Seal fills a copy of the header; the C04 clauses are evaluated under C02 as well. Round 3: the older-than-parent guard tests the raw time difference. Round 4: no chain-state mutator in the call-graph closure of VerifyAndSeal; recoverSigners recovers from the stored signature bytes. Round 5: the sign clause of VerifyTxBody (C05.7) is evaluated here as well.",
 "C03": " Also: every advance of the stable root prunes from the root that was stable immediately before that step. Round 2: snapshot votes, confirm counting and the two-thirds threshold draw on one deputy set. Round 3: GetUnConfirmByHeight answers from the unconfirmed map only; every confirm signature is recorded in lastSig before control leaves. Round 4: the confirm filter and the save of what it let through hold chainLock (C19.1 clause); every mergeConfirmsFromCache is followed by InsertBlock of the same block.",
 "C07": " Also: undo/redo write only through the accessor setters of their journalling sibling, and copy-in setters re-initialise their destination before copying. Round 2: a constructed change log is pushed on every path to the raw write; the snapshot precedes the first journalled write of its step. Round 3: the all-or-nothing clause C16.4 is evaluated here as well. Round 4: IsValuable compares whole values; the provisional version map is not observable (C07.10). Round 5: the storage cache keeps nil as nil; a self-destruct is journalled at most once per account. Round 6: StorageCache.SetState records every write in the dirty map on every path (redo writes without reading first).",
 "C09": " Also: a node made to carry an existing node's account keeps that node's dye. Round 2: the manager's mutable account never aliases a value cached in a view (Get returns copies or NewAccount copies); the pending-write index rules are evaluated here as well. Round 3: AccountData.Copy is deep for what is written in place; the BitCask.Put rules (cursor read after the flush) are evaluated here as well. Round 4: IsSameBlock answers by hash comparison only. Round 5: cloned views share no map or slice by reference.",
 "C10": " Also: the list ranked at start-up is built only from candidates whose stored isCandidate flag is true. Round 2: every list that becomes a published Top has the provenance of the total order (ranking result, published Top, order-preserving filter/prefix, empty), interprocedurally; no account Put of Save runs after the ranking; needMerge(VotesLog) by partial evaluation. Round 3: LoadTopCandidates reads accounts through Manager.GetAccount; what is put into the candidate cache is flushed or skipped only under a maintained dirty flag. Round 4: the copy-on-write clause of PatriciaTrie.put and Finalize's votes-pass ≺ merge ≺ finalise order are evaluated here as well. Round 5: the vote-writer and candidate-guard clauses C11.2/C11.3 are evaluated here as well. Round 6: in CandidateCache.Set every update of the position index is dominated by a write of the record head into the persisted buffer.",
 "C11": " Also: the balance a vote transaction weighs is read before the transaction's gas purchase. Round 2: outside the journal every SetVotes is relative to GetVotes of the same account or one of three listed absolute writes. Round 3: the copy-depth premise (own Votes and Profile per account copy) is evaluated here as well. Round 4: a profile update copies no transaction-supplied deposit amount or node id; vote arithmetic does not read the stable-block account view. Round 5: balance votes are computed as the difference of two quotients (formula shape).",
 "C13": " Also: miner and verifier read the deputy set of parent height + 1 for round length and rotation and consult the parent's miner only outside the height-1 / first-block-of-term case (input agreement, not arithmetic). Round 2: round length and rotation answer from one cut deputy list (C03.6 evaluated here). Slot arithmetic stays undecided (a seeded change of GetNextMineWindow's arithmetic is not caught). Round 3: miner and verifier use the same term-start predicates; no init-time snapshot of configurable parameters. Round 4: NewTermRecord refuses rank ≠ index; the miner's slot length is MineConfig.Timeout unmodified.",
 "C14": " Also: no fast path to success around the fetch the canonical test inspects; custom decoders fill no field from a sibling field. Round 2: custom decoders consume the value they decode (or their type is decoded only where nothing can follow); narrow-typed indices into fixed arrays are in range. Round 3: the hexutil/base26 encoders do not narrow an integer on the way from the receiver to the output. Round 4: hash and signing hashes are computed from data only (no second cache). Round 5: every access to the rlp type-info cache holds its mutex.",
 "C15": " Also (C15.8): every sub transaction of a decoded box is non-nil when GetBox succeeds and every reader gets its box from GetBox; results of network functions with a `return nil` path are nil-tested by every caller before use. Round 2: the crash-site inventory has a per-(package, kind) budget for sites that move inside their package. Round 2: integer divisions in the network closure are zero-tested or inventoried with the invariant that keeps the divisor from zero; the ordering premise (signer and height checks heeded before the miner-slot check) is an obligation. Round 3: decodes into interface{} are guarded by an empty-only size test. Round 4: a mutex field of the network layer that a function locks is released before every return and before its loop comes round. Round 5: a JSON transaction lacking a *big.Int field is refused; no make in package network is sized by a parameter or message field.",
 "C16": " Also (C16.7): SetCallCode's hash identifies the installed code (key of the jump-destination cache). Round 2: a stipend added to the nested frame's gas is paid by the value-transfer surcharge of the opcode's gas function. Round 3: the integer pool recycles only integers the frame owns. Round 4: the C07 journal clauses are evaluated here as well; no raw uint64 product of two run-time values in a pricing function. Round 5: Memory.Get/GetPtr slice only for operands with a length; every ReadContract request runs on a manager made for it.",
 "C18": " Also: DelTxs on a fork switch receives the unfiltered new-fork list. Round 2: index inserts happen under the same hold of the pool mutex as the existence test; every indexer expands boxes. Round 3: the slot-indexed fields of the pool are replaced together; delTx expands a box whatever its own index lookup says. Round 4: onCurrentChanged gets the head before and after the fork update at every site; sub transactions are looked at only for BoxTx. Round 5: the existence test reads the index only; the replay guard forgets old blocks only after the fork update and pool fix-up. Round 6: every store to the slot list appends, grows to the same length, or resets the index map too (slot numbers stay valid while indexed).",
}
for _pid, _t in EXTRA.items():
    if _pid in CLAIMED:
        CLAIMED[_pid]['text'] += _t
