#!/usr/bin/env python3
"""Regenerates the table of seeded changes in DESIGN.md (§8) from seeded/*/meta.json."""
import json, glob, os, re
V = os.path.dirname(os.path.dirname(os.path.abspath(__file__)))
rows = []
for m in sorted(glob.glob(os.path.join(V, 'seeded', '*', 'meta.json'))):
    d = json.load(open(m))
    sid = os.path.basename(os.path.dirname(m))
    prop = d['property']
    cb = d.get('caught_by', {})
    own = cb.get(prop, [])
    others = sorted(k for k in cb if k != prop)
    if own and d.get('first_verdict') == 'missed':
        verdict = 'first missed, caught after strengthening (%s): ' % d.get('strengthened', 'rule added') + ', '.join('`%s`' % k for k in own[:2])
    elif own:
        verdict = 'caught: ' + ', '.join('`%s`' % k for k in own[:3]) + (' …' if len(own) > 3 else '')
    else:
        verdict = '**missed** — ' + d.get('missed_reason', 'reason pending')
    if others:
        verdict += ' (also reported by ' + ', '.join(others) + ')'
    summ = d.get('summary', '').replace('|', '/').replace('\n', ' ')
    if len(summ) > 260:
        summ = summ[:257] + '…'
    needs = d.get('needs', d.get('needs_to_manifest', '')).replace('|', '/').replace('\n', ' ')
    if len(needs) > 200:
        needs = needs[:197] + '…'
    rows.append('| %s | %s | %s | %s |' % (sid, summ, needs, verdict))
tbl = '| id | change | needs to manifest | verdict of the checks |\n|----|--------|-------------------|-----------------------|\n' + '\n'.join(rows)
n = len(rows); c = sum(1 for r in rows if '| caught:' in r or 'caught after strengthening' in r)
tbl += '\n\n%d confirmed seeded changes, %d reported by the check of the property they break.' % (n, c)
p = os.path.join(V, 'DESIGN.md')
s = open(p).read()
s = re.sub(r'<!-- SEEDED-TABLE-BEGIN -->.*<!-- SEEDED-TABLE-END -->', '<!-- SEEDED-TABLE-BEGIN -->\n' + tbl.replace('\\', '\\\\') + '\n<!-- SEEDED-TABLE-END -->', s, flags=re.S)
open(p, 'w').write(s)
print(n, 'seeded changes,', c, 'caught')
