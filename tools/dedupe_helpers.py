#!/usr/bin/env python3
"""usage: dedupe_helpers.py <tag> file1.go file2.go ...  (run inside lint/internal/rules)
Renames top-level identifiers declared in the given files that are also declared in OTHER files of the directory, by appending <tag>, inside the given files only."""
import re, sys, glob
tag = sys.argv[1]; group = sys.argv[2:]
decl = re.compile(r'^(?:func (?:\([^)]*\) )?([A-Za-z_][A-Za-z0-9_]*)\(|(?:var|type|const) ([A-Za-z_][A-Za-z0-9_]*)\b)', re.M)
def names(f):
    s = open(f).read()
    out = set()
    for m in decl.finditer(s):
        # skip methods (receiver present) — they cannot collide at package level
        if m.group(0).startswith('func ('): continue
        out.add(m.group(1) or m.group(2))
    return out
mine = set()
for f in group: mine |= names(f)
others = set()
for f in glob.glob('*.go'):
    if f not in group: others |= names(f)
clash = sorted((mine & others) - {'init'})
print('renaming', clash)
for f in group:
    s = open(f).read()
    for n in clash:
        s = re.sub(r'(?<![A-Za-z0-9_.])' + re.escape(n) + r'(?![A-Za-z0-9_])', n + tag, s)
    open(f, 'w').write(s)
