#!/usr/bin/env python3
"""seed_annotate.py <seed-id> <first_verdict|-> <strengthened text|-> [missed_reason]"""
import json, sys, os
V = os.path.dirname(os.path.dirname(os.path.abspath(__file__)))
p = os.path.join(V, 'seeded', sys.argv[1], 'meta.json')
d = json.load(open(p))
if sys.argv[2] != '-': d['first_verdict'] = sys.argv[2]
if sys.argv[3] != '-': d['strengthened'] = sys.argv[3]
if len(sys.argv) > 4: d['missed_reason'] = sys.argv[4]
json.dump(d, open(p, 'w'), indent=1, ensure_ascii=False)
print(sys.argv[1], d.get('first_verdict'), d.get('strengthened'))
