#!/usr/bin/env python3
"""compare a `go test -json` output file with BASELINE.json stable_pass. usage: compare_baseline.py <gotest.json> [package-substring]"""
import json, sys
base = json.load(open('/root/.vp/BASELINE.json'))
stable = set(base['stable_pass'])
sub = sys.argv[2] if len(sys.argv) > 2 else ''
res = {}
for l in open(sys.argv[1]):
    try:
        e = json.loads(l)
    except Exception:
        continue
    if e.get('Test') and e.get('Action') in ('pass', 'fail', 'skip'):
        res[e['Package'] + '::' + e['Test']] = e['Action']
want = [t for t in stable if sub in t.split('::')[0]]
bad = [t for t in want if res.get(t) != 'pass']
print(len(want), 'stable tests in scope;', len(bad), 'not passing')
for t in sorted(bad):
    print('  ', t, res.get(t))
sys.exit(1 if bad else 0)
