#!/bin/sh
# usage: mkmut.sh <Cxx> <name> "<expected obligation substring>"  — saves the uncommitted diff of the scratch worktree /tmp/mutwork as a mutant and resets it
set -eu
W=/tmp/mutwork
mkdir -p /verif/mutations/$1
{ echo "# mutant for $1: $2"; echo "# expect: ${3:-}"; git -C $W diff; } > /verif/mutations/$1/$2.diff
git -C $W checkout -q -- .
echo saved /verif/mutations/$1/$2.diff
