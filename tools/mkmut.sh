#!/bin/sh
# usage: mkmut.sh <Cxx> <name> "<expected obligation substring>"
# saves the uncommitted diff of the scratch worktree ($MUTWORK, default /tmp/mutwork) as mutations/<Cxx>/<name>.diff and resets the worktree
set -eu
W="${MUTWORK:-/tmp/mutwork_main}"
V="$(cd "$(dirname "$0")/.." && pwd)"
mkdir -p "$V/mutations/$1"
{ echo "# mutant for $1: $2"; echo "# expect: ${3:-}"; git -C "$W" diff; } > "$V/mutations/$1/$2.diff"
git -C "$W" checkout -q -- .
echo "saved $V/mutations/$1/$2.diff"
