#!/usr/bin/env python3
"""seed_intake.py <Cxx> <variant> [--src /tmp/seed_out] : confirm a breaking change written by an independent sub-agent and file it under /verif/seeded/.

Steps (all in the scratch worktree /tmp/seedchk, never in /repo):
 1. pristine tree + demonstration  -> the demonstration must PASS
 2. patch applied + demonstration  -> must build and the demonstration must FAIL
 3. patch applied, demonstration removed -> the existing tests of the touched packages that are in BASELINE stable_pass must still pass
 4. every property's check is run against the patched tree (static analysis of the scratch tree); the violated obligation keys are recorded
The result is written to /verif/seeded/<Cxx>-<variant>/ (patch.diff, demonstration files, demo.txt, meta.json)."""
import json, os, re, shutil, subprocess, sys

V = os.path.dirname(os.path.dirname(os.path.abspath(__file__)))
ENV = dict(os.environ, GOFLAGS='-mod=mod', GOPROXY='off', GOSUMDB='off', GOTOOLCHAIN='local')
W = '/tmp/seedchk'

def sh(cmd, cwd=None, timeout=3000):
    p = subprocess.run(cmd, shell=True, cwd=cwd, env=ENV, stdout=subprocess.PIPE, stderr=subprocess.STDOUT, text=True, timeout=timeout)
    return p.returncode, p.stdout

def main():
    pid, var = sys.argv[1], sys.argv[2]
    src = '/tmp/seed_out'
    if '--src' in sys.argv:
        src = sys.argv[sys.argv.index('--src') + 1]
    d = os.path.join(src, pid, var)
    meta = json.load(open(os.path.join(d, 'meta.json')))
    demo_txt = open(os.path.join(d, 'demo.txt')).read()
    files = [f for f in os.listdir(d) if f not in ('patch.diff', 'meta.json', 'demo.txt')]
    # where do the demonstration files go?
    placement = {}
    for f in files:
        m = re.search(r'([A-Za-z0-9_./-]*/' + re.escape(f) + r')', demo_txt)
        if not m:
            print('cannot find the placement of', f, 'in demo.txt'); sys.exit(2)
        placement[f] = m.group(1).lstrip('./')
    m = re.search(r'^\s*(go (?:test|run) [^\n]+)$', demo_txt, re.M)
    if not m:
        print('no go test/run command in demo.txt'); sys.exit(2)
    cmd = m.group(1).strip()

    sh('git -C /repo worktree remove --force %s' % W)
    rc, out = sh('git -C /repo worktree add --detach %s HEAD' % W)
    if rc != 0:
        print(out); sys.exit(2)
    result = {'cmd': cmd, 'placement': placement}
    try:
        def place():
            for f, dst in placement.items():
                os.makedirs(os.path.dirname(os.path.join(W, dst)), exist_ok=True)
                shutil.copy(os.path.join(d, f), os.path.join(W, dst))
        def unplace():
            for dst in placement.values():
                os.remove(os.path.join(W, dst))
        # 1. pristine
        place()
        rc, out = sh(cmd, cwd=W)
        result['pristine_demo_passes'] = (rc == 0)
        result['pristine_tail'] = out[-600:]
        unplace()
        # 2. patched
        rc, out = sh('git apply %s' % os.path.join(d, 'patch.diff'), cwd=W)
        if rc != 0:
            print('patch does not apply:', out); result['applies'] = False
        else:
            result['applies'] = True
            rc, out = sh('go build ./...', cwd=W)
            result['builds'] = (rc == 0)
            place()
            rc, out = sh(cmd, cwd=W)
            result['patched_demo_fails'] = (rc != 0)
            result['patched_tail'] = out[-900:]
            unplace()
            # 3. existing tests of touched packages
            rc, out = sh('git diff --name-only', cwd=W)
            pkgs = sorted(set('./' + os.path.dirname(f) + '/' for f in out.split() if f.endswith('.go')))
            base = json.load(open('/root/.vp/BASELINE.json'))
            stable = set(base['stable_pass'])
            bad = []
            nstable = 0
            for pk in pkgs:
                tmo = '4m' if 'network/p2p' in pk else '20m'   # network/p2p has tests that hang on the pristine tree too (racy listener set-up)
                rc, tout = sh('go test -json -vet=off -count=1 -timeout %s %s' % (tmo, pk), cwd=W)
                res = {}
                for l in tout.splitlines():
                    try:
                        e = json.loads(l)
                    except Exception:
                        continue
                    if e.get('Test') and e.get('Action') in ('pass', 'fail', 'skip'):
                        res[e['Package'] + '::' + e['Test']] = e['Action']
                full = 'github.com/LemoFoundationLtd/lemochain-core/' + pk.strip('./')
                want = [t for t in stable if t.split('::')[0] == full]
                nstable += len(want)
                bad += [t for t in want if res.get(t) != 'pass']
            if bad:
                # flaky tests: run the failing ones once more
                still = []
                for t in bad:
                    pkg, name = t.split('::')
                    rel = './' + pkg.replace('github.com/LemoFoundationLtd/lemochain-core/', '') + '/'
                    ok_once = False
                    for _ in range(2):
                        rc, _ = sh("go test -vet=off -count=1 -timeout 90s -run '^%s$' %s" % (name.split('/')[0], rel), cwd=W)
                        if rc == 0:
                            ok_once = True
                            break
                    if not ok_once:
                        still.append(t)
                bad = still
            result['packages_tested'] = pkgs
            result['stable_tests_in_packages'] = nstable
            result['stable_tests_failing_with_patch'] = bad
            # 4. our checks
            caught = {}
            props = sorted(json.loads(l)['id'] for l in open(os.path.join(V, 'properties.jsonl')))
            for p in props:
                rc, cout = sh('%s/bin/lemolint check %s --repo %s --verif %s --no-evidence' % (V, p, W, V))
                keys = re.findall(r'^(?:VIOLATED|UNDECIDED) (.+?): [a-z-]+ — ', cout, re.M)
                if rc == 1 and keys:
                    caught[p] = keys
                elif rc not in (0, 1) and 'no rules for' not in cout:
                    caught[p] = ['<checker error rc=%d>' % rc]
            result['violations_by_property'] = caught
    finally:
        sh('git -C /repo worktree remove --force %s' % W)
    ok = result.get('pristine_demo_passes') and result.get('applies') and result.get('builds') and result.get('patched_demo_fails') and not result.get('stable_tests_failing_with_patch')
    meta['confirmed'] = bool(ok)
    meta['confirmation'] = result
    meta['caught'] = pid in result.get('violations_by_property', {})
    meta['caught_by'] = result.get('violations_by_property', {})
    meta['needs_to_manifest'] = meta.get('needs', '')
    out_dir = os.path.join(V, 'seeded', '%s-%s' % (pid, var))
    prev = os.path.join(out_dir, 'meta.json')
    if os.path.exists(prev):
        pm = json.load(open(prev))
        meta['first_verdict'] = pm.get('first_verdict', 'caught' if pm.get('caught') else 'missed')
        for k in ('strengthened', 'missed_reason'):
            if k in pm:
                meta[k] = pm[k]
    else:
        meta['first_verdict'] = 'caught' if meta['caught'] else 'missed'
    if ok:
        os.makedirs(out_dir, exist_ok=True)
        shutil.copy(os.path.join(d, 'patch.diff'), out_dir)
        shutil.copy(os.path.join(d, 'demo.txt'), out_dir)
        for f in files:
            shutil.copy(os.path.join(d, f), out_dir)
        json.dump(meta, open(os.path.join(out_dir, 'meta.json'), 'w'), indent=1, ensure_ascii=False)
    print(json.dumps({k: result.get(k) for k in ('pristine_demo_passes', 'applies', 'builds', 'patched_demo_fails', 'stable_tests_failing_with_patch', 'violations_by_property')}, indent=1))
    print('CONFIRMED' if ok else 'NOT-CONFIRMED', 'CAUGHT' if meta['caught'] else 'MISSED', pid, var)

if __name__ == '__main__':
    main()
