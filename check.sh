#!/bin/sh
# usage: check.sh <Cxx> [quick|thorough]
# Builds the checker from /verif/lint when needed and analyses /repo's current working tree (nothing is executed from /repo).
set -u
cd "$(dirname "$0")" || exit 2
export GOFLAGS=-mod=mod GOPROXY=off GOSUMDB=off GOTOOLCHAIN=local CGO_ENABLED=1
unset GOWORK
PROP="$1"
TIER="${2:-${VERIF_TIER:-quick}}"
REPO="${VERIF_REPO:-/repo}"
if [ ! -x bin/lemolint ] || [ -n "$(find lint -name '*.go' -newer bin/lemolint 2>/dev/null | head -1)" ]; then
  (cd lint && go build -o ../bin/lemolint ./cmd/lemolint) || { echo "cannot build the checker"; exit 2; }
fi
./bin/lemolint check "$PROP" --repo "$REPO" --verif "$(pwd)" --tier "$TIER"
st=$?
if [ "$TIER" = thorough ] && [ $st -eq 0 ]; then
  ./tools/thorough.sh "$PROP" || st=$?
fi
exit $st
