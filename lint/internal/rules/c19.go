package rules

import (
	"fmt"
	"go/token"
	"go/types"
	"strings"

	"golang.org/x/tools/go/ssa"

	"verif/lint/internal/core"
)

func init() { register("C19", c19) }

// fieldOfStructVar returns field `name` of a (possibly anonymous) struct-typed variable.
func fieldOfStructVar(v *types.Var, name string) *types.Var {
	st, ok := v.Type().Underlying().(*types.Struct)
	if !ok {
		return nil
	}
	for i := 0; i < st.NumFields(); i++ {
		if st.Field(i).Name() == name {
			return st.Field(i)
		}
	}
	return nil
}

// lockedAccesses checks every non-fresh access to field fv.
func lockedAccesses(c *core.Ctx, la *core.LockAnalysis, label string, fv *types.Var, lockKey string) int {
	fns := map[string]bool{}
	for _, acc := range c.FieldAccesses(fv, func(fn *ssa.Function) bool { return isTestHelper(c, fn) }) {
		if acc.Fresh {
			continue
		}
		mode := core.ReadHeld
		if acc.Write {
			mode = core.WriteHeld
		}
		name := shortFn(acc.Instr.Parent())
		fns[name] = true
		ok, why := la.Held(acc.Instr, lockKey, mode)
		kind := "read"
		if acc.Write {
			kind = "write"
		}
		c.Check("lock/"+label+"@"+name, "lockset", ok, acc.Instr.Pos(), "%s of %s in %s must hold %s: %s", kind, label, name, lockKey, orOK(why))
	}
	return len(fns)
}

func c19(c *core.Ctx) {
	const cons = "chain/consensus"
	la := lockAnalysis(c)
	scope := map[string]bool{cons: true, "chain": true, "chain/miner": true, "store": true, "chain/deputynode": true, "chain/txpool": true, "chain/account": true}
	var scopeFns []*ssa.Function
	for _, fn := range c.SrcFuncs {
		if scope[core.RelPkg(fn)] && !isTestHelper(c, fn) {
			scopeFns = append(scopeFns, fn)
		}
	}

	c.Clause("C19.1", "engine mutations (saveNewBlock, SaveConfirm, UpdateStable, UpdateFork*) and the filter that decides which received confirms are new (VerifyConfirmPacket: it reads the confirms the block holds now) run only with DPoVP.chainLock held, on every path from every caller")
	c.Run("chainLock", func() {
		key := "consensus.DPoVP.chainLock"
		n := 0
		for _, m := range []*types.Func{c.Method(cons+".DPoVP", "saveNewBlock"), c.Method(cons+".Validator", "VerifyConfirmPacket"), c.Method(cons+".Confirmer", "SaveConfirm"), c.Method(cons+".DPoVP", "UpdateStable"),
			c.Method(cons+".StableManager", "UpdateStable"), c.Method(cons+".ForkManager", "UpdateFork"), c.Method(cons+".ForkManager", "UpdateForkForConfirm"), c.Method(cons+".ForkManager", "SetHeadBlock")} {
			_, sites := callersOf(c, m)
			for _, s := range sites {
				if core.RelPkg(s.Caller) != cons {
					continue
				}
				// constructors initialise the head before the engine is shared
				if strings.HasPrefix(core.Outer(s.Caller).Name(), "New") {
					continue
				}
				// the node's own confirm of a block (a signature it just made itself) is saved by the store under the store's lock and
				// de-duplicated by bytes there; only confirms that went through the distinct-signer filter need the filter's hold
				if m.Name() == "SaveConfirm" {
					a := s.Instr.Common().Args
					if len(a) == 3 && core.SliceHasCall(core.Slice(a[2]), c.Method(cons+".Confirmer", "confirmBlock")) {
						continue
					}
				}
				n++
				ok, why := la.Held(s.Instr, key, core.WriteHeld)
				c.Check("lock/"+objName(m)+"@"+shortFn(s.Caller), "lockset", ok, s.Instr.Pos(), "call of %s in %s must hold %s: %s", objName(m), shortFn(s.Caller), key, orOK(why))
			}
		}
		c.Floor("chainLock/guarded-call-sites", n, 8)
		for _, e := range []string{"MineBlock", "InsertBlock", "InsertConfirms"} {
			fn := c.Fn(cons + ".DPoVP." + e)
			acq := la.Acquires(fn)
			c.Check("acquires/"+e, "lock-acquired", acq[key] == core.WriteHeld, fn.Pos(), "%s takes chainLock for writing", e)
		}
	})

	c.Clause("C19.2", "shared items are accessed only under their lock: signature cache, last-confirm record, the unconfirmed tree and stable root, the WAL index, term list, evil-deputy map; the fork head is atomic")
	c.Run("items", func() {
		sc := c.Global(cons + ".sigCache")
		n := 0
		for _, f := range []string{"Hash", "Sig"} {
			fv := fieldOfStructVar(sc, f)
			if fv == nil {
				c.Undecided("anchor/sigCache."+f, "anchor-resolves", token.NoPos, "sigCache has no field %s", f)
				continue
			}
			n += lockedAccesses(c, la, "sigCache."+f, fv, "consensus.sigCache.Mutex")
		}
		c.Floor("sigCache/functions", n, 2)
		n = lockedAccesses(c, la, "Confirmer.lastSig", c.FieldVar(cons+".Confirmer", "lastSig"), "consensus.Confirmer.lastSigLock")
		c.Floor("lastSig/functions", n, 2)
		n = lockedAccesses(c, la, "ChainDatabase.UnConfirmBlocks", c.FieldVar("store.ChainDatabase", "UnConfirmBlocks"), "store.ChainDatabase.RW")
		n += lockedAccesses(c, la, "ChainDatabase.LastConfirm", c.FieldVar("store.ChainDatabase", "LastConfirm"), "store.ChainDatabase.RW")
		c.Floor("ChainDatabase/functions", n, 20)
		n = lockedAccesses(c, la, "FileQueue.Index", c.FieldVar("store.FileQueue", "Index"), "store.FileQueue.IndexRW")
		c.Floor("FileQueue.Index/functions", n, 3)
		n = lockedAccesses(c, la, "Manager.termList", c.FieldVar("chain/deputynode.Manager", "termList"), "deputynode.Manager.lock")
		c.Floor("termList/functions", n, 2)
		n = lockedAccesses(c, la, "Manager.evilDeputies", c.FieldVar("chain/deputynode.Manager", "evilDeputies"), "deputynode.Manager.edLock")
		c.Floor("evilDeputies/functions", n, 2)

		// read-modify-write of a stored block (appending confirms to a stable block) is atomic only under ChainDatabase.RW
		sb := c.Method("store.ChainDatabase", "setBlock2DB")
		_, sbSites := callersOf(c, sb)
		for _, site := range sbSites {
			ok, why := la.Held(site.Instr, "store.ChainDatabase.RW", core.WriteHeld)
			c.Check("lock/setBlock2DB@"+shortFn(site.Caller), "lockset", ok, site.Instr.Pos(), "%s rewrites a stored block (load, append confirms, write back): it must hold ChainDatabase.RW for writing, or two savers lose each other's confirm: %s", shortFn(site.Caller), orOK(why))
		}
		c.Floor("setBlock2DB/call-sites", len(sbSites), 1)

		// FileQueue.Offset has no lock of its own: all accesses after construction/start-up must share one common lock
		off := c.FieldVar("store.FileQueue", "Offset")
		universe := la.Universe(scopeFns)
		var common map[string]bool
		cnt := 0
		witness := ""
		startUp := map[*ssa.Function]bool{c.Fn("store.FileQueue.Start"): true, c.Fn("store.NewFileQueue"): true}
		for _, acc := range c.FieldAccesses(off, func(fn *ssa.Function) bool { return isTestHelper(c, fn) }) {
			if acc.Fresh || la.ReachedOnlyFrom(acc.Instr.Parent(), startUp) {
				continue // construction and the single-threaded recovery scan
			}
			cnt++
			hs := la.HeldSet(acc.Instr, universe)
			if common == nil {
				common = hs
			} else {
				for k := range common {
					if !hs[k] {
						delete(common, k)
					}
				}
			}
			if len(hs) == 0 && witness == "" {
				witness = shortFn(acc.Instr.Parent())
			}
		}
		c.Floor("FileQueue.Offset/accesses", cnt, 6)
		c.Check("common-lock/FileQueue.Offset", "lockset", len(common) > 0, token.NoPos, "all %d accesses to FileQueue.Offset must share a lock; common set = %v (e.g. %s holds none)", cnt, core.SortedKeys(common), witness)

		// ForkManager.head: atomic.Value, touched only through Load/Store
		head := c.FieldVar(cons+".ForkManager", "head")
		okT := head.Type().String() == "sync/atomic.Value"
		okUse := true
		uses := 0
		for _, acc := range c.FieldAccesses(head, nil) {
			fa, isFA := acc.Instr.(*ssa.FieldAddr)
			if !isFA || fa.Referrers() == nil {
				okUse = false
				continue
			}
			for _, r := range *fa.Referrers() {
				if _, dbg := r.(*ssa.DebugRef); dbg {
					continue
				}
				ci, isCall := r.(ssa.CallInstruction)
				if !isCall || ci.Common().StaticCallee() == nil || ci.Common().StaticCallee().Pkg == nil || ci.Common().StaticCallee().Pkg.Pkg.Path() != "sync/atomic" {
					okUse = false
				} else {
					uses++
				}
			}
		}
		c.Check("atomic/ForkManager.head", "atomic-only", okT && okUse && uses >= 2, token.NoPos, "ForkManager.head is an atomic.Value used only through its methods (%d uses)", uses)
	})

	c.Clause("C19.5", "publish after record, and no outsider on the engine's working state: saveNewBlock records the block in the replay guard before the fork manager can publish it as the head (lock-free readers take the head and ask the guard about it at once); and the RPC layer (package main/node) reaches the engine's account manager — a plain map cache and live account objects, written under chainLock only — through GetCanonicalAccount alone, which reads the store")
	c.Run("publish-after-record", func() {
		snb := c.Fn(cons + ".DPoVP.saveNewBlock")
		sv := core.CallsIn(snb, c.Method("chain/txpool.TxGuard", "SaveBlock"))
		uf := core.CallsIn(snb, c.Method(cons+".ForkManager", "UpdateFork"))
		ok := len(sv) >= 1 && len(uf) >= 1
		for _, u := range uf {
			dom := false
			for _, s := range sv {
				if core.Dominates(s, u) {
					dom = true
				}
			}
			if !dom {
				ok = false
			}
		}
		c.Check("saveNewBlock:TxGuard.SaveBlock≺ForkManager.UpdateFork", "order", ok, snb.Pos(), "the block is in the replay guard before it can become the published head (%d SaveBlock / %d UpdateFork calls)", len(sv), len(uf))
		// RPC: only the store-reading accessor of the engine's account manager
		mgr := c.Named("chain/account.Manager")
		n := 0
		seq := map[string]int{}
		for _, fn := range c.SrcFuncs {
			if core.RelPkg(fn) != "main/node" || isTestHelper(c, fn) {
				continue
			}
			for _, ci := range core.AllCalls(fn) {
				o := core.CalleeObj(ci)
				if o == nil {
					continue
				}
				rn := recvNamed(o)
				if rn == nil || !types.Identical(rn.Type(), mgr) {
					continue
				}
				n++
				name := shortFn(fn)
				seq[name+o.Name()]++
				c.Check("rpc→Manager."+o.Name()+"@"+name+seqSuffix(seq[name+o.Name()]), "who-may-call", o.Name() == "GetCanonicalAccount" || (o.Name() == "Stop" && name == "(*node.Node).Stop"), ci.Pos(), "%s calls account.Manager.%s on the engine's manager; the RPC layer may only use GetCanonicalAccount (a store read) — everything else touches the unlocked cache the chain thread is writing", name, o.Name())
			}
		}
		c.Floor("rpc/manager-calls", n, 3)
	})

	c.Clause("C19.4", "the hand-over between the chain thread and the asynchronous store writer keeps what is pending: an entry of FileQueue.Index counts the acknowledged, not yet persisted writes of its key and leaves only with the last of them, so a reader on any thread gets the latest committed value while the writer is behind (the pending-index rules of C08.4, evaluated here as well)")
	c.Run("pending-index", func() { c08PendingIndex(c) })

	c.Clause("C19.3", "no mutex is re-acquired while held and the lock order is acyclic across the engine, the store and the pool")
	c.Run("order", func() {
		r := noReentry(c, la, scope)
		c.Check("reentry/scan", "lock-reentry", r > 100, token.NoPos, "%d functions scanned for re-acquisition of a held mutex", r)
		edges := la.OrderEdges(scopeFns)
		cyc := core.OrderCycle(edges)
		var es []string
		for _, e := range edges {
			es = append(es, e.From+"≺"+e.To)
		}
		c.Note("lock-order edges: %s", strings.Join(es, ", "))
		c.Check("lock-order/acyclic", "lock-order", cyc == nil, token.NoPos, "lock acquisition order must be acyclic (%d edges); cycle: %v", len(edges), cyc)
		c.Floor("lock-order/edges", len(edges), 3)
	})

	// concurrent roots, for the record
	c.Run("roots", func() {
		n := 0
		var names []string
		for _, fn := range scopeFns {
			for _, b := range fn.Blocks {
				for _, in := range b.Instrs {
					if g, ok := in.(*ssa.Go); ok {
						n++
						tgt := "closure"
						if sc := g.Call.StaticCallee(); sc != nil {
							tgt = shortFn(sc)
						}
						names = append(names, shortFn(fn)+"→go "+tgt)
					}
				}
			}
		}
		c.Note("%d go statements in scope: %s", n, strings.Join(names, "; "))
	})

	c.Clause("C19.6", "a goroutine the engine starts in a loop works on its own iteration's value: the loop-variable capture rule of C20.1 (package chain/consensus included) is evaluated here as well — goroutines that share the range variable read it while the loop writes it")
	c.Run("loop-closures", func() { c20LoopClosures(c) })

	c.Clause("C19.7", "no lock is taken twice and a record that only moves forward is compared and written under one hold: the re-entry rule of C15.4 (now including a read lock taken inside a read lock of the same mutex — a writer waiting in between blocks the inner one for good) is evaluated here over the engine's packages; every store into Confirmer.lastSig follows a read of it with no unlock in between")
	c.Run("reentry", func() {
		n := noReentry(c, la, map[string]bool{cons: true, "chain": true, "chain/miner": true, "store": true, "chain/deputynode": true, "chain/txpool": true, "chain/account": true})
		c.Floor("reentry/functions-scanned", n, 300)
	})
	c.Run("lastSig-check-then-act", func() { c19LastSigCheckThenAct(c) })

	c.Clause("C19.8", "a published term record is never written: the term list hands out *TermRecord pointers which readers (deputy queries of the confirm, fetch and RPC threads) use after they have released the manager's lock, so a record is filled only while it is still private to the function that allocated it; replacing a term means publishing a new record under the lock")
	c.Run("term-records-immutable", func() { c19TermRecordsImmutable(c) })

	c.NotDecidedf("linearizability of concurrent requests; validity of emitted signatures as values; races inside goleveldb / metrics; accesses the must-lockset approximation cannot attribute are reported, not assumed safe; lock identity is per type, not per instance")
}

// c19TermRecordsImmutable: C19.8. Every store to a field of deputynode.TermRecord, and every element store into its node list, is on a record allocated in the same function.
func c19TermRecordsImmutable(c *core.Ctx) {
	const dn = "chain/deputynode"
	st := c.Struct(dn + ".TermRecord")
	isField := map[*types.Var]bool{}
	for i := 0; i < st.NumFields(); i++ {
		isField[st.Field(i)] = true
	}
	var private func(v ssa.Value, depth int) bool
	private = func(v ssa.Value, depth int) bool {
		if depth > 4 {
			return false
		}
		switch x := v.(type) {
		case *ssa.Alloc:
			return true
		case *ssa.FieldAddr:
			return private(x.X, depth+1)
		case *ssa.UnOp:
			if al, ok := x.X.(*ssa.Alloc); ok && x.Op == token.MUL && al.Referrers() != nil {
				n := 0
				for _, r := range *al.Referrers() {
					if s, ok := r.(*ssa.Store); ok && s.Addr == al {
						if !private(s.Val, depth+1) {
							return false
						}
						n++
					}
				}
				return n > 0
			}
		}
		return false
	}
	n := 0
	for _, fn := range c.SrcFuncs {
		if isTestHelper(c, fn) {
			continue
		}
		k := 0
		for _, b := range fn.Blocks {
			for _, in := range b.Instrs {
				s, ok := in.(*ssa.Store)
				if !ok {
					continue
				}
				var base ssa.Value
				var what string
				if fa, ok := s.Addr.(*ssa.FieldAddr); ok && isField[core.FieldOf(fa)] {
					base, what = fa.X, "field "+core.FieldOf(fa).Name()
				} else if ia, ok := s.Addr.(*ssa.IndexAddr); ok {
					if ld, ok := ia.X.(*ssa.UnOp); ok && ld.Op == token.MUL {
						if fa, ok := ld.X.(*ssa.FieldAddr); ok && isField[core.FieldOf(fa)] {
							base, what = fa.X, "an element of "+core.FieldOf(fa).Name()
						}
					}
				}
				if base == nil {
					continue
				}
				n++
				if len(fn.Params) > 0 && base == ssa.Value(fn.Params[0]) && (fn.Name() == "UnmarshalJSON" || fn.Name() == "DecodeRLP") {
					// a decoder fills the record it is handed; whose record that is, is the caller's obligation
					ok := true
					for _, g := range c.SrcFuncs {
						if isTestHelper(c, g) {
							continue
						}
						for _, gb := range g.Blocks {
							for _, gi := range gb.Instrs {
								if call, isCall := gi.(ssa.CallInstruction); isCall && call.Common().StaticCallee() == fn && len(call.Common().Args) > 0 && !private(call.Common().Args[0], 0) {
									ok = false
								}
							}
						}
					}
					c.Check(fmt.Sprintf("term-record-write@%s#%d", shortFn(fn), k), "ownership", ok, s.Pos(), "%s decodes into its receiver; every static caller outside the tests must hand it a record it has just allocated", shortFn(fn))
					k++
					continue
				}
				c.Check(fmt.Sprintf("term-record-write@%s#%d", shortFn(fn), k), "ownership", private(base, 0), s.Pos(), "%s writes %s of a TermRecord; readers use published records without the manager's lock, so only a record allocated in this function may be written", shortFn(fn), what)
				k++
			}
		}
	}
	c.Floor("term-record-writes", n, 2)
}
