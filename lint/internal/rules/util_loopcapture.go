package rules

import (
	"go/ast"
	"go/token"
	"go/types"
	"go/version"
	"os"
	"path/filepath"
	"strings"

	"verif/lint/internal/core"
)

// moduleGoVersion returns the language version ("go1.14") the repository is compiled as: the version the type checker was
// configured with (go/packages takes it from the module's go directive); the go.mod file is read as a fall-back and as a
// cross-check.
func moduleGoVersion(c *core.Ctx) (fromTypes, fromGoMod string) {
	for _, pk := range c.Pkgs {
		if v := pk.Types.GoVersion(); v != "" {
			fromTypes = v
			break
		}
	}
	if b, err := os.ReadFile(filepath.Join(c.Dir, "go.mod")); err == nil {
		for _, line := range strings.Split(string(b), "\n") {
			f := strings.Fields(line)
			if len(f) >= 2 && f[0] == "go" {
				fromGoMod = "go" + f[1]
				break
			}
		}
	}
	return
}

// sharedLoopVar: under this language version a variable declared by a for/range statement is one variable for the whole loop.
func sharedLoopVar(v string) bool {
	return v != "" && version.IsValid(v) && version.Compare(version.Lang(v), "go1.22") < 0
}

// loopClosure is one `go`/`defer` statement inside a loop whose operand contains a function literal.
type loopClosure struct {
	Func     *types.Func // enclosing declared function
	Stmt     ast.Stmt
	Captured []*types.Var // loop variables (declared by an enclosing for/range statement) the literal refers to
	Shared   bool         // the file's language version shares the variable between iterations
}

// loopClosures scans the package for go/defer closures inside loops and reports which of them refer to a variable declared by an
// enclosing loop statement of the same function.
func loopClosures(c *core.Ctx, rel string) []loopClosure {
	pk := c.ByPath[rel]
	if pk == nil {
		return nil
	}
	info := pk.TypesInfo
	pkgVer := pk.Types.GoVersion()
	if pkgVer == "" {
		_, pkgVer = moduleGoVersion(c)
	}
	var out []loopClosure
	for _, file := range pk.Syntax {
		ver := pkgVer
		if fv := info.FileVersions[file]; fv != "" {
			ver = fv
		}
		shared := sharedLoopVar(ver)
		for _, d := range file.Decls {
			fd, ok := d.(*ast.FuncDecl)
			if !ok || fd.Body == nil {
				continue
			}
			fobj, _ := info.Defs[fd.Name].(*types.Func)
			// loopVars: variables declared by the loop statements currently open
			var walk func(n ast.Node, loopVars []*types.Var, inLoop bool)
			declared := func(exprs ...ast.Expr) []*types.Var {
				var vs []*types.Var
				for _, e := range exprs {
					if id, ok := e.(*ast.Ident); ok && id.Name != "_" {
						if v, ok := info.Defs[id].(*types.Var); ok {
							vs = append(vs, v)
						}
					}
				}
				return vs
			}
			walk = func(n ast.Node, loopVars []*types.Var, inLoop bool) {
				ast.Inspect(n, func(m ast.Node) bool {
					if m == nil || m == n {
						return true
					}
					switch x := m.(type) {
					case *ast.RangeStmt:
						vs := loopVars
						if x.Tok == token.DEFINE {
							vs = append(append([]*types.Var{}, loopVars...), declared(x.Key, x.Value)...)
						}
						walk(x.X, loopVars, inLoop)
						walk(x.Body, vs, true)
						return false
					case *ast.ForStmt:
						vs := loopVars
						if as, ok := x.Init.(*ast.AssignStmt); ok && as.Tok == token.DEFINE {
							vs = append(append([]*types.Var{}, loopVars...), declared(as.Lhs...)...)
						}
						if x.Init != nil {
							walk(x.Init, loopVars, inLoop)
						}
						if x.Cond != nil {
							walk(x.Cond, vs, inLoop)
						}
						if x.Post != nil {
							walk(x.Post, vs, inLoop)
						}
						walk(x.Body, vs, true)
						return false
					case *ast.GoStmt, *ast.DeferStmt:
						if !inLoop {
							return true
						}
						var call *ast.CallExpr
						if g, ok := x.(*ast.GoStmt); ok {
							call = g.Call
						} else {
							call = x.(*ast.DeferStmt).Call
						}
						hasLit := false
						seen := map[*types.Var]bool{}
						var caps []*types.Var
						ast.Inspect(call, func(k ast.Node) bool {
							lit, ok := k.(*ast.FuncLit)
							if !ok {
								return true
							}
							hasLit = true
							ast.Inspect(lit.Body, func(u ast.Node) bool {
								if id, ok := u.(*ast.Ident); ok {
									if v, ok := info.Uses[id].(*types.Var); ok && !seen[v] {
										for _, lv := range loopVars {
											if lv == v {
												seen[v] = true
												caps = append(caps, v)
											}
										}
									}
								}
								return true
							})
							return false
						})
						if hasLit {
							out = append(out, loopClosure{Func: fobj, Stmt: x.(ast.Stmt), Captured: caps, Shared: shared})
						}
						return true
					}
					return true
				})
			}
			walk(fd.Body, nil, false)
		}
	}
	return out
}
