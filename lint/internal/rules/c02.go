package rules

import (
	"go/token"
	"go/types"
	"sort"

	"golang.org/x/tools/go/ssa"

	"verif/lint/internal/core"
)

func init() { register("C02", c02) }

// accessor: the getter returns the named field (so that "the condition reads Block.Height()" means "reads Header.Height").
func accessor(c *core.Ctx, fnSpec string, field *types.Var) {
	fn := c.Fn(fnSpec)
	ok := false
	for _, r := range core.Returns(fn) {
		if len(r.Results) > 0 && core.SliceHasField(core.Slice(r.Results[0]), field) {
			ok = true
		}
	}
	c.CheckTrivial("accessor/"+shortFn(fn), "accessor-returns-field", ok, fn.Pos(), "%s must return field %s", shortFn(fn), field.Name())
}

func c02(c *core.Ctx) {
	const cons = "chain/consensus"
	blk := func(m string) *types.Func { return c.Method("chain/types.Block", m) }

	c.Clause("C02.1", "every acceptance check dominates the save and its rejecting outcome cannot reach a successful exit, recursively from InsertBlock down to the comparison on the stated header/body quantity")
	c.Run("chain", func() {
		insert := c.Fn(cons + ".DPoVP.InsertBlock")
		vas := c.Method(cons+".DPoVP", "VerifyAndSeal")
		save := c.Method(cons+".DPoVP", "saveNewBlock")
		heeded(c, insert, vas, core.ErrNonNil, 1, nil)
		heededBefore(c, insert, vas, core.ErrNonNil, "saveNewBlock", instrs(core.CallsIn(insert, save)))

		vasFn := c.Fn(cons + ".DPoVP.VerifyAndSeal")
		heeded(c, vasFn, c.Method(cons+".Validator", "VerifyBeforeTxProcess"), core.ErrNonNil, 1, nil)
		heeded(c, vasFn, c.Method(cons+".BlockAssembler", "RunBlock"), core.ErrNonNil, 1, nil)
		heeded(c, vasFn, c.Method(cons+".Validator", "VerifyAfterTxProcess"), core.ErrNonNil, 1, nil)

		before := c.Fn(cons + ".Validator.VerifyBeforeTxProcess")
		n := 0
		for _, h := range []string{"verifyParentHash", "verifySigner", "verifyTxRoot", "verifyHeight", "verifyTime", "verifyExtraData", "verifyTxs", "verifyMiner"} {
			n += len(heeded(c, before, c.FuncObj(cons+"."+h), core.ErrNonNil, 1, nil))
		}
		after := c.Fn(cons + ".Validator.VerifyAfterTxProcess")
		for _, h := range []string{"verifyDeputy", "verifyChangeLog"} {
			n += len(heeded(c, after, c.FuncObj(cons+"."+h), core.ErrNonNil, 1, nil))
		}
		c.Floor("helpers-heeded", n, 10)

		run := c.Fn(cons + ".BlockAssembler.RunBlock")
		heeded(c, run, c.Method("chain/transaction.TxProcessor", "Process"), core.ErrNonNil, 1, nil)
		heeded(c, run, c.Method(cons+".BlockAssembler", "Finalize"), core.ErrNonNil, 1, nil)
	})

	c.Run("quantities", func() {
		hdr := func(f string) *types.Var { return c.FieldVar("chain/types.Header", f) }
		for _, a := range [][2]string{{"Height", "Height"}, {"ParentHash", "ParentHash"}, {"MinerAddress", "MinerAddress"}, {"TxRoot", "TxRoot"},
			{"LogRoot", "LogRoot"}, {"DeputyRoot", "DeputyRoot"}, {"Time", "Time"}, {"Extra", "Extra"}} {
			accessor(c, "chain/types.Block."+a[0], hdr(a[1]))
		}
		q := 0
		cnt := func(ok bool) {
			if ok {
				q++
			}
		}
		// parent known
		fn := c.Fn(cons + ".verifyParentHash")
		gbh := c.Method(cons+".BlockLoader", "GetBlockByHash")
		for _, g := range core.CallsIn(fn, gbh) {
			args := g.Common().Args
			cnt(c.Check("verifyParentHash?arg", "quantity-guard", len(args) > 0 && core.SliceHasCall(core.Slice(args[len(args)-1]), blk("ParentHash")), g.Pos(), "the parent is looked up by the block's ParentHash"))
		}
		cnt(len(heeded(c, fn, gbh, core.ErrNonNil, 1, nil)) > 0)
		// the parent handed to the later checks is the looked-up one
		before := c.Fn(cons + ".Validator.VerifyBeforeTxProcess")
		vph := core.CallsIn(before, c.FuncObj(cons+".verifyParentHash"))
		if len(vph) == 1 {
			parent := core.ResultValues(vph[0])[0]
			for _, h := range []string{"verifyHeight", "verifyMiner"} {
				for _, g := range core.CallsIn(before, c.FuncObj(cons+"."+h)) {
					ok := false
					for _, a := range g.Common().Args {
						if parent != nil && core.Slice(a)[parent] {
							ok = true
						}
					}
					c.Check("VerifyBeforeTxProcess:"+h+"(parent)", "value-flow", ok, g.Pos(), "%s must be given the parent returned by verifyParentHash", h)
				}
			}
		}
		// signer
		fn = c.Fn(cons + ".verifySigner")
		cnt(len(heeded(c, fn, blk("SignerNodeID"), core.ErrNonNil, 1, nil)) > 0)
		gd := c.Method("chain/deputynode.Manager", "GetDeputyByNodeID")
		for _, g := range core.CallsIn(fn, gd) {
			ok, why := core.CallHeeded(g, core.IsNil, nil)
			cnt(c.Check("verifySigner→GetDeputyByNodeID", "heeded-guard", ok, g.Pos(), "an unknown signer must be rejected: %s", orOK(why)))
			// the node id looked up is the recovered one
			rec := core.CallsIn(fn, blk("SignerNodeID"))
			ok = false
			if len(rec) == 1 {
				id := core.ResultValues(rec[0])[0]
				for _, a := range g.Common().Args {
					if id != nil && core.Slice(a)[id] {
						ok = true
					}
				}
			}
			c.Check("verifySigner:GetDeputyByNodeID(recovered id)", "value-flow", ok, g.Pos(), "the deputy is looked up by the node id recovered from the signature")
		}
		cnt(condGuardG(c, fn, "deputy.MinerAddress≠block.MinerAddress", nil, func(g core.CondGuard) bool {
			sl := g.Slice
			if !rejectsWhenUnequal(g) {
				return false
			}
			return core.SliceHasField(sl, c.FieldVar("chain/types.DeputyNode", "MinerAddress")) && core.SliceHasCall(sl, blk("MinerAddress")) && core.SliceHasCall(sl, gd)
		}))
		// tx root
		fn = c.Fn(cons + ".verifyTxRoot")
		cnt(condGuardG(c, fn, "Txs.MerkleRootSha≠TxRoot", nil, func(g core.CondGuard) bool {
			sl := g.Slice
			if !rejectsWhenUnequal(g) {
				return false
			}
			return core.SliceHasCall(sl, c.Method("chain/types.Transactions", "MerkleRootSha")) && core.SliceHasCall(sl, blk("TxRoot")) &&
				core.SliceHasField(sl, c.FieldVar("chain/types.Block", "Txs"))
		}))
		// height
		fn = c.Fn(cons + ".verifyHeight")
		cnt(condGuardG(c, fn, "parent.Height+1≠Height", nil, func(g core.CondGuard) bool {
			sl := g.Slice
			return core.SliceCountCalls(sl, blk("Height")) >= 2 && core.SliceHasIntConst(sl, 1) && core.SliceHasOp(sl, token.ADD) && rejectsWhenUnequal(g)
		}))
		// time
		fn = c.Fn(cons + ".verifyTime")
		cnt(condGuard(c, fn, "Time−now>1", nil, func(sl map[ssa.Value]bool) bool {
			return core.SliceHasCall(sl, blk("Time")) && core.SliceHasCall(sl, c.StdFunc("time", "Now")) && core.SliceHasOp(sl, token.SUB) && core.SliceHasOp(sl, token.GTR) && core.SliceHasIntConst(sl, 1)
		}))
		// extra
		fn = c.Fn(cons + ".verifyExtraData")
		cnt(condGuard(c, fn, "len(Extra)>MaxExtraDataLen", nil, func(sl map[ssa.Value]bool) bool {
			max, _ := constInt(c.Const("chain/params.MaxExtraDataLen"))
			return core.SliceHasCall(sl, blk("Extra")) && core.SliceHasIntConst(sl, max) && core.SliceHasOp(sl, token.GTR)
		}))
		// txs
		fn = c.Fn(cons + ".verifyTxs")
		et := c.Method(cons+".TxGuard", "ExistTxs")
		for _, g := range core.CallsIn(fn, et) {
			ok, why := core.CallHeeded(g, core.IsTrue, nil)
			cnt(c.Check("verifyTxs→ExistTxs", "heeded-guard", ok, g.Pos(), "a block containing a tx of an ancestor must be rejected: %s", orOK(why)))
			a := g.Common().Args
			c.Check("verifyTxs:ExistTxs(ParentHash,Txs)", "value-flow", len(a) >= 2 && core.SliceHasCall(core.Slice(a[len(a)-2]), blk("ParentHash")) &&
				core.SliceHasField(core.Slice(a[len(a)-1]), c.FieldVar("chain/types.Block", "Txs")), g.Pos(), "the replay test is given the block's parent hash and its whole tx list")
		}
		vtb := c.Method("chain/types.Transaction", "VerifyTxBody")
		for _, g := range core.CallsIn(fn, vtb) {
			v := core.ErrResult(g)
			ok := false
			for _, t := range core.TestsOf(v, core.ErrNonNil) {
				r := true
				for _, ret := range core.Returns(fn) {
					if core.CanReach(t.Fail, ret.Block(), g.Block()) && core.ClassifyReturn(ret, core.Derived(v), nil) != core.RetFailure {
						r = false
					}
				}
				if r && core.EveryIterationPasses(g) {
					ok = true
				}
			}
			// the loop ranges over block.Txs and the call's time argument is the block's time
			a := g.Common().Args
			okArgs := len(a) == 4 && core.SliceHasCall(core.Slice(a[2]), blk("Time"))
			if bc, isC := core.BoolConst(a[3]); !isC || !bc {
				okArgs = false
			}
			recvFromTxs := core.SliceHasField(core.Slice(a[0]), c.FieldVar("chain/types.Block", "Txs"))
			cnt(c.Check("verifyTxs→VerifyTxBody", "heeded-guard", ok, g.Pos(), "every tx of the block is body-checked in every iteration and a failure rejects the block"))
			c.Check("verifyTxs:VerifyTxBody(block time, isBlockTx)", "value-flow", okArgs && recvFromTxs, g.Pos(), "each element of block.Txs is checked against the block's own time with isBlockTx=true")
		}
		// miner slot
		fn = c.Fn(cons + ".verifyMiner")
		gcm := c.FuncObj(cons + ".GetCorrectMiner")
		cnt(len(heeded(c, fn, gcm, core.ErrNonNil, 1, nil)) > 0)
		cnt(condGuardG(c, fn, "expectedMiner≠header.MinerAddress", nil, func(g core.CondGuard) bool {
			sl := g.Slice
			if !rejectsWhenUnequal(g) {
				return false
			}
			return core.SliceHasCall(sl, gcm) && core.SliceHasField(sl, c.FieldVar("chain/types.Header", "MinerAddress"))
		}))
		for _, g := range core.CallsIn(fn, gcm) {
			a := g.Common().Args
			c.Check("verifyMiner:GetCorrectMiner(parent, header.Time)", "value-flow", len(a) == 4 && a[0] == fn.Params[1] &&
				core.SliceHasField(core.Slice(a[1]), c.FieldVar("chain/types.Header", "Time")) && core.Slice(a[1])[fn.Params[0]], g.Pos(), "the slot is computed from the parent header and the checked header's own time")
		}
		gcmFn := c.Fn(cons + ".GetCorrectMiner")
		cnt(condGuard(c, gcmFn, "mineTime<parent.Time", nil, func(sl map[ssa.Value]bool) bool {
			// the raw difference mineTime − parent.Time·1000 is tested, not a remainder or quotient of it (Go's % maps the negative multiples
			// of the round length to 0, so a block older than its parent by whole rounds would pass)
			return core.SliceHasField(sl, c.FieldVar("chain/types.Header", "Time")) && sl[gcmFn.Params[1]] && core.SliceHasOp(sl, token.LSS) &&
				!core.SliceHasOp(sl, token.REM) && !core.SliceHasOp(sl, token.QUO)
		}))
		// deputy root
		fn = c.Fn(cons + ".verifyDeputy")
		dnRoot := c.Method("chain/types.DeputyNodes", "MerkleRootSha")
		ltc := c.Method(cons+".CandidateLoader", "LoadTopCandidates")
		nBody, nLocal := 0, 0
		for _, g := range core.CondGuards(fn, nil) {
			if !core.SliceHasCall(g.Slice, blk("DeputyRoot")) || !core.SliceHasCall(g.Slice, dnRoot) {
				continue
			}
			if core.SliceHasCall(g.Slice, ltc) {
				nLocal++
			} else if core.SliceHasField(g.Slice, c.FieldVar("chain/types.Block", "DeputyNodes")) {
				nBody++
			}
		}
		cnt(c.Check("verifyDeputy?DeputyRoot=root(body nodes)", "quantity-guard", nBody >= 1, fn.Pos(), "DeputyRoot is compared with the root of the deputy nodes in the body"))
		cnt(c.Check("verifyDeputy?DeputyRoot=root(local candidates)", "quantity-guard", nLocal >= 1, fn.Pos(), "DeputyRoot is compared with the root of the locally loaded top candidates"))
		// the two comparisons are skipped only for non-snapshot heights
		snap := c.FuncObj("chain/deputynode.IsSnapshotBlock")
		for _, g := range core.CallsIn(fn, snap) {
			a := g.Common().Args
			c.Check("verifyDeputy:IsSnapshotBlock(Height)", "value-flow", len(a) == 1 && core.SliceHasCall(core.Slice(a[0]), blk("Height")), g.Pos(), "the snapshot test reads the block's height")
			// the not-snapshot edge is the only way around the comparisons
			ok := false
			for _, t := range core.TestsOf(g.Value(), core.IsTrue) {
				// t.Fail = successor when IsSnapshotBlock is true: must contain / lead to the comparisons: every success return reachable from it passes the guards
				okAll := true
				for _, cg := range core.CondGuards(fn, nil) {
					if core.SliceHasCall(cg.Slice, blk("DeputyRoot")) && !t.Fail.Dominates(cg.If.Block()) && t.Fail != cg.If.Block() {
						okAll = false
					}
				}
				// with both accepting edges cut, no success return is reachable from the snapshot edge
				cut := []*ssa.If{}
				for _, cg := range core.CondGuards(fn, nil) {
					if core.SliceHasCall(cg.Slice, blk("DeputyRoot")) {
						cut = append(cut, cg.If)
					}
				}
				if okAll && len(cut) >= 2 {
					ok = true
				}
			}
			c.Check("verifyDeputy:snapshot-branch-holds-comparisons", "guard-scope", ok, g.Pos(), "both DeputyRoot comparisons lie on the IsSnapshotBlock==true branch")
		}
		c.Exactly("verifyDeputy/IsSnapshotBlock", len(core.CallsIn(fn, snap)), 1)
		// change logs
		fn = c.Fn(cons + ".verifyChangeLog")
		clRoot := c.Method("chain/types.ChangeLogSlice", "MerkleRootSha")
		cnt(condGuardG(c, fn, "root(computed logs)≠LogRoot", nil, func(g core.CondGuard) bool {
			sl := g.Slice
			if !rejectsWhenUnequal(g) {
				return false
			}
			return core.SliceHasCall(sl, clRoot) && core.SliceHasCall(sl, blk("LogRoot")) && sl[fn.Params[1]]
		}))
		// whole header hash
		after := c.Fn(cons + ".Validator.VerifyAfterTxProcess")
		cnt(condGuardG(c, after, "computedBlock.Hash≠block.Hash", nil, func(g core.CondGuard) bool {
			sl := g.Slice
			if !rejectsWhenUnequal(g) {
				return false
			}
			return core.SliceCountCalls(sl, blk("Hash")) >= 2 && sl[after.Params[1]] && sl[after.Params[2]]
		}))
		for _, g := range core.CallsIn(after, c.FuncObj(cons+".verifyChangeLog")) {
			a := g.Common().Args
			c.Check("VerifyAfterTxProcess:verifyChangeLog(block, computed.ChangeLogs)", "value-flow", len(a) == 2 && a[0] == after.Params[1] &&
				core.Slice(a[1])[after.Params[2]] && core.SliceHasField(core.Slice(a[1]), c.FieldVar("chain/types.Block", "ChangeLogs")), g.Pos(), "the received block's LogRoot is compared with the locally computed logs")
		}
		c.Floor("quantity-guards", q, 18)
	})

	c.Clause("C02.2", "the header hash commits to every header field except the signature; Block.Hash is the header hash")
	c.Run("hash", func() {
		fn := c.Fn("chain/types.Header.Hash")
		rh := core.CallsIn(fn, c.FuncObj("chain/types.rlpHash"))
		if len(rh) != 1 {
			c.Check("Header.Hash→rlpHash", "field-cover", false, fn.Pos(), "Header.Hash must hash through rlpHash exactly once (%d calls)", len(rh))
			return
		}
		fieldCover(c, "Header.Hash", rh[0].Pos(), rh[0].Common().Args[0], c.Struct("chain/types.Header"), map[string]string{
			"SignData":     "!the signature is made over this hash",
			"signerNodeID": "!cache of the recovered signer",
		})
		// the result of Hash is the rlpHash result
		ok := false
		for _, r := range core.Returns(fn) {
			if core.Slice(r.Results[0])[rh[0].Value()] {
				ok = true
			}
		}
		c.Check("Header.Hash:returns-rlpHash", "value-flow", ok, fn.Pos(), "Header.Hash returns the hash it computed")
		bh := c.Fn("chain/types.Block.Hash")
		hh := core.CallsIn(bh, c.Method("chain/types.Header", "Hash"))
		c.Check("Block.Hash→Header.Hash", "value-flow", len(hh) == 1 && core.SliceHasField(core.Slice(hh[0].Common().Args[0]), c.FieldVar("chain/types.Block", "Header")), bh.Pos(), "Block.Hash is the hash of its own header")
		// SignerNodeID recovers over Hash with SignData
		sn := c.Fn("chain/types.Header.SignerNodeID")
		ec := core.CallsIn(sn, c.FuncObj("common/crypto.Ecrecover"))
		ok = len(ec) == 1
		if ok {
			a := ec[0].Common().Args
			ok = core.SliceHasCall(core.Slice(a[0]), c.Method("chain/types.Header", "Hash")) && core.SliceHasField(core.Slice(a[1]), c.FieldVar("chain/types.Header", "SignData"))
		}
		c.Check("Header.SignerNodeID:Ecrecover(Hash,SignData)", "value-flow", ok, sn.Pos(), "the signer is recovered from SignData over the header hash")
		if len(ec) == 1 {
			// every use of the recovered key (the cache store and the returns that hand it out) needs an accepted recovery
			key := core.ResultValues(ec[0])[0]
			var uses []ssa.Instruction
			for _, ci := range core.AllCalls(sn) {
				for _, a := range ci.Common().Args {
					if ci != ec[0] && key != nil && core.Slice(a)[key] {
						uses = append(uses, ci)
					}
				}
			}
			for _, r := range core.Returns(sn) {
				if key != nil && core.Slice(core.RetVal(r, 0))[key] {
					uses = append(uses, r)
				}
			}
			c.Floor("SignerNodeID/uses-of-recovered-key", len(uses), 2)
			heededBefore(c, sn, c.FuncObj("common/crypto.Ecrecover"), core.ErrNonNil, "use-of-recovered-key", uses)
		}
	})

	c.Clause("C02.3", "what is stored is the locally re-sealed block that was verified (not the raw input); its confirms went through VerifyNewConfirms")
	c.Run("stored-is-verified", func() {
		insert := c.Fn(cons + ".DPoVP.InsertBlock")
		vas := core.CallsIn(insert, c.Method(cons+".DPoVP", "VerifyAndSeal"))
		saves := core.CallsIn(insert, c.Method(cons+".DPoVP", "saveNewBlock"))
		ok := len(vas) == 1 && len(saves) >= 1
		if ok {
			res := core.ResultValues(vas[0])[0]
			for _, s := range saves {
				a := s.Common().Args
				if res == nil || !core.Derived(res)[a[len(a)-1]] {
					ok = false
				}
			}
		}
		c.Check("InsertBlock:saveNewBlock(VerifyAndSeal result)", "value-flow", ok, insert.Pos(), "the block given to saveNewBlock is the block returned by VerifyAndSeal")

		vasFn := c.Fn(cons + ".DPoVP.VerifyAndSeal")
		rb := core.CallsIn(vasFn, c.Method(cons+".BlockAssembler", "RunBlock"))
		ok = len(rb) == 1
		if ok {
			res := core.ResultValues(rb[0])[0]
			d := core.Derived(res)
			for _, r := range core.Returns(vasFn) {
				if core.ClassifyReturn(r, nil, nil) != core.RetFailure && !d[r.Results[0]] {
					ok = false
				}
			}
			// and VerifyAfterTxProcess compares the received block with that result
			for _, g := range core.CallsIn(vasFn, c.Method(cons+".Validator", "VerifyAfterTxProcess")) {
				a := g.Common().Args
				if len(a) != 3 || a[1] != vasFn.Params[1] || !d[a[2]] {
					ok = false
				}
			}
			// RunBlock and VerifyBeforeTxProcess get the received block
			for _, g := range append(core.CallsIn(vasFn, c.Method(cons+".Validator", "VerifyBeforeTxProcess")), rb...) {
				a := g.Common().Args
				if len(a) < 2 || a[1] != vasFn.Params[1] {
					ok = false
				}
			}
		}
		c.Check("VerifyAndSeal:returns RunBlock result, compared with input", "value-flow", ok, vasFn.Pos(), "VerifyAndSeal returns RunBlock's block after VerifyAfterTxProcess(input, that block)")

		run := c.Fn(cons + ".BlockAssembler.RunBlock")
		seal := core.CallsIn(run, c.Method(cons+".BlockAssembler", "Seal"))
		ok = len(seal) == 1
		if ok {
			d := core.Derived(seal[0].Value())
			for _, r := range core.Returns(run) {
				if core.ClassifyReturn(r, nil, nil) != core.RetFailure && !d[r.Results[0]] {
					ok = false
				}
			}
		}
		c.Check("RunBlock:returns Seal result", "value-flow", ok, run.Pos(), "RunBlock returns the locally sealed block")
		// the sealed block carries its OWN header: Seal fills a copy, otherwise the comparison of the received header with the computed one
		// compares the header with itself
		sealFn := c.Fn(cons + ".BlockAssembler.Seal")
		cp := core.CallsIn(sealFn, c.Method("chain/types.Header", "Copy"))
		nb := core.CallsIn(sealFn, c.FuncObj("chain/types.NewBlock"))
		okc := len(cp) == 1 && len(nb) == 1
		if okc {
			okc = cp[0].Common().Args[0] == sealFn.Params[1] && core.Derived(cp[0].Value())[nb[0].Common().Args[0]]
			// no field of the parameter header is written
			for _, b := range sealFn.Blocks {
				for _, in := range b.Instrs {
					if st, isSt := in.(*ssa.Store); isSt {
						if fa, isFA := st.Addr.(*ssa.FieldAddr); isFA && fa.X == sealFn.Params[1] {
							okc = false
						}
					}
				}
			}
		}
		c.Check("Seal:fills-a-copy-of-the-header", "value-flow", okc, sealFn.Pos(), "Seal puts header.Copy() into the new block and writes no field of the header it was given")

		// block.Confirms on the verified block is assigned only from VerifyNewConfirms (or nil) inside VerifyAndSeal
		confirms := c.FieldVar("chain/types.Block", "Confirms")
		vnc := c.Method(cons+".Validator", "VerifyNewConfirms")
		n := 0
		ok = true
		for _, b := range vasFn.Blocks {
			for _, in := range b.Instrs {
				st, isSt := in.(*ssa.Store)
				if !isSt || core.FieldOf(st.Addr) != confirms {
					continue
				}
				n++
				if core.IsNilConst(st.Val) {
					continue
				}
				if !core.SliceHasCall(core.Slice(st.Val), vnc) {
					ok = false
				}
			}
		}
		c.Check("VerifyAndSeal:Confirms←VerifyNewConfirms", "value-flow", ok && n >= 1, vasFn.Pos(), "confirms carried by a received block are replaced by the verified subset (%d stores)", n)
	})

	c.Clause("C02.4", "rejection has no effect: no chain-state mutator runs in InsertBlock before VerifyAndSeal has accepted")
	c.Run("no-effect-before-verify", func() {
		insert := c.Fn(cons + ".DPoVP.InsertBlock")
		vas := c.Method(cons+".DPoVP", "VerifyAndSeal")
		muts := []*types.Func{
			c.Method(cons+".DPoVP", "saveNewBlock"), c.Method(cons+".DPoVP", "saveToStore"), c.Method(cons+".DPoVP", "UpdateStable"),
			c.Method(cons+".Confirmer", "TryConfirm"), c.Method(cons+".Confirmer", "SetLastSig"), c.Method(cons+".Confirmer", "SaveConfirm"),
			c.Method(cons+".ForkManager", "UpdateFork"), c.Method(cons+".ForkManager", "SetHeadBlock"),
			c.Method("chain/txpool.TxPool", "AddTxs"), c.Method("chain/txpool.TxPool", "DelTxs"), c.Method("chain/txpool.TxPool", "AddTx"),
			c.Method("chain/txpool.TxGuard", "SaveBlock"), c.Method("chain/txpool.TxGuard", "DelOldBlocks"),
			c.Method("chain/account.Manager", "Save"), c.Method("store/protocol.ChainDB", "SetBlock"), c.Method("store/protocol.ChainDB", "SetStableBlock"),
			c.Method("store/protocol.ChainDB", "SetConfirms"), c.Method("chain/deputynode.Manager", "PutEvilDeputyNode"), c.Method("chain/deputynode.Manager", "SaveSnapshot"),
			c.Method(cons+".DPoVP", "broadcastConfirm"), c.Method(cons+".DPoVP", "onCurrentChanged"), c.Method(cons+".DPoVP", "onStableChanged"),
		}
		n := 0
		var walk func(fn *ssa.Function)
		walk = func(fn *ssa.Function) {
			for _, ci := range core.CallsIn(fn, muts...) {
				n++
				if fn == insert {
					ok := false
					for _, g := range core.CallsIn(insert, vas) {
						if k, _ := core.HeededBefore(g, core.ErrNonNil, ci); k {
							ok = true
						}
					}
					c.Check("InsertBlock:"+objName(core.CalleeObj(ci))+"-after-verify", "guarded-action", ok, ci.Pos(), "%s must only run after VerifyAndSeal accepted", objName(core.CalleeObj(ci)))
				} else {
					// inside a closure of InsertBlock: the closure's creation site must be guarded
					mk := closureSite(insert, fn)
					ok := false
					if mk != nil {
						for _, g := range core.CallsIn(insert, vas) {
							if k, _ := core.HeededBefore(g, core.ErrNonNil, mk); k {
								ok = true
							}
						}
					}
					c.Check("InsertBlock$closure:"+objName(core.CalleeObj(ci))+"-after-verify", "guarded-action", ok, ci.Pos(), "closure calling %s must be created after VerifyAndSeal accepted", objName(core.CalleeObj(ci)))
				}
			}
			for _, a := range fn.AnonFuncs {
				walk(a)
			}
		}
		walk(insert)
		c.Floor("mutators-in-InsertBlock", n, 3)
		// the pre-check helper is read-only with respect to those mutators
		// VerifyAndSeal itself decides; it changes nothing: none of the mutators is called in its call-graph closure (a refused block that
		// cleans the pool, records an evil deputy or saves a confirm has had an effect)
		vasFn := c.Fn(cons + ".DPoVP.VerifyAndSeal")
		reached := cgClosure(c, []*ssa.Function{vasFn}, func(*ssa.Function) bool { return false })
		c.Floor("VerifyAndSeal/closure", len(reached), 50)
		var rf []*ssa.Function
		for f := range reached {
			rf = append(rf, f)
		}
		sort.Slice(rf, func(i, j int) bool { return rf[i].String() < rf[j].String() })
		for _, f := range rf {
			for _, ci := range core.CallsIn(f, muts...) {
				c.Check("VerifyAndSeal:no-mutator/"+objName(core.CalleeObj(ci))+"@"+shortFn(f), "no-call", false, ci.Pos(), "deciding about a block must not change the chain, the pool, the replay guard or the deputy records: %s is reached from VerifyAndSeal (%s)", objName(core.CalleeObj(ci)), closurePath(reached, f))
			}
		}
		c.Check("VerifyAndSeal:no-mutator", "no-call", true, vasFn.Pos(), "no chain-state mutator in the closure of VerifyAndSeal (%d functions)", len(reached))
		// (written out inside InsertBlock, the pre-check is covered by the rule above: no mutator before VerifyAndSeal accepted)
		if c.InlinedAway(cons + ".DPoVP.isIgnorableBlock") {
			return
		}
		ign := c.Fn(cons + ".DPoVP.isIgnorableBlock")
		c.Check("isIgnorableBlock:no-mutator", "no-call", len(core.CallsInDeep(ign, muts...)) == 0, ign.Pos(), "the duplicate/old-block pre-check must not call a chain-state mutator")
	})

	c.Clause("C02.5", "the replay test has its history after a restart: NewBlockChain refills the replay guard with the stable blocks that lie within MaxTxLifeTime of the latest stable block (not of the wall clock)")
	c.Run("guard-history", func() {
		nb := c.Fn("chain.NewBlockChain")
		itp := c.Method("chain.BlockChain", "initTxPool")
		c.Check("NewBlockChain⇒initTxPool", "must-call", len(core.CallsIn(nb, itp)) >= 1, nb.Pos(), "the replay guard is refilled when the chain is opened")
		fn := c.Fn("chain.BlockChain.initTxPool")
		saves := core.CallsIn(fn, c.Method("chain/txpool.TxGuard", "SaveBlock"))
		c.Floor("initTxPool/SaveBlock", len(saves), 1)
		max, _ := constInt(c.Const("chain/params.MaxTxLifeTime"))
		for i, sv := range saves {
			body, header := core.LoopOf(sv.Block())
			ok := false
			clock := false
			if body != nil {
				// the test that keeps the loop going
				for b := range body {
					ifi, isIf := b.Instrs[len(b.Instrs)-1].(*ssa.If)
					if !isIf || (body[b.Succs[0]] && body[b.Succs[1]]) {
						continue
					}
					if !(b == header || b.Dominates(sv.Block())) {
						continue
					}
					sl := core.Slice(ifi.Cond)
					for v := range sl {
						if ci, isCall := v.(*ssa.Call); isCall && clockOrRandom(ci.Call.StaticCallee()) != "" {
							clock = true
						}
					}
					if core.SliceCountCalls(sl, blk("Time")) >= 2 && core.SliceHasIntConst(sl, max) && sl[fn.Params[1]] {
						ok = true
					}
				}
			}
			c.Check("initTxPool?stable.Time−block.Time≤MaxTxLifeTime"+suffix(i, len(saves)), "quantity-guard", ok && !clock, sv.Pos(),
				"the reload window is measured from the time of the stable block handed in (two Block.Time reads, MaxTxLifeTime; wall clock involved: %v)", clock)
		}
	})

	// C02.6: "every transaction is well-formed, unexpired and not a replay" — the replay-protection clauses of C04 (identity, ancestor test,
	// expiry window incl. box sub-transactions, intra-block uniqueness, canonical signatures) are necessary conditions of sound block
	// acceptance as well and are evaluated here under their C04 keys
	c04(c)

	c.Clause("C02.7", "a block with a transaction no honest node could have built is refused whatever path it came by: the sign clause C05.7 (every *big.Int field of a transaction, box sub transactions included, is refused when negative by VerifyTxBody without regard to isBlockTx) is evaluated here as well")
	c.Run("tx-signs", func() { c05Signs(c) })

	c.NotDecidedf("that the comparisons use the right constants and tolerances (one second), correctness of GetCorrectMiner's slot arithmetic (C13) and of execution (C01)")
	c.NotDecidedf("effects of callees not in the frozen mutator list; equality of chain state before and after a rejection as a value")
}

// closureSite finds the MakeClosure instruction in outer that creates inner (nil if none).
func closureSite(outer, inner *ssa.Function) ssa.Instruction {
	for _, b := range outer.Blocks {
		for _, in := range b.Instrs {
			if mc, ok := in.(*ssa.MakeClosure); ok && mc.Fn == inner {
				return mc
			}
		}
	}
	return nil
}
