package rules

import (
	"go/token"
	"go/types"
	"sort"

	"golang.org/x/tools/go/ssa"

	"verif/lint/internal/core"
)

// recvFromField: v is the value received from a channel read from field f (`<-x.f`, or the corresponding case of a select).
func recvFromField(v ssa.Value, f *types.Var) bool {
	switch x := v.(type) {
	case *ssa.UnOp:
		return x.Op == token.ARROW && core.SliceHasField(core.Slice(x.X), f)
	case *ssa.Extract:
		sel, ok := x.Tuple.(*ssa.Select)
		if !ok {
			return false
		}
		j := 0
		for _, s := range sel.States {
			if s.Dir != types.RecvOnly {
				continue
			}
			if x.Index == 2+j {
				return core.SliceHasField(core.Slice(s.Chan), f)
			}
			j++
		}
	}
	return false
}

// condOperands returns the two operands of the comparison an If branches on (negations stripped).
func condOperands(ifi *ssa.If) (ssa.Value, ssa.Value) {
	cond := ifi.Cond
	for {
		u, ok := cond.(*ssa.UnOp)
		if !ok || u.Op != token.NOT {
			break
		}
		cond = u.X
	}
	if b, ok := cond.(*ssa.BinOp); ok {
		return b.X, b.Y
	}
	return nil, nil
}

// implementations lists the repository functions that implement interface method m.
func implementations(c *core.Ctx, m *types.Func) []*ssa.Function {
	var out []*ssa.Function
	for _, fn := range c.SrcFuncs {
		if fn.Parent() != nil {
			continue
		}
		o, ok := fn.Object().(*types.Func)
		if !ok || o == m || o.Name() != m.Name() {
			continue
		}
		if core.SameFamily(m, o) {
			out = append(out, fn)
		}
	}
	return out
}

// neverFails: every return of fn hands back the nil error constant, or the error of a repository function that itself never
// fails (the function cannot report a failure). Recursion is resolved optimistically: a non-nil error has to originate somewhere.
func neverFails(fn *ssa.Function) bool {
	return neverFailsRec(fn, map[*ssa.Function]bool{})
}

func neverFailsRec(fn *ssa.Function, visiting map[*ssa.Function]bool) bool {
	if visiting[fn] {
		return true
	}
	res := fn.Signature.Results()
	idx := -1
	for i := res.Len() - 1; i >= 0; i-- {
		if core.IsErrorType(res.At(i).Type()) {
			idx = i
			break
		}
	}
	if idx < 0 || fn.Blocks == nil || !core.InRepo(fn) {
		return false
	}
	visiting[fn] = true
	defer delete(visiting, fn)
	n := 0
	for _, r := range realReturns(fn) {
		n++
		v := core.RetVal(r, idx)
		if core.IsNilConst(v) {
			continue
		}
		var call ssa.CallInstruction
		switch x := v.(type) {
		case *ssa.Call:
			call = x
		case *ssa.Extract:
			call, _ = x.Tuple.(*ssa.Call)
		}
		if call == nil {
			return false
		}
		callee := core.CalleeFn(call)
		if callee == nil || !neverFailsRec(callee, visiting) {
			return false
		}
	}
	return n > 0
}

// reachFrom computes the repository functions reachable from the roots along static calls, calls of function literals,
// go/defer statements and interface invocations (resolved to every repository implementation, except where `devirt` names
// the implementations for an interface method).
func reachFrom(c *core.Ctx, roots []*ssa.Function, devirt map[*types.Func][]*ssa.Function, inPkgs map[string]bool) map[*ssa.Function]bool {
	seen, _ := reachFromDyn(c, roots, devirt, inPkgs)
	return seen
}

// reachFromDyn is reachFrom that also returns the calls of function values it could not resolve (callbacks stored in fields,
// parameters, ...): reachability through them is unknown.
func reachFromDyn(c *core.Ctx, roots []*ssa.Function, devirt map[*types.Func][]*ssa.Function, inPkgs map[string]bool) (map[*ssa.Function]bool, []ssa.CallInstruction) {
	var dyn []ssa.CallInstruction
	seen := map[*ssa.Function]bool{}
	implCache := map[*types.Func][]*ssa.Function{}
	var todo []*ssa.Function
	push := func(f *ssa.Function) {
		if f == nil || f.Blocks == nil || seen[f] || !core.InRepo(f) {
			return
		}
		if inPkgs != nil && !inPkgs[core.RelPkg(f)] {
			return
		}
		seen[f] = true
		todo = append(todo, f)
	}
	for _, r := range roots {
		push(r)
	}
	for len(todo) > 0 {
		fn := todo[len(todo)-1]
		todo = todo[:len(todo)-1]
		for _, a := range fn.AnonFuncs {
			push(a)
		}
		for _, ci := range core.AllCalls(fn) {
			cc := ci.Common()
			if cc.IsInvoke() {
				m := cc.Method
				if fs, ok := devirt[m]; ok {
					for _, f := range fs {
						push(f)
					}
					continue
				}
				fs, ok := implCache[m]
				if !ok {
					fs = implementations(c, m)
					implCache[m] = fs
				}
				for _, f := range fs {
					push(f)
				}
				continue
			}
			if _, isBuiltin := cc.Value.(*ssa.Builtin); isBuiltin {
				continue
			}
			if core.CalleeFn(ci) == nil {
				dyn = append(dyn, ci)
			}
			if f := core.CalleeFn(ci); f != nil {
				if f.Synthetic != "" && f.Blocks != nil && !core.InRepo(f) {
					continue
				}
				push(f)
				// bound method value / thunk wrappers: follow what they call
				if f.Synthetic != "" {
					if o := core.CalleeObj(ci); o != nil {
						push(c.FuncOf(o))
					}
				}
			}
		}
	}
	return seen, dyn
}

func c08b(c *core.Ctx, oe *orderEngine) {
	const st = "store"
	const ldb = "store/leveldb"

	// -----------------------------------------------------------------------------------------------------------------
	c.Clause("C08.4", "the write-ahead file is truncated only when nothing is pending: os.Remove in emptyFile executes only on the `len(Index) == 0` edge under IndexRW, and the cursor is reset; an entry leaves Index only in delIndex, only for the last pending write of its key, and delIndex runs only for records the asynchronous writer reported on DoneChan")
	c.Run("emptyFile", func() {
		fn := c.Fn(st + ".FileQueue.emptyFile")
		index := c.FieldVar(st+".FileQueue", "Index")
		rw := c.FieldVar(st+".FileQueue", "IndexRW")
		offset := c.FieldVar(st+".FileQueue", "Offset")
		rms := core.CallsIn(fn, c.StdFunc("os", "Remove"))
		c.Exactly("emptyFile/os.Remove", len(rms), 1)
		lock := c.StdFunc("sync", "RWMutex.Lock")
		unlock := c.StdFunc("sync", "RWMutex.Unlock")
		for _, rm := range rms {
			guarded, locked := false, false
			for _, ifi := range ifs(fn) {
				edge, ok := edgeWhen(ifi, isLenOfField(index), []int64{0}, []int64{1, 2, 3})
				if !ok || !onlyVia(ifi, edge, rm) {
					continue
				}
				guarded = true
				x, y := condOperands(ifi)
				var q ssa.Instruction
				for _, v := range []ssa.Value{x, y} {
					if v != nil && isLenOfField(index)(v) {
						q, _ = v.(ssa.Instruction)
					}
				}
				for _, l := range core.CallsIn(fn, lock) {
					if _, isCall := l.(*ssa.Call); !isCall || q == nil || !core.SliceHasField(core.Slice(recvOfCall(l)), rw) || !core.Dominates(l, q) {
						continue
					}
					held := true
					for _, u := range core.CallsIn(fn, unlock) {
						if _, plain := u.(*ssa.Call); plain && core.SliceHasField(core.Slice(recvOfCall(u)), rw) && core.ReachableAfter(l, u) && core.ReachableAfter(u, rm) {
							held = false
						}
					}
					if held {
						locked = true
					}
				}
			}
			c.Check("emptyFile:os.Remove-only-if-len(Index)==0", "guarded-action", guarded, rm.Pos(), "tmp.data may be removed only on the edge where the pending index is empty")
			c.Check("emptyFile:len(Index)-read-and-Remove-under-IndexRW", "lock-held", locked, rm.Pos(), "the emptiness test and the removal happen under one hold of IndexRW")
			reset := false
			for _, s := range storesToO8(fn, offset) {
				if k, isC := intConst(s.Val); isC && k == 0 && core.Dominates(rm, s) {
					reset = true
				}
			}
			c.Check("emptyFile:Offset=0-after-Remove", "order", reset, rm.Pos(), "after the file was recreated the append cursor restarts at 0")
		}
	})
	c.Run("pending-index", func() { c08PendingIndex(c) })

	// -----------------------------------------------------------------------------------------------------------------
	c.Clause("C08.5", "recovery replays before anyone reads: FileQueue.Start opens the bitcask writer, then scans tmp.data (failure is fatal); scanFile re-delivers every intact record it read and treats a torn tail as the end of the log; NewChainDataBase starts BeansDB before it reads the stable block")
	c.Run("recovery", func() {
		start := c.Fn(st + ".FileQueue.Start")
		open := c.Method(st+".SyncFileDB", "Open")
		qstart := c.MethodOpt(st+".FileQueue", "start")
		check := c.Method(st+".FileQueue", "checkFile")
		cf := heeded(c, start, check, core.ErrNonNil, 1, nil)
		oe.after("FileQueue.Start:SyncFileDB.Open≺checkFile", callsTo("SyncFileDB.Open", open), "FileQueue.checkFile", instrs(cf))
		if qstart != nil {
			oe.after("FileQueue.Start:start≺checkFile", callsTo("FileQueue.start", qstart), "FileQueue.checkFile", instrs(cf))
		} else {
			// start() was inlined into Start: the goroutine that drains DoneChan is started by a go statement of Start itself
			okGo := len(cf) > 0
			for _, a := range cf {
				before := false
				for _, bb := range start.Blocks {
					for _, in := range bb.Instrs {
						if g, isGo := in.(*ssa.Go); isGo && core.Dominates(g, a) {
							before = true
						}
					}
				}
				if !before {
					okGo = false
				}
			}
			c.Check("FileQueue.Start:start≺checkFile", "order", okGo, start.Pos(), "the goroutine that releases delivered records is started (go statement in Start) before the write-ahead file is scanned")
		}

		checkFn := c.Fn(st + ".FileQueue.checkFile")
		scan := c.Method(st+".FileQueue", "scanFile")
		errEOF := c.Global(st + ".ErrEOF")
		sc := core.CallsIn(checkFn, scan)
		c.Exactly("checkFile/scanFile", len(sc), 1)
		for _, s := range sc {
			ok, tested, why := heededExcept(s, errEOF)
			c.Check("checkFile→scanFile", "heeded-guard", ok, s.Pos(), "any scan error other than the end-of-log marker must fail checkFile: %s", orOK(why))
			c.Check("checkFile:accepts-ErrEOF", "sentinel-accepted", tested[errEOF], s.Pos(), "the end-of-log marker returned by scanFile is accepted")
			// the scan starts at the queue's cursor and the cursor continues where the scan ended
			offset := c.FieldVar(st+".FileQueue", "Offset")
			c.Check("checkFile:scanFile(path(),Offset)", "value-flow", core.SliceHasCall(core.Slice(argN(s, 0)), c.Method(st+".FileQueue", "path")) && core.SliceHasField(core.Slice(argN(s, 1)), offset), s.Pos(), "the scan reads the queue's own file from the queue's cursor")
		}
		// a missing file is created, heeded
		propagated(c, checkFn, 1, c.FuncObj(st+".FileUtilsCreateFile"))

		scanFn := c.Fn(st + ".FileQueue.scanFile")
		read := c.FuncObj(st + ".FileUtilsRead")
		deliver := c.Method(st+".FileQueue", "deliver")
		broken := c.Global(st + ".ErrRecordBroken")
		rd := heeded(c, scanFn, read, core.ErrNonNil, 1, nil)
		c.Exactly("scanFile/FileUtilsRead", len(rd), 1)
		dl := core.CallsIn(scanFn, deliver)
		c.Exactly("scanFile/deliver", len(dl), 1)
		oe.after("scanFile:FileUtilsRead≺deliver", callsTo("FileUtilsRead", read), "FileQueue.deliver", instrs(dl))
		if len(rd) == 1 && len(dl) == 1 {
			res := core.ResultValues(rd[0])
			head, body := res[0], res[1]
			hd := c.Struct(st + ".RecordHead")
			bd := c.Struct(st + ".RecordBody")
			fld := func(s *types.Struct, n string) *types.Var {
				for i := 0; i < s.NumFields(); i++ {
					if s.Field(i).Name() == n {
						return s.Field(i)
					}
				}
				return nil
			}
			a0, a1, a2 := core.Slice(argN(dl[0], 0)), core.Slice(argN(dl[0], 1)), core.Slice(argN(dl[0], 2))
			ok := head != nil && body != nil && a0[head] && core.SliceHasField(a0, fld(hd, "Flg")) && a1[body] && core.SliceHasField(a1, fld(bd, "Key")) &&
				a2[body] && core.SliceHasField(a2, fld(bd, "Val"))
			c.Check("scanFile:deliver(head.Flg,body.Key,body.Val)", "value-flow", ok, dl[0].Pos(), "the record re-delivered is the record read")
			c.Check("scanFile:deliver-every-record", "order", core.EveryIterationPasses(dl[0]), dl[0].Pos(), "every iteration that read a record delivers it")
			// the cursor advances by the aligned record length
			offset := c.FieldVar(st+".FileQueue", "Offset")
			adv := false
			for _, s := range storesToO8(scanFn, offset) {
				sl := core.Slice(s.Val)
				if core.SliceHasField(sl, fld(hd, "Len")) && core.SliceHasCall(sl, c.FuncObj(st+".FileUtilsAlign")) && core.SliceHasOp(sl, token.ADD) && core.EveryIterationPasses(s) {
					adv = true
				}
			}
			c.Check("scanFile:Offset+=Align(head+Len)", "value-flow", adv, scanFn.Pos(), "the scan cursor advances by the aligned length of the record read, in every iteration")
			c.Check("scanFile:reads-at-Offset", "value-flow", core.SliceHasField(core.Slice(argN(rd[0], 1)), offset), rd[0].Pos(), "records are read at the scan cursor")
			// torn tail = end of log: on the `err == ErrRecordBroken` edge the scan ends with a result checkFile accepts
			okTail := false
			for _, t := range sentinelTests(core.ErrResult(rd[0]), broken) {
				if t.Var != broken || t.Equal == t.Other {
					continue
				}
				r := core.ReachCut(t.Equal, map[[2]*ssa.BasicBlock]bool{})
				all, any := true, false
				for _, ret := range core.Returns(scanFn) {
					if !r[ret.Block()] || core.CanReach(t.Equal, rd[0].Block()) {
						continue
					}
					any = true
					ev := core.RetVal(ret, 1)
					ld, isLd := ev.(*ssa.UnOp)
					isEOF := false
					if isLd && ld.Op == token.MUL {
						if g, isG := ld.X.(*ssa.Global); isG && g.Object() == errEOF {
							isEOF = true
						}
					}
					if !isEOF && !core.IsNilConst(ev) {
						all = false
					}
				}
				if any && all && !core.CanReach(t.Equal, dl[0].Block()) {
					okTail = true
				}
			}
			c.Check("scanFile:ErrRecordBroken⇒end-of-log", "sentinel-accepted", okTail, rd[0].Pos(), "a torn last record (ErrRecordBroken) ends the scan with the end-of-log marker instead of failing start-up, and is not delivered")
			// where the log continues: the offset an accepted scan returns is the scan cursor (the end of the last whole record), so that the
			// next append overwrites a torn tail; the file size would put acknowledged records behind garbage that ends the next scan
			okCur, nAcc := true, 0
			for _, ret := range core.Returns(scanFn) {
				if ret.Block() == scanFn.Recover {
					continue
				}
				ev := core.RetVal(ret, 1)
				accepted := core.IsNilConst(ev)
				if ld, isLd := ev.(*ssa.UnOp); isLd && ld.Op == token.MUL {
					if g, isG := ld.X.(*ssa.Global); isG && g.Object() == errEOF {
						accepted = true
					}
				}
				if !accepted {
					continue
				}
				nAcc++
				sl := core.Slice(core.RetVal(ret, 0))
				fromCursor := core.SliceHasField(sl, offset)
				for v := range sl {
					if ci, ok := v.(ssa.CallInstruction); ok && ci.Common().IsInvoke() && ci.Common().Method.Name() == "Size" {
						fromCursor = false
					}
				}
				if !fromCursor {
					okCur = false
				}
			}
			c.Check("scanFile:accepted-scan-returns-the-cursor", "value-flow", okCur && nAcc > 0, scanFn.Pos(), "every return of scanFile that checkFile accepts (nil / end-of-log) hands back the scan cursor, not a quantity taken from the file's size (%d accepted return(s))", nAcc)
		}

		nc := c.Fn(st + ".NewChainDataBase")
		bstart := c.Method(st+".BeansDB", "Start")
		gsb := c.Method(st+".ChainDatabase", "GetStableBlock")
		g := core.CallsIn(nc, gsb)
		c.Exactly("NewChainDataBase/GetStableBlock", len(g), 1)
		oe.after("NewChainDataBase:Beansdb.Start≺GetStableBlock", callsTo("BeansDB.Start", bstart), "ChainDatabase.GetStableBlock", instrs(g))
		// nothing else reads block/account data before the replay either
		var early []string
		bs := core.CallsIn(nc, bstart)
		for _, ci := range core.AllCalls(nc) {
			o := core.CalleeObj(ci)
			if o == nil || len(bs) != 1 {
				continue
			}
			for _, rdr := range []*types.Func{c.Method(st+".ChainDatabase", "GetAccount"), c.Method(st+".ChainDatabase", "GetBlockByHash"), c.Method(st+".ChainDatabase", "GetBlockByHeight"), c.FuncObj(st + ".NewGenesisBlock")} {
				if core.SameFamily(o, rdr) && !core.Dominates(bs[0], ci) {
					early = append(early, objName(o))
				}
			}
		}
		c.Check("NewChainDataBase:no-read-before-Beansdb.Start", "order", len(early) == 0 && len(bs) == 1, nc.Pos(), "no block/account read precedes the replay: %v", early)
		for _, s := range g {
			ok, tested, why := heededExcept(s, c.Global(st+".ErrStableBlockNotExist"))
			c.Check("NewChainDataBase→GetStableBlock", "heeded-guard", ok && tested[c.Global(st+".ErrStableBlockNotExist")], s.Pos(), "a failure to read the stable block other than `not exist` stops start-up: %s", orOK(why))
		}
		// BeansDB.Start really starts the queue it created
		bsFn := c.Fn(st + ".BeansDB.Start")
		qs := core.CallsIn(bsFn, c.Method(st+".FileQueue", "Start"))
		nq := core.CallsIn(bsFn, c.FuncObj(st+".NewFileQueue"))
		c.Check("BeansDB.Start:NewFileQueue≺Queue.Start", "order", len(qs) == 1 && len(nq) == 1 && core.Dominates(nq[0], qs[0]), bsFn.Pos(), "BeansDB.Start creates the queue and starts (replays) it")
	})

	// -----------------------------------------------------------------------------------------------------------------
	c.Clause("C08.6", "stable pointer ownership (shared with C03.2): leveldb.SetCurrentBlock is called only from blockCommit and the recovery hook; ChainDatabase.LastConfirm is assigned only by NewChainDataBase and SetStableBlock")
	c.Run("ownership", func() {
		sites := closedCallersOwned(c, "leveldb.SetCurrentBlock", []string{"(*store.ChainDatabase).blockCommit", "(*store.ChainDatabase).commitStableBlock"}, c.FuncObj(ldb+".SetCurrentBlock"))
		c.Floor("ownership/SetCurrentBlock-sites", len(sites), 1)
		last := c.FieldVar(st+".ChainDatabase", "LastConfirm")
		allowed := map[string]bool{"store.NewChainDataBase": true, "(*store.ChainDatabase).SetStableBlock": true}
		n := 0
		for _, fn := range c.SrcFuncs {
			if isTestHelper(c, fn) {
				continue
			}
			for _, s := range storesToO8(fn, last) {
				n++
				name := core.FuncName(core.Outer(fn))
				c.Check("LastConfirm=@"+name, "who-may-write", ownedBy(c, fn, allowed, 0), s.Pos(), "only start-up and SetStableBlock (or their private helpers) assign LastConfirm")
			}
		}
		c.Floor("ownership/LastConfirm-stores", n, 2)
	})

	// -----------------------------------------------------------------------------------------------------------------
	c.Clause("C08.7", "no storage error is dropped on the commit/recovery path: in every function of packages store and store/leveldb reachable from the commit and start-up entry points, the error result of every call is used (tested, returned or stored), unless the callee provably never fails; confirmed exceptions are listed one by one")
	c.Run("errcheck", func() {
		var roots []*ssa.Function
		for _, s := range []string{".ChainDatabase.SetBlock", ".ChainDatabase.SetStableBlock", ".ChainDatabase.SetConfirms", ".ChainDatabase.SetContractCode",
			".NewChainDataBase", ".TrieDatabase.Commit", ".BeansDB.Put", ".BeansDB.Commit", ".BeansDB.Start", ".RunContext.Flush", ".RunContext.Load"} {
			roots = append(roots, c.FnOrCaller(st+s))
		}
		// the write extension installed by BeansDB.Start (see C08.9) is what SyncFileDB.afterWriteExtend invokes
		fns := reachFrom(c, roots, nil, map[string]bool{st: true, ldb: true})
		// reasons for the confirmed exceptions, keyed caller→callee
		exempt := map[string]string{
			"(*store.BitCask).Put→FileUtilsEncode":             "the encoder's error is overwritten by the next assignment; the encoding of two byte slices (RecordBody{Key,Val}) and of a fixed-size head into a buffer of exactly that size cannot fail",
			"(*store.FileQueue).emptyFile→FileUtilsCreateFile": "if tmp.data cannot be recreated the very next statement of Put/PutBatch (FileUtilsFlush opens without O_CREATE) fails and the error is returned: loud, nothing acknowledged",
		}
		type hit struct {
			key string
			ci  ssa.CallInstruction
		}
		var hits []hit
		calls, cantFail := 0, 0
		var names, infallible []string
		for fn := range fns {
			names = append(names, core.FuncName(fn))
			for _, ci := range core.AllCalls(fn) {
				if _, plain := ci.(*ssa.Call); !plain || !hasErrResult(ci) {
					continue
				}
				calls++
				if errUsed(ci) {
					continue
				}
				// a callee that cannot fail
				var impl []*ssa.Function
				if ci.Common().IsInvoke() {
					impl = implementations(c, ci.Common().Method)
				} else if f := core.CalleeFn(ci); f != nil {
					impl = []*ssa.Function{f}
				}
				nf := len(impl) > 0
				for _, f := range impl {
					if !neverFails(f) {
						nf = false
					}
				}
				if nf {
					cantFail++
					infallible = append(infallible, shortFn(fn)+"→"+objName(core.CalleeObj(ci)))
					continue
				}
				hits = append(hits, hit{shortFn(fn) + "→" + objName(core.CalleeObj(ci)), ci})
			}
		}
		c.Floor("errcheck/functions-on-path", len(fns), 40)
		c.Floor("errcheck/error-returning-calls", calls, 80)
		sort.Strings(infallible)
		c.Note("C08.7 examined %d functions, %d error-returning calls, %d of them dropped but provably infallible: %v", len(fns), calls, cantFail, infallible)
		sort.Slice(hits, func(i, j int) bool { return hits[i].key < hits[j].key })
		seenEx := map[string]bool{}
		for _, h := range hits {
			if why, ok := exempt[h.key]; ok {
				seenEx[h.key] = true
				c.CheckTrivial("dropped:"+h.key, "errcheck-exempt", true, h.ci.Pos(), "confirmed exception: %s", why)
				continue
			}
			c.Check("dropped:"+h.key, "errcheck", false, h.ci.Pos(), "the error of %s is dropped on the commit/recovery path", objName(core.CalleeObj(h.ci)))
		}
		// an exemption whose construct disappeared is reported so that the table stays honest
		for k := range exempt {
			if !seenEx[k] {
				c.Note("C08.7 exemption %q no longer matches anything (may be deleted)", k)
			}
		}
	})

	// -----------------------------------------------------------------------------------------------------------------
	c.Clause("C08.8", "what the writer checksums the reader verifies: for both on-disk heads that carry a checksum (RecordHead in tmp.data/bitcask files, contextHead in context.data) the Crc field is (a) stored from a checksum computed over the payload and (b) compared with the recomputed checksum on every path that loads the record, a mismatch being an error")
	c.Run("checksum", func() {
		sum := c.FuncObj(st + ".CheckSum")
		type hd struct {
			name   string
			crc    *types.Var
			loader *ssa.Function
		}
		for _, h := range []hd{
			{"RecordHead", c.FieldVar(st+".RecordHead", "Crc"), c.Fn(st + ".FileUtilsRead")},
			{"contextHead", c.FieldVar(st+".contextHead", "Crc"), c.Fn(st + ".RunContext.load")},
		} {
			// (a) every store to Crc in the package is computed by CheckSum over a non-constant payload
			n, okA := 0, true
			for _, fn := range c.SrcFuncs {
				if core.RelPkg(fn) != st {
					continue
				}
				for _, s := range storesToO8(fn, h.crc) {
					n++
					sl := core.Slice(s.Val)
					good := false
					for v := range sl {
						if ci, isCall := v.(ssa.CallInstruction); isCall && core.SameFamily(core.CalleeObj(ci), sum) {
							if _, isConst := argN(ci, 0).(*ssa.Const); !isConst {
								good = true
							}
						}
					}
					if !good {
						okA = false
					}
				}
			}
			// a file that is replaced atomically (new content written and synced elsewhere, then renamed over) cannot be torn: then the
			// checksum is not what protects the reader, and a constant/unverified field is not a defect
			atomic := false
			if h.name == "contextHead" {
				fl := c.Fn(st + ".RunContext.flush")
				rn := core.CallsIn(fl, c.StdFunc("os", "Rename"))
				if len(rn) == 1 && len(core.CallsIn(fl, c.StdFunc("os", "File.Write"))) == 0 {
					a := rn[0].Common().Args
					atomic = core.SliceHasField(core.Slice(a[1]), c.FieldVar(st+".RunContext", "Path")) && !core.SliceHasField(core.Slice(a[0]), c.FieldVar(st+".RunContext", "Path")) || core.SliceHasField(core.Slice(a[1]), c.FieldVar(st+".RunContext", "Path")) && a[0] != a[1]
				}
			}
			if atomic {
				c.Check(h.name+":replaced-atomically", "atomic-replace", true, h.loader.Pos(), "%s's file is never rewritten in place: the writer renames a fully written and synced new file over it (shape checked in C08.1), so a reader sees the old or the new content", h.name)
				continue
			}
			c.Check(h.name+".Crc:written-from-payload", "checksum-written", okA && n >= 1, h.loader.Pos(), "%s.Crc is stored from CheckSum(payload) at each of its %d writer(s), not from a constant", h.name, n)
			// (b) the loader compares it: with the accepting edge of the comparison removed, no exit that hands out a record is reachable
			okB := false
			for _, g := range core.CondGuards(h.loader, nil) {
				if !core.SliceHasField(g.Slice, h.crc) || !core.SliceHasCall(g.Slice, sum) {
					continue
				}
				r := core.ReachCut(h.loader.Blocks[0], map[[2]*ssa.BasicBlock]bool{{g.If.Block(), g.OK}: true})
				bad := false
				for _, ret := range realReturns(h.loader) {
					if !r[ret.Block()] || core.ClassifyReturn(ret, nil, nil) == core.RetFailure {
						continue
					}
					// a successful exit that hands out no record at all (every non-error result nil) needs no checksum
					empty := len(ret.Results) > 1
					for i := 0; i < len(ret.Results)-1; i++ {
						if !core.IsNilConst(core.RetVal(ret, i)) {
							empty = false
						}
					}
					if !empty {
						bad = true
					}
				}
				if !bad {
					okB = true
				}
			}
			c.Check(h.name+".Crc:verified-on-load", "checksum-verified", okB, h.loader.Pos(), "%s recomputes CheckSum over the bytes read and rejects a record whose Crc differs, before any exit that hands out a record", shortFn(h.loader))
		}
		// the body that is decoded and handed out is the body whose checksum was compared
		rd := c.Fn(st + ".FileUtilsRead")
		dec := core.CallsIn(rd, c.FuncObj("common/rlp.DecodeBytes"))
		ok := len(dec) == 1
		if ok {
			buf := argN(dec[0], 0)
			ok = false
			for _, g := range core.CondGuards(rd, nil) {
				if !core.SliceHasField(g.Slice, c.FieldVar(st+".RecordHead", "Crc")) {
					continue
				}
				for v := range g.Slice {
					if ci, isCall := v.(ssa.CallInstruction); isCall && core.SameFamily(core.CalleeObj(ci), sum) && argN(ci, 0) == buf && g.GuardsAction(dec[0]) {
						ok = true
					}
				}
			}
		}
		c.Check("FileUtilsRead:decoded-body=checksummed-body", "value-flow", ok, rd.Pos(), "the buffer that is decoded is the buffer whose checksum was compared, and decoding happens only after the comparison accepted")
		// a short read is noticed: every call that reads from the file either is io.ReadFull/io.ReadAtLeast with its error heeded, or
		// is a plain Read/ReadAt whose byte count is looked at; and the body buffer has the length the head announces
		reads := 0
		for _, ci := range core.AllCalls(rd) {
			o := core.CalleeObj(ci)
			switch {
			case core.SameFamily(o, c.StdFunc("io", "ReadFull")), core.SameFamily(o, c.StdFunc("io", "ReadAtLeast")):
				reads++
				ok, why := heededOrReturned(ci)
				c.Check("FileUtilsRead:complete-read#"+string(rune('a'+reads-1)), "heeded-guard", ok, ci.Pos(), "an incomplete read of a record is an error: %s", orOK(why))
			case core.SameFamily(o, c.StdFunc("os", "File.Read")), core.SameFamily(o, c.StdFunc("os", "File.ReadAt")):
				reads++
				ok, why := heededOrReturned(ci)
				n := core.ResultValues(ci)[0]
				c.Check("FileUtilsRead:complete-read#"+string(rune('a'+reads-1)), "heeded-guard", ok && valueUsed(n), ci.Pos(), "a plain Read may return fewer bytes without an error: its count must be examined (%s)", orOK(why))
			}
		}
		c.Floor("FileUtilsRead/reads(head,body)", reads, 2)
		okLen := false
		if len(dec) == 1 {
			for v := range core.Slice(argN(dec[0], 0)) {
				if mk, isMk := v.(*ssa.MakeSlice); isMk && core.SliceHasField(core.Slice(mk.Len), c.FieldVar(st+".RecordHead", "Len")) {
					okLen = true
				}
			}
		}
		c.Check("FileUtilsRead:len(body)=head.Len", "value-flow", okLen, rd.Pos(), "the body buffer that is read, checksummed and decoded has the length announced by the head")
	})

	// -----------------------------------------------------------------------------------------------------------------
	c.Clause("C08.9", "an unlogged write ordered after a logged one is re-derived on recovery: the stable pointer put is not in the write-ahead batch (C08.3), so the replay path FileQueue.Start → scanFile → deliver → SyncFileDB.start → WriteExtend.After must reach leveldb.SetCurrentBlock through the write extension that BeansDB.Start actually installs")
	c.Run("recovery-hook", func() {
		after := c.Method(st+".WriteExtend", "After")
		nfq := c.FuncObj(st + ".NewFileQueue")
		var installed []*ssa.Function
		inst := map[string]bool{}
		for _, s := range c.CallSites(nfq) {
			if isTestHelper(c, s.Caller) {
				continue
			}
			a := argN(s.Instr, 2)
			mi, ok := a.(*ssa.MakeInterface)
			if !ok {
				c.Undecided("NewFileQueue(extend)@"+shortFn(s.Caller), "devirtualise", s.Instr.Pos(), "the write extension passed to NewFileQueue is not a concrete value")
				continue
			}
			obj, _, _ := types.LookupFieldOrMethod(mi.X.Type(), true, c.Pkg(st), "After")
			m, _ := obj.(*types.Func)
			if f := c.FuncOf(m); f != nil && f.Blocks != nil {
				installed = append(installed, f)
				inst[shortFn(f)] = true
			}
		}
		c.Floor("recovery-hook/installed-extensions", len(installed), 1)
		if len(installed) == 0 {
			return
		}
		devirt := map[*types.Func][]*ssa.Function{after: installed}
		r, dyn := reachFromDyn(c, []*ssa.Function{c.Fn(st + ".FileQueue.Start")}, devirt, nil)
		// positive controls: the engine does follow the replay path into the installed extension and out of it
		c.Check("recovery-hook:control:Start→SyncFileDB.start→afterWriteExtend", "reachability-control", r[c.Fn(st+".SyncFileDB.afterWriteExtend")] && r[c.Fn(st+".BitCask.Put")], token.NoPos, "the replay path reaches the asynchronous writer and its write extension call")
		ctl := true
		for _, f := range installed {
			if !r[f] {
				ctl = false
			}
		}
		c.Check("recovery-hook:control:installed-extension-reached", "reachability-control", ctl && r[c.Fn(st+".UtilsSetAssetCode")], token.NoPos, "the installed extension (%s) and what it calls are reached", sortedNames(inst))
		target := c.Fn(ldb + ".SetCurrentBlock")
		key := "WriteExtend(" + sortedNames(inst) + ")→leveldb.SetCurrentBlock"
		if r[target] {
			c.Check(key, "reachability", true, installed[0].Pos(), "replaying an ItemFlagBlock record can roll the stable pointer forward")
			return
		}
		// not reachable along resolved edges. The verdict is only sound if no unresolved call of a function value on the path could be
		// a function that reaches the target: look for a repository function of identical signature that does
		var suspects []string
		sigSeen := map[string]bool{}
		for _, ci := range dyn {
			sig := ci.Common().Signature()
			if sigSeen[sig.String()] {
				continue
			}
			sigSeen[sig.String()] = true
			for _, f := range c.SrcFuncs {
				fs := f.Signature
				if fs.Recv() != nil {
					fs = types.NewSignatureType(nil, nil, nil, fs.Params(), fs.Results(), fs.Variadic())
				}
				if !types.Identical(fs, types.NewSignatureType(nil, nil, nil, sig.Params(), sig.Results(), sig.Variadic())) {
					continue
				}
				if reachFrom(c, []*ssa.Function{f}, devirt, nil)[target] {
					suspects = append(suspects, shortFn(f)+" via "+c.Pos(ci.Pos()))
				}
			}
		}
		c.Note("C08.9: %d unresolved calls of function values on the replay path, %d distinct signatures, %d could denote a function that reaches SetCurrentBlock", len(dyn), len(sigSeen), len(suspects))
		if len(suspects) > 0 {
			sort.Strings(suspects)
			c.Undecided(key, "reachability", installed[0].Pos(), "not reachable along resolved calls, but a function value called on the replay path has the signature of a function that reaches the stable pointer: %v", suspects)
			return
		}
		c.Check(key, "reachability", false, installed[0].Pos(),
			"replaying an ItemFlagBlock record must be able to roll the stable pointer forward; the function that does it (ChainDatabase.commitStableBlock via AfterScan) is not reachable from the installed write extension")
	})

	c.Clause("C08.10", "a restarted node accepts what a node that never stopped accepts — the part of it that is reloaded state: NewBlockChain refills the replay guard with every stable block inside the life-time window (the reload clause of C04.2, evaluated here as well)")
	c.Run("guard-reload", func() { c04GuardReload(c) })

	c.NotDecidedf("behaviour under an actual crash or torn write: no write is interrupted, no file truncated, no state compared; the clauses are the orderings, heeded errors and reachability facts without which some crash point certainly loses or corrupts data")
	c.NotDecidedf("LevelDB's own durability: LevelDBDatabase.Put passes nil write options, so index entries, cursors and the stable pointer are not synced by the call that writes them (recorded as an assumption, not checked); goleveldb's recovery of its own log")
	c.NotDecidedf("equality of a restarted and a continuous node (same blocks accepted, same hashes); that Collect hands blockCommit every changed account; correctness of CheckSum as a checksum (16 bit); races on FileQueue.Offset (D16, C19)")
}

// errUsed: the error result of the call is used by some instruction (tested, returned, stored, passed on).
func errUsed(ci ssa.CallInstruction) bool {
	v := ci.Value()
	if v == nil {
		return false
	}
	sig := ci.Common().Signature()
	n := sig.Results().Len()
	used := func(x ssa.Value) bool {
		if x == nil || x.Referrers() == nil {
			return false
		}
		for _, r := range *x.Referrers() {
			if _, dbg := r.(*ssa.DebugRef); !dbg {
				return true
			}
		}
		return false
	}
	if n == 1 {
		return used(v)
	}
	rs := core.ResultValues(ci)
	for i := 0; i < n; i++ {
		if core.IsErrorType(sig.Results().At(i).Type()) && used(rs[i]) {
			return true
		}
	}
	return false
}

// storesToAnyIn lists the stores in fn (composite literals included) to field f.
func storesToAnyIn(fn *ssa.Function, f *types.Var) []*ssa.Store {
	return storesToO8(fn, f)
}

// c08PendingIndex: the rules on FileQueue.Index, the index of acknowledged writes the asynchronous writer has not persisted yet (readers
// consult it before the data file). Evaluated under C08 (durability) and C09 (the persisted account equals the stable view).
func c08PendingIndex(c *core.Ctx) {
	const st = "store"
	offset := c.FieldVar(st+".FileQueue", "Offset")
	_ = offset
	index := c.FieldVar(st+".FileQueue", "Index")
	refCnt := c.FieldVar(st+".item", "refCnt")
	delIndex := c.Fn(st + ".FileQueue.delIndex")
	// deletes from Index: only in delIndex, only for refCnt <= 1
	n := 0
	for _, fn := range c.SrcFuncs {
		if core.RelPkg(fn) != st {
			continue
		}
		for _, d := range builtinCalls(fn, "delete") {
			if !core.SliceHasField(core.Slice(d.Call.Args[0]), index) {
				continue
			}
			n++
			c.Check("delete(Index)@"+shortFn(fn), "who-may-call", fn == delIndex, d.Pos(), "entries leave the pending index only in FileQueue.delIndex")
			if fn != delIndex {
				continue
			}
			ok := false
			for _, ifi := range ifs(fn) {
				if edge, k := edgeWhen(ifi, isLoadOfField(refCnt), []int64{1}, []int64{2, 3, 4}); k && onlyVia(ifi, edge, d) {
					ok = true
				}
			}
			c.Check("delIndex:delete-only-if-refCnt<=1", "guarded-action", ok, d.Pos(), "an entry with further pending writes of the same key (refCnt > 1) stays in the index")
		}
	}
	c.Exactly("pending-index/delete(Index)", n, 1)
	// setIndex counts a second pending write of the same key
	set := c.Fn(st + ".FileQueue.setIndex")
	ok := false
	for _, s := range storesToO8(set, refCnt) {
		sl := core.Slice(s.Val)
		if core.SliceHasField(sl, refCnt) && core.SliceHasOp(sl, token.ADD) && core.SliceHasIntConst(sl, 1) && core.SliceHasField(sl, index) {
			ok = true
		}
	}
	c.Check("setIndex:refCnt=old+1", "value-flow", ok, set.Pos(), "a write to a key that is already pending increments the entry's count taken from the index")
	// ... and nobody puts an entry into the index without counting: every function that inserts into Index stores a refCnt computed
	// from the entry it replaces (old+1). An insert that starts again at 1 lets the first Done of that key remove the entry of a newer,
	// still pending write: readers then fall back to the data file and see the older value.
	nIns := 0
	for _, fn := range c.SrcFuncs {
		if core.RelPkg(fn) != st || isTestHelper(c, fn) {
			continue
		}
		ins := false
		var pos token.Pos
		for _, bb := range fn.Blocks {
			for _, in := range bb.Instrs {
				if mu, isMu := in.(*ssa.MapUpdate); isMu && core.SliceHasField(core.Slice(mu.Map), index) {
					// putting back the entry that was just looked up (delIndex after decrementing) is maintenance, not an insert
					back := false
					for v := range core.Slice(mu.Value) {
						if lk, isLk := v.(*ssa.Lookup); isLk && core.SliceHasField(core.Slice(lk.X), index) {
							back = true
						}
					}
					if !back {
						ins, pos = true, mu.Pos()
					}
				}
			}
		}
		if !ins {
			continue
		}
		nIns++
		counted := false
		for _, s := range storesToO8(fn, refCnt) {
			sl := core.Slice(s.Val)
			if core.SliceHasField(sl, refCnt) && core.SliceHasOp(sl, token.ADD) && core.SliceHasIntConst(sl, 1) && core.SliceHasField(sl, index) {
				counted = true
			}
		}
		c.Check("insert(Index)@"+shortFn(fn)+":counts-pending-writes", "value-flow", counted, pos, "%s inserts into the pending index; the entry's refCnt must be the replaced entry's count + 1", shortFn(fn))
	}
	c.Floor("pending-index/insert(Index)", nIns, 1)
	// who triggers delIndex
	closedCallersOwned(c, "FileQueue.delIndex", []string{"(*store.FileQueue).afterPut"}, c.Method(st+".FileQueue", "delIndex"))
	sites := closedCallersOwned(c, "FileQueue.afterPut", []string{"(*store.FileQueue).start"}, c.Method(st+".FileQueue", "afterPut"))
	c.Floor("pending-index/afterPut-sites", len(sites), 1)
	done := c.FieldVar(st+".FileQueue", "DoneChan")
	for _, s := range sites {
		a := argN(s.Instr, 0)
		if core.FuncName(core.Outer(s.Caller)) != "(*store.FileQueue).start" {
			continue
		}
		c.Check("afterPut(<-DoneChan)@"+shortFn(core.Outer(s.Caller)), "value-flow", a != nil && recvFromField(a, done), s.Instr.Pos(), "afterPut is given a record received from DoneChan")
	}
	// who sends on a channel of write operations
	inject := c.Named(st + ".Inject")
	senders := map[string]bool{}
	for _, fn := range c.SrcFuncs {
		for _, b := range fn.Blocks {
			for _, in := range b.Instrs {
				sd, isSend := in.(*ssa.Send)
				if !isSend {
					continue
				}
				ch, isCh := sd.Chan.Type().Underlying().(*types.Chan)
				if !isCh {
					continue
				}
				if p, isP := ch.Elem().(*types.Pointer); isP && types.Identical(p.Elem(), inject) {
					senders[core.FuncName(core.Outer(fn))] = true
				}
			}
		}
	}
	for name := range senders {
		c.Check("send(chan *Inject)@"+name, "who-may-call", name == "(*store.SyncFileDB).start", token.NoPos, "only the asynchronous writer reports records as done/failed")
	}
	c.Floor("pending-index/senders", len(senders), 1)
	// the channel the writer reports on is the queue's DoneChan
	nfq := c.Fn(st + ".NewFileQueue")
	ok = false
	for _, ci := range core.CallsIn(nfq, c.FuncObj(st+".NewSyncFileDB")) {
		for _, s := range storesToAnyIn(nfq, done) {
			if argN(ci, 2) != nil && core.Derived(s.Val)[argN(ci, 2)] || s.Val == argN(ci, 2) {
				ok = true
			}
		}
	}
	c.Check("NewFileQueue:SyncFileDB.DoneChan=FileQueue.DoneChan", "value-flow", ok, nfq.Pos(), "the writer's done channel is the channel the queue's index maintenance listens on")
}
