package rules

import (
	"go/constant"
	"go/token"
	"go/types"
	"sort"

	"golang.org/x/tools/go/ssa"

	"verif/lint/internal/core"
)

// Helpers for code that works through struct fields: calls of function values held in a field (`operation.execute(...)`,
// `evm.Context.Transfer(...)`), reads and writers of one field. Everything is identified by the field's types.Var.

// fieldLoadsOf lists the values in fn that carry the content of field f: `Field` instructions and loads of a `FieldAddr`.
func fieldLoadsOf(fn *ssa.Function, f *types.Var) []ssa.Value {
	var out []ssa.Value
	for _, b := range fn.Blocks {
		for _, in := range b.Instrs {
			if v, ok := in.(ssa.Value); ok && isFieldLoad(v, f) {
				out = append(out, v)
			}
		}
	}
	return out
}

// isFieldLoad: v is `x.f` as a value (f == nil: any field).
func isFieldLoad(v ssa.Value, f *types.Var) bool {
	g := loadedField(v)
	return g != nil && (f == nil || g == f)
}

// loadedField returns the field whose content v is (nil when v is not a field read).
func loadedField(v ssa.Value) *types.Var {
	switch x := v.(type) {
	case *ssa.Field:
		return core.FieldOf(x)
	case *ssa.UnOp:
		if x.Op == token.MUL {
			if fa, ok := x.X.(*ssa.FieldAddr); ok {
				return core.FieldOf(fa)
			}
		}
	}
	return nil
}

// fieldBase returns the struct value / struct pointer a field read selects from.
func fieldBase(v ssa.Value) ssa.Value {
	switch x := v.(type) {
	case *ssa.Field:
		return x.X
	case *ssa.UnOp:
		if fa, ok := x.X.(*ssa.FieldAddr); ok {
			return fa.X
		}
	}
	return nil
}

// calleeField returns the field a call's function value was read from (nil for static and interface calls).
func calleeField(ci ssa.CallInstruction) *types.Var {
	cc := ci.Common()
	if cc.IsInvoke() || cc.StaticCallee() != nil {
		return nil
	}
	v := cc.Value
	for i := 0; i < 4; i++ {
		if ct, ok := v.(*ssa.ChangeType); ok {
			v = ct.X
			continue
		}
		break
	}
	return loadedField(v)
}

// callsViaField lists the calls in fn whose callee is the function value held in field f.
func callsViaField(fn *ssa.Function, f *types.Var) []ssa.CallInstruction {
	var out []ssa.CallInstruction
	for _, ci := range core.AllCalls(fn) {
		if calleeField(ci) == f {
			out = append(out, ci)
		}
	}
	return out
}

// callBase is the struct the called function value was read from.
func callBase(ci ssa.CallInstruction) ssa.Value {
	v := ci.Common().Value
	for i := 0; i < 4; i++ {
		if ct, ok := v.(*ssa.ChangeType); ok {
			v = ct.X
			continue
		}
		break
	}
	return fieldBase(v)
}

// fieldStoresIn lists the stores in fn (not its closures) that assign field f.
func fieldStoresIn(fn *ssa.Function, f *types.Var) []*ssa.Store {
	var out []*ssa.Store
	for _, b := range fn.Blocks {
		for _, in := range b.Instrs {
			if st, ok := in.(*ssa.Store); ok {
				if fa, ok := st.Addr.(*ssa.FieldAddr); ok && core.FieldOf(fa) == f {
					out = append(out, st)
				}
			}
		}
	}
	return out
}

// fieldWriter is one assignment of a field somewhere in the repository.
type fieldWriter struct {
	Fn    *ssa.Function
	Store *ssa.Store
}

// fieldWritersAll scans every repository function (closures included) for assignments of field f. Test helpers are skipped.
func fieldWritersAll(c *core.Ctx, f *types.Var) []fieldWriter {
	var out []fieldWriter
	for _, fn := range c.SrcFuncs {
		if isTestHelper(c, fn) {
			continue
		}
		for _, st := range fieldStoresIn(fn, f) {
			out = append(out, fieldWriter{fn, st})
		}
	}
	return out
}

// closedFieldWriters: the functions assigning field f form a subset of allowed (names as printed by core.FuncName).
func closedFieldWriters(c *core.Ctx, key string, f *types.Var, allowed ...string) []fieldWriter {
	allow := map[string]bool{}
	for _, a := range allowed {
		allow[a] = true
	}
	expandAllowed(c, allow)
	ws := fieldWritersAll(c, f)
	seen := map[string]bool{}
	okBy := map[string]bool{}
	var names []string
	for _, w := range ws {
		n := core.FuncName(w.Fn)
		if !seen[n] {
			seen[n] = true
			names = append(names, n)
			// a private helper reached only from permitted writers writes on their behalf (extract-function does not widen the set)
			okBy[n] = allow[n] || ownedBy(c, w.Fn, allow, 0)
		}
	}
	sort.Strings(names)
	for _, n := range names {
		c.Check(key+"@"+n, "who-may-write", okBy[n], token.NoPos, "%s assigns field %s but is not in the frozen set of its writers (nor a private helper reached only from them)", n, f.Name())
	}
	return ws
}

// sameExpr: a and b certainly denote the same value — the same SSA value, or the same pure expression over the same
// operands (loads of a once-assigned cell, field reads, argument-less interface getters, conversions, constants).
func sameExprF(a, b ssa.Value) bool { return sameExprFD(a, b, 0) }

func sameExprFD(a, b ssa.Value, d int) bool {
	if a == b {
		return a != nil
	}
	if a == nil || b == nil || d > 8 {
		return false
	}
	switch x := a.(type) {
	case *ssa.Const:
		y, ok := b.(*ssa.Const)
		if !ok || !types.Identical(x.Type(), y.Type()) {
			return false
		}
		if x.Value == nil || y.Value == nil {
			return x.Value == nil && y.Value == nil
		}
		return constant.Compare(x.Value, token.EQL, y.Value)
	case *ssa.UnOp:
		y, ok := b.(*ssa.UnOp)
		if !ok || x.Op != y.Op {
			return false
		}
		if x.Op == token.MUL {
			if al, ok := x.X.(*ssa.Alloc); ok {
				return y.X == al && storesTo(al) <= 1
			}
			if fa, ok := x.X.(*ssa.FieldAddr); ok {
				fb, ok := y.X.(*ssa.FieldAddr)
				return ok && fa.Field == fb.Field && types.Identical(fa.X.Type(), fb.X.Type()) && sameExprFD(fa.X, fb.X, d+1)
			}
			return false
		}
		return sameExprFD(x.X, y.X, d+1)
	case *ssa.Field:
		y, ok := b.(*ssa.Field)
		return ok && x.Field == y.Field && sameExprFD(x.X, y.X, d+1)
	case *ssa.ChangeType:
		y, ok := b.(*ssa.ChangeType)
		return ok && types.Identical(x.Type(), y.Type()) && sameExprFD(x.X, y.X, d+1)
	case *ssa.Convert:
		y, ok := b.(*ssa.Convert)
		return ok && types.Identical(x.Type(), y.Type()) && sameExprFD(x.X, y.X, d+1)
	case *ssa.MakeInterface:
		y, ok := b.(*ssa.MakeInterface)
		return ok && types.Identical(x.Type(), y.Type()) && sameExprFD(x.X, y.X, d+1)
	case *ssa.Call:
		y, ok := b.(*ssa.Call)
		if !ok || !x.Call.IsInvoke() || !y.Call.IsInvoke() || x.Call.Method != y.Call.Method || len(x.Call.Args) != 0 || len(y.Call.Args) != 0 {
			return false
		}
		return sameExprFD(x.Call.Value, y.Call.Value, d+1)
	}
	return false
}

// storesTo counts the direct assignments of a local cell (in its function and the closures capturing it).
func storesTo(al *ssa.Alloc) int {
	n := 0
	if al.Referrers() == nil {
		return 0
	}
	for _, r := range *al.Referrers() {
		switch r := r.(type) {
		case *ssa.Store:
			if r.Addr == al {
				n++
			}
		case *ssa.MakeClosure:
			n += 2 // captured: a closure may assign it; do not treat two loads as equal
			if cf, ok := r.Fn.(*ssa.Function); ok {
				n -= 2
				for i, b := range r.Bindings {
					if b == al && i < len(cf.FreeVars) && freeVarAssigned(cf.FreeVars[i]) {
						n += 2
					}
				}
			}
		}
	}
	return n
}

func freeVarAssigned(fv *ssa.FreeVar) bool {
	if fv.Referrers() == nil {
		return false
	}
	for _, r := range *fv.Referrers() {
		switch r := r.(type) {
		case *ssa.Store:
			return true
		case *ssa.UnOp, *ssa.DebugRef, *ssa.FieldAddr, *ssa.IndexAddr:
		default:
			_ = r
			return true
		}
	}
	return false
}

// failEdgeOnlyFails: once value v (result of instruction g) has the rejecting outcome, every return the function can still
// reach (without running g again) is a failure return. Unlike core.MustPassOK this also works for guards inside loops and in
// functions with earlier successful exits.
func failEdgeOnlyFails(g ssa.Instruction, v ssa.Value, fw core.FailWhen, boolFail *bool) (bool, string) {
	tests := core.TestsOf(v, fw)
	if len(tests) == 0 {
		return false, "the result is never tested"
	}
	fn := g.Parent()
	var failVals map[ssa.Value]bool
	if fw == core.ErrNonNil {
		failVals = core.Derived(v)
	}
	why := "no test of the result is dominated by its computation"
	for _, t := range tests {
		if !core.Dominates(g, t.If) || t.Fail == t.OK {
			continue
		}
		bad := false
		if fw == core.ErrNonNil && t.Value != nil {
			if b, _ := core.FailEdgeBadReturns(t, t.Value, fw, map[*ssa.BasicBlock]bool{g.Block(): true}, boolFail); len(b) > 0 {
				bad = true
				why = "a possibly successful return is reachable from the rejecting edge"
			}
		} else {
			for _, ret := range core.Returns(fn) {
				if !core.CanReach(t.Fail, ret.Block(), g.Block()) {
					continue
				}
				if core.ClassifyReturn(ret, failVals, boolFail) != core.RetFailure {
					bad = true
					why = "a possibly successful return is reachable from the rejecting edge"
				}
			}
		}
		// every path from the computation to any later instruction passes this test: the test's block is the computation's
		// block or the only way out of it
		if !bad {
			return true, ""
		}
	}
	return false, why
}

// intConstOf returns the integer value of an SSA constant (through conversions).
func intConstOfF(v ssa.Value) (int64, bool) {
	for i := 0; i < 4; i++ {
		switch x := v.(type) {
		case *ssa.Convert:
			v = x.X
			continue
		case *ssa.ChangeType:
			v = x.X
			continue
		}
		break
	}
	k, ok := v.(*ssa.Const)
	if !ok || k.Value == nil || k.Value.Kind() != constant.Int {
		return 0, false
	}
	return constant.Int64Val(k.Value)
}
