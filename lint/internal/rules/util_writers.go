package rules

// Helpers for "who writes this field", "which test keeps this action away" and "what may run below this call".
// Used by C03 (finality) and C13 (mining schedule); generic, keyed by resolved entities only.

import (
	"go/constant"
	"go/token"
	"go/types"
	"sort"

	"golang.org/x/tools/go/ssa"

	"verif/lint/internal/core"
)

// storeSite is one store instruction into a struct field.
type storeSite struct {
	Fn    *ssa.Function
	St    *ssa.Store
	Field *types.Var
}

// fieldStoresInW3 lists the stores of fn (not its closures) whose address selects one of fields.
func fieldStoresInW3(fn *ssa.Function, fields ...*types.Var) []storeSite {
	var out []storeSite
	for _, b := range fn.Blocks {
		for _, in := range b.Instrs {
			st, ok := in.(*ssa.Store)
			if !ok {
				continue
			}
			f := core.FieldOf(st.Addr)
			if f == nil {
				continue
			}
			for _, w := range fields {
				if f == w {
					out = append(out, storeSite{fn, st, f})
				}
			}
		}
	}
	return out
}

// fieldStores lists every store into one of fields in the shipped code of the repository (closures included, test helpers skipped).
func fieldStores(c *core.Ctx, fields ...*types.Var) []storeSite {
	var out []storeSite
	for _, fn := range c.SrcFuncs {
		if isTestHelper(c, fn) {
			continue
		}
		out = append(out, fieldStoresInW3(fn, fields...)...)
	}
	return out
}

// structStores lists the stores of a whole value of the named struct type through a pointer that is not a fresh local cell
// (`*p = T{...}` overwrites every field at once and would escape a per-field writer scan).
func structStores(c *core.Ctx, named *types.Named) []storeSite {
	var out []storeSite
	for _, fn := range c.SrcFuncs {
		if isTestHelper(c, fn) {
			continue
		}
		for _, b := range fn.Blocks {
			for _, in := range b.Instrs {
				st, ok := in.(*ssa.Store)
				if !ok || !types.Identical(st.Val.Type(), named) {
					continue
				}
				if _, fresh := st.Addr.(*ssa.Alloc); fresh {
					continue
				}
				out = append(out, storeSite{fn, st, nil})
			}
		}
	}
	return out
}

// closedWriters checks writers(field) ⊆ allowed (names of the outermost enclosing functions as printed by core.FuncName).
// A vanished writer is fine, a new one is a violation. Returns the stores found.
func closedWriters(c *core.Ctx, key string, allowed []string, sites []storeSite) []storeSite {
	allow := map[string]bool{}
	for _, a := range allowed {
		allow[a] = true
	}
	expandAllowed(c, allow)
	seen := map[string]token.Pos{}
	for _, s := range sites {
		n := core.FuncName(core.Outer(s.Fn))
		if _, dup := seen[n]; !dup {
			seen[n] = s.St.Pos()
		}
	}
	var names []string
	for n := range seen {
		names = append(names, n)
	}
	sort.Strings(names)
	for _, n := range names {
		c.Check(key+"@"+n, "who-may-write", allow[n], seen[n], "%s writes %s but is not in the frozen set of permitted writers", n, key)
	}
	return sites
}

// actGuard is an If that dominates an action and one of whose edges cannot lead to the action (without coming back through the If).
type actGuard struct {
	If           *ssa.If
	Reject       *ssa.BasicBlock
	Accept       *ssa.BasicBlock
	RejectOnTrue bool
}

// actionGuards lists the tests that keep `action` away on one of their outcomes.
func actionGuards(action ssa.Instruction) []actGuard {
	var out []actGuard
	fn := action.Parent()
	for _, b := range fn.Blocks {
		if len(b.Instrs) == 0 || b == action.Block() || !b.Dominates(action.Block()) {
			continue
		}
		ifi, ok := b.Instrs[len(b.Instrs)-1].(*ssa.If)
		if !ok || b.Succs[0] == b.Succs[1] {
			continue
		}
		for k := 0; k < 2; k++ {
			rej, acc := b.Succs[k], b.Succs[1-k]
			if rej == action.Block() {
				continue
			}
			if !core.CanReach(rej, action.Block(), b) {
				out = append(out, actGuard{ifi, rej, acc, k == 0})
				break
			}
		}
	}
	return out
}

var negOpW3 = map[token.Token]token.Token{token.LSS: token.GEQ, token.LEQ: token.GTR, token.GTR: token.LEQ, token.GEQ: token.LSS, token.EQL: token.NEQ, token.NEQ: token.EQL}
var swapOp = map[token.Token]token.Token{token.LSS: token.GTR, token.LEQ: token.GEQ, token.GTR: token.LSS, token.GEQ: token.LEQ, token.EQL: token.EQL, token.NEQ: token.NEQ}

// cmpWhen returns the comparison `x op y` that holds when cond evaluates to `truth` (looking through `!`).
func cmpWhen(cond ssa.Value, truth bool) (op token.Token, x, y ssa.Value, ok bool) {
	for {
		if u, isU := cond.(*ssa.UnOp); isU && u.Op == token.NOT {
			cond, truth = u.X, !truth
			continue
		}
		break
	}
	b, isB := cond.(*ssa.BinOp)
	if !isB {
		return 0, nil, nil, false
	}
	if _, cmp := negOpW3[b.Op]; !cmp {
		return 0, nil, nil, false
	}
	op = b.Op
	if !truth {
		op = negOpW3[op]
	}
	return op, b.X, b.Y, true
}

// cmpOnAccept: the comparison that is known to hold on the accepting edge of g, normalised so that the operator is one of > >= == !=
// (a < b is returned as b > a).
func (g actGuard) cmpOnAccept() (op token.Token, x, y ssa.Value, ok bool) {
	op, x, y, ok = cmpWhen(g.If.Cond, !g.RejectOnTrue)
	if !ok {
		return
	}
	if op == token.LSS || op == token.LEQ {
		op, x, y = swapOp[op], y, x
	}
	return
}

// stripConvW3 looks through numeric conversions.
func stripConvW3(v ssa.Value) ssa.Value {
	for {
		switch x := v.(type) {
		case *ssa.Convert:
			v = x.X
		case *ssa.ChangeType:
			v = x.X
		default:
			return v
		}
	}
}

// sliceHasNumConst: does the slice contain a numeric (int or float) constant equal to n?
func sliceHasNumConst(sl map[ssa.Value]bool, n int64) bool {
	for v := range sl {
		k, ok := v.(*ssa.Const)
		if !ok || k.Value == nil {
			continue
		}
		if k.Value.Kind() != constant.Int && k.Value.Kind() != constant.Float {
			continue
		}
		if constant.Compare(k.Value, token.EQL, constant.MakeInt64(n)) {
			return true
		}
	}
	return false
}

// sliceCallOn: the slice contains a call that may call target and whose first argument (the receiver) is recv.
func sliceCallOn(sl map[ssa.Value]bool, target *types.Func, recv ssa.Value) bool {
	for v := range sl {
		ci, ok := v.(ssa.CallInstruction)
		if !ok || !core.SameFamily(core.CalleeObj(ci), target) {
			continue
		}
		cc := ci.Common()
		if cc.IsInvoke() {
			if cc.Value == recv {
				return true
			}
			continue
		}
		if len(cc.Args) > 0 && (cc.Args[0] == recv || core.Derived(recv)[cc.Args[0]]) {
			return true
		}
	}
	return false
}

// methodIndex groups the repository's concrete methods by name (for resolving interface calls by family).
func methodIndex(c *core.Ctx) map[string][]*ssa.Function {
	byName := map[string][]*ssa.Function{}
	for _, fn := range c.SrcFuncs {
		if o, ok := fn.Object().(*types.Func); ok && o.Type().(*types.Signature).Recv() != nil {
			byName[o.Name()] = append(byName[o.Name()], fn)
		}
	}
	return byName
}

// calleeFuncs resolves a call instruction to the repository functions it may run: the static callee (looking through bound-method
// wrappers), or for an interface call every concrete repository method of the same family.
func calleeFuncs(byName map[string][]*ssa.Function, ci ssa.CallInstruction) []*ssa.Function {
	cc := ci.Common()
	if cc.IsInvoke() {
		var out []*ssa.Function
		for _, cand := range byName[cc.Method.Name()] {
			if core.SameFamily(cc.Method, cand.Object().(*types.Func)) {
				out = append(out, cand)
			}
		}
		return out
	}
	if sc := cc.StaticCallee(); sc != nil {
		return []*ssa.Function{sc}
	}
	return nil
}

// reachBelow computes the functions that may run below the given roots: static callees, closures created, function values
// mentioned, and for interface calls every repository method of the same family, restricted to functions accepted by scope
// (synthetic wrappers are always looked through). Roots are included.
func reachBelow(c *core.Ctx, roots []*ssa.Function, scope func(fn *ssa.Function) bool) map[*ssa.Function]bool {
	byName := methodIndex(c)
	seen := map[*ssa.Function]bool{}
	var work []*ssa.Function
	push := func(fn *ssa.Function) {
		if fn == nil || fn.Blocks == nil || seen[fn] {
			return
		}
		if fn.Synthetic == "" && !scope(fn) {
			return
		}
		seen[fn] = true
		work = append(work, fn)
	}
	for _, r := range roots {
		if r != nil && r.Blocks != nil && !seen[r] {
			seen[r] = true
			work = append(work, r)
		}
	}
	for len(work) > 0 {
		fn := work[len(work)-1]
		work = work[:len(work)-1]
		for _, b := range fn.Blocks {
			for _, in := range b.Instrs {
				switch x := in.(type) {
				case *ssa.MakeClosure:
					if f, ok := x.Fn.(*ssa.Function); ok {
						push(f)
					}
				case ssa.CallInstruction:
					for _, f := range calleeFuncs(byName, x) {
						push(f)
					}
				}
				// function values passed along (method values, package functions used as values)
				for _, op := range in.Operands(nil) {
					if f, ok := (*op).(*ssa.Function); ok {
						push(f)
					}
				}
			}
		}
	}
	return seen
}
