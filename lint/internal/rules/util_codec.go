package rules

// Helpers for codec rules (C14): field-sensitive writes into structs, shapes (dynamic types) of interface-typed values,
// control conditions of a block in normalised comparison form, and a few type-set utilities. Everything is keyed by resolved
// entities (types.Var of fields, ssa values, constants by value) — never by text or position.

import (
	"go/constant"
	"go/token"
	"go/types"
	"reflect"
	"sort"

	"golang.org/x/tools/go/ssa"

	"verif/lint/internal/core"
)

// addrPath decomposes an address into its root value and the chain of selected fields, outermost first. An element step
// (IndexAddr) is recorded as nil.
func addrPath(addr ssa.Value) (root ssa.Value, path []*types.Var) {
	for {
		switch a := addr.(type) {
		case *ssa.FieldAddr:
			path = append([]*types.Var{core.FieldOf(a)}, path...)
			addr = a.X
		case *ssa.IndexAddr:
			path = append([]*types.Var{nil}, path...)
			addr = a.X
			// an element of a slice held in a field: continue through the load of that field
			if ld, ok := addr.(*ssa.UnOp); ok && ld.Op == token.MUL {
				if _, isFA := ld.X.(*ssa.FieldAddr); isFA {
					addr = ld.X
				}
			}
		default:
			return addr, path
		}
	}
}

// fieldWrite is one write into (a part of) the top-level field Top of a root object: a Store through a FieldAddr chain or
// a MapUpdate on the map held by the field. Vals are the written values (key and value for a map update).
type fieldWrite struct {
	Top   *types.Var
	Vals  []ssa.Value
	Instr ssa.Instruction
}

// fieldWrites lists the writes performed by fn into fields of the objects accepted by isRoot. A whole-object store
// `*root = *tmp` (tmp a local composite) makes tmp a root too, so `*l = T{...}` counts field by field.
func fieldWrites(fn *ssa.Function, isRoot func(ssa.Value) bool) []fieldWrite {
	extra := map[ssa.Value]bool{}
	for _, b := range fn.Blocks {
		for _, in := range b.Instrs {
			if st, ok := in.(*ssa.Store); ok && isRoot(st.Addr) {
				if ld, ok := st.Val.(*ssa.UnOp); ok && ld.Op == token.MUL {
					if al, ok := ld.X.(*ssa.Alloc); ok {
						extra[al] = true
					}
				}
			}
		}
	}
	root := func(v ssa.Value) bool { return isRoot(v) || extra[v] }
	var out []fieldWrite
	for _, b := range fn.Blocks {
		for _, in := range b.Instrs {
			switch x := in.(type) {
			case *ssa.Store:
				r, p := addrPath(x.Addr)
				if root(r) && len(p) > 0 && p[0] != nil {
					out = append(out, fieldWrite{p[0], []ssa.Value{x.Val}, x})
				}
			case *ssa.MapUpdate:
				if ld, ok := x.Map.(*ssa.UnOp); ok && ld.Op == token.MUL {
					r, p := addrPath(ld.X)
					if root(r) && len(p) > 0 && p[0] != nil {
						out = append(out, fieldWrite{p[0], []ssa.Value{x.Key, x.Value}, x})
					}
				}
			}
		}
	}
	return out
}

// allocsOf returns the local/heap cells of fn whose element type is identical to t.
func allocsOf(fn *ssa.Function, t types.Type) []*ssa.Alloc {
	var out []*ssa.Alloc
	for _, b := range fn.Blocks {
		for _, in := range b.Instrs {
			if al, ok := in.(*ssa.Alloc); ok {
				if types.Identical(al.Type().Underlying().(*types.Pointer).Elem(), t) {
					out = append(out, al)
				}
			}
		}
	}
	return out
}

// topFieldsRead returns the names of the fields of st that the slice reads directly off root (FieldAddr/Field whose operand is
// root, or a load of root).
func topFieldsRead(sl map[ssa.Value]bool, root ssa.Value, st *types.Struct) map[string]bool {
	idx := map[*types.Var]bool{}
	for i := 0; i < st.NumFields(); i++ {
		idx[st.Field(i)] = true
	}
	out := map[string]bool{}
	for v := range sl {
		f := core.FieldOf(v)
		if f == nil || !idx[f] {
			continue
		}
		var x ssa.Value
		switch fa := v.(type) {
		case *ssa.FieldAddr:
			x = fa.X
		case *ssa.Field:
			x = fa.X
			if ld, ok := x.(*ssa.UnOp); ok && ld.Op == token.MUL {
				x = ld.X
			}
		}
		if root == nil || x == root {
			out[f.Name()] = true
		}
	}
	return out
}

func unionSlices(vals []ssa.Value) map[ssa.Value]bool {
	out := map[ssa.Value]bool{}
	for _, v := range vals {
		for k := range core.Slice(v) {
			out[k] = true
		}
	}
	return out
}

func structField(st *types.Struct, name string) *types.Var {
	for i := 0; i < st.NumFields(); i++ {
		if st.Field(i).Name() == name {
			return st.Field(i)
		}
	}
	return nil
}

func deref(t types.Type) types.Type {
	if p, ok := t.Underlying().(*types.Pointer); ok {
		return p.Elem()
	}
	return t
}

// ifaceOperand unwraps MakeInterface / ChangeInterface: the concrete value handed over as an interface (nil if v is not a
// conversion of a concrete value).
func ifaceOperand(v ssa.Value) ssa.Value {
	for {
		switch x := v.(type) {
		case *ssa.MakeInterface:
			return x.X
		case *ssa.ChangeInterface:
			v = x.X
		default:
			return nil
		}
	}
}

// shapeSet is the set of dynamic shapes an interface-typed value can have: concrete types plus "nil".
type shapeSet struct {
	Nil     bool
	Types   []types.Type
	Unknown bool // a source the analysis does not follow (parameter, call result, field load)
}

func (s *shapeSet) add(t types.Type) {
	for _, o := range s.Types {
		if types.Identical(o, t) {
			return
		}
	}
	s.Types = append(s.Types, t)
}

func (s *shapeSet) has(t types.Type) bool {
	for _, o := range s.Types {
		if types.Identical(o, t) {
			return true
		}
	}
	return false
}

func (s *shapeSet) String() string {
	var parts []string
	q := func(p *types.Package) string { return p.Name() }
	for _, t := range s.Types {
		parts = append(parts, types.TypeString(t, q))
	}
	sort.Strings(parts)
	if s.Nil {
		parts = append(parts, "nil")
	}
	if s.Unknown {
		parts = append(parts, "?")
	}
	out := "{"
	for i, p := range parts {
		if i > 0 {
			out += ", "
		}
		out += p
	}
	return out + "}"
}

// shapesOf collects the dynamic shapes of an interface-typed value: MakeInterface operand types, nil constants, through phis.
func shapesOf(v ssa.Value, into *shapeSet) {
	seen := map[ssa.Value]bool{}
	var walk func(x ssa.Value)
	walk = func(x ssa.Value) {
		if x == nil || seen[x] {
			return
		}
		seen[x] = true
		switch y := x.(type) {
		case *ssa.MakeInterface:
			into.add(y.X.Type())
		case *ssa.ChangeInterface:
			walk(y.X)
		case *ssa.Const:
			if y.IsNil() {
				into.Nil = true
			} else {
				into.Unknown = true
			}
		case *ssa.Phi:
			for _, e := range y.Edges {
				walk(e)
			}
		default:
			into.Unknown = true
		}
	}
	walk(v)
}

// funcValue unwraps the conversions around a function value (ChangeType to a named func type, closures without bindings):
// the SSA function, or nil when v is a nil constant / not a static function.
func funcValue(v ssa.Value) *ssa.Function {
	for {
		switch x := v.(type) {
		case *ssa.Function:
			return x
		case *ssa.ChangeType:
			v = x.X
		case *ssa.MakeClosure:
			f, _ := x.Fn.(*ssa.Function)
			return f
		default:
			return nil
		}
	}
}

// samePkgClosure returns fn, its closures and every function of the same package it reaches through static calls.
func samePkgClosure(fn *ssa.Function) []*ssa.Function {
	seen := map[*ssa.Function]bool{}
	var out []*ssa.Function
	var walk func(f *ssa.Function)
	walk = func(f *ssa.Function) {
		if f == nil || seen[f] || f.Blocks == nil {
			return
		}
		seen[f] = true
		out = append(out, f)
		for _, a := range f.AnonFuncs {
			walk(a)
		}
		for _, ci := range core.AllCalls(f) {
			if sc := core.StaticFn(ci); sc != nil && core.RelPkg(sc) != "" && core.RelPkg(sc) == core.RelPkg(fn) {
				walk(sc)
			}
		}
	}
	walk(fn)
	return out
}

// ---------------------------------------------------------------------------------------------
// control conditions

// edgeCond is a condition that must have evaluated to Pol for control to reach a block.
type edgeCond struct {
	Cond ssa.Value
	Pol  bool
}

// controlConds walks from block b up the dominator tree and collects the conditions of the If edges that are the only way
// into each block on the way (joins are skipped to their immediate dominator, so every condition returned is necessary).
func controlConds(b *ssa.BasicBlock) []edgeCond {
	return controlCondsDepth(b, 0)
}

func controlCondsDepth(b *ssa.BasicBlock, depth int) []edgeCond {
	var out []edgeCond
	for steps := 0; b != nil && steps < 10000; steps++ {
		if len(b.Preds) == 1 {
			p := b.Preds[0]
			if len(p.Instrs) > 0 {
				if iff, ok := p.Instrs[len(p.Instrs)-1].(*ssa.If); ok && p.Succs[0] != p.Succs[1] {
					out = append(out, expandCond(edgeCond{iff.Cond, p.Succs[0] == b}, depth)...)
				}
			}
			b = p
			continue
		}
		b = b.Idom()
	}
	return out
}

// expandCond looks through the boolean phis go/ssa builds for `a && b` / `a || b` used as values: when the phi is known to
// be true (false) and all edges but one are the constant false (true), the remaining edge holds and so does everything
// needed to reach the block it came from.
func expandCond(e edgeCond, depth int) []edgeCond {
	phi, ok := e.Cond.(*ssa.Phi)
	if !ok || depth > 8 {
		return []edgeCond{e}
	}
	var rest []int
	for i, ed := range phi.Edges {
		if bc, isC := core.BoolConst(ed); isC && bc != e.Pol {
			continue
		}
		rest = append(rest, i)
	}
	if len(rest) != 1 {
		return []edgeCond{e}
	}
	i := rest[0]
	out := expandCond(edgeCond{phi.Edges[i], e.Pol}, depth+1)
	return append(out, controlCondsDepth(phi.Block().Preds[i], depth+1)...)
}

// normCmp is a comparison "X Op Y" known to hold.
type normCmp struct {
	Op   token.Token
	X, Y ssa.Value
}

var negOp = map[token.Token]token.Token{token.LSS: token.GEQ, token.GEQ: token.LSS, token.GTR: token.LEQ, token.LEQ: token.GTR, token.EQL: token.NEQ, token.NEQ: token.EQL}
var mirrorOp = map[token.Token]token.Token{token.LSS: token.GTR, token.GTR: token.LSS, token.LEQ: token.GEQ, token.GEQ: token.LEQ, token.EQL: token.EQL, token.NEQ: token.NEQ}

// holds turns the edge conditions into the comparisons (and plain boolean values) known to hold. Booleans are returned as
// {Op: token.ILLEGAL, X: value} with the polarity folded in only when it is positive; negative plain booleans are dropped.
func holds(conds []edgeCond) []normCmp {
	var out []normCmp
	for _, e := range conds {
		v, pol := e.Cond, e.Pol
		for {
			u, ok := v.(*ssa.UnOp)
			if !ok || u.Op != token.NOT {
				break
			}
			v, pol = u.X, !pol
		}
		if b, ok := v.(*ssa.BinOp); ok {
			if _, isCmp := negOp[b.Op]; isCmp {
				op := b.Op
				if !pol {
					op = negOp[op]
				}
				out = append(out, normCmp{op, b.X, b.Y})
				continue
			}
		}
		if pol {
			out = append(out, normCmp{token.ILLEGAL, v, nil})
		}
	}
	return out
}

func intConstOf(v ssa.Value) (int64, bool) {
	for {
		switch x := v.(type) {
		case *ssa.Convert:
			v = x.X
			continue
		case *ssa.ChangeType:
			v = x.X
			continue
		}
		break
	}
	k, ok := v.(*ssa.Const)
	if !ok || k.Value == nil || k.Value.Kind() != constant.Int {
		return 0, false
	}
	return constant.Int64Val(k.Value)
}

func isUnsigned(t types.Type) bool {
	b, ok := t.Underlying().(*types.Basic)
	return ok && b.Info()&types.IsUnsigned != 0
}

// holdsCmpConst: among the comparisons known to hold there is one between a value accepted by pred and the integer constant k
// with the relation op (one of LSS, GTR, EQL, NEQ), after normalising operand order, <=/>= against k∓1 and the unsigned
// idioms (!= 0 ≡ > 0, < 1 ≡ == 0).
func holdsCmpConst(hs []normCmp, op token.Token, k int64, pred func(v ssa.Value) bool) bool {
	for _, h := range hs {
		if h.Op == token.ILLEGAL {
			continue
		}
		x, y, o := h.X, h.Y, h.Op
		if _, isC := intConstOf(x); isC {
			x, y, o = y, x, mirrorOp[o]
		}
		n, isC := intConstOf(y)
		if !isC || !pred(x) {
			continue
		}
		// normalise to LSS / GTR / EQL / NEQ
		switch o {
		case token.LEQ:
			o, n = token.LSS, n+1
		case token.GEQ:
			o, n = token.GTR, n-1
		}
		if isUnsigned(x.Type()) {
			if o == token.NEQ && n == 0 {
				o = token.GTR
			}
			if o == token.LSS && n == 1 {
				o, n = token.EQL, 0
			}
		}
		if o == op && n == k {
			return true
		}
	}
	return false
}

// holdsCmp: a comparison with relation op between a value accepted by px and one accepted by py holds (operand order normalised).
func holdsCmp(hs []normCmp, op token.Token, px, py func(v ssa.Value) bool) bool {
	for _, h := range hs {
		if h.Op == token.ILLEGAL {
			continue
		}
		if h.Op == op && px(h.X) && py(h.Y) {
			return true
		}
		if mirrorOp[h.Op] == op && px(h.Y) && py(h.X) {
			return true
		}
	}
	return false
}

// holdsBool: a plain boolean accepted by pred is known to be true.
func holdsBool(hs []normCmp, pred func(v ssa.Value) bool) bool {
	for _, h := range hs {
		if h.Op == token.ILLEGAL && pred(h.X) {
			return true
		}
	}
	return false
}

// loadsOfGlobal returns the loads of package-level variable g in fn.
func loadsOfGlobal(fn *ssa.Function, g *types.Var) []*ssa.UnOp {
	var out []*ssa.UnOp
	for _, b := range fn.Blocks {
		for _, in := range b.Instrs {
			if u, ok := in.(*ssa.UnOp); ok && u.Op == token.MUL {
				if gl, ok := u.X.(*ssa.Global); ok && gl.Object() == g {
					out = append(out, u)
				}
			}
		}
	}
	return out
}

// raised reports whether the loaded sentinel ld is handed out by fn: it flows into a returned value, or into a store to the
// given sticky-error field (may be nil).
func raised(ld *ssa.UnOp, sticky *types.Var) bool {
	fn := ld.Parent()
	for _, r := range core.Returns(fn) {
		for i := range r.Results {
			if core.Slice(core.RetVal(r, i))[ld] {
				return true
			}
		}
	}
	if sticky != nil {
		for _, b := range fn.Blocks {
			for _, in := range b.Instrs {
				if st, ok := in.(*ssa.Store); ok && core.FieldOf(st.Addr) == sticky && core.Slice(st.Val)[ld] {
					return true
				}
			}
		}
	}
	return false
}

// implementsIface: T or *T implements the interface.
func implementsIface(n *types.Named, it *types.Interface) bool {
	return types.Implements(n, it) || types.Implements(types.NewPointer(n), it)
}

// errHeededAfter: the error result of call is tested after the call and every return reachable from the rejecting edge hands
// back a failure. Unlike core.CallHeeded it tolerates successful returns that precede the call (early exits on other inputs).
func errHeededAfter(call ssa.CallInstruction) (bool, string) {
	v := core.ErrResult(call)
	if v == nil {
		return false, "the call's error result is not used"
	}
	fail := core.Derived(v)
	why := "the call's error result is never tested after the call"
	for _, t := range core.TestsOf(v, core.ErrNonNil) {
		if !core.Dominates(call, t.If) || t.Fail == t.OK {
			continue
		}
		ok := true
		if t.Value != nil {
			bad, _ := core.FailEdgeBadReturns(t, t.Value, core.ErrNonNil, nil, nil)
			for _, r := range bad {
				if !wrapsFailure(r, fail) {
					ok = false
					why = "a possibly successful return is reachable from the rejecting edge"
				}
			}
		} else {
			for _, r := range core.Returns(call.Parent()) {
				if (r.Block() == t.Fail || core.CanReach(t.Fail, r.Block())) && core.ClassifyReturn(r, fail, nil) != core.RetFailure && !wrapsFailure(r, fail) {
					ok = false
					why = "a possibly successful return is reachable from the rejecting edge"
				}
			}
		}
		if ok {
			return true, ""
		}
	}
	return false, why
}

// wrapsFailure: the error handed back by r is the result of a repository function that is given a known non-nil error and,
// on every path, returns either a certain failure or that very parameter (an error-decorating wrapper).
func wrapsFailure(r *ssa.Return, fail map[ssa.Value]bool) bool {
	res := r.Parent().Signature.Results()
	for i := res.Len() - 1; i >= 0; i-- {
		if !core.IsErrorType(res.At(i).Type()) {
			continue
		}
		call, ok := core.RetVal(r, i).(*ssa.Call)
		if !ok {
			return false
		}
		callee := call.Call.StaticCallee()
		if callee == nil || callee.Blocks == nil || !core.InRepo(callee) {
			return false
		}
		for k, a := range call.Call.Args {
			if !fail[a] || k >= len(callee.Params) {
				continue
			}
			all := true
			for _, cr := range core.Returns(callee) {
				if core.ClassifyReturn(cr, nil, nil) == core.RetFailure {
					continue
				}
				last := len(cr.Results) - 1
				if last < 0 || core.RetVal(cr, last) != ssa.Value(callee.Params[k]) {
					all = false
				}
			}
			if all {
				return true
			}
		}
		return false
	}
	return false
}

// structTagGet reads one key of a struct tag.
func structTagGet(tag, key string) string { return reflect.StructTag(tag).Get(key) }
