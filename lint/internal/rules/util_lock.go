package rules

import (
	"go/token"

	"golang.org/x/tools/go/ssa"

	"verif/lint/internal/core"
)

// lockAnalysis builds the lockset analysis once per context.
func lockAnalysis(c *core.Ctx) *core.LockAnalysis {
	return core.NewLockAnalysis(c.Program, func(fn *ssa.Function) bool { return isTestHelper(c, fn) })
}

// lockDiscipline: every access to the listed fields of a struct (outside constructors working on a fresh allocation) holds
// lockKey — for writing when the access modifies the field or the map/slice it holds, at least for reading otherwise — on every
// path from every caller. Returns the number of functions with accesses.
func lockDiscipline(c *core.Ctx, la *core.LockAnalysis, typeSpec string, fields []string, lockKey string, writeOnly bool) int {
	fns := map[string]bool{}
	for _, f := range fields {
		fv := c.FieldVar(typeSpec, f)
		for _, acc := range c.FieldAccesses(fv, func(fn *ssa.Function) bool { return isTestHelper(c, fn) }) {
			if acc.Fresh {
				continue
			}
			mode := core.ReadHeld
			if acc.Write || writeOnly {
				mode = core.WriteHeld
			}
			fn := acc.Instr.Parent()
			name := shortFn(fn)
			fns[name] = true
			ok, why := la.Held(acc.Instr, lockKey, mode)
			kind := "read"
			if acc.Write {
				kind = "write"
			}
			c.Check("lock/"+f+"@"+name, "lockset", ok, acc.Instr.Pos(), "%s of %s.%s in %s must hold %s: %s", kind, typeSpec, f, name, lockKey, orOK(why))
		}
	}
	return len(fns)
}

// noReentry: no function in the listed packages acquires a mutex it already holds (directly or through static callees).
func noReentry(c *core.Ctx, la *core.LockAnalysis, pkgs map[string]bool) int {
	n := 0
	for _, fn := range c.SrcFuncs {
		if !pkgs[core.RelPkg(fn)] || isTestHelper(c, fn) {
			continue
		}
		n++
		for _, r := range la.Reentries(fn) {
			callee := "Lock"
			if r.Callee != nil {
				callee = shortFn(r.Callee)
			}
			c.Check("reentry/"+shortFn(fn)+"→"+callee+"#"+r.Key, "lock-reentry", false, r.Site.Pos(), "%s calls %s while holding %s, which acquires it again (sync mutexes are not reentrant: self-deadlock)", shortFn(fn), callee, r.Key)
		}
	}
	return n
}

var _ = token.NoPos
