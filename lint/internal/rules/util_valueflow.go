package rules

// Value-provenance helpers shared by the C10 (election) and C12 (assets) rules. Everything here works on resolved SSA
// values / types.Objects only; nothing matches text or positions.

import (
	"go/constant"
	"go/token"
	"go/types"

	"golang.org/x/tools/go/ssa"

	"verif/lint/internal/core"
)

// recvArgs normalises a call into (receiver, explicit arguments): for an interface invoke the receiver is Common().Value, for a
// static method call it is Args[0]; plain functions have a nil receiver.
func recvArgs(ci ssa.CallInstruction) (ssa.Value, []ssa.Value) {
	cc := ci.Common()
	if cc.IsInvoke() {
		return cc.Value, cc.Args
	}
	if sig := cc.Signature(); sig != nil && sig.Recv() != nil && len(cc.Args) > 0 {
		return cc.Args[0], cc.Args[1:]
	}
	return nil, cc.Args
}

// stripConvV10 looks through value-preserving conversions (Convert / ChangeType / MakeInterface).
func stripConvV10(v ssa.Value) ssa.Value {
	for {
		switch x := v.(type) {
		case *ssa.Convert:
			v = x.X
		case *ssa.ChangeType:
			v = x.X
		case *ssa.MakeInterface:
			v = x.X
		default:
			return v
		}
	}
}

// fieldLoad: v is `*(&base.f)` or `base.f`; returns the base value and the field.
func fieldLoad(v ssa.Value) (ssa.Value, *types.Var) {
	switch x := v.(type) {
	case *ssa.UnOp:
		if x.Op == token.MUL {
			if fa, ok := x.X.(*ssa.FieldAddr); ok {
				return fa.X, core.FieldOf(fa)
			}
		}
	case *ssa.Field:
		return x.X, core.FieldOf(x)
	}
	return nil, nil
}

// elemLoad: v is `*(&s[i])` (slice or array element read); returns s and i.
func elemLoad(v ssa.Value) (ssa.Value, ssa.Value) {
	if x, ok := v.(*ssa.UnOp); ok && x.Op == token.MUL {
		if ia, ok := x.X.(*ssa.IndexAddr); ok {
			return ia.X, ia.Index
		}
	}
	return nil, nil
}

// intConstIs reports whether v is the integer constant n.
func intConstIs(v ssa.Value, n int64) bool {
	c, ok := v.(*ssa.Const)
	if !ok || c.Value == nil || c.Value.Kind() != constant.Int {
		return false
	}
	i, exact := constant.Int64Val(c.Value)
	return exact && i == n
}

// constEquals reports whether v is a constant with the same value as the declared constant k.
func constEquals(v ssa.Value, k *types.Const) bool {
	c, ok := v.(*ssa.Const)
	if !ok || c.Value == nil || k == nil {
		return false
	}
	return constant.Compare(c.Value, token.EQL, k.Val())
}

// isCallOf: v is a call whose callee belongs to the family of target.
func isCallOf(v ssa.Value, target *types.Func) (ssa.CallInstruction, bool) {
	ci, ok := v.(ssa.CallInstruction)
	if !ok {
		return nil, false
	}
	return ci, core.SameFamily(core.CalleeObj(ci), target)
}

// sliceCallsWhere lists the calls in the slice whose callee object satisfies pred (used for "no second state read").
func sliceCallsWhere(sl map[ssa.Value]bool, pred func(f *types.Func) bool) []ssa.CallInstruction {
	var out []ssa.CallInstruction
	for v := range sl {
		if ci, ok := v.(ssa.CallInstruction); ok {
			if f := core.CalleeObj(ci); f != nil && pred(f) {
				out = append(out, ci)
			}
		}
	}
	return out
}

// pointeeSlice is the backward slice of v plus the slices of every value stored (before `use`) into a field of the object v
// points to when v is not a local cell (Slice already follows stores into Alloc cells): `p := f(); p.X = y; sink(p)`.
func pointeeSlice(v ssa.Value, use ssa.Instruction) map[ssa.Value]bool {
	out := core.Slice(v)
	for _, st := range fieldStoresInto(v, use) {
		for x := range core.Slice(st.Val) {
			out[x] = true
		}
	}
	return out
}

// fieldStoresInto lists the stores `d.f = val` (d carrying v unchanged) that can execute before `use`.
func fieldStoresInto(v ssa.Value, use ssa.Instruction) []*ssa.Store {
	var out []*ssa.Store
	for d := range core.Derived(v) {
		refs := d.Referrers()
		if refs == nil {
			continue
		}
		for _, r := range *refs {
			fa, ok := r.(*ssa.FieldAddr)
			if !ok || fa.X != d || fa.Referrers() == nil {
				continue
			}
			for _, r2 := range *fa.Referrers() {
				if st, ok := r2.(*ssa.Store); ok && st.Addr == fa && (use == nil || core.ReachableAfter(st, use)) {
					out = append(out, st)
				}
			}
		}
	}
	return out
}

// ifOf returns the If that ends block b (nil if none).
func ifOf(b *ssa.BasicBlock) *ssa.If {
	if len(b.Instrs) == 0 {
		return nil
	}
	i, _ := b.Instrs[len(b.Instrs)-1].(*ssa.If)
	return i
}

// edgeOnly: block `to` can only be entered from the (from→to) edge, i.e. it has exactly that one predecessor.
func edgeOnly(from, to *ssa.BasicBlock) bool {
	return len(to.Preds) == 1 && to.Preds[0] == from
}

// reachAvoiding: the set of blocks reachable from start (inclusive) without entering a block of avoid.
func reachAvoiding(start *ssa.BasicBlock, avoid map[*ssa.BasicBlock]bool) map[*ssa.BasicBlock]bool {
	seen := map[*ssa.BasicBlock]bool{}
	if avoid[start] {
		return seen
	}
	seen[start] = true
	stack := []*ssa.BasicBlock{start}
	for len(stack) > 0 {
		b := stack[len(stack)-1]
		stack = stack[:len(stack)-1]
		for _, s := range b.Succs {
			if !seen[s] && !avoid[s] {
				seen[s] = true
				stack = append(stack, s)
			}
		}
	}
	return seen
}

// reachCutV10: blocks reachable from the entry of fn when the listed CFG edges are removed.
func reachCutV10(fn *ssa.Function, cut map[[2]*ssa.BasicBlock]bool) map[*ssa.BasicBlock]bool {
	seen := map[*ssa.BasicBlock]bool{fn.Blocks[0]: true}
	stack := []*ssa.BasicBlock{fn.Blocks[0]}
	for len(stack) > 0 {
		b := stack[len(stack)-1]
		stack = stack[:len(stack)-1]
		for _, s := range b.Succs {
			if cut[[2]*ssa.BasicBlock{b, s}] || seen[s] {
				continue
			}
			seen[s] = true
			stack = append(stack, s)
		}
	}
	return seen
}

// callsLeadingTo lists the call instructions of fn that are a call of target, or a static call of a function of the same
// package that (transitively, depth ≤ 3) contains one. A helper extracted in the same package therefore counts as the operation.
func callsLeadingTo(fn *ssa.Function, target *types.Func) []ssa.CallInstruction {
	var out []ssa.CallInstruction
	var contains func(f *ssa.Function, depth int, seen map[*ssa.Function]bool) bool
	contains = func(f *ssa.Function, depth int, seen map[*ssa.Function]bool) bool {
		if f == nil || f.Blocks == nil || seen[f] || depth > 3 {
			return false
		}
		seen[f] = true
		if len(core.CallsIn(f, target)) > 0 {
			return true
		}
		for _, ci := range core.AllCalls(f) {
			if sc := core.StaticFn(ci); sc != nil && sc.Pkg == f.Pkg && contains(sc, depth+1, seen) {
				return true
			}
		}
		return false
	}
	for _, ci := range core.AllCalls(fn) {
		if core.SameFamily(core.CalleeObj(ci), target) {
			out = append(out, ci)
			continue
		}
		if sc := core.StaticFn(ci); sc != nil && sc.Pkg == fn.Pkg && contains(sc, 1, map[*ssa.Function]bool{}) {
			out = append(out, ci)
		}
	}
	return out
}

// errFails classifies one error-typed return operand at a Return: true when it is certainly non-nil there (a sentinel error
// variable, a freshly made error, or a value – possibly kept in a local cell – that is known non-nil because the block is only
// reachable through the `!= nil` edge of a test of it).
func errFails(v ssa.Value, at *ssa.BasicBlock) bool {
	v = core.ResolveSpill(v)
	if core.IsNilConst(v) {
		return false
	}
	switch x := v.(type) {
	case *ssa.MakeInterface:
		return true
	case *ssa.Call:
		if sc := x.Call.StaticCallee(); sc != nil && sc.Pkg != nil {
			switch sc.Pkg.Pkg.Path() + "." + sc.Name() {
			case "errors.New", "fmt.Errorf":
				return true
			}
		}
	case *ssa.UnOp:
		if x.Op == token.MUL {
			if g, ok := x.X.(*ssa.Global); ok && core.IsErrorType(g.Type().(*types.Pointer).Elem()) {
				return true
			}
			if al, ok := x.X.(*ssa.Alloc); ok && al.Referrers() != nil {
				// a local cell (closure-captured `err`): find the stores this load observes and ask whether the stored value is
				// known non-nil here (the `if err != nil` test reads the same cell through a sibling load)
				any, all := false, true
				for _, r := range *al.Referrers() {
					st, ok := r.(*ssa.Store)
					if !ok || st.Addr != al || !core.Derived(st.Val)[v] {
						continue
					}
					any = true
					if !core.KnownNonNilAt(st.Val, at) {
						all = false
					}
				}
				return any && all
			}
		}
	}
	return core.KnownNonNilAt(v, at)
}

// retRejects: the Return certainly hands back a non-nil error in one of its error-typed result positions.
func retRejects(r *ssa.Return) bool {
	res := r.Parent().Signature.Results()
	for i := 0; i < res.Len(); i++ {
		if core.IsErrorType(res.At(i).Type()) && errFails(r.Results[i], r.Block()) {
			return true
		}
	}
	return false
}

// noAcceptWithout: with the given edges removed, every Return still reachable from the entry rejects (retRejects). This is the
// multi-edge form of CondGuard.GuardsSuccess: "whenever all of these conditions hold the function refuses".
func noAcceptWithout(fn *ssa.Function, cut map[[2]*ssa.BasicBlock]bool) bool {
	r := reachCutV10(fn, cut)
	for _, ret := range core.Returns(fn) {
		if r[ret.Block()] && !retRejects(ret) {
			return false
		}
	}
	return true
}

// boolEdges normalises a boolean condition: it looks through `!` and returns the underlying value together with the successor
// index (0 = then, 1 = else) taken when that underlying value is true.
func boolEdges(cond ssa.Value) (ssa.Value, int) {
	idx := 0
	for {
		u, ok := cond.(*ssa.UnOp)
		if !ok || u.Op != token.NOT {
			return cond, idx
		}
		cond = u.X
		idx = 1 - idx
	}
}
