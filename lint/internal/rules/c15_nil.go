package rules

import (
	"go/constant"
	"go/token"
	"go/types"
	"strings"

	"golang.org/x/tools/go/ssa"

	"verif/lint/internal/core"
)

// c15Nil: clause C15.8 — pointers that come from the wire (JSON null, a length that does not fit) are nil-tested before use.
func c15Nil(c *core.Ctx) {
	c.Clause("C15.8", "pointers that may be nil because of what a peer sent are tested before use: every sub transaction of a decoded box is non-nil when GetBox succeeds, and the result of a network-package function that has a `return nil` path is nil-tested by every caller before it is dereferenced")
	c.Run("box-elements", func() {
		gb := c.Fn("chain/types.GetBox")
		sub := c.FieldVar("chain/types.Box", "SubTxList")
		ok := false
		for _, g := range core.CondGuards(gb, nil) {
			bo, isBo := g.If.Cond.(*ssa.BinOp)
			if !isBo || (bo.Op != token.EQL && bo.Op != token.NEQ) {
				continue
			}
			v := bo.X
			if core.IsNilConst(v) {
				v = bo.Y
			} else if !core.IsNilConst(bo.Y) {
				continue
			}
			if !core.SliceHasField(core.Slice(v), sub) {
				continue
			}
			// the test runs for every element, and the loop lies on every path to a successful return
			body, header := core.LoopOf(g.If.Block())
			if body == nil || !core.EveryIterationPasses(g.If) {
				continue
			}
			all := true
			for _, r := range core.Returns(gb) {
				if core.ClassifyReturn(r, nil, nil) == core.RetFailure {
					continue
				}
				if core.CanReach(gb.Blocks[0], r.Block(), header) {
					all = false
				}
			}
			if all {
				ok = true
			}
		}
		c.Check("GetBox:no-nil-sub-transaction", "guarded-action", ok, gb.Pos(), "GetBox succeeds only after every element of the decoded SubTxList was tested against nil (json accepts null for a pointer; every consumer calls methods on the elements)")
		// every reader of SubTxList outside package types' codec gets the box from GetBox
		n := 0
		for _, fn := range c.SrcFuncs {
			if isTestHelper(c, fn) || strings.HasPrefix(fn.Name(), "MarshalJSON") || strings.HasPrefix(fn.Name(), "UnmarshalJSON") || fn == gb {
				continue
			}
			for _, b := range fn.Blocks {
				for _, in := range b.Instrs {
					fa, isFA := in.(*ssa.FieldAddr)
					if !isFA || core.FieldOf(fa) != sub {
						continue
					}
					if addrWrittenC15(fa) {
						continue // building a box (MarshalBoxData)
					}
					n++
					fromGetBox := fromGetBoxDeep(c, fa.X, 0) || callerOnlyFromGetBox(c, fn, fa.X)
					c.Check("SubTxList-read@"+shortFn(fn), "value-flow", fromGetBox, fa.Pos(), "%s reads the sub transactions of a box that came from GetBox (which refuses null entries)", shortFn(fn))
				}
			}
		}
		c.Floor("SubTxList-readers", n, 4)
	})

	c.Run("off-curve-keys", func() {
		// crypto.ToECDSAPub returns a key with nil coordinates for bytes that are not a curve point (elliptic.Unmarshal's contract); the
		// repository's own callers test `.X == nil` — every caller must, before the key is handed on
		te := c.FuncObj("common/crypto.ToECDSAPub")
		n := 0
		for _, site := range c.CallSites(te) {
			if isTestHelper(c, site.Caller) || site.Instr.Value() == nil {
				continue
			}
			n++
			v := site.Instr.Value()
			var coordTests []core.Test
			var uses []ssa.Instruction
			for x := range core.Derived(v) {
				if x.Referrers() == nil {
					continue
				}
				for _, r := range *x.Referrers() {
					switch u := r.(type) {
					case *ssa.FieldAddr:
						if f := core.FieldOf(u); f != nil && (f.Name() == "X" || f.Name() == "Y") && u.Referrers() != nil {
							for _, ld := range *u.Referrers() {
								if lv, isLd := ld.(*ssa.UnOp); isLd {
									coordTests = append(coordTests, core.TestsOf(lv, core.IsNil)...)
								}
							}
						}
					case *ssa.DebugRef, *ssa.Store:
					case *ssa.BinOp:
					default:
						uses = append(uses, r)
					}
				}
			}
			ok := len(coordTests) > 0
			for _, u := range uses {
				guarded := false
				for _, t := range coordTests {
					if t.If.Block().Dominates(u.Block()) && t.If.Block() != u.Block() && !core.CanReach(t.Fail, u.Block(), t.If.Block()) {
						guarded = true
					}
				}
				if !guarded {
					ok = false
				}
			}
			c.Check("off-curve-key/ToECDSAPub@"+shortFn(site.Caller), "guarded-action", ok && len(uses) >= 0, site.Instr.Pos(), "%s must reject a key whose coordinates are nil (bytes that are not a curve point) before it hands the key on (%d uses, %d coordinate tests)", shortFn(site.Caller), len(uses), len(coordTests))
		}
		c.Floor("ToECDSAPub-call-sites", n, 2)
	})

	c.Run("stale-length-loops", func() {
		// a loop that indexes a slice field with a counter, shrinks or replaces that field in its body, but is bounded by a length read before
		// the loop runs past the end (index out of range = process crash in the block/confirm receive loops)
		scanned, loops := 0, 0
		for _, fn := range c.SrcFuncs {
			rel := core.RelPkg(fn)
			if (rel != "network" && rel != "network/p2p") || isTestHelper(c, fn) {
				continue
			}
			scanned++
			for _, h := range fn.Blocks {
				ifi, isIf := h.Instrs[len(h.Instrs)-1].(*ssa.If)
				if !isIf {
					continue
				}
				body, header := core.LoopOf(h)
				if body == nil || header != h {
					continue
				}
				bo, isBo := ifi.Cond.(*ssa.BinOp)
				if !isBo || (bo.Op != token.LSS && bo.Op != token.GTR && bo.Op != token.LEQ && bo.Op != token.GEQ) {
					continue
				}
				// the bound: the operand that is not the loop-carried counter
				var bound ssa.Value
				for _, op := range []ssa.Value{bo.X, bo.Y} {
					if phi, isPhi := op.(*ssa.Phi); isPhi && phi.Block() == h {
						continue
					}
					bound = op
				}
				if bound == nil {
					continue
				}
				bi, isInstr := bound.(ssa.Instruction)
				if !isInstr || body[bi.Block()] {
					continue // recomputed every iteration (or a parameter/constant)
				}
				// bound = len(load of field F) computed before the loop
				var f *types.Var
				for x := range core.Slice(bound) {
					if call, isCall := x.(*ssa.Call); isCall {
						if b, isB := call.Call.Value.(*ssa.Builtin); isB && b.Name() == "len" {
							for y := range core.Slice(call.Call.Args[0]) {
								if fv := core.FieldOf(y); fv != nil {
									if _, isSl := fv.Type().Underlying().(*types.Slice); isSl {
										f = fv
									}
								}
							}
						}
					}
				}
				if f == nil {
					continue
				}
				loops++
				// does the body assign F and index F?
				assigns, indexes := false, false
				for b := range body {
					for _, in := range b.Instrs {
						switch x := in.(type) {
						case *ssa.Store:
							if core.FieldOf(x.Addr) == f {
								assigns = true
							}
						case *ssa.IndexAddr:
							if core.SliceHasField(core.Slice(x.X), f) {
								indexes = true
							}
						}
					}
				}
				c.Check("stale-length/"+shortFn(fn)+"#"+f.Name(), "bounds", !(assigns && indexes), ifi.Pos(), "%s indexes %s in a loop bounded by a length read before the loop although the body assigns %s: the bound is stale after the first shrink", shortFn(fn), f.Name(), f.Name())
			}
		}
		c.Check("stale-length/scan", "bounds", scanned > 100, token.NoPos, "%d functions of network and network/p2p scanned, %d loops bounded by a pre-computed length of a slice field", scanned, loops)
	})

	c.Run("maybe-nil-results", func() {
		// functions of the network packages with a single pointer result, at least one `return nil` and at least one other return
		type cand struct {
			fn *ssa.Function
		}
		var cands []*ssa.Function
		for _, fn := range c.SrcFuncs {
			rel := core.RelPkg(fn)
			if (rel != "network" && rel != "network/p2p") || fn.Parent() != nil || isTestHelper(c, fn) {
				continue
			}
			res := fn.Signature.Results()
			if res.Len() != 1 {
				continue
			}
			if _, isPtr := res.At(0).Type().Underlying().(*types.Pointer); !isPtr {
				continue
			}
			nilRet, other := false, false
			for _, r := range core.Returns(fn) {
				if core.IsNilConst(core.RetVal(r, 0)) {
					nilRet = true
				} else {
					other = true
				}
			}
			if nilRet && other {
				cands = append(cands, fn)
			}
		}
		c.Floor("maybe-nil-functions", len(cands), 3)
		nSites := 0
		for _, fn := range cands {
			obj, _ := fn.Object().(*types.Func)
			if obj == nil {
				continue
			}
			for _, s := range c.CallSites(obj) {
				if isTestHelper(c, s.Caller) || s.Instr.Value() == nil {
					continue
				}
				nSites++
				v := s.Instr.Value()
				bad := derefWithoutNilTest(s.Instr, v)
				where := ""
				if bad != nil {
					where = c.Pos(bad.Pos())
				}
				c.Check("nil-result/"+shortFn(fn)+"@"+shortFn(s.Caller), "guarded-action", bad == nil, s.Instr.Pos(), "%s may return nil; %s must test the result before it dereferences it (offending use: %s)", shortFn(fn), shortFn(s.Caller), where)
			}
		}
		c.Floor("maybe-nil-call-sites", nSites, 5)
	})
}

func addrWrittenC15(fa *ssa.FieldAddr) bool {
	if fa.Referrers() == nil {
		return false
	}
	for _, r := range *fa.Referrers() {
		if st, ok := r.(*ssa.Store); ok && st.Addr == fa {
			return true
		}
	}
	return false
}

// callerOnlyFromGetBox: the box value is a parameter of fn and every caller passes a GetBox result (one level).
func callerOnlyFromGetBox(c *core.Ctx, fn *ssa.Function, box ssa.Value) bool {
	idx := -1
	for i, p := range fn.Params {
		if core.Slice(box)[p] {
			idx = i
		}
	}
	obj, _ := fn.Object().(*types.Func)
	if idx < 0 || obj == nil {
		return false
	}
	sites := c.CallSites(obj)
	if len(sites) == 0 {
		return false
	}
	for _, s := range sites {
		a := s.Instr.Common().Args
		if idx >= len(a) || !core.SliceHasCall(core.Slice(a[idx]), c.FuncObj("chain/types.GetBox")) {
			return false
		}
	}
	return true
}

// derefWithoutNilTest returns a use of pointer v (method call with v as receiver, field address, load, index) that is not dominated
// by a nil test of v whose nil edge cannot reach it. Passing v on, storing it, returning it and comparing it are not dereferences.
func derefWithoutNilTest(at ssa.Instruction, v ssa.Value) ssa.Instruction {
	d := core.Derived(v)
	for x := range d {
		if x.Referrers() == nil {
			continue
		}
		for _, r := range *x.Referrers() {
			deref := false
			switch u := r.(type) {
			case *ssa.FieldAddr:
				deref = u.X == x
			case *ssa.IndexAddr:
				deref = u.X == x
			case *ssa.UnOp:
				deref = u.Op == token.MUL && u.X == x
				if al, isAl := x.(*ssa.Alloc); isAl && al != nil {
					deref = false
				}
			case *ssa.Slice:
				deref = u.X == x
			case ssa.CallInstruction:
				cc := u.Common()
				if !cc.IsInvoke() && len(cc.Args) > 0 && cc.Args[0] == x && cc.Signature().Recv() != nil {
					// a method call on a nil pointer receiver panics only if the method dereferences it; pointer-receiver methods that
					// test for nil are rare here: count the call as a dereference
					deref = true
				}
			}
			if !deref {
				continue
			}
			ok, _ := core.ValueHeededBefore(at, v, core.IsNil, r)
			if !ok {
				return r
			}
		}
	}
	return nil
}

// fromGetBoxDeep: the value is the result of GetBox, or of a wrapper whose returned value is.
func fromGetBoxDeep(c *core.Ctx, v ssa.Value, depth int) bool {
	gb := c.FuncObj("chain/types.GetBox")
	sl := core.Slice(v)
	if core.SliceHasCall(sl, gb) {
		return true
	}
	if depth >= 2 {
		return false
	}
	for x := range sl {
		call, ok := x.(*ssa.Call)
		if !ok {
			continue
		}
		callee := core.StaticFn(call)
		if callee == nil || !core.InRepo(callee) || callee.Blocks == nil {
			continue
		}
		all, any := true, false
		for _, r := range core.Returns(callee) {
			if len(r.Results) == 0 || core.IsNilConst(core.RetVal(r, 0)) {
				continue
			}
			any = true
			if !fromGetBoxDeep(c, core.RetVal(r, 0), depth+1) {
				all = false
			}
		}
		if all && any {
			return true
		}
	}
	return false
}

// intDivisions lists the integer divisions / remainders of fn whose divisor is not a non-zero constant.
func intDivisions(fn *ssa.Function) []*ssa.BinOp {
	var out []*ssa.BinOp
	for _, b := range fn.Blocks {
		for _, in := range b.Instrs {
			bo, ok := in.(*ssa.BinOp)
			if !ok || (bo.Op != token.QUO && bo.Op != token.REM) {
				continue
			}
			bt, ok := bo.X.Type().Underlying().(*types.Basic)
			if !ok || bt.Info()&types.IsInteger == 0 {
				continue
			}
			if k, isC := bo.Y.(*ssa.Const); isC && k.Value != nil && constant.Sign(k.Value) != 0 {
				continue
			}
			out = append(out, bo)
		}
	}
	return out
}
