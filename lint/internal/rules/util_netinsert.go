package rules

import (
	"go/types"

	"golang.org/x/tools/go/ssa"

	"verif/lint/internal/core"
)

// netInsert is one place where the network layer hands a block to the chain: a direct BlockChain.InsertBlock call, or a call (plain,
// go or defer) of an unexported helper of package network that forwards one of its parameters to InsertBlock. Both shapes are the same
// behaviour — `pm.insertBlock(b)` today, `pm.mergeConfirmsFromCache(b); pm.chain.InsertBlock(b)` written out at the site after an
// inlining — so the rules about inserting (parent known, cached confirms merged first, verdict heeded) are stated on the site.
type netInsert struct {
	Fn      *ssa.Function       // the function that contains the site
	Call    ssa.CallInstruction // the call at the site
	Block   ssa.Value           // the block handed over, as a value of Fn
	Helper  *ssa.Function       // the forwarding helper, nil for a direct call
	Merged  bool                // mergeConfirmsFromCache(Block) precedes the chain call on every path to it
	Verdict bool                // the site's result is InsertBlock's result (always true for a direct call)
}

// netInserts lists the insert sites of root and of the function literals nested in it.
func netInserts(c *core.Ctx, root *ssa.Function) []netInsert {
	insert := c.Method("network.BlockChain", "InsertBlock")
	merge := c.Method("network.ProtocolManager", "mergeConfirmsFromCache")
	last := func(ci ssa.CallInstruction) ssa.Value {
		a := ci.Common().Args
		if len(a) == 0 {
			return nil
		}
		return a[len(a)-1]
	}
	mergedBefore := func(fn *ssa.Function, g ssa.CallInstruction, blk ssa.Value) bool {
		for _, m := range core.CallsIn(fn, merge) {
			if sameRead(last(m), blk) && core.Dominates(m, g) {
				return true
			}
		}
		return false
	}
	var out []netInsert
	for _, f := range core.Family(root) {
		for _, g := range core.AllCalls(f) {
			if core.SameFamily(core.CalleeObj(g), insert) {
				b := last(g)
				out = append(out, netInsert{Fn: f, Call: g, Block: b, Merged: mergedBefore(f, g, b), Verdict: true})
				continue
			}
			h := core.CalleeFn(g)
			if h == nil || h.Pkg == nil || f.Pkg == nil || h.Pkg != f.Pkg || len(h.Blocks) == 0 {
				continue
			}
			inner := core.CallsIn(h, insert)
			if len(inner) == 0 {
				continue
			}
			if h.Parent() != nil {
				// a function literal run at the site (`go func() { merge(b); InsertBlock(b) }()`): the block is a captured variable
				ni := netInsert{Fn: f, Call: g, Helper: h, Merged: true, Verdict: true}
				for _, i := range inner {
					v := capturedValue(last(i))
					if v == nil || (ni.Block != nil && ni.Block != v) {
						ni.Block, ni.Merged = nil, false
						break
					}
					ni.Block = v
					if !mergedBefore(h, i, last(i)) {
						ni.Merged = false
					}
				}
				out = append(out, ni)
				continue
			}
			if o, ok := h.Object().(*types.Func); !ok || o.Exported() {
				continue
			}
			k := -1
			for _, i := range inner {
				for pi, p := range h.Params {
					if last(i) == ssa.Value(p) && (k == -1 || k == pi) {
						k = pi
					}
				}
			}
			ga := g.Common().Args
			if k < 0 || k >= len(ga) {
				out = append(out, netInsert{Fn: f, Call: g, Helper: h})
				continue
			}
			ni := netInsert{Fn: f, Call: g, Block: ga[k], Helper: h, Merged: true, Verdict: true}
			for _, i := range inner {
				if last(i) != ssa.Value(h.Params[k]) {
					ni.Merged, ni.Verdict = false, false
				} else if !mergedBefore(h, i, h.Params[k]) {
					ni.Merged = false
				}
			}
			if !ni.Merged {
				ni.Merged = mergedBefore(f, g, ga[k])
			}
			// the helper reports the chain's verdict: every return value that is an error comes from InsertBlock
			for _, r := range core.Returns(h) {
				for ri := range r.Results {
					if !types.Identical(r.Results[ri].Type(), types.Universe.Lookup("error").Type()) {
						continue
					}
					if !core.SliceHasCall(core.Slice(r.Results[ri]), insert) {
						ni.Verdict = false
					}
				}
			}
			out = append(out, ni)
		}
	}
	return out
}

// capturedValue resolves a read of a captured variable inside a function literal to the one value the enclosing function stores in that
// variable (a parameter spilled to a cell, a local assigned once); nil when v is not such a read or the variable is assigned twice.
func capturedValue(v ssa.Value) ssa.Value {
	ld, ok := v.(*ssa.UnOp)
	if !ok {
		return nil
	}
	al := core.CellOf(ld.X)
	if al == nil || al.Parent() == ld.Parent() {
		return nil
	}
	var val ssa.Value
	n := 0
	for _, f := range core.Family(al.Parent()) {
		for _, b := range f.Blocks {
			for _, in := range b.Instrs {
				if st, isSt := in.(*ssa.Store); isSt && core.CellOf(st.Addr) == al {
					val = st.Val
					n++
				}
			}
		}
	}
	if n != 1 {
		return nil
	}
	return val
}

// sameRead: a and b are the same value, or two reads of one captured variable that is assigned once (go/ssa does not merge such loads).
func sameRead(a, b ssa.Value) bool {
	if a == nil || b == nil {
		return false
	}
	if a == b {
		return true
	}
	ca, cb := capturedValue(a), capturedValue(b)
	return ca != nil && ca == cb
}
