package rules

import (
	"go/token"

	"verif/lint/internal/core"
)

// c15Locks holds the two clauses of C15 that need the lockset engine; it is called from c15.
func c15Locks(c *core.Ctx) {
	la := lockAnalysis(c)

	c.Clause("C15.4", "no self-deadlock: no function reachable in the network, consensus, pool and store packages acquires a sync mutex it already holds (directly or through static callees)")
	c.Run("reentry", func() {
		scope := map[string]bool{"network": true, "network/p2p": true, "chain/consensus": true, "chain": true, "chain/txpool": true, "store": true, "chain/deputynode": true, "chain/account": true}
		n := noReentry(c, la, scope)
		c.Check("reentry/scan", "lock-reentry", n > 300, token.NoPos, "%d functions scanned for re-acquisition of a held mutex", n)
		// the two caches that deadlocked (D11) clear themselves through an unlocked helper
		for _, tm := range [][2]string{{"ConfirmCache", "Push"}, {"BlockCache", "Add"}} {
			key := "network." + tm[0] + ".lock"
			fn := c.Fn("network." + tm[0] + "." + tm[1])
			acq := la.Acquires(fn)
			c.Check("acquires/"+tm[0]+"."+tm[1], "lock-acquired", acq[key] == core.WriteHeld, fn.Pos(), "%s.%s takes its own mutex (any re-entry is reported by the scan)", tm[0], tm[1])
		}
	})

	c.Clause("C15.7", "maps touched by connection events are locked: every access to peerSet.peers and to the two message caches holds the owning mutex (an unsynchronised map iteration + write is a process-fatal runtime error)")
	c.Run("maps", func() {
		n := lockDiscipline(c, la, "network.peerSet", []string{"peers"}, "network.peerSet.lock", false)
		c.Floor("peerSet.peers/functions", n, 9)
		n = lockDiscipline(c, la, "network.ConfirmCache", []string{"cache"}, "network.ConfirmCache.lock", true)
		c.Floor("ConfirmCache.cache/functions", n, 4)
		n = lockDiscipline(c, la, "network.BlockCache", []string{"cache"}, "network.BlockCache.lock", true)
		c.Floor("BlockCache.cache/functions", n, 5)
	})
}
