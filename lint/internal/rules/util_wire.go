package rules

import (
	"go/constant"
	"go/token"
	"go/types"

	"golang.org/x/tools/go/ssa"

	"verif/lint/internal/core"
)

// ---------------------------------------------------------------------------------------------
// static evaluation of integers and slice lengths (compile-time constants, package-level variables that keep their
// initial value, make/slice expressions of known size)

type staticEval struct {
	c *core.Ctx
	// uses of package-level variables, built once: stores outside the package initialiser and address escapes
	globalDirty map[*ssa.Global]bool
	globalInit  map[*ssa.Global]ssa.Value
	built       bool
	// lenFacts: result length of resolved functions that always return a slice of a fixed length (trusted table)
	lenFacts map[*types.Func]int64
}

func newStaticEval(c *core.Ctx) *staticEval {
	return &staticEval{c: c, globalDirty: map[*ssa.Global]bool{}, globalInit: map[*ssa.Global]ssa.Value{}, lenFacts: map[*types.Func]int64{}}
}

func (e *staticEval) build() {
	if e.built {
		return
	}
	e.built = true
	scan := func(fn *ssa.Function, isPkgInit bool) {
		for _, b := range fn.Blocks {
			for _, in := range b.Instrs {
				for _, op := range in.Operands(nil) {
					g, ok := (*op).(*ssa.Global)
					if !ok {
						continue
					}
					switch x := in.(type) {
					case *ssa.UnOp:
						if x.Op == token.MUL {
							continue // a load
						}
					case *ssa.Store:
						if x.Addr == g && x.Val != ssa.Value(g) && isPkgInit {
							if _, twice := e.globalInit[g]; twice {
								e.globalDirty[g] = true
							}
							e.globalInit[g] = x.Val
							continue
						}
					}
					e.globalDirty[g] = true // stored to outside the initialiser, or its address is used
				}
			}
		}
	}
	for _, fn := range e.c.SrcFuncs {
		scan(fn, false)
	}
	for _, sp := range e.c.SSAPkg {
		if in := sp.Func("init"); in != nil {
			scan(in, true)
		}
	}
}

// GlobalValue returns the value a package-level variable is initialised with, provided nothing else in the repository
// assigns it or takes its address (nil otherwise).
func (e *staticEval) GlobalValue(g *ssa.Global) ssa.Value {
	e.build()
	if e.globalDirty[g] {
		return nil
	}
	return e.globalInit[g]
}

func stripConv(v ssa.Value) ssa.Value {
	for {
		switch x := v.(type) {
		case *ssa.Convert:
			v = x.X
		case *ssa.ChangeType:
			v = x.X
		default:
			return v
		}
	}
}

// builtinCall returns the arguments of a call of the named builtin (nil otherwise).
func builtinCall(v ssa.Value, name string) []ssa.Value {
	call, ok := v.(*ssa.Call)
	if !ok {
		return nil
	}
	b, ok := call.Call.Value.(*ssa.Builtin)
	if !ok || b.Name() != name {
		return nil
	}
	return call.Call.Args
}

// Int evaluates v to an integer known before the program handles any input.
func (e *staticEval) Int(v ssa.Value) (int64, bool) {
	return e.int(v, 0)
}

func (e *staticEval) int(v ssa.Value, depth int) (int64, bool) {
	if depth > 12 || v == nil {
		return 0, false
	}
	switch x := v.(type) {
	case *ssa.Const:
		if x.Value == nil || x.Value.Kind() != constant.Int {
			return 0, false
		}
		return constant.Int64Val(x.Value)
	case *ssa.Convert:
		n, ok := e.int(x.X, depth+1)
		if !ok || !fitsBasic(n, x.Type()) {
			return 0, false
		}
		return n, true
	case *ssa.ChangeType:
		return e.int(x.X, depth+1)
	case *ssa.BinOp:
		a, ok1 := e.int(x.X, depth+1)
		b, ok2 := e.int(x.Y, depth+1)
		if !ok1 || !ok2 {
			return 0, false
		}
		switch x.Op {
		case token.ADD:
			return a + b, true
		case token.SUB:
			return a - b, true
		case token.MUL:
			return a * b, true
		case token.QUO:
			if b != 0 {
				return a / b, true
			}
		case token.SHL:
			if b >= 0 && b < 62 {
				return a << uint(b), true
			}
		}
		return 0, false
	case *ssa.UnOp:
		if x.Op == token.MUL {
			if g, ok := x.X.(*ssa.Global); ok {
				if iv := e.GlobalValue(g); iv != nil {
					return e.int(iv, depth+1)
				}
			}
		}
		return 0, false
	case *ssa.Call:
		if a := builtinCall(x, "len"); a != nil {
			return e.len(a[0], depth+1)
		}
	}
	return 0, false
}

func fitsBasic(n int64, t types.Type) bool {
	b, ok := t.Underlying().(*types.Basic)
	if !ok || b.Info()&types.IsInteger == 0 {
		return false
	}
	switch b.Kind() {
	case types.Uint8:
		return n >= 0 && n < 1<<8
	case types.Uint16:
		return n >= 0 && n < 1<<16
	case types.Uint32:
		return n >= 0 && n < 1<<32
	case types.Uint, types.Uint64, types.Uintptr:
		return n >= 0
	case types.Int8:
		return n >= -1<<7 && n < 1<<7
	case types.Int16:
		return n >= -1<<15 && n < 1<<15
	case types.Int32, types.Int: // int is 32 bits on the narrow build configuration
		return n >= -1<<31 && n < 1<<31
	}
	return true
}

// Len evaluates the length of a slice value when it is fixed before any input is handled.
func (e *staticEval) Len(v ssa.Value) (int64, bool) { return e.len(v, 0) }

func (e *staticEval) len(v ssa.Value, depth int) (int64, bool) {
	if depth > 12 || v == nil {
		return 0, false
	}
	switch x := v.(type) {
	case *ssa.MakeSlice:
		return e.int(x.Len, depth+1)
	case *ssa.Slice:
		var base int64
		haveBase := false
		if p, ok := x.X.Type().Underlying().(*types.Pointer); ok {
			if a, ok := p.Elem().Underlying().(*types.Array); ok {
				base, haveBase = a.Len(), true
			}
		} else if _, ok := x.X.Type().Underlying().(*types.Slice); ok {
			base, haveBase = e.len(x.X, depth+1)
		}
		lo := int64(0)
		if x.Low != nil {
			var ok bool
			if lo, ok = e.int(x.Low, depth+1); !ok {
				return 0, false
			}
		}
		hi := base
		if x.High != nil {
			var ok bool
			if hi, ok = e.int(x.High, depth+1); !ok {
				return 0, false
			}
			if haveBase && hi > base {
				return 0, false
			}
		} else if !haveBase {
			return 0, false
		}
		if lo < 0 || hi < lo {
			return 0, false
		}
		return hi - lo, true
	case *ssa.UnOp:
		if x.Op == token.MUL {
			if g, ok := x.X.(*ssa.Global); ok {
				if iv := e.GlobalValue(g); iv != nil {
					return e.len(iv, depth+1)
				}
			}
		}
	case *ssa.Convert:
		if c, ok := x.X.(*ssa.Const); ok && c.Value != nil && c.Value.Kind() == constant.String {
			return int64(len(constant.StringVal(c.Value))), true
		}
	case *ssa.Call:
		if o := core.CalleeObj(x); o != nil {
			if n, ok := e.lenFacts[o.Origin()]; ok {
				return n, true
			}
		}
	}
	return 0, false
}

// ---------------------------------------------------------------------------------------------
// bounds established by dominating tests

// edgeHolds reports for the If ending block b whether outcome k (0 = condition true, 1 = false) is certain whenever
// `at` executes: b dominates at's block and the other successor cannot reach it without re-evaluating the test.
func edgeHolds(b *ssa.BasicBlock, k int, at ssa.Instruction) bool {
	if len(b.Succs) != 2 || b.Succs[0] == b.Succs[1] {
		return false
	}
	if b == at.Block() || !b.Dominates(at.Block()) {
		return false
	}
	return !core.CanReach(b.Succs[1-k], at.Block(), b)
}

// boundsAt collects the lower and upper bound that dominating comparisons `subject OP K` establish at instruction `at`.
// isSubject recognises the compared quantity; K must be statically evaluable.
func (e *staticEval) boundsAt(at ssa.Instruction, isSubject func(ssa.Value) bool) (lo int64, hasLo bool, hi int64, hasHi bool) {
	fn := at.Parent()
	for _, b := range fn.Blocks {
		if len(b.Instrs) == 0 {
			continue
		}
		ifi, ok := b.Instrs[len(b.Instrs)-1].(*ssa.If)
		if !ok {
			continue
		}
		cmp, ok := ifi.Cond.(*ssa.BinOp)
		if !ok {
			continue
		}
		op := cmp.Op
		var kv ssa.Value
		switch {
		case isSubject(cmp.X):
			kv = cmp.Y
		case isSubject(cmp.Y):
			kv = cmp.X
			op = mirror(op)
		default:
			continue
		}
		k, ok := e.Int(kv)
		if !ok {
			continue
		}
		for edge := 0; edge < 2; edge++ {
			if !edgeHolds(b, edge, at) {
				continue
			}
			o := op
			if edge == 1 {
				o = negate(o)
			}
			// subject o k holds at `at`
			switch o {
			case token.GTR:
				lo, hasLo = maxSet(lo, hasLo, k+1)
			case token.GEQ:
				lo, hasLo = maxSet(lo, hasLo, k)
			case token.LSS:
				hi, hasHi = minSet(hi, hasHi, k-1)
			case token.LEQ:
				hi, hasHi = minSet(hi, hasHi, k)
			case token.EQL:
				lo, hasLo = maxSet(lo, hasLo, k)
				hi, hasHi = minSet(hi, hasHi, k)
			}
		}
	}
	return
}

func maxSet(cur int64, has bool, v int64) (int64, bool) {
	if !has || v > cur {
		return v, true
	}
	return cur, true
}

func minSet(cur int64, has bool, v int64) (int64, bool) {
	if !has || v < cur {
		return v, true
	}
	return cur, true
}

func mirror(op token.Token) token.Token {
	switch op {
	case token.LSS:
		return token.GTR
	case token.GTR:
		return token.LSS
	case token.LEQ:
		return token.GEQ
	case token.GEQ:
		return token.LEQ
	}
	return op
}

func negate(op token.Token) token.Token {
	switch op {
	case token.LSS:
		return token.GEQ
	case token.GEQ:
		return token.LSS
	case token.GTR:
		return token.LEQ
	case token.LEQ:
		return token.GTR
	case token.EQL:
		return token.NEQ
	case token.NEQ:
		return token.EQL
	}
	return token.ILLEGAL
}

// isLenOf recognises len(x') where x' is the same expression as x.
func isLenOf(x ssa.Value) func(ssa.Value) bool {
	return func(v ssa.Value) bool {
		a := builtinCall(stripConv(v), "len")
		return a != nil && sameExpr(a[0], x, 0)
	}
}

// sameExpr: a and b certainly denote the same value: identical SSA values, or structurally identical side-effect free
// expressions over identical leaves (conversions, len, field loads of fields the function never stores to, arithmetic).
func sameExpr(a, b ssa.Value, depth int) bool {
	if a == b {
		return true
	}
	if a == nil || b == nil || depth > 8 {
		return false
	}
	switch x := a.(type) {
	case *ssa.Const:
		y, ok := b.(*ssa.Const)
		return ok && x.Value != nil && y.Value != nil && types.Identical(x.Type(), y.Type()) && constant.Compare(x.Value, token.EQL, y.Value)
	case *ssa.Convert:
		y, ok := b.(*ssa.Convert)
		return ok && types.Identical(x.Type(), y.Type()) && sameExpr(x.X, y.X, depth+1)
	case *ssa.ChangeType:
		y, ok := b.(*ssa.ChangeType)
		return ok && types.Identical(x.Type(), y.Type()) && sameExpr(x.X, y.X, depth+1)
	case *ssa.BinOp:
		y, ok := b.(*ssa.BinOp)
		return ok && x.Op == y.Op && sameExpr(x.X, y.X, depth+1) && sameExpr(x.Y, y.Y, depth+1)
	case *ssa.Call:
		ax, ay := builtinCall(x, "len"), builtinCall(b, "len")
		return ax != nil && ay != nil && sameExpr(ax[0], ay[0], depth+1)
	case *ssa.UnOp:
		y, ok := b.(*ssa.UnOp)
		if !ok || x.Op != y.Op {
			return false
		}
		if x.Op != token.MUL {
			return sameExpr(x.X, y.X, depth+1)
		}
		fx, okx := x.X.(*ssa.FieldAddr)
		fy, oky := y.X.(*ssa.FieldAddr)
		if !okx || !oky || core.FieldOf(fx) != core.FieldOf(fy) || !sameExpr(fx.X, fy.X, depth+1) {
			return false
		}
		return !storesField(x.Parent(), core.FieldOf(fx))
	case *ssa.Field:
		y, ok := b.(*ssa.Field)
		return ok && core.FieldOf(x) == core.FieldOf(y) && sameExpr(x.X, y.X, depth+1)
	}
	return false
}

// storesField: does fn (closures excluded) store to field f of any object?
func storesField(fn *ssa.Function, f *types.Var) bool {
	for _, b := range fn.Blocks {
		for _, in := range b.Instrs {
			if st, ok := in.(*ssa.Store); ok && core.FieldOf(st.Addr) == f {
				return true
			}
		}
	}
	return false
}
