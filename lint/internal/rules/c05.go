package rules

import (
	"go/token"
	"go/types"

	"golang.org/x/tools/go/ssa"

	"verif/lint/internal/core"
)

func init() { register("C05", c05) }

// sliceHasExpr: the slice contains a value that is (structurally) the expression x.
func sliceHasExpr(sl map[ssa.Value]bool, x ssa.Value) bool {
	if x == nil {
		return false
	}
	if sl[x] {
		return true
	}
	for v := range sl {
		if sameExprM(v, x) {
			return true
		}
	}
	return false
}

// balanceOf: v is (computed from) GetBalance() called on account acc; returns that call.
func balanceCallOn(c *core.Ctx, v ssa.Value, acc ssa.Value) ssa.CallInstruction {
	getBal := c.Method("chain/types.AccountAccessor", "GetBalance")
	for x := range core.Slice(v) {
		if ci, ok := x.(ssa.CallInstruction); ok && core.SameFamily(core.CalleeObj(ci), getBal) && core.Derived(acc)[recvValue(ci)] {
			return ci
		}
	}
	return nil
}

// sufficiencyBefore: the debit `acc.SetBalance(acc.GetBalance() - amount)` at `site` is dominated by a test that compares
// acc.GetBalance() with `amount` and lets only one outcome through.
func sufficiencyBefore(c *core.Ctx, site ssa.CallInstruction, acc, amount ssa.Value) bool {
	getBal := c.Method("chain/types.AccountAccessor", "GetBalance")
	for _, g := range core.EdgeGuardsOf(site) {
		okCmp, okBal := false, false
		for v := range g.Slice {
			ci, isCall := v.(ssa.CallInstruction)
			if !isCall {
				continue
			}
			if core.BigIntMethod(ci) == "Cmp" {
				a := ci.Common().Args
				if core.Derived(amount)[a[0]] || core.Derived(amount)[a[1]] {
					okCmp = true
				}
			}
			if core.SameFamily(core.CalleeObj(ci), getBal) && core.Derived(acc)[recvValue(ci)] {
				okBal = true
			}
		}
		if okCmp && okBal {
			return true
		}
	}
	return false
}

// movePair checks a debit/credit pair inside fn: exactly two SetBalance sites, `a.SetBalance(a.GetBalance() - X)` and
// `b.SetBalance(b.GetBalance() + X)` with the same SSA value X, the credited balance read after the debit was written.
// Returns (debit site, debited account, amount).
func movePair(c *core.Ctx, fn *ssa.Function) (ssa.CallInstruction, ssa.Value, ssa.Value) {
	setBal := c.Method("chain/types.AccountAccessor", "SetBalance")
	key := shortFn(fn)
	sites := core.CallsIn(fn, setBal)
	if len(sites) != 2 {
		c.Check(key+":pair", "amount-identity", false, fn.Pos(), "%s must hold exactly one debit and one credit (%d SetBalance sites)", key, len(sites))
		return nil, nil, nil
	}
	var debit, credit ssa.CallInstruction
	var dOp, cOp *bigOp
	for _, s := range sites {
		op := asBigOp(callArgs(s)[0])
		if op == nil {
			continue
		}
		switch op.name {
		case "Sub":
			debit, dOp = s, op
		case "Add":
			credit, cOp = s, op
		}
	}
	if debit == nil || credit == nil {
		c.Check(key+":pair", "amount-identity", false, fn.Pos(), "%s must hold one SetBalance(balance − x) and one SetBalance(balance + x)", key)
		return nil, nil, nil
	}
	dAcc, cAcc := recvValue(debit), recvValue(credit)
	dBal := balanceCallOn(c, dOp.x, dAcc)
	amount := dOp.y
	// credit: one operand is the credited account's balance, the other the amount
	var cBal ssa.CallInstruction
	var cAmt ssa.Value
	if b := balanceCallOn(c, cOp.x, cAcc); b != nil {
		cBal, cAmt = b, cOp.y
	} else if b := balanceCallOn(c, cOp.y, cAcc); b != nil {
		cBal, cAmt = b, cOp.x
	}
	c.Check(key+":debit=own-balance−amount", "amount-identity", dBal != nil, debit.Pos(), "the debited account is set to its own balance minus the amount")
	c.Check(key+":credit=own-balance+amount", "amount-identity", cBal != nil, credit.Pos(), "the credited account is set to its own balance plus the amount")
	same := cAmt != nil && (core.Derived(amount)[cAmt] || core.Derived(cAmt)[amount] || unwrap(localValue(amount)) == unwrap(localValue(cAmt)))
	c.Check(key+":same-amount", "amount-identity", same, credit.Pos(), "debit and credit move the same value (one SSA value on both sides)")
	c.Check(key+":accounts-differ", "amount-identity", dAcc != cAcc, credit.Pos(), "debit and credit are applied to two account values")
	c.Check(key+":credit-read-after-debit-write", "order", cBal != nil && core.Dominates(debit, cBal), credit.Pos(),
		"the credited balance is read after the debit was written (a transfer to oneself must not mint)")
	return debit, dAcc, amount
}

func c05(c *core.Ctx) {
	const tr = "chain/transaction"
	const cons = "chain/consensus"
	acc := func(m string) *types.Func { return c.Method("chain/types.AccountAccessor", m) }
	txm := func(m string) *types.Func { return c.Method("chain/types.Transaction", m) }

	c.Clause("C05.1", "the writers of an account balance are a closed, classified set: every call site of AccountAccessor.SetBalance (interface or implementation) lies in a frozen table of debit/credit pairs, gas bracket, mint, self-destruct, genesis and journal replay")
	c.Run("writers", func() {
		closedSites(c, "SetBalance", acc("SetBalance"), map[string]siteClass{
			tr + ".Transfer":                                 {2, "pair: sender −x, recipient +x"},
			tr + ".Refund":                                   {2, "pair: deposit pool −x, candidate +x"},
			"(*" + tr + ".TxProcessor).buyGas":               {1, "gas: payer −limit×price"},
			"(*" + tr + ".TxProcessor).refundGas":            {1, "gas: payer +rest×price"},
			"(*" + tr + ".TxProcessor).chargeForGas":         {1, "gas: miner income +Σused×price"},
			"(*" + cons + ".BlockAssembler).issueTermReward": {1, "mint: term reward"},
			"chain/vm.opSuicide":                             {1, "move: beneficiary +balance of the destroyed contract"},
			"(*chain.Genesis).ToBlock":                       {1, "genesis allocation"},
			"(*chain/account.SafeAccount).SetBalance":        {1, "journalling wrapper → raw account"},
			"(*chain/account.Account).SetSuicide":            {1, "self-destruct zeroes the balance"},
			"chain/account.redoBalance":                      {1, "journal replay"},
			"chain/account.undoBalance":                      {1, "journal undo"},
			"chain/account.undoSuicide":                      {1, "journal undo"},
		})
		// the LEMO-moving function values: vm.Context.Transfer / CandidateVoteEnv.Transfer only ever hold transaction.Transfer
		for _, f := range [][3]string{{"chain/vm.Context", "Transfer", tr + ".Transfer"}, {"chain/vm.Context", "CanTransfer", tr + ".CanTransfer"},
			{tr + ".CandidateVoteEnv", "Transfer", tr + ".Transfer"}, {tr + ".CandidateVoteEnv", "CanTransfer", tr + ".CanTransfer"}} {
			want := c.FuncOf(c.FuncObj(f[2]))
			vals, at := fieldWriters(c, c.FieldVar(f[0], f[1]))
			for i, v := range vals {
				fnv, _ := unwrap(v).(*ssa.Function)
				c.Check("hook:"+f[0]+"."+f[1]+"←"+core.FuncName(core.Outer(at[i].Parent())), "who-may-write", fnv != nil && fnv == want, at[i].Pos(),
					"field %s.%s must only ever be bound to %s", f[0], f[1], f[2])
			}
			c.Floor("hook:"+f[0]+"."+f[1], len(vals), 1)
		}
	})

	c.Clause("C05.2", "debit/credit pairs move one amount: in Transfer and Refund the subtraction and the addition take the same SSA value, each on the account's own balance, and the credited balance is read after the debit is written; opSuicide credits exactly the balance of the account it then zeroes")
	var transferDebit, refundDebit, buyDebit ssa.CallInstruction
	var refundPool, refundAmount, buyPayer, buyFee ssa.Value
	c.Run("pairs", func() {
		transferDebit, _, _ = movePair(c, c.Fn(tr+".Transfer"))
		tfn := c.Fn(tr + ".Transfer")
		if transferDebit != nil {
			// the amount is the function's own parameter and the accounts are looked up by the sender / recipient parameters
			op := asBigOp(callArgs(transferDebit)[0])
			c.Check("Transfer:amount-is-parameter", "value-flow", op != nil && op.y == tfn.Params[3], transferDebit.Pos(), "Transfer debits the amount it was called with")
		}
		refundDebit, refundPool, refundAmount = movePair(c, c.Fn(tr+".Refund"))

		// self-destruct
		fn := c.Fn("chain/vm.opSuicide")
		sets := core.CallsIn(fn, acc("SetBalance"))
		suic := core.CallsIn(fn, acc("SetSuicide"))
		if len(sets) != 1 || len(suic) != 1 {
			c.Check("opSuicide:shape", "amount-identity", false, fn.Pos(), "opSuicide must hold one credit and one SetSuicide (%d/%d)", len(sets), len(suic))
			return
		}
		victim := recvValue(suic[0])
		op := asBigOp(callArgs(sets[0])[0])
		okAmt := false
		if op != nil && op.name == "Add" {
			ben := recvValue(sets[0])
			x, y := op.x, op.y
			if balanceCallOn(c, x, ben) == nil {
				x, y = y, x
			}
			okAmt = balanceCallOn(c, x, ben) != nil && balanceCallOn(c, y, victim) != nil && balanceCallOn(c, y, ben) == nil
		}
		c.Check("opSuicide:credit=beneficiary+victim-balance", "amount-identity", okAmt, sets[0].Pos(), "the beneficiary receives its own balance plus the balance of the contract being destroyed")
		bv, isC := core.BoolConst(callArgs(suic[0])[0])
		c.Check("opSuicide:victim-zeroed-after-credit", "order", isC && bv && core.AlwaysFollowedBy(sets[0], suic[0]), suic[0].Pos(), "after the credit every path marks the contract destroyed (SetSuicide(true))")
		// SetSuicide(true) zeroes the balance
		ss := c.Fn("chain/account.Account.SetSuicide")
		z := core.CallsIn(ss, acc("SetBalance"))
		okZ := len(z) == 1 && isZeroBig(c, callArgs(z[0])[0]) && recvValue(z[0]) == ss.Params[0]
		if okZ {
			okZ = false
			for _, g := range core.EdgeGuardsOf(z[0]) {
				if g.If.Cond == ss.Params[1] && g.OnTrue {
					okZ = true
				}
			}
		}
		c.Check("Account.SetSuicide:zeroes-balance", "amount-identity", okZ, ss.Pos(), "SetSuicide(true) sets the balance of the same account to zero")
		// the journalling wrapper forwards the same value to the raw account
		sb := c.Fn("chain/account.SafeAccount.SetBalance")
		w := core.CallsIn(sb, acc("SetBalance"))
		c.Check("SafeAccount.SetBalance:forwards", "value-flow", len(w) == 1 && callArgs(w[0])[0] == sb.Params[1] && core.AlwaysFollowedBy(sb.Blocks[0].Instrs[0], w[0]), sb.Pos(),
			"SafeAccount.SetBalance hands its argument to the raw account on every path")
	})

	c.Clause("C05.3", "gas bracket: applyTx buys gas (heeded) → pays intrinsic gas (heeded) → handles the tx (heeded) → refunds, with one tx value throughout; buyGas debits limit×price of that tx's payer, refundGas credits rest×price of the same tx's payer, handleTx reports used = limit − rest (+ sub-tx gas); Process/ApplyTxs/RunBoxTxs accumulate gas×GasPrice() of the applied tx and call chargeForGas once, after the loop, on every successful exit; Process rejects tx.GasUsed() ≠ gas")
	c.Run("bracket", func() {
		apply := c.Fn(tr + ".TxProcessor.applyTx")
		buy := c.Method(tr+".TxProcessor", "buyGas")
		pay := c.Method(tr+".TxProcessor", "payIntrinsicGas")
		handle := c.Method(tr+".TxProcessor", "handleTx")
		refund := c.Method(tr+".TxProcessor", "refundGas")
		txParam := apply.Params[3]

		gBuy, why := heededDeep(apply, buy, 2)
		c.Check("applyTx→buyGas", "heeded-guard", gBuy != nil, apply.Pos(), "no successful exit of applyTx without buyGas having accepted: %s", orOK(why))
		gPay, why := heededDeep(apply, pay, 2)
		c.Check("applyTx→payIntrinsicGas", "heeded-guard", gPay != nil, apply.Pos(), "no successful exit of applyTx without payIntrinsicGas having accepted: %s", orOK(why))
		hs := core.CallsIn(apply, handle)
		rs := core.CallsIn(apply, refund)
		if len(hs) != 1 || len(rs) != 1 || gBuy == nil || gPay == nil {
			c.Check("applyTx:shape", "order", false, apply.Pos(), "applyTx must call handleTx and refundGas exactly once (%d/%d)", len(hs), len(rs))
			return
		}
		h, r := hs[0], rs[0]
		ok, why := core.CallHeeded(h, core.ErrNonNil, nil)
		c.Check("applyTx→handleTx", "heeded-guard", ok, h.Pos(), "an execution error must not reach the successful exit: %s", orOK(why))
		// order buy ≺ pay inside the function that holds both
		if hb := holder(apply, buy, 2); hb != nil && hb == holder(apply, pay, 2) {
			ordered(c, hb, buy, pay)
		} else {
			c.Check("applyTx:buyGas≺payIntrinsicGas", "order", gBuy != gPay && core.Dominates(gBuy, gPay), gPay.Pos(), "gas is bought before intrinsic gas is deducted")
		}
		c.Check("applyTx:buy≺handleTx≺refundGas", "order", core.Dominates(gBuy, h) && core.Dominates(gPay, h) && core.Dominates(h, r), r.Pos(), "gas is bought before and refunded after execution")
		mustCall(c, apply, refund, nil)
		// one transaction throughout
		sameTx := func(ci ssa.CallInstruction) bool {
			for _, a := range ci.Common().Args {
				if a == txParam {
					return true
				}
			}
			return false
		}
		c.Check("applyTx:one-tx", "value-flow", sameTx(gBuy) && sameTx(gPay) && sameTx(h) && sameTx(r), apply.Pos(), "buy, intrinsic, execution and refund are given applyTx's own tx parameter")
		// rest gas threads through: pay's result → handleTx → refundGas; the returned gas is handleTx's gasUsed
		hr := core.ResultValues(h)
		ra := callArgs(r)
		c.Check("applyTx:refund(handleTx rest)", "value-flow", len(hr) == 4 && hr[0] != nil && core.Derived(hr[0])[ra[len(ra)-1]], r.Pos(), "refundGas returns exactly the rest gas reported by handleTx")
		okRet := true
		nSucc := 0
		for _, ret := range core.Returns(apply) {
			if core.ClassifyReturn(ret, nil, nil) == core.RetFailure {
				continue
			}
			nSucc++
			if len(hr) != 4 || hr[1] == nil || !core.Derived(hr[1])[core.RetVal(ret, 0)] {
				okRet = false
			}
		}
		c.Check("applyTx:returns(handleTx used)", "value-flow", okRet && nSucc >= 1, apply.Pos(), "the gas applyTx reports is the used gas computed by handleTx")
		// the rest gas given to handleTx is what the intrinsic-gas payment left
		pr := core.ResultValues(gPay)
		okRest := false
		if len(pr) > 0 && pr[0] != nil {
			for _, a := range callArgs(h) {
				if core.Derived(pr[0])[a] || core.SliceShallow(a)[pr[0]] {
					okRest = true
				}
			}
		}
		c.Check("applyTx:handleTx(rest after intrinsic)", "value-flow", okRest, h.Pos(), "execution starts with the gas left after the intrinsic payment")

		// handleTx: used = GasLimit() − rest (+ sub-tx gas), with rest the value it returns
		hf := c.Fn(tr + ".TxProcessor.handleTx")
		okUsed, nRet := true, 0
		for _, ret := range core.Returns(hf) {
			if core.ClassifyReturn(ret, nil, nil) == core.RetFailure {
				continue
			}
			nRet++
			rest, used := core.RetVal(ret, 0), core.RetVal(ret, 1)
			found := false
			for v := range core.Slice(used) {
				b, isB := v.(*ssa.BinOp)
				if isB && b.Op == token.SUB && b.Y == rest && core.SliceHasCall(core.Slice(b.X), txm("GasLimit")) && core.Slice(b.X)[hf.Params[1]] {
					found = true
				}
			}
			if !found {
				okUsed = false
			}
		}
		c.Check("handleTx:used=limit−rest", "amount-identity", okUsed && nRet >= 1, hf.Pos(), "handleTx reports used gas as the tx's gas limit minus the very rest gas it returns")

		// buyGas
		bf := c.Fn(tr + ".TxProcessor.buyGas")
		bs := core.CallsIn(bf, acc("SetBalance"))
		if len(bs) == 1 {
			op := asBigOp(callArgs(bs[0])[0])
			payer := recvValue(bs[0])
			okFee, okPayer := false, false
			var fee ssa.Value
			if op != nil && op.name == "Sub" && balanceCallOn(c, op.x, payer) != nil {
				fee = op.y
				okFee = isBigProduct(fee, 1) && hasCallOn(fee, txm("GasLimit"), bf.Params[2], 1) && hasCallOn(fee, txm("GasPrice"), bf.Params[2], 1)
				okPayer = hasCallOn(payer, txm("GasPayer"), bf.Params[2], 1)
			}
			c.Check("buyGas:debit=limit×price", "amount-identity", okFee, bs[0].Pos(), "buyGas debits GasLimit()×GasPrice() of its own tx")
			c.Check("buyGas:payer=tx.GasPayer", "value-flow", okPayer, bs[0].Pos(), "the debited account is the tx's gas payer")
			sub := c.Method("chain/types.GasPool", "SubGas")
			heededBefore(c, bf, sub, core.ErrNonNil, "SetBalance", []ssa.Instruction{bs[0]})
			for _, g := range core.CallsIn(bf, sub) {
				c.Check("buyGas:SubGas(limit)", "value-flow", core.SliceHasCall(core.Slice(callArgs(g)[0]), txm("GasLimit")), g.Pos(), "the block gas pool is reduced by the tx's gas limit")
			}
			buyDebit, buyPayer, buyFee = bs[0], payer, fee
		} else {
			c.Check("buyGas:shape", "amount-identity", false, bf.Pos(), "buyGas must hold exactly one debit (%d)", len(bs))
		}
		// refundGas
		rf := c.Fn(tr + ".TxProcessor.refundGas")
		rsb := core.CallsIn(rf, acc("SetBalance"))
		if len(rsb) == 1 {
			op := asBigOp(callArgs(rsb[0])[0])
			payer := recvValue(rsb[0])
			okAmt, okPayer := false, false
			if op != nil && op.name == "Add" {
				x, y := op.x, op.y
				if balanceCallOn(c, x, payer) == nil {
					x, y = y, x
				}
				if m := asBigOp(localValue(y)); balanceCallOn(c, x, payer) != nil && m != nil && m.name == "Mul" {
					sx, sy := core.Slice(m.x), core.Slice(m.y)
					rest, txp := rf.Params[3], rf.Params[2]
					okAmt = (sx[rest] && !sy[rest] && hasCallOn(m.y, txm("GasPrice"), txp, 1)) || (sy[rest] && !sx[rest] && hasCallOn(m.x, txm("GasPrice"), txp, 1))
				}
				okPayer = hasCallOn(payer, txm("GasPayer"), rf.Params[2], 1)
			}
			c.Check("refundGas:credit=rest×own-price", "amount-identity", okAmt, rsb[0].Pos(), "refundGas credits restGas × GasPrice() of the tx it is given (the rate the gas was bought at)")
			c.Check("refundGas:payer=tx.GasPayer", "value-flow", okPayer, rsb[0].Pos(), "the credited account is the tx's gas payer")
			add := core.CallsIn(rf, c.Method("chain/types.GasPool", "AddGas"))
			c.Check("refundGas:AddGas(rest)", "value-flow", len(add) == 1 && callArgs(add[0])[0] == rf.Params[3], rf.Pos(), "the block gas pool gets the same rest gas back")
		} else {
			c.Check("refundGas:shape", "amount-identity", false, rf.Pos(), "refundGas must hold exactly one credit (%d)", len(rsb))
		}
		// chargeForGas credits exactly its argument
		cf := c.Fn(tr + ".TxProcessor.chargeForGas")
		cs := core.CallsIn(cf, acc("SetBalance"))
		if len(cs) == 1 {
			op := asBigOp(callArgs(cs[0])[0])
			ok := false
			if op != nil && op.name == "Add" {
				inc := recvValue(cs[0])
				ok = (balanceCallOn(c, op.x, inc) != nil && op.y == cf.Params[1]) || (balanceCallOn(c, op.y, inc) != nil && op.x == cf.Params[1])
			}
			c.Check("chargeForGas:credit=own-balance+charge", "amount-identity", ok, cs[0].Pos(), "the income account receives its own balance plus exactly the charge argument")
			// ... and the income account is the one the miner's profile names NOW: the credited account is GetAccount(address) where the
			// address is computed, in this call, from GetCandidate of GetAccount(minerAddress parameter) under the income-address key — not
			// from anything remembered across calls (a field, a map, a sync.Map of the processor)
			inc := recvValue(cs[0])
			sl := core.Slice(inc)
			fromProfile := false
			for v := range sl {
				ci, isCall := v.(ssa.CallInstruction)
				if !isCall || !core.SameFamily(core.CalleeObj(ci), acc("GetCandidate")) {
					continue
				}
				rs := core.Slice(recvValue(ci))
				if rs[cf.Params[2]] {
					fromProfile = true
				}
			}
			remembered := false
			var walk func(v ssa.Value, d int)
			seenW := map[ssa.Value]bool{}
			walk = func(v ssa.Value, d int) {
				if v == nil || seenW[v] || d > 30 {
					return
				}
				seenW[v] = true
				switch x := v.(type) {
				case *ssa.TypeAssert:
					// a value taken out of an interface{} container (sync.Map.Load and the like)
					if ex, ok := x.X.(*ssa.Extract); ok {
						if call, ok := ex.Tuple.(*ssa.Call); ok {
							if o := core.CalleeObj(call); o != nil && o.Pkg() != nil && o.Pkg().Path() == "sync" {
								remembered = true
							}
						}
					}
				case *ssa.Lookup:
					if _, f, isLd := core.FieldLoad(x.X); isLd && f != nil && ownerNamed(c, f) == c.Named(tr+".TxProcessor") {
						remembered = true
					}
				}
				if in, ok := v.(ssa.Instruction); ok {
					for _, op := range in.Operands(nil) {
						if *op != nil {
							walk(*op, d+1)
						}
					}
				}
			}
			walk(inc, 0)
			c.Check("chargeForGas:income-account=current-profile(miner)", "value-flow", fromProfile && !remembered, cs[0].Pos(), "the account credited is looked up from the income address in the miner account's profile as it is in the state being executed (remembered across calls: %v)", remembered)
		} else {
			c.Check("chargeForGas:shape", "amount-identity", false, cf.Pos(), "chargeForGas must hold exactly one credit (%d)", len(cs))
		}
	})

	charge := func() *types.Func { return c.Method(tr+".TxProcessor", "chargeForGas") }
	applyObj := func() *types.Func { return c.Method(tr+".TxProcessor", "applyTx") }
	loops := []string{tr + ".TxProcessor.Process", tr + ".TxProcessor.ApplyTxs", tr + ".BoxTxEnv.RunBoxTxs"}
	c.Run("accumulate", func() {
		n := 0
		for _, spec := range loops {
			fn := c.Fn(spec)
			key := shortFn(fn)
			as := core.CallsIn(fn, applyObj())
			ch := core.CallsIn(fn, charge())
			if len(as) != 1 || len(ch) != 1 {
				c.Check(key+":one-applyTx-one-charge", "order", false, fn.Pos(), "%s must call applyTx once (in its loop) and chargeForGas once (%d/%d)", key, len(as), len(ch))
				continue
			}
			n++
			a, k := as[0], ch[0]
			body, _ := core.LoopOf(a.Block())
			kb, _ := core.LoopOf(k.Block())
			c.Check(key+":charge-once-after-loop", "order", body != nil && kb == nil && !body[k.Block()] && core.ReachableAfter(a, k), k.Pos(), "chargeForGas runs once, outside the loop that applies the txs")
			// every successful exit charges
			okAll := true
			for _, ret := range core.Returns(fn) {
				if core.ClassifyReturn(ret, nil, nil) == core.RetFailure {
					continue
				}
				if ret.Block() != k.Block() && core.CanReach(fn.Blocks[0], ret.Block(), k.Block()) {
					okAll = false
				}
			}
			c.Check(key+"⇒chargeForGas", "must-call", okAll, k.Pos(), "every successful exit of %s is preceded by chargeForGas", key)
			// the fee term is gas × GasPrice() of the very tx that was applied
			gas := core.ResultValues(a)[0]
			txv := a.Common().Args[3]
			okMul, nMul := true, 0
			if gas != nil {
				fl := c.ForwardFlow(gas, map[*ssa.Function]bool{fn: true}, func(ci ssa.CallInstruction, arg int) bool { return false })
				for v := range fl.Via {
					ci, isCall := v.(*ssa.Call)
					if !isCall || core.BigIntMethod(ci) != "Mul" {
						continue
					}
					nMul++
					x, y := ci.Call.Args[1], ci.Call.Args[2]
					other := y
					if !fl.Via[x] {
						other = x
					}
					okP := false
					if ci.Parent() == fn {
						okP = hasCallOn(other, txm("GasPrice"), txv, 1)
					} else {
						// the product is formed in a helper: the price must be that of the helper's parameter which receives the applied tx
						for _, cs := range core.AllCalls(fn) {
							if cs.Common().StaticCallee() != ci.Parent() {
								continue
							}
							for k, arg := range cs.Common().Args {
								if (arg == txv || core.Derived(txv)[arg]) && k < len(ci.Parent().Params) && hasCallOn(other, txm("GasPrice"), ci.Parent().Params[k], 0) {
									okP = true
								}
							}
						}
					}
					if !okP || fl.Via[other] {
						okMul = false
					}
				}
			}
			c.Check(key+":fee=gas×price-of-applied-tx", "amount-identity", gas != nil && okMul && nMul >= 1, a.Pos(), "the gas applyTx reports is multiplied by GasPrice() of the tx handed to that applyTx")
			// miner address of the header being processed
			ma := callArgs(k)
			c.Check(key+":charge(header.MinerAddress)", "value-flow", len(ma) == 2 && core.SliceHasField(core.Slice(ma[1]), c.FieldVar("chain/types.Header", "MinerAddress")), k.Pos(), "the fees go to the miner named in the header being executed")
		}
		c.Exactly("gas-accumulating-loops", n, 3)
		closedCallers(c, "chargeForGas", []string{"(*" + tr + ".TxProcessor).Process", "(*" + tr + ".TxProcessor).ApplyTxs", "(*" + tr + ".BoxTxEnv).RunBoxTxs"}, charge())
		closedCallers(c, "applyTx", []string{"(*" + tr + ".TxProcessor).Process", "(*" + tr + ".TxProcessor).ApplyTxs", "(*" + tr + ".BoxTxEnv).RunBoxTxs"}, applyObj())

		// Process: the gas a received tx claims must equal the gas computed
		pf := c.Fn(tr + ".TxProcessor.Process")
		as := core.CallsIn(pf, applyObj())
		if len(as) == 1 {
			gas := core.ResultValues(as[0])[0]
			txv := as[0].Common().Args[3]
			okUsed := false
			for _, g := range core.CondGuards(pf, nil) {
				if gas == nil || !g.Slice[gas] || !rejectsWhenUnequal(g) || !core.EveryIterationPasses(g.If) {
					continue
				}
				for v := range g.Slice {
					if ci, ok := v.(ssa.CallInstruction); ok && core.SameFamily(core.CalleeObj(ci), txm("GasUsed")) && core.Derived(txv)[recvValue(ci)] {
						okUsed = true
					}
				}
			}
			c.Check(shortFn(pf)+"?tx.GasUsed()≠gas", "quantity-guard", okUsed, as[0].Pos(), "in every iteration Process compares the gas the received tx claims with the gas just computed and rejects the block when they differ")
			// a failing tx rejects the block
			v := core.ErrResult(as[0])
			ok := false
			for _, t := range core.TestsOf(v, core.ErrNonNil) {
				good := true
				for _, ret := range core.Returns(pf) {
					if core.CanReach(t.Fail, ret.Block(), as[0].Block()) && core.ClassifyReturn(ret, core.Derived(v), nil) != core.RetFailure {
						good = false
					}
				}
				if good && core.EveryIterationPasses(as[0]) {
					ok = true
				}
			}
			c.Check("Process→applyTx", "heeded-guard", ok, as[0].Pos(), "a tx that cannot be applied makes Process fail (the block is rejected)")
		}
	})

	c.Clause("C05.3b", "every unit of gas is charged to the miner once: per execution root (Process, ApplyTxs), the gas result of each applyTx call reaches exactly one chargeForGas call site along arithmetic value flow (through returns into callers and through helper summaries)")
	c.Run("single-sink", func() {
		isSink := func(ci ssa.CallInstruction, arg int) bool {
			return core.SameFamily(core.CalleeObj(ci), charge()) && arg == 1
		}
		n := 0
		for _, rootSpec := range loops[:2] {
			root := c.Fn(rootSpec)
			scope := core.StaticReach(root)
			for _, spec := range loops {
				fn := c.Fn(spec)
				if !scope[fn] {
					continue
				}
				for _, a := range core.CallsIn(fn, applyObj()) {
					gas := core.ResultValues(a)[0]
					key := "gas(applyTx@" + shortFn(fn) + ")→chargeForGas|root=" + shortFn(root)
					if gas == nil {
						c.Check(key, "single-sink-flow", false, a.Pos(), "the gas result of applyTx is dropped")
						continue
					}
					n++
					fl := c.ForwardFlow(gas, scope, isSink)
					var where []string
					for _, s := range fl.Sinks {
						where = append(where, shortFn(s.Parent()))
					}
					leaks := 0
					for _, l := range fl.Leaks {
						// tx.SetGasUsed(gas) records the figure in the tx; it is compared, not charged (C05.3 Process?tx.GasUsed()≠gas)
						if l.Parent() == c.FuncOf(txm("SetGasUsed")) {
							continue
						}
						leaks++
					}
					if leaks > 0 {
						c.Undecided(key, "single-sink-flow", a.Pos(), "the gas figure escapes into %d place(s) the flow does not follow (field/map/interface)", leaks)
						continue
					}
					c.Check(key, "single-sink-flow", len(fl.Sinks) == 1, a.Pos(), "gas of this applyTx reaches %d chargeForGas site(s) %v; exactly one is required", len(fl.Sinks), where)
				}
			}
		}
		c.Exactly("gas-sources-by-root", n, 4)
	})

	c.Clause("C05.4", "no negative balance: Account.SetBalance keeps the Sign()<0 → panic guard in front of the write and Account.GetBalance hands out a copy; every debit site is dominated by a sufficiency comparison on the same account and amount (CanTransfer before each Transfer, balance ≥ fee in buyGas, pool ≥ deposit in Refund)")
	c.Run("non-negative", func() {
		sb := c.Fn("chain/account.Account.SetBalance")
		bal := c.FieldVar("chain/types.AccountData", "Balance")
		var writes []ssa.Instruction
		for _, ci := range core.AllCalls(sb) {
			if core.BigIntMethod(ci) != "" && len(ci.Common().Args) > 0 && core.SliceHasField(core.Slice(ci.Common().Args[0]), bal) {
				if _, isPtr := ci.Common().Signature().Results().At(0).Type().(*types.Pointer); isPtr {
					writes = append(writes, ci)
				}
			}
		}
		for _, b := range sb.Blocks {
			for _, in := range b.Instrs {
				if st, ok := in.(*ssa.Store); ok && core.FieldOf(st.Addr) == bal {
					writes = append(writes, st)
				}
			}
		}
		c.Floor("Account.SetBalance/writes", len(writes), 1)
		for i, w := range writes {
			ok := false
			for _, g := range core.EdgeGuardsOf(w) {
				x, rel, isSign := signTest(c, g.If.Cond)
				if !isSign || x != sb.Params[1] {
					continue
				}
				if !g.OnTrue {
					rel = negateRel(rel)
				}
				if rel == token.GEQ || rel == token.GTR {
					// the other edge must not return normally after skipping the write silently: it panics
					other := g.If.Block().Succs[0]
					if g.OnTrue {
						other = g.If.Block().Succs[1]
					}
					pan := false
					for _, in := range other.Instrs {
						if _, isP := in.(*ssa.Panic); isP {
							pan = true
						}
					}
					ok = pan
				}
			}
			c.Check("Account.SetBalance:negative-panics#"+string(rune('a'+i)), "guarded-action", ok, w.Pos(), "the balance is only written when the new value's sign is ≥ 0; a negative value panics")
		}
		// GetBalance returns a fresh copy (callers such as opSuicide add into the returned value)
		gb := c.Fn("chain/account.Account.GetBalance")
		okCopy := true
		for _, ret := range core.Returns(gb) {
			ci, isCall := core.RetVal(ret, 0).(*ssa.Call)
			if !isCall || core.BigIntMethod(ci) != "Set" {
				okCopy = false
				continue
			}
			if _, fresh := ci.Call.Args[0].(*ssa.Alloc); !fresh || !core.SliceHasField(core.Slice(ci.Call.Args[1]), bal) {
				okCopy = false
			}
		}
		c.Check("Account.GetBalance:returns-copy", "value-flow", okCopy, gb.Pos(), "GetBalance returns new(big.Int).Set(balance), never the stored pointer")

		// buyGas: the payer is tested before it is debited
		if buyDebit != nil {
			c.Check("buyGas:sufficiency", "guarded-action", buyFee != nil && sufficiencyBefore(c, buyDebit, buyPayer, buyFee), buyDebit.Pos(), "the debit is dominated by a comparison of the payer's balance with the fee")
		}
		// Refund: the pool is tested before it is debited
		if refundDebit != nil {
			c.Check("Refund:sufficiency", "guarded-action", sufficiencyBefore(c, refundDebit, refundPool, refundAmount), refundDebit.Pos(), "the pool debit is dominated by a comparison of the pool balance with the deposit")
		}
		// every call of the Transfer hook is preceded by an accepting CanTransfer on the same account and amount
		hooksT := []*types.Var{c.FieldVar("chain/vm.Context", "Transfer"), c.FieldVar(tr+".CandidateVoteEnv", "Transfer")}
		hooksC := []*types.Var{c.FieldVar("chain/vm.Context", "CanTransfer"), c.FieldVar(tr+".CandidateVoteEnv", "CanTransfer")}
		trObj, canObj := c.FuncObj(tr+".Transfer"), c.FuncObj(tr+".CanTransfer")
		n := 0
		perFn := map[string]int{}
		for _, fn := range c.SrcFuncs {
			if isTestHelper(c, fn) {
				continue
			}
			sites := append(fieldCalls(fn, hooksT...), core.CallsIn(fn, trObj)...)
			if len(sites) == 0 {
				continue
			}
			cans := append(fieldCalls(fn, hooksC...), core.CallsIn(fn, canObj)...)
			for _, s := range sites {
				n++
				perFn[shortFn(fn)]++
				key := shortFn(fn) + ":CanTransfer≺Transfer"
				if perFn[shortFn(fn)] > 1 {
					key += "#" + string(rune('a'+perFn[shortFn(fn)]-1))
				}
				sa := s.Common().Args // am, sender, recipient, amount
				ok, why := false, "no CanTransfer call in the function"
				for _, g := range cans {
					ga := g.Common().Args // am, addr, amount
					if len(sa) != 4 || len(ga) != 3 {
						continue
					}
					if !sameExprM(ga[1], sa[1]) || !(ga[2] == sa[3] || core.Derived(ga[2])[sa[3]]) {
						why = "CanTransfer tests another account or amount"
						continue
					}
					if k, w := core.ValueHeededBefore(g, g.Value(), core.IsFalse, s); k {
						ok, why = true, ""
						break
					} else {
						why = w
					}
				}
				c.Check(key, "guarded-action", ok, s.Pos(), "every path to the transfer passes CanTransfer(sender, amount)=true for the same sender and amount: %s", orOK(why))
			}
		}
		c.Exactly("Transfer-call-sites", n, 4)
		// CanTransfer really compares the balance of that address with the amount
		cf := c.Fn(tr + ".CanTransfer")
		okCan := true
		for _, ret := range core.Returns(cf) {
			sl := core.Slice(core.RetVal(ret, 0))
			hasCmp := false
			for v := range sl {
				if ci, ok := v.(ssa.CallInstruction); ok && core.BigIntMethod(ci) == "Cmp" && ci.Common().Args[1] == cf.Params[2] &&
					core.SliceHasCall(core.Slice(ci.Common().Args[0]), acc("GetBalance")) && core.Slice(ci.Common().Args[0])[cf.Params[1]] {
					hasCmp = true
				}
			}
			if !hasCmp || !core.SliceHasOp(sl, token.GEQ) {
				okCan = false
			}
		}
		c.Check("CanTransfer:balance(addr)≥amount", "quantity-guard", okCan, cf.Pos(), "CanTransfer is balance(addr).Cmp(amount) >= 0")
	})

	c.Clause("C05.5", "minting only at reward blocks: the credit in issueTermReward and the deposit refunds in refundCandidateDeposit are dominated by an accepted deputynode.IsRewardBlock(height) on the function's own height; the amount divided among deputies is the stored term reward")
	c.Run("mint", func() {
		isRB := c.FuncObj("chain/deputynode.IsRewardBlock")
		for _, row := range [][2]string{{cons + ".BlockAssembler.issueTermReward", "SetBalance"}, {cons + ".BlockAssembler.refundCandidateDeposit", "Refund"}} {
			fn := c.Fn(row[0])
			var acts []ssa.Instruction
			if row[1] == "SetBalance" {
				acts = instrs(core.CallsIn(fn, acc("SetBalance")))
			} else {
				acts = instrs(core.CallsIn(fn, c.FuncObj(tr+".Refund")))
			}
			c.Floor(shortFn(fn)+"/"+row[1], len(acts), 1)
			for i, a := range acts {
				ok, why := false, "no IsRewardBlock call"
				for _, g := range core.CallsIn(fn, isRB) {
					if g.Common().Args[0] != fn.Params[2] {
						why = "IsRewardBlock is not asked about the function's height parameter"
						continue
					}
					if k, w := core.HeededBefore(g, core.IsFalse, a); k {
						ok, why = true, ""
						break
					} else {
						why = w
					}
				}
				c.Check(shortFn(fn)+":IsRewardBlock≺"+row[1]+"#"+string(rune('a'+i)), "guarded-action", ok, a.Pos(), "%s only happens in a reward block: %s", row[1], orOK(why))
			}
		}
		fn := c.Fn(cons + ".BlockAssembler.issueTermReward")
		for _, s := range core.CallsIn(fn, acc("SetBalance")) {
			op := asBigOp(callArgs(s)[0])
			ok := false
			if op != nil && op.name == "Add" {
				x, y := op.x, op.y
				if balanceCallOn(c, x, recvValue(s)) == nil {
					x, y = y, x
				}
				sl := core.Slice(y)
				ok = balanceCallOn(c, x, recvValue(s)) != nil && core.SliceHasField(sl, c.FieldVar("chain/deputynode.DeputySalary", "Salary")) && core.SliceHasCall(sl, c.FuncObj(cons+".DivideSalary"))
				for v := range sl {
					if ci, isCall := v.(ssa.CallInstruction); isCall && core.SameFamily(core.CalleeObj(ci), c.FuncObj(cons+".DivideSalary")) {
						if !core.SliceHasCall(core.Slice(ci.Common().Args[0]), c.FuncObj(cons+".getTermRewards")) {
							ok = false
						}
					}
				}
			}
			c.Check("issueTermReward:credit=own-balance+salary(of stored reward)", "amount-identity", ok, s.Pos(), "each deputy receives its own balance plus its share of getTermRewards' figure")
		}
	})

	c.Clause("C05.6", "a tx that is not included costs nothing: in ApplyTxs every applyTx error edge reverts to a snapshot taken in the same iteration before applyTx, before the loop continues or the function returns")
	c.Run("revert", func() {
		fn := c.Fn(tr + ".TxProcessor.ApplyTxs")
		snapM := c.Method("chain/account.Manager", "Snapshot")
		revM := c.Method("chain/account.Manager", "RevertToSnapshot")
		as := core.CallsIn(fn, applyObj())
		if len(as) != 1 {
			c.Check("ApplyTxs:shape", "pairing", false, fn.Pos(), "ApplyTxs must call applyTx once (%d)", len(as))
			return
		}
		a := as[0]
		var snap ssa.CallInstruction
		for _, s := range core.CallsIn(fn, snapM) {
			if core.Dominates(s, a) && core.FreshPerIteration(s, a) {
				snap = s
			}
		}
		c.Check("ApplyTxs:Snapshot≺applyTx(per tx)", "pairing", snap != nil, a.Pos(), "each iteration takes a snapshot before applying its tx")
		if snap == nil {
			return
		}
		var revs []*ssa.BasicBlock
		for _, r := range core.CallsIn(fn, revM) {
			ra := callArgs(r)
			if len(ra) == 1 && core.Derived(snap.Value())[ra[0]] {
				revs = append(revs, r.Block())
			}
		}
		v := core.ErrResult(a)
		tests := core.TestsOf(v, core.ErrNonNil)
		ok := len(tests) > 0 && len(revs) > 0
		_, hdr := core.LoopOf(a.Block())
		for _, t := range tests {
			if in(revs, t.Fail) {
				continue
			}
			if hdr != nil && core.CanReach(t.Fail, hdr, revs...) {
				ok = false
			}
			for _, ret := range core.Returns(fn) {
				if core.CanReach(t.Fail, ret.Block(), revs...) {
					ok = false
				}
			}
		}
		// the accepting edge is the only way to the bookkeeping of an included tx
		c.Check("ApplyTxs:applyTx-error⇒RevertToSnapshot(snap)", "pairing", ok, a.Pos(), "no path from a failed applyTx to the next iteration or to the exit avoids RevertToSnapshot of this iteration's snapshot")
		for _, k := range core.CallsIn(fn, txm("SetGasUsed")) {
			h, _ := core.HeededBefore(a, core.ErrNonNil, k)
			c.Check("ApplyTxs:applyTx-ok≺select", "guarded-action", h, k.Pos(), "a tx is recorded as selected (and its fee accumulated) only after applyTx accepted")
		}
	})

	c.Clause("C05.7", "every numeric field of a transaction that can arrive signed (the *big.Int fields of txdata; box sub-txs are JSON) is rejected when negative by Transaction.VerifyTxBody unconditionally, and the block path reaches that test for every tx and every box sub-tx (verifyTxs → VerifyTxBody → checkBoxTx → VerifyTxBody, each heeded)")
	c.Run("signs", func() { c05Signs(c) })

	// C05.8: "the amount moves only if the transaction succeeds" needs an exact, correctly paired revert, and "charged exactly gasUsed x
	// gasPrice, gasUsed <= gasLimit" needs the EVM's gas bracket: the change-journal clauses of C07 and the sandbox clauses of C16 are necessary
	// conditions of C05 as well and are evaluated here under their own keys
	c07(c)
	c16(c)

	c.Clause("C05.9", "no stale write-back of a candidate profile: a profile handed to SetCandidate was read (GetCandidate) after the last write of a candidate profile on the way — a copy read before a refund or a state change and written back afterwards restores what that step cleared (the deposit entry: the deposit would leave the pool twice)")
	c.Run("profile-write-back", func() {
		setC := acc("SetCandidate")
		setS := acc("SetCandidateState")
		getC := acc("GetCandidate")
		// functions of the transaction / consensus packages that (transitively, static calls, depth 3) write a candidate profile
		writes := map[*ssa.Function]bool{}
		direct := func(fn *ssa.Function) bool {
			for _, ci := range core.AllCalls(fn) {
				if o := core.CalleeObj(ci); core.SameFamily(o, setC) || core.SameFamily(o, setS) {
					return true
				}
			}
			return false
		}
		var scope []*ssa.Function
		for _, fn := range c.SrcFuncs {
			if r := core.RelPkg(fn); (r == tr || r == "chain/consensus") && !isTestHelper(c, fn) {
				scope = append(scope, fn)
				if direct(fn) {
					writes[fn] = true
				}
			}
		}
		for round := 0; round < 3; round++ {
			for _, fn := range scope {
				if writes[fn] {
					continue
				}
				for _, ci := range core.AllCalls(fn) {
					if sf := core.StaticFn(ci); sf != nil && writes[sf] {
						writes[fn] = true
					}
				}
			}
		}
		isWriter := func(ci ssa.CallInstruction) bool {
			if o := core.CalleeObj(ci); core.SameFamily(o, setC) || core.SameFamily(o, setS) {
				return true
			}
			if sf := core.StaticFn(ci); sf != nil && writes[sf] {
				return true
			}
			return false
		}
		n := 0
		seq := map[string]int{}
		for _, fn := range scope {
			for _, s := range core.CallsIn(fn, setC) {
				n++
				prof := callArgs(s)[0]
				sl := core.Slice(prof)
				var reads []ssa.CallInstruction
				fromParam := false
				for v := range sl {
					if ci, ok := v.(ssa.CallInstruction); ok && core.SameFamily(core.CalleeObj(ci), getC) && ci.Parent() == fn {
						reads = append(reads, ci)
					}
					if p, ok := v.(*ssa.Parameter); ok && p.Parent() == fn {
						if _, isMap := p.Type().Underlying().(*types.Map); isMap {
							fromParam = true
						}
					}
				}
				stale := ""
				for _, w := range core.AllCalls(fn) {
					if w == s || !isWriter(w) || !core.ReachableAfter(w, s) || core.ReachableAfter(s, w) && !core.Dominates(w, s) {
						continue
					}
					// the write lies between the read and the write-back
					between := fromParam && len(reads) == 0
					for _, g := range reads {
						if core.ReachableAfter(g, w) {
							between = true
						}
					}
					if between {
						stale = objName(core.CalleeObj(w))
						if sf := core.StaticFn(w); sf != nil && stale == "" {
							stale = sf.Name()
						}
					}
				}
				name := shortFn(fn)
				seq[name]++
				c.Check("SetCandidate:fresh-profile@"+name+seqSuffix(seq[name]), "order", stale == "", s.Pos(), "%s writes back a profile that was read before %s wrote a candidate profile on the same path", name, stale)
			}
		}
		c.Floor("SetCandidate-sites", n, 2)
	})

	c.Clause("C05.10", "an execution that is abandoned without undo (a refused block, a dropped candidate block, a fork sibling) costs nothing: the account copy handed to it owns everything it writes in place — balance, votes, candidate profile, version records (clause C09.6, evaluated here as well: a deposit state written into a shared profile map survives the refusal)")
	c.Run("copy-deep", func() { c09CopyDeep(c) })

	c.NotDecidedf("the numeric equalities themselves are NOT decided: that the sum of all balances is unchanged by a block, that Σ fees debited = Σ fees credited as numbers, that DivideSalary's shares add up to at most the term reward, that IsRewardBlock is true once per term")
	c.NotDecidedf("value flows inside the EVM beyond the Transfer hook (contract.UseGas, gas refunds of SSTORE, precompile pricing), and flows of the gas figure through struct fields, maps or interfaces (C05.3b lists any such escape as undecided instead of guessing)")
	c.NotDecidedf("that chargeForGas finds an income address (it silently burns the fees otherwise); that a panic in SetBalance is the right reaction to a negative value (it is a crash, see D32's history); big.Int aliasing through values other than GetBalance's result")
}

// c05Signs is clause C05.7 (signed numeric fields of a transaction are refused when negative, unconditionally); evaluated under C02.7 as well.
func c05Signs(c *core.Ctx) {
	const tr = "chain/transaction"
	const cons = "chain/consensus"
	acc := func(m string) *types.Func { return c.Method("chain/types.AccountAccessor", m) }
	txm := func(m string) *types.Func { return c.Method("chain/types.Transaction", m) }
	_, _ = tr, cons
	_, _ = acc, txm
	applyObj := func() *types.Func { return c.Method(tr+".TxProcessor", "applyTx") }
	vtb := c.Fn("chain/types.Transaction.VerifyTxBody")
	st := c.Struct("chain/types.txdata")
	n := 0
	for i := 0; i < st.NumFields(); i++ {
		f := st.Field(i)
		pt, isPtr := f.Type().(*types.Pointer)
		if !isPtr {
			continue
		}
		nm, isNamed := pt.Elem().(*types.Named)
		if !isNamed || nm.Obj().Name() != "Int" || nm.Obj().Pkg() == nil || nm.Obj().Pkg().Path() != "math/big" {
			continue
		}
		n++
		ok := false
		for _, g := range core.CondGuards(vtb, nil) {
			x, rel, isSign := signTest(c, g.If.Cond)
			if !isSign {
				continue
			}
			// x is the field itself or an accessor of the receiver that returns it
			reads := core.SliceHasField(core.Slice(x), f)
			if ci, isCall := unwrap(x).(*ssa.Call); isCall && !reads {
				if callee := ci.Call.StaticCallee(); callee != nil && callee.Blocks != nil && len(ci.Call.Args) > 0 && ci.Call.Args[0] == vtb.Params[0] {
					for _, ret := range core.Returns(callee) {
						if core.SliceHasField(core.Slice(ret.Results[0]), f) {
							reads = true
						}
					}
				}
			}
			if !reads {
				continue
			}
			failOnTrue := g.Fail == g.If.Block().Succs[0]
			if !failOnTrue {
				rel = negateRel(rel)
			}
			if rel == token.LSS && g.GuardsSuccess(nil) {
				ok = true
			}
		}
		c.Check("VerifyTxBody?"+f.Name()+".Sign()<0", "validated-use", ok, vtb.Pos(), "a negative %s is rejected on every path to a successful exit of VerifyTxBody (also when isBlockTx is true)", f.Name())
	}
	c.Exactly("txdata-bigint-fields", n, 2)

	// the chain of calls on the block path
	vtbObj := txm("VerifyTxBody")
	cbt := c.FuncObj("chain/types.checkBoxTx")
	// VerifyTxBody → checkBoxTx: a rejection is returned; skipped only when the type is not BoxTx
	calls := core.CallsIn(vtb, cbt)
	c.Exactly("VerifyTxBody→checkBoxTx", len(calls), 1)
	for _, g := range calls {
		v := core.ErrResult(g)
		ok := false
		for _, t := range core.TestsOf(v, core.ErrNonNil) {
			good := true
			for _, ret := range core.Returns(vtb) {
				if core.CanReach(t.Fail, ret.Block()) && core.ClassifyReturn(ret, core.Derived(v), nil) != core.RetFailure {
					good = false
				}
			}
			if good {
				ok = true
			}
		}
		c.Check("VerifyTxBody→checkBoxTx", "heeded-guard", ok, g.Pos(), "a rejected sub-tx makes VerifyTxBody fail")
		// the only guard that lets a success exit bypass the call is the type test against BoxTx
		boxK, _ := constInt(c.Const("chain/params.BoxTx"))
		okSkip := true
		nSkip := 0
		for _, eg := range core.EdgeGuardsOf(g) {
			// guards whose other edge reaches a success return
			other := eg.If.Block().Succs[1]
			if !eg.OnTrue {
				other = eg.If.Block().Succs[0]
			}
			reachesSuccess := false
			for _, ret := range core.Returns(vtb) {
				if core.CanReach(other, ret.Block(), g.Block()) && core.ClassifyReturn(ret, nil, nil) != core.RetFailure {
					reachesSuccess = true
				}
			}
			if !reachesSuccess {
				continue
			}
			nSkip++
			if !(core.SliceHasCall(eg.Slice, txm("Type")) && core.SliceHasIntConst(eg.Slice, boxK) && eg.Slice[vtb.Params[0]]) {
				okSkip = false
			}
		}
		c.Check("VerifyTxBody:checkBoxTx-skipped-only-for-non-box", "guard-scope", okSkip && nSkip == 1, g.Pos(), "the sub-tx check is bypassed only by the test tx.Type()==BoxTx (%d bypassing test(s))", nSkip)
		a := g.Common().Args
		c.Check("VerifyTxBody:checkBoxTx(tx.Data, isBlockTx)", "value-flow", len(a) == 5 && core.SliceHasCall(core.Slice(a[0]), txm("Data")) && a[4] == vtb.Params[3], g.Pos(), "the box check gets the tx's own data")
	}
	// checkBoxTx → VerifyTxBody on every sub-tx
	cb := c.Fn("chain/types.checkBoxTx")
	sub := core.CallsIn(cb, vtbObj)
	c.Exactly("checkBoxTx→VerifyTxBody", len(sub), 1)
	for _, g := range sub {
		v := core.ErrResult(g)
		ok := false
		for _, t := range core.TestsOf(v, core.ErrNonNil) {
			good := true
			for _, ret := range core.Returns(cb) {
				if core.CanReach(t.Fail, ret.Block(), g.Block()) && core.ClassifyReturn(ret, core.Derived(v), nil) != core.RetFailure {
					good = false
				}
			}
			if good && core.EveryIterationPasses(g) {
				ok = true
			}
		}
		c.Check("checkBoxTx→VerifyTxBody", "heeded-guard", ok, g.Pos(), "every sub-tx is body-checked in every iteration and a failure rejects the box")
		rs := core.Slice(g.Common().Args[0])
		c.Check("checkBoxTx:ranges-over-GetBox(data).SubTxList", "value-flow", core.SliceHasField(rs, c.FieldVar("chain/types.Box", "SubTxList")) && core.SliceHasCall(rs, c.FuncObj("chain/types.GetBox")) && rs[cb.Params[0]], g.Pos(),
			"the sub-txs checked are the ones decoded from the box data")
	}
	// the executor decodes the same list
	rb := c.Fn(tr + ".BoxTxEnv.RunBoxTxs")
	for _, a := range core.CallsIn(rb, applyObj()) {
		sl := core.Slice(a.Common().Args[3])
		okSrc := core.SliceHasField(sl, c.FieldVar("chain/types.Box", "SubTxList")) && core.SliceHasCall(sl, txm("Data")) && sl[rb.Params[2]]
		if okSrc {
			okSrc = false
			if um := c.Fn(tr + ".BoxTxEnv.unmarshalBoxTxs"); len(core.CallsIn(um, c.FuncObj("chain/types.GetBox"))) == 1 && core.SliceHasCall(sl, c.Method(tr+".BoxTxEnv", "unmarshalBoxTxs")) {
				okSrc = true
			} else if core.SliceHasCall(sl, c.FuncObj("chain/types.GetBox")) {
				okSrc = true
			}
		}
		c.Check("RunBoxTxs:applies GetBox(boxTx.Data).SubTxList", "value-flow", okSrc, a.Pos(), "the sub-txs executed are decoded from the same data that was checked")
	}
	// verifyTxs → VerifyTxBody(…, isBlockTx = true) for every tx of the block
	vt := c.Fn(cons + ".verifyTxs")
	top := core.CallsIn(vt, vtbObj)
	c.Floor("verifyTxs→VerifyTxBody", len(top), 1)
	for _, g := range top {
		v := core.ErrResult(g)
		ok := false
		for _, t := range core.TestsOf(v, core.ErrNonNil) {
			good := true
			for _, ret := range core.Returns(vt) {
				if core.CanReach(t.Fail, ret.Block(), g.Block()) && core.ClassifyReturn(ret, core.Derived(v), nil) != core.RetFailure {
					good = false
				}
			}
			if good && core.EveryIterationPasses(g) {
				ok = true
			}
		}
		c.Check("verifyTxs→VerifyTxBody", "heeded-guard", ok && core.SliceHasField(core.Slice(g.Common().Args[0]), c.FieldVar("chain/types.Block", "Txs")), g.Pos(), "every tx of a received block is body-checked and a failure rejects the block")
	}
}
