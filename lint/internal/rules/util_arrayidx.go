package rules

import (
	"go/constant"
	"go/token"
	"go/types"

	"golang.org/x/tools/go/ssa"

	"verif/lint/internal/core"
)

// narrowIndexSite is an index expression into a fixed-size array whose index comes (through conversions only) from an integer type that
// has more values than the array has elements.
type narrowIndexSite struct {
	Instr  ssa.Instruction
	Len    int64
	Range  string
	Guards bool
}

// narrowIndexSites lists the array index expressions of fn whose index is a converted small integer (uint8/uint16/int8/int16 or a named
// type over one of them) with a value range larger than the array, and says whether a dominating comparison with a constant ≤ len keeps
// the out-of-range values away. Constant indices and indices of wider types are not listed (their range is not a type fact).
func narrowIndexSites(fn *ssa.Function) []narrowIndexSite {
	var out []narrowIndexSite
	for _, b := range fn.Blocks {
		for _, in := range b.Instrs {
			var x, idx ssa.Value
			switch v := in.(type) {
			case *ssa.IndexAddr:
				x, idx = v.X, v.Index
			case *ssa.Index:
				x, idx = v.X, v.Index
			default:
				continue
			}
			t := x.Type().Underlying()
			if p, ok := t.(*types.Pointer); ok {
				t = p.Elem().Underlying()
			}
			arr, ok := t.(*types.Array)
			if !ok {
				continue
			}
			if _, isC := idx.(*ssa.Const); isC {
				continue
			}
			origin := idx
			for {
				if cv, ok := origin.(*ssa.Convert); ok {
					origin = cv.X
					continue
				}
				if ct, ok := origin.(*ssa.ChangeType); ok {
					origin = ct.X
					continue
				}
				break
			}
			bt, ok := origin.Type().Underlying().(*types.Basic)
			if !ok {
				continue
			}
			var hi int64
			signed := false
			switch bt.Kind() {
			case types.Uint8:
				hi = 256
			case types.Uint16:
				hi = 65536
			case types.Int8:
				hi, signed = 128, true
			case types.Int16:
				hi, signed = 32768, true
			default:
				continue
			}
			if !signed && hi <= arr.Len() {
				continue
			}
			// a dominating `origin < k` / `origin <= k` / `origin >= k` … with the out-of-range edge not reaching the site
			guarded := false
			for _, d := range fn.Blocks {
				ifi := ifOf(d)
				if ifi == nil || d == b || !d.Dominates(b) {
					continue
				}
				cmp, ok := ifi.Cond.(*ssa.BinOp)
				if !ok {
					continue
				}
				strip := func(v ssa.Value) ssa.Value {
					for {
						if cv, ok := v.(*ssa.Convert); ok {
							v = cv.X
							continue
						}
						return v
					}
				}
				k, isK := cmp.Y.(*ssa.Const)
				if !isK || k.Value == nil || k.Value.Kind() != constant.Int || strip(cmp.X) != origin {
					continue
				}
				kv, _ := constant.Int64Val(k.Value)
				outEdge := -1
				switch {
				case cmp.Op == token.LSS && kv <= arr.Len(), cmp.Op == token.LEQ && kv < arr.Len():
					outEdge = 1
				case cmp.Op == token.GEQ && kv <= arr.Len(), cmp.Op == token.GTR && kv < arr.Len():
					outEdge = 0
				}
				if outEdge >= 0 && !signed && !core.CanReach(d.Succs[outEdge], b, d) && d.Succs[outEdge] != b {
					guarded = true
				}
			}
			out = append(out, narrowIndexSite{in, arr.Len(), bt.Name(), guarded})
		}
	}
	return out
}
