package rules

import (
	"go/token"
	"go/types"

	"golang.org/x/tools/go/ssa"

	"verif/lint/internal/core"
)

func init() { register("C04", c04) }

// c4Args returns the arguments of a call without the receiver, for static method calls and interface calls alike.
func c4Args(ci ssa.CallInstruction) []ssa.Value {
	cc := ci.Common()
	if cc.IsInvoke() {
		return cc.Args
	}
	if sig := cc.Signature(); sig != nil && sig.Recv() != nil && len(cc.Args) > 0 {
		return cc.Args[1:]
	}
	return cc.Args
}

// c4Recv returns the receiver of a method call (nil for plain functions).
func c4Recv(ci ssa.CallInstruction) ssa.Value {
	cc := ci.Common()
	if cc.IsInvoke() {
		return cc.Value
	}
	if sig := cc.Signature(); sig != nil && sig.Recv() != nil && len(cc.Args) > 0 {
		return cc.Args[0]
	}
	return nil
}

// nilGuardCtrl: the branch is a nil test of a parameter and the instruction lies on the non-nil side.
func nilGuardCtrl(ct core.Ctrl) bool {
	bo, ok := ct.If.Cond.(*ssa.BinOp)
	if !ok || (bo.Op != token.EQL && bo.Op != token.NEQ) {
		return false
	}
	var other ssa.Value
	switch {
	case core.IsNilConst(bo.X):
		other = bo.Y
	case core.IsNilConst(bo.Y):
		other = bo.X
	default:
		return false
	}
	if _, isPar := other.(*ssa.Parameter); !isPar {
		return false
	}
	return (bo.Op == token.EQL && ct.Taken == 1) || (bo.Op == token.NEQ && ct.Taken == 0)
}

// tracerOp is one access of the tx→blocks index keyed by a transaction hash.
type tracerOp struct {
	in   ssa.Instruction
	key  ssa.Value
	kind string // lookup | insert | delete
}

func tracerOps(fn *ssa.Function, tracer types.Type, addM *types.Func, depth int) []tracerOp {
	var out []tracerOp
	isT := func(v ssa.Value) bool { return v != nil && types.Identical(v.Type(), tracer) }
	for _, b := range fn.Blocks {
		for _, in := range b.Instrs {
			switch x := in.(type) {
			case *ssa.Lookup:
				if isT(x.X) {
					out = append(out, tracerOp{x, x.Index, "lookup"})
				}
			case *ssa.MapUpdate:
				if isT(x.Map) {
					out = append(out, tracerOp{x, x.Key, "insert"})
				}
			case *ssa.Call:
				if core.BuiltinCallName(x) == "delete" && len(x.Call.Args) == 2 && isT(x.Call.Args[0]) {
					out = append(out, tracerOp{x, x.Call.Args[1], "delete"})
					continue
				}
				// entry.Add(block) on the entry looked up (or just created) under a key: the "add" of that key
				if addM != nil && core.SameFamily(core.CalleeObj(x), addM) {
					if recv := c4Recv(x); recv != nil {
						for v := range core.Slice(recv) {
							if lk, isLk := v.(*ssa.Lookup); isLk && isT(lk.X) {
								out = append(out, tracerOp{x, lk.Index, "add"})
								break
							}
						}
					}
					continue
				}
				callee := x.Call.StaticCallee()
				if callee == nil || depth > 0 || callee.Pkg != fn.Pkg || callee.Blocks == nil {
					continue
				}
				hasT := false
				for _, a := range x.Call.Args {
					if isT(a) {
						hasT = true
					}
				}
				if !hasT {
					continue
				}
				seen := map[[2]interface{}]bool{}
				for _, op := range tracerOps(callee, tracer, addM, depth+1) {
					for j, par := range callee.Params {
						if core.Derived(par)[op.key] && j < len(x.Call.Args) && !seen[[2]interface{}{j, op.kind}] {
							seen[[2]interface{}{j, op.kind}] = true
							out = append(out, tracerOp{x, x.Call.Args[j], op.kind})
						}
					}
				}
			}
		}
	}
	return out
}

func c04(c *core.Ctx) {
	const (
		typ  = "chain/types"
		cons = "chain/consensus"
		pool = "chain/txpool"
	)
	txm := func(m string) *types.Func { return c.Method(typ+".Transaction", m) }
	blk := func(m string) *types.Func { return c.Method(typ+".Block", m) }

	// -----------------------------------------------------------------------------------------
	c.Clause("C04.1", "the transaction identity (Transaction.Hash) is computed from every authenticated field of the transaction and both signature lists, from nothing unauthenticated, and from everything each signing hash covers")
	c.Run("identity", func() {
		st := c.Struct(typ + ".txdata")
		rlp := c.FuncObj(typ + ".rlpHash")
		hfn := c.Fn(typ + ".Transaction.Hash")
		sink := hashSink(c, "Transaction.Hash", hfn, rlp)
		if sink == nil {
			return
		}
		fieldCover(c, "Transaction.Hash", sink.Pos(), sink.Common().Args[0], st, map[string]string{
			"GasUsed": "!filled in by the miner, not signed by anybody: two copies that differ only here are the same transaction",
			"Hash":    "!JSON transport field supplied by the sender of the message, not signed",
		})
		c.Floor("txdata-fields", st.NumFields(), 17)
		idf := flowingFields(sink.Common().Args[0], st)
		for _, s := range []string{"DefaultSigner", "ReimbursementTxSigner", "GasPayerSigner"} {
			sfn := c.Fn(typ + "." + s + ".Hash")
			ss := core.CallsIn(sfn, rlp)
			if len(ss) != 1 {
				c.Check("Transaction.Hash⊇"+s+".Hash", "field-superset", false, sfn.Pos(), "%s.Hash must hash through rlpHash exactly once", s)
				continue
			}
			missing := map[string]bool{}
			for f := range flowingFields(ss[0].Common().Args[0], st) {
				if !idf[f] {
					missing[f] = true
				}
			}
			c.Check("Transaction.Hash⊇"+s+".Hash", "field-superset", len(missing) == 0, sink.Pos(), "every field signed through %s.Hash must take part in the identity (missing: %s)", s, c4SortedNames(missing))
		}
		// a box is identified by the identities of all its sub transactions (their GasUsed is rewritten by the miner)
		ghd := c.Fn(typ + ".getHashData")
		sub := c.FuncObj(typ + ".calcBoxSubTxHashSet")
		okBox := false
		for _, call := range core.CallsIn(ghd, sub) {
			a := call.Common().Args
			if len(a) == 1 && core.SliceHasCall(core.Slice(a[0]), c.FuncObj(typ+".GetBox")) && core.SliceHasField(core.Slice(a[0]), c.FieldVar(typ+".txdata", "Data")) &&
				core.SliceHasField(core.Slice(a[0]), c.FieldVar(typ+".Box", "SubTxList")) {
				for _, r := range core.Returns(ghd) {
					if core.Slice(r.Results[0])[call.Value()] {
						okBox = true
					}
				}
			}
		}
		c.Check("getHashData:box→calcBoxSubTxHashSet(GetBox(Data).SubTxList)", "value-flow", okBox, ghd.Pos(), "the data part of a box identity is the list of sub transaction identities decoded from its own Data")
		cfn := c.Fn(typ + ".calcBoxSubTxHashSet")
		okAll := false
		for _, h := range core.CallsIn(cfn, txm("Hash")) {
			recv := c4Recv(h)
			if recv == nil || !core.Slice(recv)[cfn.Params[0]] || !core.EveryIterationPasses(h) {
				continue
			}
			for _, r := range core.Returns(cfn) {
				if core.Slice(r.Results[0])[h.Value()] {
					okAll = true
				}
			}
		}
		c.Check("calcBoxSubTxHashSet:every-subTx.Hash", "value-flow", okAll, cfn.Pos(), "the identity of every sub transaction of the list flows into the result")
		// the identity is memoised: the memo holds nothing but what Hash computed from the content (a transaction decoded from the wire
		// or from JSON must not bring its own identity along)
		memoCache(c, "Transaction.hash-memo", c.FieldVar(typ+".Transaction", "hash"), hfn, rlp)
		c04IdentityFromContent(c)
		// ... and the memo never goes stale: a field the identity is computed from is stored only into a transaction that cannot have a
		// filled memo yet (a literal, a local copy, the result of Clone, a decode target), or by a table-listed in-place writer whose use keeps
		// the identity (premises below)
		inPlace := map[string]string{
			"chain/types.GasPayerSignatureTx":    "sign-side helper for tests and wallets: no caller in the shipped code (premise: closed caller set, empty)",
			"(*chain/types.Transaction).SetData": "only RunBoxTxs, which puts back the same sub transactions with their GasUsed filled in; a box's identity is the list of its sub transaction identities, which do not cover GasUsed (premise: caller set and argument shape)",
		}
		var idFields []*types.Var
		for i := 0; i < st.NumFields(); i++ {
			if idf[st.Field(i).Name()] {
				idFields = append(idFields, st.Field(i))
			}
		}
		c.Floor("identity-fields", len(idFields), 14)
		clone := c.Method(typ+".Transaction", "Clone")
		var freshRoot func(v ssa.Value, d int) bool
		freshRoot = func(v ssa.Value, d int) bool {
			if d > 10 {
				return false
			}
			switch x := v.(type) {
			case *ssa.Alloc:
				return true
			case *ssa.FieldAddr:
				return freshRoot(x.X, d+1)
			case *ssa.IndexAddr:
				return freshRoot(x.X, d+1)
			case *ssa.UnOp:
				if x.Op == token.MUL {
					// a pointer held in a local cell: every value stored into the cell must be fresh
					if al, ok := x.X.(*ssa.Alloc); ok {
						n := 0
						for _, r := range *al.Referrers() {
							if stt, ok := r.(*ssa.Store); ok && stt.Addr == ssa.Value(al) {
								n++
								if !freshRoot(stt.Val, d+1) {
									return false
								}
							}
						}
						return n > 0
					}
				}
			case *ssa.Call:
				return core.CalleeObj(x) == clone
			case *ssa.Parameter:
				// a decode helper that fills the value it is handed: every caller hands it a fresh one
				pf := x.Parent()
				fo, _ := pf.Object().(*types.Func)
				if fo == nil {
					return false
				}
				idx := -1
				for i, pp := range pf.Params {
					if pp == x {
						idx = i
					}
				}
				_, sites := callersOf(c, fo)
				if len(sites) == 0 || idx < 0 {
					return false
				}
				for _, cs := range sites {
					args := cs.Instr.Common().Args
					if cs.Instr.Common().IsInvoke() || idx >= len(args) || !freshRoot(args[idx], d+4) {
						return false
					}
				}
				return true
			case *ssa.Phi:
				for _, e := range x.Edges {
					if !freshRoot(e, d+1) {
						return false
					}
				}
				return true
			}
			return false
		}
		seenW := map[string]bool{}
		nFresh := 0
		for _, ss := range fieldStores(c, idFields...) {
			fa := ss.St.Addr.(*ssa.FieldAddr)
			if freshRoot(fa.X, 0) {
				nFresh++
				continue
			}
			name := core.FuncName(core.Outer(ss.Fn))
			if seenW[name+"#"+ss.Field.Name()] {
				continue
			}
			seenW[name+"#"+ss.Field.Name()] = true
			reason, listed := inPlace[name]
			c.Check("identity-stable/in-place-writer@"+name+"#"+ss.Field.Name(), "who-may-write", listed, ss.St.Pos(), "%s stores the identity field %s into a transaction that may already have answered Hash() (its memo is not reset); listed=%v: %s", name, ss.Field.Name(), listed, reason)
		}
		c.Floor("identity-stable/fresh-stores", nFresh, 10)
		closedCallers(c, "GasPayerSignatureTx", nil, c.FuncObj(typ+".GasPayerSignatureTx"))
		rbt := c.Fn("chain/transaction.BoxTxEnv.RunBoxTxs")
		sds := closedCallers(c, "Transaction.SetData", []string{core.FuncName(rbt)}, c.Method(typ+".Transaction", "SetData"))
		for _, sd := range sds {
			if sd.Caller != rbt {
				continue
			}
			okArg := false
			a := c4Args(sd.Instr)
			for _, mb := range core.CallsIn(rbt, c.FuncObj(typ+".MarshalBoxData")) {
				if len(a) != 1 || !core.Slice(a[0])[mb.Value()] {
					continue
				}
				// every element appended to the marshalled list is the loop's own sub transaction, appended in every iteration that goes on
				for v := range core.Slice(mb.Common().Args[0]) {
					ap, ok := v.(*ssa.Call)
					if !ok {
						continue
					}
					if bi, isB := ap.Call.Value.(*ssa.Builtin); !isB || bi.Name() != "append" {
						continue
					}
					el := core.Slice(ap.Call.Args[1])
					if core.SliceHasField(el, c.FieldVar(typ+".Box", "SubTxList")) && core.EveryIterationPasses(ap) {
						okArg = true
					}
				}
			}
			c.Check("identity-stable/RunBoxTxs:SetData(MarshalBoxData(same sub txs))", "value-flow", okArg, sd.Instr.Pos(), "the data put back into the box is the marshalled list of the very sub transactions decoded from it, each appended in every iteration that continues")
		}
	})

	// -----------------------------------------------------------------------------------------
	c.Clause("C04.2", "the ancestor test is applied to every transaction and box sub transaction of every accepted block, and every accepted, mined or reloaded block is recorded for it")
	c.Run("ancestor-test", func() {
		fn := c.Fn(cons + ".verifyTxs")
		et := c.Method(cons+".TxGuard", "ExistTxs")
		calls := core.CallsIn(fn, et)
		// at least one call is the rejecting test with the right operands (a further, read-only use of the guard is harmless)
		okH, okA, why := false, false, "no call of ExistTxs"
		for _, g := range calls {
			h, w := core.CallHeeded(g, core.IsTrue, nil)
			a := c4Args(g)
			args := len(a) == 2 && argHas(a[0], blk("ParentHash")) && core.Slice(a[0])[fn.Params[0]] &&
				core.SliceHasField(core.Slice(a[1]), c.FieldVar(typ+".Block", "Txs")) && core.Slice(a[1])[fn.Params[0]]
			if h && args {
				okH, okA = true, true
			} else if h {
				okH = true
			} else {
				why = w
			}
		}
		c.Check("verifyTxs→ExistTxs", "heeded-guard", okH, fn.Pos(), "a block containing a transaction of one of its ancestors must be rejected: %s", orOK(why))
		c.Check("verifyTxs:ExistTxs(ParentHash,Txs)", "value-flow", okA, fn.Pos(), "the test starts at the block's own parent and is given the block's whole transaction list")
		// the test is on the acceptance path: InsertBlock → VerifyAndSeal → VerifyBeforeTxProcess → verifyTxs, each heeded, before the save
		insert := c.Fn(cons + ".DPoVP.InsertBlock")
		heededBefore(c, insert, c.Method(cons+".DPoVP", "VerifyAndSeal"), core.ErrNonNil, "saveNewBlock", instrs(core.CallsIn(insert, c.Method(cons+".DPoVP", "saveNewBlock"))))
		heeded(c, c.Fn(cons+".DPoVP.VerifyAndSeal"), c.Method(cons+".Validator", "VerifyBeforeTxProcess"), core.ErrNonNil, 1, nil)
		// Validator hands its own guard to verifyTxs, and that guard is the engine's guard
		before := c.Fn(cons + ".Validator.VerifyBeforeTxProcess")
		heeded(c, before, c.FuncObj(cons+".verifyTxs"), core.ErrNonNil, 1, nil)
		for _, g := range core.CallsIn(before, c.FuncObj(cons+".verifyTxs")) {
			a := g.Common().Args
			c.Check("VerifyBeforeTxProcess:verifyTxs(block, v.txGuard)", "value-flow", len(a) == 3 && isParam(before, 1, a[0]) &&
				core.SliceHasField(core.Slice(a[1]), c.FieldVar(cons+".Validator", "txGuard")), g.Pos(), "the received block is tested against the validator's guard")
		}
		nd := c.Fn(cons + ".NewDPoVP")
		okGuard := false
		for _, g := range core.CallsIn(nd, c.FuncObj(cons+".NewValidator")) {
			a := g.Common().Args
			// the guard given to the validator is the txGuard parameter, which is also stored as the engine's txGuard
			var par ssa.Value
			for _, p := range nd.Params {
				if len(a) >= 4 && core.Slice(a[3])[p] {
					par = p
				}
			}
			if par == nil {
				continue
			}
			for _, b := range nd.Blocks {
				for _, in := range b.Instrs {
					if st, ok := in.(*ssa.Store); ok && core.FieldOf(st.Addr) == c.FieldVar(cons+".DPoVP", "txGuard") && core.Slice(st.Val)[par] {
						okGuard = true
					}
				}
			}
		}
		c.Check("NewDPoVP:validator.txGuard=engine.txGuard", "value-flow", okGuard, nd.Pos(), "the guard consulted by the validator is the one the engine records blocks in")

		// ExistTxs = IsAppearedOnFork(LoadTraces(txs), start); ExistTx delegates
		ex := c.Fn(pool + ".TxGuard.ExistTxs")
		lt := core.CallsIn(ex, c.Method(pool+".TxTracer", "LoadTraces"))
		ia := core.CallsIn(ex, c.Method(pool+".BlockCache", "IsAppearedOnFork"))
		ok := len(lt) == 1 && len(ia) == 1
		if ok {
			la, aa := c4Args(lt[0]), c4Args(ia[0])
			ok = len(la) == 1 && isParam(ex, 2, la[0]) && len(aa) == 2 && core.Derived(lt[0].Value())[aa[0]] && isParam(ex, 1, aa[1]) &&
				core.SliceHasField(core.Slice(c4Recv(lt[0])), c.FieldVar(pool+".TxGuard", "txTracer")) &&
				core.SliceHasField(core.Slice(c4Recv(ia[0])), c.FieldVar(pool+".TxGuard", "blockCache"))
			for _, r := range core.Returns(ex) {
				if r.Block() == ex.Recover {
					continue
				}
				if !core.Derived(ia[0].Value())[core.RetVal(r, 0)] {
					ok = false
				}
			}
		}
		c.Check("ExistTxs=IsAppearedOnFork(LoadTraces(txs),start)", "value-flow", ok, ex.Pos(), "the answer is whether a block that holds one of the given transactions lies on the fork below the start block")
		e1 := c.Fn(pool + ".TxGuard.ExistTx")
		ok = false
		for _, g := range core.CallsIn(e1, c.Method(pool+".TxGuard", "ExistTxs")) {
			a := c4Args(g)
			if len(a) == 2 && isParam(e1, 1, a[0]) && core.Slice(a[1])[e1.Params[2]] {
				for _, r := range core.Returns(e1) {
					if core.Derived(g.Value())[core.RetVal(r, 0)] {
						ok = true
					}
				}
			}
		}
		c.Check("ExistTx=ExistTxs(start,{tx})", "value-flow", ok, e1.Pos(), "the single transaction form asks the same question")
	})

	c.Run("tracer-siblings", func() {
		tracer := c.Named(pool + ".TxTracer")
		getSub := c.FuncObj(pool + ".getSubTxs")
		getBox := c.FuncObj(typ + ".GetBox")
		boxTx, _ := constInt(c.Const("chain/params.BoxTx"))
		n := 0
		addM := c.Method(pool+".HashSet", "Add")
		merge := c.Method(pool+".HashSet", "Merge")
		// mergedInto: the set that the entry found by lookup lk is merged into (nil when it is not merged)
		mergedInto := func(fn *ssa.Function, lk ssa.Value) ssa.Value {
			found := extractOf(lk, 0)
			if found == nil {
				return nil
			}
			for _, g := range core.CallsIn(fn, merge) {
				a := g.Common().Args
				if len(a) == 2 && core.Derived(found)[a[1]] {
					return a[0]
				}
			}
			return nil
		}
		for _, spec := range [][2]string{{"AddTrace", "add"}, {"DelTrace", "delete"}, {"LoadTraces", "lookup"}} {
			fn := c.Fn(pool + ".TxTracer." + spec[0])
			var direct, sub []tracerOp
			for _, op := range tracerOps(fn, tracer, addM, 0) {
				if op.kind != spec[1] {
					continue
				}
				for v := range core.Slice(op.key) {
					h, isCall := v.(ssa.CallInstruction)
					if !isCall || !core.SameFamily(core.CalleeObj(h), txm("Hash")) {
						continue
					}
					rs := core.Slice(c4Recv(h))
					fromParam := false
					for _, p := range fn.Params[1:] {
						if rs[p] {
							fromParam = true
						}
					}
					switch {
					case !fromParam:
					case core.SliceHasCall(rs, getSub) || core.SliceHasCall(rs, getBox):
						sub = append(sub, op)
					default:
						direct = append(direct, op)
					}
				}
			}
			name := "TxTracer." + spec[0]
			c.Check(name+":"+spec[1]+"(tx.Hash)", "sibling-agreement", len(direct) >= 1, fn.Pos(), "%s must %s the entry of the transaction's own hash", name, spec[1])
			c.Check(name+":"+spec[1]+"(subTx.Hash)", "sibling-agreement", len(sub) >= 1, fn.Pos(), "%s must %s the entry of every sub transaction of a box, like its two siblings", name, spec[1])
			for _, op := range direct {
				n++
				onlyControlledBy(c, name+":"+spec[1]+"(tx.Hash)/unconditional", "the "+spec[1]+" of the transaction's own entry", op.in, nil, nilGuardCtrl)
			}
			for _, op := range sub {
				n++
				c.Check(name+":"+spec[1]+"(subTx.Hash)/every-subTx", "loop-coverage", core.EveryIterationPasses(op.in), op.in.Pos(), "every sub transaction of the box is handled")
				onlyControlledBy(c, name+":"+spec[1]+"(subTx.Hash)/iff-box", "the "+spec[1]+" of the sub transactions' entries", op.in, nil, func(ct core.Ctrl) bool {
					return nilGuardCtrl(ct) || eqCtrl(ct, func(sl map[ssa.Value]bool) bool {
						return core.SliceHasCall(sl, txm("Type")) && core.SliceHasIntConst(sl, boxTx)
					})
				})
			}
			if spec[0] == "LoadTraces" {
				// what was found is merged into the returned set (directly, or by a helper that is handed the returned set)
				isResult := func(v ssa.Value) bool {
					for _, r := range core.Returns(fn) {
						if v != nil && (v == r.Results[0] || core.Derived(v)[r.Results[0]] || core.Derived(r.Results[0])[v]) {
							return true
						}
					}
					return false
				}
				okM := len(direct)+len(sub) > 0
				for _, op := range append(append([]tracerOp{}, direct...), sub...) {
					m := false
					switch x := op.in.(type) {
					case *ssa.Lookup:
						m = isResult(mergedInto(fn, x))
					case *ssa.Call:
						if callee := x.Call.StaticCallee(); callee != nil {
							for _, in := range tracerOps(callee, tracer, addM, 1) {
								lk, isLk := in.in.(*ssa.Lookup)
								if !isLk {
									continue
								}
								into := mergedInto(callee, lk)
								for j, par := range callee.Params {
									if into != nil && core.Derived(par)[into] && j < len(x.Call.Args) && isResult(x.Call.Args[j]) {
										m = true
									}
								}
							}
						}
					}
					if !m {
						okM = false
					}
				}
				c.Check(name+":found→Merge(result)", "value-flow", okM, fn.Pos(), "every entry found is merged into the returned block set")
			}
		}
		c.Floor("tracer-ops", n, 6)
	})

	c.Run("record-blocks", func() {
		save := c.Method(pool+".TxGuard", "SaveBlock")
		snb := c.Fn(cons + ".DPoVP.saveNewBlock")
		mustCall(c, snb, save, nil)
		for _, g := range core.CallsIn(snb, save) {
			a := c4Args(g)
			c.Check("saveNewBlock:SaveBlock(block)", "value-flow", len(a) == 1 && isParam(snb, 1, a[0]) &&
				core.SliceHasField(core.Slice(c4Recv(g)), c.FieldVar(cons+".DPoVP", "txGuard")), g.Pos(), "the saved block itself is recorded in the engine's guard")
		}
		snbObj := c.Method(cons+".DPoVP", "saveNewBlock")
		mine := c.Fn(cons + ".DPoVP.MineBlock")
		mustCall(c, mine, snbObj, nil)
		amb := core.CallsIn(mine, c.Method(cons+".BlockAssembler", "MineBlock"))
		for _, g := range core.CallsIn(mine, snbObj) {
			a := c4Args(g)
			ok := len(a) == 1 && len(amb) == 1
			if ok {
				res := core.ResultValues(amb[0])[0]
				ok = res != nil && core.Derived(res)[a[0]]
			}
			c.Check("MineBlock:saveNewBlock(mined block)", "value-flow", ok, g.Pos(), "the block that was just assembled is the one saved")
		}
		mustCall(c, c.Fn(cons+".DPoVP.InsertBlock"), snbObj, nil)

		// inside SaveBlock: the block goes into the cache and every transaction into the tracer, skipped only for nil / a refused time bucket
		sb := c.Fn(pool + ".TxGuard.SaveBlock")
		add := core.CallsIn(sb, c.Method(pool+".TimeBuckets", "Add"))
		allow := func(ct core.Ctrl) bool {
			if nilGuardCtrl(ct) {
				return true
			}
			for _, g := range add {
				for _, t := range core.TestsOf(core.ErrResult(g), core.ErrNonNil) {
					if t.If == ct.If && t.OK == ct.If.Block().Succs[ct.Taken] {
						return true
					}
				}
			}
			return false
		}
		at := core.CallsIn(sb, c.Method(pool+".TxTracer", "AddTrace"))
		c.Floor("SaveBlock/AddTrace", len(at), 1)
		for _, g := range at {
			a := c4Args(g)
			bh := core.CallsIn(sb, blk("Hash"))
			ok := len(a) == 2 && core.SliceHasField(core.Slice(a[0]), c.FieldVar(typ+".Block", "Txs")) && core.Slice(a[0])[sb.Params[1]] &&
				len(bh) >= 1 && argHas(a[1], blk("Hash")) && core.EveryIterationPasses(g)
			c.Check("SaveBlock:AddTrace(every tx of block.Txs, block.Hash)", "loop-coverage", ok, g.Pos(), "every transaction of the block is traced to the block's hash")
			onlyControlledBy(c, "SaveBlock:AddTrace/unconditional", "tracing the transactions of a saved block", g, nil, allow)
		}
		ca := core.CallsIn(sb, c.Method(pool+".BlockCache", "Add"))
		c.Floor("SaveBlock/BlockCache.Add", len(ca), 1)
		for _, g := range ca {
			a := c4Args(g)
			c.Check("SaveBlock:BlockCache.Add(block)", "value-flow", len(a) == 1 && isParam(sb, 1, a[0]), g.Pos(), "the block is put into the fork cache")
			onlyControlledBy(c, "SaveBlock:BlockCache.Add/unconditional", "caching a saved block", g, nil, allow)
		}
		for _, g := range add {
			a := c4Args(g)
			c.Check("SaveBlock:TimeBuckets.Add(block.Time, block.Hash)", "value-flow", len(a) == 2 && argHas(a[0], blk("Time")) && argHas(a[1], blk("Hash")), g.Pos(), "the expiry bucket of a block is chosen by the block's own time")
		}

		c04GuardReload(c)
	})

	// -----------------------------------------------------------------------------------------
	c.Clause("C04.3", "a transaction is acceptable in a block only inside its expiry window and on its own chain: both expiry comparisons and the chain id comparison of VerifyTxBody reject, and a box applies them to each sub transaction and refuses nested boxes")
	c.Run("expiry", func() {
		fn := c.Fn(typ + ".Transaction.VerifyTxBody")
		life, _ := constInt(c.Const("chain/params.MaxTxLifeTime"))
		boxTx, _ := constInt(c.Const("chain/params.BoxTx"))
		ts := fn.Params[2]
		q := 0
		cnt := func(ok bool) {
			if ok {
				q++
			}
		}
		cnt(condGuard(c, fn, "Expiration<timeStamp", nil, func(sl map[ssa.Value]bool) bool {
			return core.SliceHasCall(sl, txm("Expiration")) && sl[ts] && core.SliceHasOp(sl, token.LSS) && !core.SliceHasOp(sl, token.SUB)
		}))
		cnt(condGuard(c, fn, "Expiration−timeStamp>MaxTxLifeTime", nil, func(sl map[ssa.Value]bool) bool {
			return core.SliceHasCall(sl, txm("Expiration")) && sl[ts] && core.SliceHasOp(sl, token.SUB) && core.SliceHasOp(sl, token.GTR) && core.SliceHasIntConst(sl, life)
		}))
		cnt(condGuard(c, fn, "ChainID≠chainID", nil, func(sl map[ssa.Value]bool) bool {
			return core.SliceHasCall(sl, txm("ChainID")) && sl[fn.Params[1]] && core.SliceHasOp(sl, token.NEQ)
		}))
		// box: checkBoxTx heeded whenever the type is BoxTx, with the same clock
		cb := c.FuncObj(typ + ".checkBoxTx")
		bcalls := core.CallsIn(fn, cb)
		c.Floor("VerifyTxBody/checkBoxTx", len(bcalls), 1)
		for _, g := range bcalls {
			ok := len(rejectingTests(core.ErrResult(g), core.ErrNonNil, nil)) > 0
			cnt(c.Check("VerifyTxBody→checkBoxTx", "heeded-guard", ok, g.Pos(), "a box whose sub transactions fail the body check is rejected"))
			a := g.Common().Args
			c.Check("VerifyTxBody:checkBoxTx(Data, chainID, ·, timeStamp, isBlockTx)", "value-flow", len(a) == 5 && argHas(a[0], txm("Data")) && isParam(fn, 1, a[1]) && isParam(fn, 2, a[3]) && isParam(fn, 3, a[4]),
				g.Pos(), "the sub transactions are checked against the same chain id and the same clock as the box")
			onlyControlledBy(c, "VerifyTxBody:checkBoxTx/iff-box", "the sub transaction check", g, nil, func(ct core.Ctrl) bool {
				return eqCtrl(ct, func(sl map[ssa.Value]bool) bool {
					return core.SliceHasCall(sl, txm("Type")) && core.SliceHasIntConst(sl, boxTx)
				})
			})
		}
		cfn := c.Fn(typ + ".checkBoxTx")
		vtb := core.CallsIn(cfn, txm("VerifyTxBody"))
		c.Floor("checkBoxTx/VerifyTxBody", len(vtb), 1)
		for _, g := range vtb {
			ok, why := heededInLoop(g, core.ErrNonNil, nil)
			cnt(c.Check("checkBoxTx→VerifyTxBody", "heeded-guard", ok, g.Pos(), "every sub transaction is body-checked and a failure rejects the box: %s", orOK(why)))
			a := g.Common().Args
			rs := core.Slice(a[0])
			c.Check("checkBoxTx:VerifyTxBody(each of GetBox(data).SubTxList, chainID, nowTime, isBlockTx)", "value-flow", len(a) == 4 && core.SliceHasCall(rs, c.FuncObj(typ+".GetBox")) && rs[cfn.Params[0]] &&
				core.SliceHasField(rs, c.FieldVar(typ+".Box", "SubTxList")) && isParam(cfn, 1, a[1]) && isParam(cfn, 3, a[2]) && isParam(cfn, 4, a[3]), g.Pos(), "each sub transaction decoded from the box data is checked against the caller's clock (not the box's expiration)")
		}
		cnt(condGuardLoop(c, cfn, "subTx.Type=BoxTx", nil, func(sl map[ssa.Value]bool) bool {
			return core.SliceHasCall(sl, txm("Type")) && core.SliceHasIntConst(sl, boxTx) && core.SliceHasOp(sl, token.EQL) && core.SliceHasCall(sl, c.FuncObj(typ+".GetBox"))
		}))
		heeded(c, cfn, c.FuncObj(typ+".GetBox"), core.ErrNonNil, 1, nil)

		// block path: every transaction of a block is body-checked against the block's time and the node's chain id
		vfn := c.Fn(cons + ".verifyTxs")
		for _, g := range core.CallsIn(vfn, txm("VerifyTxBody")) {
			ok, why := heededInLoop(g, core.ErrNonNil, nil)
			cnt(c.Check("verifyTxs→VerifyTxBody", "heeded-guard", ok, g.Pos(), "every transaction of the block is body-checked and a failure rejects the block: %s", orOK(why)))
			a := g.Common().Args
			okA := len(a) == 4 && core.SliceHasField(core.Slice(a[0]), c.FieldVar(typ+".Block", "Txs")) && isParam(vfn, 2, a[1]) && argHas(a[2], blk("Time")) && core.Slice(a[2])[vfn.Params[0]]
			c.Check("verifyTxs:VerifyTxBody(each of block.Txs, chainId, block.Time)", "value-flow", okA, g.Pos(), "the window is measured against the block's own time")
		}
		c.Floor("window-guards", q, 7)
	})

	// -----------------------------------------------------------------------------------------
	c.Clause("C04.4", "inside one block no transaction identity occurs twice, neither on its own nor as a sub transaction of a box: every identity is tested against and inserted into one set, a hit rejects the block")
	c.Run("intra-block", func() {
		fn := c.Fn(cons + ".verifyTxs")
		boxTx, _ := constInt(c.Const("chain/params.BoxTx"))
		var top, sub []dedupSite
		for _, s := range dedupSites(fn, nil) {
			ks := core.Slice(s.Key)
			for v := range ks {
				h, isCall := v.(ssa.CallInstruction)
				if !isCall || !core.SameFamily(core.CalleeObj(h), txm("Hash")) {
					continue
				}
				rs := core.Slice(c4Recv(h))
				if !core.SliceHasField(rs, c.FieldVar(typ+".Block", "Txs")) || !rs[fn.Params[0]] {
					continue
				}
				if core.SliceHasCall(rs, c.FuncObj(typ+".GetBox")) && core.SliceHasField(rs, c.FieldVar(typ+".Box", "SubTxList")) {
					sub = append(sub, s)
				} else {
					top = append(top, s)
				}
				break
			}
		}
		c.Check("verifyTxs?unique(tx.Hash)", "test-and-insert", len(top) >= 1, fn.Pos(), "the identity of every transaction of the block is tested against a set of identities already seen in this block, a hit rejects, a miss inserts (%d site(s))", len(top))
		c.Check("verifyTxs?unique(subTx.Hash)", "test-and-insert", len(sub) >= 1, fn.Pos(), "the identity of every sub transaction of every box of the block is tested against the same set (%d site(s))", len(sub))
		for _, s := range top {
			c.Check("verifyTxs?unique(tx.Hash)/every-tx", "loop-coverage", core.EveryIterationPasses(s.At), s.At.Pos(), "no transaction of the block skips the test")
			onlyControlledBy(c, "verifyTxs?unique(tx.Hash)/unconditional", "the uniqueness test of a transaction", s.At, nil, nil)
		}
		for _, s := range sub {
			c.Check("verifyTxs?unique(subTx.Hash)/every-subTx", "loop-coverage", core.EveryIterationPasses(s.At), s.At.Pos(), "no sub transaction of a box skips the test")
			onlyControlledBy(c, "verifyTxs?unique(subTx.Hash)/iff-box", "the uniqueness test of the sub transactions", s.At, nil, func(ct core.Ctrl) bool {
				return eqCtrl(ct, func(sl map[ssa.Value]bool) bool {
					return core.SliceHasCall(sl, txm("Type")) && core.SliceHasIntConst(sl, boxTx)
				})
			})
		}
		one := len(top) >= 1 && len(sub) >= 1
		for _, s := range append(append([]dedupSite{}, top...), sub...) {
			if s.Set == nil || s.Set != top[0].Set {
				one = false
			}
		}
		c.Check("verifyTxs?unique/one-set", "test-and-insert", one, fn.Pos(), "transactions and sub transactions are tested against one and the same set")
	})

	// -----------------------------------------------------------------------------------------
	c.Clause("C04.5", "every consumer of crypto.Ecrecover accepts only the canonical (low s) form of a signature, as the ecrecover precompile already does (ValidateSignatureValues) — otherwise (r, n−s, v⊕1) is a second valid encoding of every signature and gives a signed transaction a second identity")
	c.Run("canonical-signature", func() {
		ec := c.FuncObj("common/crypto.Ecrecover")
		val := c.FuncObj("common/crypto.ValidateSignatureValues")
		// the base predicate really refuses the upper half of the s range
		vfn := c.Fn("common/crypto.ValidateSignatureValues")
		halfN := c.Global("common/crypto.secp256k1_halfN")
		condGuard(c, vfn, "s>halfN", &bFalse, func(sl map[ssa.Value]bool) bool {
			return core.SliceHasGlobal(sl, halfN) && sl[vfn.Params[2]] && core.SliceHasCall(sl, c.StdFunc("math/big", "Int.Cmp")) && core.SliceHasOp(sl, token.GTR)
		})
		// canonical-form tests of a call site: (test call, the bytes / the s value it tests)
		type ctest struct {
			call   ssa.CallInstruction
			bytes  ssa.Value // the signature bytes handed to a predicate on bytes (nil for the base predicate)
			sValue ssa.Value // the s handed to the base predicate
		}
		testsIn := func(fn *ssa.Function) []ctest {
			var out []ctest
			for _, ci := range core.AllCalls(fn) {
				call, isCall := ci.(*ssa.Call)
				if !isCall {
					continue
				}
				if core.SameFamily(core.CalleeObj(ci), val) && len(call.Call.Args) == 3 {
					out = append(out, ctest{call: ci, sValue: call.Call.Args[2]})
					continue
				}
				if i := canonicalTestParam(c.Program, call.Call.StaticCallee(), val, 0); i >= 0 && i < len(call.Call.Args) {
					out = append(out, ctest{call: ci, bytes: call.Call.Args[i]})
				}
			}
			return out
		}
		// does the implementation itself refuse high s? (then every consumer is fine)
		impl := c.FuncOf(ec)
		implChecks := false
		if impl != nil && impl.Blocks != nil {
			var walk func(f *ssa.Function, d int) bool
			walk = func(f *ssa.Function, d int) bool {
				for _, t := range testsIn(f) {
					if ok, _ := core.CallHeeded(t.call, core.IsFalse, nil); ok {
						return true
					}
				}
				if d < 2 {
					for _, ci := range core.AllCalls(f) {
						if sc := core.StaticFn(ci); sc != nil && sc.Pkg == impl.Pkg && sc.Blocks != nil && sc != f {
							if walk(sc, d+1) {
								return true
							}
						}
					}
				}
				return false
			}
			implChecks = walk(impl, 0)
		}
		n, nUses := 0, 0
		for _, s := range c.CallSites(ec) {
			if isTestHelper(c, s.Caller) || core.RelPkg(s.Caller) == "common/crypto" {
				continue // SigToPub is a wrapper of the same package; it has no caller outside it (checked below)
			}
			n++
			fn := s.Caller
			sigArg := s.Instr.Common().Args[1]
			key := core.ResultValues(s.Instr)[0]
			// uses of the recovered key: results handed out, stores into memory that outlives the call, calls of anything but
			// builtins, the logger and the pure helpers of package crypto
			var uses []ssa.Instruction
			if key != nil {
				for _, b := range fn.Blocks {
					for _, in := range b.Instrs {
						switch x := in.(type) {
						case *ssa.Return:
							if core.ClassifyReturn(x, nil, nil) == core.RetFailure {
								continue
							}
							for i := range x.Results {
								if core.Slice(core.RetVal(x, i))[key] {
									uses = append(uses, x)
									break
								}
							}
						case *ssa.Store:
							if _, local := x.Addr.(*ssa.Alloc); !local && core.Slice(x.Val)[key] {
								if pa, _ := placeRoot(x.Addr); pa == nil {
									uses = append(uses, x)
								}
							}
						case ssa.CallInstruction:
							if x == s.Instr || core.BuiltinCallName(x) != "" {
								continue
							}
							if sc := core.StaticFn(x); sc != nil && sc.Pkg != nil {
								switch rel := core.RelPkg(sc); rel {
								case "common/log", "common/crypto":
									continue
								}
							}
							for _, a := range x.Common().Args {
								if core.Slice(a)[key] {
									uses = append(uses, x)
									break
								}
							}
						}
					}
				}
			}
			nUses += len(uses)
			ok, why := len(uses) > 0, ""
			if !ok {
				why = "no use of the recovered key was found"
			}
			for _, u := range uses {
				guarded := implChecks
				for _, t := range testsIn(fn) {
					same := false
					switch {
					case t.bytes != nil:
						same = sameBytesExpr(t.bytes, sigArg, 0)
					default:
						// the s that is validated is cut from the bytes that are recovered from
						ss, gs := core.Slice(t.sValue), core.Slice(sigArg)
						for v := range ss {
							switch v.(type) {
							case *ssa.Parameter, *ssa.Call, *ssa.Alloc:
								if _, isB := v.(*ssa.Call); isB && core.BuiltinCallName(v.(*ssa.Call)) != "" {
									continue
								}
								if gs[v] {
									same = true
								}
							}
						}
					}
					if !same {
						continue
					}
					if h, _ := core.ValueHeededBefore(t.call, t.call.Value(), core.IsFalse, u); h {
						guarded = true
					}
				}
				if !guarded {
					ok = false
					why = "a use of the recovered key is reachable without a heeded canonical-form test of the same signature bytes"
				}
			}
			c.Check(shortFn(fn)+"→Ecrecover:low-s", "guarded-action", ok, s.Instr.Pos(), "%s must refuse s > n/2 (ValidateSignature / ValidateSignatureValues on the very bytes it recovers from, heeded) before the recovered key is used: %s", shortFn(fn), orOK(why))
		}
		// the identity hash covers the signature bytes as they are stored: recoverSigners recovers from (and validates) an element of the
		// list it was given, not from bytes a call made out of it (a normalised copy gives one signature two accepted encodings)
		rs := c.Fn("chain/types.recoverSigners")
		for _, g := range core.CallsIn(rs, ec) {
			raw := true
			sl := core.SliceShallow(g.Common().Args[1])
			for v := range sl {
				if cl, isCall := v.(*ssa.Call); isCall && core.BuiltinCallName(cl) == "" {
					raw = false
				}
			}
			c.Check("recoverSigners→Ecrecover:stored-bytes", "value-flow", raw && sl[rs.Params[1]], g.Pos(), "the bytes recovered from are an element of the signature list itself (the transaction hash covers exactly those bytes)")
		}
		c.Floor("Ecrecover-consumers", n, 4)
		c.Floor("Ecrecover-consumers/uses-of-recovered-key", nUses, 4)
		closedCallers(c, "crypto.SigToPub", nil, c.FuncObj("common/crypto.SigToPub"))
	})

	// -----------------------------------------------------------------------------------------
	c.Clause("C04.5b", "no unauthenticated freedom inside the identity: every recovered signature either takes part in the authorisation decision or makes the transaction invalid (the identity covers the signature lists, so a tolerated extra signature is a free way to a second identity)")
	c.Run("hash-covered⇒decision-covered", func() {
		f := analyseSigners(c)
		fn := f.fn
		if f.signers == nil {
			c.Check("checkSignersWeight→GetSigners", "guard-call-present", false, fn.Pos(), "checkSignersWeight must obtain the recovered signer list exactly once")
			return
		}
		c.Check("checkSignersWeight:signers-not-escaping", "value-flow", f.otherUses == 0, fn.Pos(), "the recovered list is only measured and indexed (%d other uses)", f.otherUses)
		c.Floor("checkSignersWeight/element-accesses", len(f.constIdx)+len(f.loopIdx), 2)
		sd := core.Derived(f.signers)
		for _, ia := range f.constIdx {
			k, _ := constIntOf(ia.Index)
			ok := false
			// len ≠ k+1 rejects; for k = 0 also len > 1 (or len ≥ 2) next to the dominating len = 0 rejection
			emptyRejected := false
			for _, g := range core.CondGuards(fn, nil) {
				if bo, isB := g.If.Cond.(*ssa.BinOp); isB && bo.Op == token.EQL && core.SliceHasLenOf(g.Slice, sd) && g.Fail == g.If.Block().Succs[0] && g.GuardsAction(ia) {
					if z, isK := constIntOf(bo.Y); isK && z == 0 {
						emptyRejected = true
					}
				}
			}
			for _, g := range core.CondGuards(fn, nil) {
				bo, isB := g.If.Cond.(*ssa.BinOp)
				if !isB || !core.SliceHasLenOf(core.Slice(bo.X), sd) || g.Fail != g.If.Block().Succs[0] || !g.GuardsAction(ia) {
					continue
				}
				y, isK := constIntOf(bo.Y)
				switch {
				case !isK:
				case bo.Op == token.NEQ && y == k+1:
					ok = true
				case k == 0 && emptyRejected && ((bo.Op == token.GTR && y == 1) || (bo.Op == token.GEQ && y == 2)):
					ok = true
				}
			}
			c.Check("checkSignersWeight?len(signers)≠1≺signers[0]", "guarded-action", ok, ia.Pos(), "a decision that looks at element %d only must first reject every list whose length is not %d", k, k+1)
		}
		for _, ia := range f.loopIdx {
			el := elemValue(ia)
			// the loop visits the whole list
			whole := false
			for _, ct := range core.Controllers(ia) {
				if core.IsLoopHeaderIf(ct.If) && core.SliceHasLenOf(core.Slice(ct.If.Cond), sd) {
					whole = true
				}
			}
			c.Check("checkSignersWeight:loop-over-all-signers", "loop-coverage", whole && el != nil, ia.Pos(), "the multisig branch walks the whole recovered list")
			if el == nil {
				continue
			}
			// membership: a signer that is not registered rejects
			member := false
			for _, b := range fn.Blocks {
				for _, in := range b.Instrs {
					lk, isLk := in.(*ssa.Lookup)
					if !isLk || !lk.CommaOk || lk.Index != el || !core.EveryIterationPasses(lk) {
						continue
					}
					if !core.SliceHasCall(core.Slice(lk.X), c.Method(typ+".AccountAccessor", "GetSigners")) {
						continue
					}
					if len(rejectingTests(extractOf(lk, 1), core.IsFalse, nil)) > 0 {
						member = true
					}
				}
			}
			c.Check("checkSignersWeight?signer∉account.signers", "quantity-guard", member, ia.Pos(), "a signature of somebody who is not a registered signer of the account rejects the transaction")
			dup := false
			for _, s := range dedupSites(fn, nil) {
				if s.Key == el && core.EveryIterationPasses(s.At) {
					dup = true
				}
			}
			c.Check("checkSignersWeight?signer-seen-twice", "test-and-insert", dup, ia.Pos(), "a second signature of the same signer rejects the transaction")
		}
	})

	// -----------------------------------------------------------------------------------------
	c.Clause("C04.6", "pruning keeps the window: DelOldBlocks expires blocks older than (new stable time − MaxTxLifeTime) and forgets only what the expiry returned")
	c.Run("pruning", func() {
		fn := c.Fn(pool + ".TxGuard.DelOldBlocks")
		life, _ := constInt(c.Const("chain/params.MaxTxLifeTime"))
		exp := core.CallsIn(fn, c.Method(pool+".TimeBuckets", "Expire"))
		c.Floor("DelOldBlocks/Expire", len(exp), 1)
		for _, g := range exp {
			a := c4Args(g)
			ok := false
			if len(a) == 1 {
				if bo, isB := a[0].(*ssa.BinOp); isB && bo.Op == token.SUB && isParam(fn, 1, bo.X) {
					sl := core.Slice(bo.Y)
					ok = core.SliceHasIntConst(sl, life) && !sl[fn.Params[1]]
				}
			}
			c.Check("DelOldBlocks:Expire(newStableTime−MaxTxLifeTime)", "quantity-guard", ok, g.Pos(), "the expiry bound is the new stable block's time minus MaxTxLifeTime")
		}
		// every forgetting step anywhere in the program (TxTracer.DelTrace drops the whole trace of a transaction, BlockCache.Del the block)
		// is fed by the expiry: its argument derives from an Expire result, directly or through the parameters of helpers all of whose
		// callers pass such a value. A block that is dropped for another reason (a pruned fork) shares unexpired transactions with the
		// winning branch, and DelTrace would erase their trace there as well.
		expire := c.Method(pool+".TimeBuckets", "Expire")
		var fromExpiry func(fn *ssa.Function, v ssa.Value, depth int) bool
		fromExpiry = func(fn *ssa.Function, v ssa.Value, depth int) bool {
			sl := core.Slice(v)
			if core.SliceHasCall(sl, expire) {
				return true
			}
			if depth > 3 {
				return false
			}
			hasRecv := fn.Signature.Recv() != nil
			var idx []int
			for i, p := range fn.Params {
				if hasRecv && i == 0 {
					continue
				}
				if sl[p] {
					idx = append(idx, i)
				}
			}
			fo, _ := fn.Object().(*types.Func)
			if len(idx) == 0 || fo == nil {
				return false
			}
			_, sites := callersOf(c, fo)
			if len(sites) == 0 {
				return false
			}
			for _, s := range sites {
				args := s.Instr.Common().Args
				if s.Instr.Common().IsInvoke() {
					return false
				}
				for _, i := range idx {
					if i >= len(args) || !fromExpiry(s.Caller, args[i], depth+1) {
						return false
					}
				}
			}
			return true
		}
		// (BlockCache.Del is not held to this: a missing block makes the ancestor walk fail, which rejects, it does not admit a replay)
		_, fsites := callersOf(c, c.Method(pool+".TxTracer", "DelTrace"))
		fseq := map[string]int{}
		for _, d := range fsites {
			okD := false
			for _, x := range c4Args(d.Instr) {
				if fromExpiry(d.Caller, x, 0) {
					okD = true
				}
			}
			k := objName(core.CalleeObj(d.Instr)) + "@" + shortFn(d.Caller)
			fseq[k]++
			c.Check("forget:"+k+seqSuffix(fseq[k])+"(expired only)", "value-flow", okD, d.Instr.Pos(), "only blocks returned by the expiry, and their transactions, are forgotten (interprocedural: the argument derives from TimeBuckets.Expire in this function or in every caller that supplies it)")
		}
		c.Floor("forgetters", len(fsites), 1)
		// the stable change is what drives it, with the stable block's own time
		osc := c.Fn(cons + ".DPoVP.onStableChanged")
		for _, g := range core.CallsIn(osc, c.Method(pool+".TxGuard", "DelOldBlocks")) {
			a := c4Args(g)
			c.Check("onStableChanged:DelOldBlocks(newStable.Time)", "value-flow", len(a) == 1 && argHas(a[0], blk("Time")) && core.Slice(a[0])[osc.Params[1]], g.Pos(), "the bound is derived from the new stable block")
		}
		closedCallers(c, "TxGuard.DelOldBlocks", []string{core.FuncName(osc)}, c.Method(pool+".TxGuard", "DelOldBlocks"))
		// ... and "the new stable block" is the block whose promotion just succeeded: every caller hands onStableChanged the very value it
		// handed to UpdateStable before (not the current block, whose time can be far ahead: the guard would forget live transactions)
		us := c.Method(cons+".DPoVP", "UpdateStable")
		_, oscSites := callersOf(c, c.Method(cons+".DPoVP", "onStableChanged"))
		c.Floor("onStableChanged/callers", len(oscSites), 2)
		seqO := map[string]int{}
		for _, cs := range oscSites {
			a := c4Args(cs.Instr)
			ok := false
			for _, u := range core.CallsIn(cs.Caller, us) {
				ua := c4Args(u)
				if len(a) == 1 && len(ua) == 1 && (ua[0] == a[0] || sameExprF(ua[0], a[0])) && core.Dominates(u, cs.Instr) {
					ok = true
				}
			}
			n := shortFn(cs.Caller)
			seqO[n]++
			c.Check("onStableChanged(block-UpdateStable-promoted)@"+n+seqSuffix(seqO[n]), "value-flow", ok, cs.Instr.Pos(), "%s hands onStableChanged the block it handed to UpdateStable", n)
		}
	})

	// -----------------------------------------------------------------------------------------
	c.Clause("C04.7", "the miner applies the validator's ancestor test to what it packages: the list handed to the assembler is the pool's list filtered through txGuard.ExistTx against the parent the block is built on")
	c.Run("miner-filter", func() {
		mine := c.Fn(cons + ".DPoVP.MineBlock")
		drop := c.Method(cons+".DPoVP", "dropPackagedTxs")
		amb := core.CallsIn(mine, c.Method(cons+".BlockAssembler", "MineBlock"))
		dc := core.CallsIn(mine, drop)
		c.Floor("MineBlock/assembler.MineBlock", len(amb), 1)
		ok := len(amb) == 1 && len(dc) == 1
		if ok {
			a := c4Args(amb[0])
			ok = len(a) == 3 && core.Derived(dc[0].Value())[a[1]]
		}
		c.Check("MineBlock:assembler.MineBlock(filtered txs)", "value-flow", ok, mine.Pos(), "the transactions given to the assembler are exactly the result of the ancestor filter")
		if len(dc) == 1 {
			a := c4Args(dc[0])
			// parent = the header the new header was prepared on
			ph := core.CallsIn(mine, c.Method(cons+".BlockAssembler", "PrepareHeader"))
			okP := len(a) == 2 && len(ph) == 1
			if okP {
				okP = false
				parent := c4Args(ph[0])[0]
				for v := range core.Slice(a[0]) {
					if h, isCall := v.(ssa.CallInstruction); isCall && core.SameFamily(core.CalleeObj(h), c.Method(typ+".Header", "Hash")) && c4Recv(h) == parent {
						okP = true
					}
				}
			}
			c.Check("MineBlock:dropPackagedTxs(parent.Hash, pool txs)", "value-flow", okP && argHas(a[1], c.Method(pool+".TxPool", "GetTxs")), dc[0].Pos(), "the filter starts at the hash of the very header the new block is prepared on and is applied to the pool's list")
		}
		dfn := c.Fn(cons + ".DPoVP.dropPackagedTxs")
		ex := core.CallsIn(dfn, c.Method(pool+".TxGuard", "ExistTx"), c.Method(pool+".TxGuard", "ExistTxs"))
		n := 0
		for _, r := range core.Returns(dfn) {
			for v := range core.Slice(r.Results[0]) {
				ap, isCall := v.(*ssa.Call)
				if !isCall || core.BuiltinCallName(ap) != "append" || len(ap.Call.Args) != 2 {
					continue
				}
				n++
				okF := false
				for _, g := range ex {
					if h, _ := core.HeededBefore(g, core.IsTrue, ap); !h {
						continue
					}
					ga := c4Args(g)
					// the tested transaction is the appended one, the start is the given parent hash
					if len(ga) == 2 && isParam(dfn, 1, ga[0]) && core.Slice(ap.Call.Args[1])[ga[1]] && core.Slice(ga[1])[dfn.Params[2]] &&
						core.SliceHasField(core.Slice(c4Recv(g)), c.FieldVar(cons+".DPoVP", "txGuard")) {
						okF = true
					}
				}
				c.Check("dropPackagedTxs:kept⇒¬ExistTx(parentHash, tx)", "guarded-action", okF, ap.Pos(), "a transaction is kept only after the engine's guard denied that it is on the parent's fork")
			}
		}
		c.Floor("dropPackagedTxs/keeps", n, 1)
	})

	c.NotDecidedf("bucket arithmetic of TimeBuckets (60 s buckets against the 30 min window), the fork walk of BlockCache.SliceOnFork/IsAppearedOnFork, behaviour across fork switches and pool re-insertion")
	c.NotDecidedf("that keccak/RLP are injective, that the hash cache of a Transaction is never stale (SetData/SetGasUsed after Hash), cryptographic soundness of ECDSA recovery")
	c.NotDecidedf("the canonical-signature clause is evaluated for the loaded build configuration only (cgo); signatures outside consensus identity (p2p handshake uses secp256k1.RecoverPubkey directly) are not covered")
}

func constIntOf(v ssa.Value) (int64, bool) {
	k, ok := v.(*ssa.Const)
	if !ok || k.Value == nil {
		return 0, false
	}
	return k.Int64(), true
}

// c04GuardReload: after a restart the last MaxTxLifeTime of stable blocks is recorded in the replay guard again, every one of them.
// Evaluated under C04.2 (replay protection) and C08.10 (a restarted node accepts what a node that never stopped accepts).
func c04GuardReload(c *core.Ctx) {
	const (
		typ  = "chain/types"
		cons = "chain/consensus"
		pool = "chain/txpool"
	)
	blk := func(m string) *types.Func { return c.Method(typ+".Block", m) }
	save := c.Method(pool+".TxGuard", "SaveBlock")
	{
		// restart: the last MaxTxLifeTime of stable blocks is recorded again
		nbc := c.Fn("chain.NewBlockChain")
		itp := c.Method("chain.BlockChain", "initTxPool")
		mustCall(c, nbc, itp, nil)
		for _, g := range core.CallsIn(nbc, itp) {
			a := c4Args(g)
			ok := len(a) == 3 && argHas(a[0], c.Method("store/protocol.ChainDB", "LoadLatestBlock")) && argHas(a[2], c.FuncObj(pool+".NewTxGuard"))
			// the same guard object goes into the engine
			same := false
			for _, e := range core.CallsIn(nbc, c.FuncObj(cons+".NewDPoVP")) {
				for _, ea := range e.Common().Args {
					if ok && ea == a[2] {
						same = true
					}
				}
			}
			c.Check("NewBlockChain:initTxPool(latest stable, engine's guard)", "value-flow", ok && same, g.Pos(), "the guard refilled on start is the one handed to the consensus engine, starting from the latest stable block")
		}
		ifn := c.Fn("chain.BlockChain.initTxPool")
		life, _ := constInt(c.Const("chain/params.MaxTxLifeTime"))
		sv := core.CallsIn(ifn, save)
		c.Floor("initTxPool/SaveBlock", len(sv), 1)
		for _, g := range sv {
			a := c4Args(g)
			okArg := len(a) == 1 && core.Slice(a[0])[ifn.Params[1]] && argHas(a[0], c.Method("chain.BlockChain", "GetBlockByHeight")) && isParam(ifn, 3, c4Recv(g))
			c.Check("initTxPool:SaveBlock(stable block and its ancestors)", "value-flow", okArg, g.Pos(), "the walk starts at the given block and continues with blocks loaded by decreasing height, all saved into the given guard")
			// the only loop condition around it is the life-time window
			okWin := false
			for _, ct := range core.Controllers(g) {
				if core.IsLoopHeaderIf(ct.If) && ct.Taken == 0 {
					sl := core.Slice(ct.If.Cond)
					if core.SliceCountCalls(sl, blk("Time")) >= 2 && core.SliceHasIntConst(sl, life) && core.SliceHasOp(sl, token.SUB) && sliceHasCmp(sl, token.LEQ, token.LSS) {
						okWin = true
					}
				}
			}
			c.Check("initTxPool?stableTime−block.Time≤MaxTxLifeTime", "quantity-guard", okWin, g.Pos(), "blocks are reloaded as long as they are within MaxTxLifeTime of the stable block")
			onlyControlledBy(c, "initTxPool:SaveBlock/unconditional", "reloading a block inside the window", g, nil, nilGuardCtrl)
		}
	}
}
