package rules

import (
	"go/constant"
	"go/token"
	"go/types"
	"math"
	"sort"
	"strings"

	"golang.org/x/tools/go/ssa"

	"verif/lint/internal/core"
)

func init() { register("C01", c01) }

func c01Roots(c *core.Ctx) []*ssa.Function {
	var roots []*ssa.Function
	for _, s := range []string{
		"chain/transaction.TxProcessor.Process", "chain/transaction.TxProcessor.ApplyTxs",
		"chain/consensus.BlockAssembler.Finalize", "chain/consensus.BlockAssembler.Seal",
		"chain/account.Manager.MergeChangeLogs", "chain/account.Manager.Finalise", "chain/account.Manager.GetTxsProduct", "chain/account.Manager.Save",
		"chain/consensus.Validator.VerifyAfterTxProcess",
		"chain/types.Header.Hash", "chain/types.Transaction.Hash", "chain/types.ChangeLog.Hash", "chain/types.DeputyNode.Hash",
		"chain/types.Transactions.MerkleRootSha", "chain/types.ChangeLogSlice.MerkleRootSha", "chain/types.DeputyNodes.MerkleRootSha",
		"chain/types.Profile.EncodeRLP", "chain/types.ChangeLog.EncodeRLP", "chain/types.Header.EncodeRLP",
	} {
		roots = append(roots, c.FnOrCaller(s))
	}
	return roots
}

// c01OutsideState: fields read inside the consensus closure and written outside it, with the reason each is a function of the chain.
var c01OutsideState = map[string]string{
	"consensus.DPoVP.am":          "pointer set at construction; the writes seen are calls through it into the account manager, which is re-based on the parent state before every block (executor-state rule)",
	"consensus.DPoVP.dm":          "pointer set at construction; the writes seen are calls through it into the deputy manager, whose only state read here is termList (next entry)",
	"deputynode.Manager.termList": "appended by SaveSnapshot from stable snapshot blocks only (C10.5): a function of the chain; a node that does not have the term yet fails with ErrNoStableTerm instead of answering differently",
}

// sharedOwner: the struct that declares f has a sync.Mutex / sync.RWMutex field (directly or embedded).
func sharedOwner(c *core.Ctx, f *types.Var) bool {
	n := ownerNamed(c, f)
	if n == nil {
		return false
	}
	st, ok := n.Underlying().(*types.Struct)
	if !ok {
		return false
	}
	for i := 0; i < st.NumFields(); i++ {
		t := st.Field(i).Type()
		if p, ok := t.(*types.Pointer); ok {
			t = p.Elem()
		}
		if nt, ok := t.(*types.Named); ok && nt.Obj().Pkg() != nil && nt.Obj().Pkg().Path() == "sync" && (nt.Obj().Name() == "Mutex" || nt.Obj().Name() == "RWMutex") {
			return true
		}
	}
	return false
}

// ownerOfField names the struct type that declares the field ("deputynode.Manager").
func ownerOfField(c *core.Ctx, f *types.Var) string {
	if n := ownerNamed(c, f); n != nil {
		return n.Obj().Pkg().Name() + "." + n.Obj().Name()
	}
	if f.Pkg() != nil {
		return f.Pkg().Name() + ".?"
	}
	return "?"
}

// c01GlobalWrites: package-level variables written inside the consensus closure, confirmed by reading; value = why it cannot carry
// state from one block's execution into the next one's result.
var c01GlobalWrites = map[string]string{
	"common/rlp.typeCache": "memo keyed by reflect.Type; an entry is a pure function of the type (kind, fields, tags), so a hit and a miss yield the same codec",
}

// mapLoopTable: the map iterations inside the consensus closure that the syntactic classifier cannot prove order-insensitive,
// confirmed by reading; value = {count, reason}. A new one (or a higher count) is a violation.
var mapLoopTable = map[string]struct {
	n      int
	reason string
}{
	"(*account.Account).IsEmpty":                          {1, "existential test (any non-zero version): the answer does not depend on which key is met first"},
	"(*account.Manager).Save":                             {1, "each account is saved under its own address into a keyed store; the only early exit is an error that fails the block on every node"},
	"(*account.StorageCache).Update":                      {1, "every dirty entry is applied to the trie and removed; the resulting root depends on the set only (C17); early exit only on a trie error"},
	"(*transaction.CandidateVoteEnv).modifyCandidateInfo": {1, "writes candidateProfile[key] for the iteration key only (the classifier sees the inequality tests on the key as early exits)"},
	"(*store.CandidateCache).GetCandidates":               {1, "feeds refundCandidateDeposit, whose per-address effects commute: balance logs of one address are merged first-old/last-new and all logs are address-sorted afterwards"},
	"(*store.VoteTop).MergeCandidates":                    {1, "the merged set is re-ranked by the total order (votes, address) over distinct addresses before it is published"},
	"(*trie.SecureTrie).Commit":                           {1, "writes key preimages into a content-addressed store; not part of any hash"},
	"account.MergeChangeLogs":                             {1, "per-address independent: merge/removeUnchanged work on the logs of the iteration key only and store the result under that key; the second loop of the function collects and sorts"},
	"account.NewAccount":                                  {1, "keyed copy of the version records into the account's own map"},
	"transaction.ChangeVotesByBalance":                    {1, "per-voter additions to the voted candidate: additions commute and VotesLogs of one candidate are merged afterwards (needMerge(VotesLog))"},
	"transaction.CheckRegisterTxProfile":                  {1, "every early exit is a rejection of the same transaction"},
	"transaction.getVotesChangesByLogs":                   {1, "writes votesChange[addr] for the iteration key only (the `continue` on equal votes looks like an early exit)"},
}

func c01(c *core.Ctx) {
	stop := func(fn *ssa.Function) bool {
		rel := core.RelPkg(fn)
		return rel == "common/log" || rel == "metrics" || rel == "common/subscribe" || rel == "store" || rel == "store/leveldb" || strings.HasPrefix(rel, "chain/testchain")
	}
	var cl map[*ssa.Function]*ssa.Function
	var fns []*ssa.Function
	c.Clause("C01.1", "no nondeterminism source reaches a consensus-visible result inside the call-graph closure of execution, finalisation, sealing and hashing: no goroutine or select, no randomness, clock values only into comparisons/logs, map iteration only in order-insensitive forms, node-local store reads only by block hash")
	c.Run("closure", func() {
		cl = cgClosure(c, c01Roots(c), stop)
		for f := range cl {
			fns = append(fns, f)
		}
		sort.Slice(fns, func(i, j int) bool { return fns[i].String() < fns[j].String() })
		c.Floor("closure/functions", len(fns), 600)
		c.Note("consensus closure: %d functions (VTA call graph; boundaries: common/log, metrics, common/subscribe, store, store/leveldb)", len(fns))
	})
	if cl == nil {
		return
	}
	inRO := func(fn *ssa.Function) bool {
		o := core.Outer(fn)
		if rn := recvNamed(funcObj(o)); rn != nil && rn.Name() == "ReadOnlyManager" {
			return true
		}
		return false
	}

	c.Run("concurrency-and-randomness", func() {
		nGo, nSel, nRand := 0, 0, 0
		for _, f := range fns {
			for _, b := range f.Blocks {
				for _, in := range b.Instrs {
					switch x := in.(type) {
					case *ssa.Go:
						nGo++
						c.Check("go@"+shortFn(f), "determinism", false, x.Pos(), "goroutine started inside the consensus closure (%s)", closurePath(cl, f))
					case *ssa.Select:
						nSel++
						c.Check("select@"+shortFn(f), "determinism", false, x.Pos(), "select inside the consensus closure (%s)", closurePath(cl, f))
					case *ssa.Call:
						if clockOrRandom(x.Call.StaticCallee()) == "random" {
							nRand++
							c.Check("random@"+shortFn(f), "determinism", false, x.Pos(), "randomness inside the consensus closure (%s)", closurePath(cl, f))
						}
					}
				}
			}
		}
		c.Check("scan/go-select-random", "determinism", nGo+nSel+nRand == 0, token.NoPos, "%d functions scanned: %d go, %d select, %d random", len(fns), nGo, nSel, nRand)
		// positive control: the scanner sees the goroutine in the RPC path, which is outside the closure
		rc := c.Fn("chain/transaction.TxProcessor.ReadContract")
		seen := false
		for _, b := range rc.Blocks {
			for _, in := range b.Instrs {
				if _, ok := in.(*ssa.Go); ok {
					seen = true
				}
			}
		}
		_, inCl := cl[rc]
		c.Check("control/ReadContract-go-outside-closure", "positive-control", seen && !inCl, rc.Pos(), "ReadContract starts a goroutine (seen=%v) and is not part of the consensus closure (in=%v)", seen, inCl)
	})

	c.Run("clock", func() {
		tracer := c.Named("chain/vm.Tracer")
		isSink := func(ci ssa.CallInstruction) bool {
			cc := ci.Common()
			if cc.IsInvoke() {
				return types.Identical(cc.Value.Type(), tracer)
			}
			if sc := cc.StaticCallee(); sc != nil {
				rel := core.RelPkg(sc)
				return rel == "common/log" || rel == "metrics"
			}
			return false
		}
		n := 0
		for _, f := range fns {
			for _, ci := range core.AllCalls(f) {
				if clockOrRandom(ci.Common().StaticCallee()) != "clock" || ci.Value() == nil {
					continue
				}
				n++
				ok, bad := clockFlow(ci.Value(), isSink, map[ssa.Value]bool{}, 0)
				where := ""
				if bad != nil {
					where = c.Pos(bad.Pos())
				}
				c.Check("clock@"+shortFn(f), "determinism", ok, ci.Pos(), "a wall-clock value in %s may only flow into comparisons (the miner's selection), logs, metrics or the tracer; offending use: %s", shortFn(f), where)
			}
		}
		c.Floor("clock/sources", n, 8)
		// the validator and the box executor never let the clock decide: they pass the largest value as the time budget
		applyTx := c.Method("chain/transaction.TxProcessor", "applyTx")
		for _, spec := range []string{"chain/transaction.TxProcessor.Process", "chain/transaction.BoxTxEnv.RunBoxTxs"} {
			fn := c.Fn(spec)
			calls := core.CallsIn(fn, applyTx)
			ok := len(calls) >= 1
			for _, ci := range calls {
				a := ci.Common().Args
				k, isK := a[len(a)-1].(*ssa.Const)
				if !isK || k.Value == nil {
					ok = false
					continue
				}
				v, exact := constant.Int64Val(constant.ToInt(k.Value))
				if !exact || v != math.MaxInt64 {
					ok = false
				}
			}
			c.Check("time-budget/"+shortFn(fn), "determinism", ok, fn.Pos(), "%s executes transactions with an unlimited time budget (constant MaxInt64), so an included transaction's result never depends on the clock", shortFn(fn))
		}
	})

	c.Run("state-across-blocks", func() {
		// (a) package-level variables written inside the closure: anything kept there outlives the block and can differ between a node that
		// executed the previous blocks and one that did not
		n := 0
		for _, f := range fns {
			if f.Name() == "init" || (f.Parent() != nil && core.Outer(f).Name() == "init") {
				continue
			}
			gw := globalWritesIn(f)
			var gs []*ssa.Global
			for g := range gw {
				gs = append(gs, g)
			}
			sort.Slice(gs, func(i, j int) bool { return gs[i].String() < gs[j].String() })
			for _, g := range gs {
				n++
				key := strings.TrimPrefix(strings.TrimPrefix(g.Pkg.Pkg.Path(), core.ModPath), "/") + "." + g.Name()
				reason, listed := c01GlobalWrites[key]
				c.Check("global-write/"+key+"@"+shortFn(f), "effects", listed, gw[g][0].Pos(), "%s writes the package-level variable %s inside the consensus closure (%s); listed=%v: %s", shortFn(f), key, closurePath(cl, f), listed, reason)
			}
		}
		c.Note("package-level writes inside the closure: %d", n)

		// (b) the executors keep nothing from one block to the next: a field of TxProcessor / BlockAssembler is either never written after
		// construction, or it is re-initialised from the block at hand, unconditionally, before the first transaction of every block
		applyTx := c.Method("chain/transaction.TxProcessor", "applyTx")
		entries := []*ssa.Function{c.Fn("chain/transaction.TxProcessor.Process"), c.Fn("chain/transaction.TxProcessor.ApplyTxs")}
		for _, tn := range []string{"chain/transaction.TxProcessor", "chain/consensus.BlockAssembler"} {
			named := c.Named(tn)
			st := named.Underlying().(*types.Struct)
			fieldSet := map[*types.Var]bool{}
			for i := 0; i < st.NumFields(); i++ {
				fieldSet[st.Field(i)] = true
			}
			type wsite struct {
				fn   *ssa.Function
				in   ssa.Instruction
				st   *ssa.Store // non-nil for a direct store of the field
				cons bool
			}
			writes := map[*types.Var][]wsite{}
			// field the address/value v is (or is loaded from / lies under)
			var under func(v ssa.Value, d int) (*types.Var, ssa.Value)
			under = func(v ssa.Value, d int) (*types.Var, ssa.Value) {
				if d > 8 {
					return nil, nil
				}
				switch x := v.(type) {
				case *ssa.FieldAddr:
					if f := core.FieldOf(x); f != nil && fieldSet[f] {
						return f, x.X
					}
					return under(x.X, d+1)
				case *ssa.IndexAddr:
					return under(x.X, d+1)
				case *ssa.UnOp:
					if x.Op == token.MUL {
						// a load through a pointer-typed field reaches another object (the account manager, the store): not executor state
						if _, isPtr := x.Type().Underlying().(*types.Pointer); isPtr {
							return nil, nil
						}
						if _, isIface := x.Type().Underlying().(*types.Interface); isIface {
							return nil, nil
						}
						return under(x.X, d+1)
					}
				case *ssa.Slice:
					return under(x.X, d+1)
				case *ssa.ChangeType:
					return under(x.X, d+1)
				}
				return nil, nil
			}
			for _, fn := range c.SrcFuncs {
				if isTestHelper(c, fn) {
					continue
				}
				for _, b := range fn.Blocks {
					for _, in := range b.Instrs {
						var target ssa.Value
						var direct *ssa.Store
						switch x := in.(type) {
						case *ssa.Store:
							target = x.Addr
							if fa, ok := x.Addr.(*ssa.FieldAddr); ok && fieldSet[core.FieldOf(fa)] {
								direct = x
							}
						case *ssa.MapUpdate:
							target = x.Map
						case *ssa.Call:
							if bi, ok := x.Call.Value.(*ssa.Builtin); ok && (bi.Name() == "delete" || bi.Name() == "copy" || bi.Name() == "clear") && len(x.Call.Args) > 0 {
								target = x.Call.Args[0]
							}
							// a container of the sync packages kept in a field: Store / LoadOrStore / Delete / Add ... on its address write it
							if o := core.CalleeObj(x); o != nil && o.Pkg() != nil && (o.Pkg().Path() == "sync" || o.Pkg().Path() == "sync/atomic") && len(x.Call.Args) > 0 {
								switch o.Name() {
								case "Store", "LoadOrStore", "LoadAndDelete", "Delete", "Swap", "CompareAndSwap", "Add", "Range":
									if o.Name() != "Range" {
										target = x.Call.Args[0]
									}
								}
							}
						}
						if target == nil {
							continue
						}
						f, base := under(target, 0)
						if f == nil {
							continue
						}
						_, fresh := base.(*ssa.Alloc)
						writes[f] = append(writes[f], wsite{fn, in, direct, fresh})
					}
				}
			}
			// resetIn(e, f): a store of f whose value does not depend on the executor's own fields, executed on every path of e before the first transaction
			resetIn := func(e *ssa.Function, f *types.Var) bool {
				first := core.CallsIn(e, applyTx)
				domAll := func(in ssa.Instruction) bool {
					for _, a := range first {
						if !core.Dominates(in, a) {
							return false
						}
					}
					return len(first) > 0
				}
				for _, w := range writes[f] {
					if w.st == nil || w.cons {
						continue
					}
					dep := false
					for v := range core.Slice(w.st.Val) {
						if fa, ok := v.(*ssa.FieldAddr); ok && fieldSet[core.FieldOf(fa)] {
							dep = true
						}
					}
					if dep {
						continue
					}
					if w.fn == e && domAll(w.st) {
						return true
					}
					// one level of helper: the store runs on every normal path of the helper and the helper's call precedes the transactions
					allRet := true
					for _, r := range core.Returns(w.fn) {
						if !core.Dominates(w.st, r) {
							allRet = false
						}
					}
					if allRet && w.fn.Object() != nil {
						if fo, ok := w.fn.Object().(*types.Func); ok {
							for _, ci := range core.CallsIn(e, fo) {
								if domAll(ci) {
									return true
								}
							}
						}
					}
				}
				return false
			}
			n := 0
			for i := 0; i < st.NumFields(); i++ {
				f := st.Field(i)
				late := 0
				var pos token.Pos
				for _, w := range writes[f] {
					if !w.cons {
						late++
						if pos == token.NoPos {
							pos = w.in.Pos()
						}
					}
				}
				ok := late == 0
				if !ok {
					ok = true
					for _, e := range entries {
						if !resetIn(e, f) {
							ok = false
						}
					}
				}
				n++
				c.Check("executor-state/"+named.Obj().Name()+"."+f.Name(), "effects", ok, pos, "%s.%s is written after construction at %d site(s) and is not re-initialised from the block, unconditionally, before the first transaction in both Process and ApplyTxs: what it holds comes from the blocks this node executed before", named.Obj().Name(), f.Name(), late)
			}
			c.Floor("executor-state/"+named.Obj().Name()+"/fields", n, 4)
		}
		// the account manager is re-based on the parent state before the first transaction of every block
		reset := c.Method("chain/account.Manager", "Reset")
		for _, e := range entries {
			ok := false
			for _, ci := range core.CallsIn(e, reset) {
				_, a := recvArgs(ci)
				dom := true
				for _, at := range core.CallsIn(e, applyTx) {
					if !core.Dominates(ci, at) {
						dom = false
					}
				}
				// also a block without transactions is charged and finalised on the parent's state
				for _, r := range core.Returns(e) {
					if r.Block() != e.Recover && !core.Dominates(ci, r) {
						dom = false
					}
				}
				if dom && len(a) == 1 && core.SliceHasField(core.Slice(a[0]), c.FieldVar("chain/types.Header", "ParentHash")) && core.Slice(a[0])[e.Params[1]] {
					ok = true
				}
			}
			c.Check("executor-state/"+shortFn(e)+":Reset(header.ParentHash)≺applyTx", "order", ok, e.Pos(), "%s re-bases the account manager on the parent block of the header it executes before the first transaction", shortFn(e))
		}
	})

	c.Run("outside-state", func() {
		// State that reaches the transition from outside it: struct fields that functions of the closure read and that some function OUTSIDE
		// the closure (not a constructor working on a fresh object) writes. Everything on this list must be a function of the chain (or of
		// the node's configuration, equal on all nodes by assumption); a field filled by what this node happened to see — peers, timing,
		// what it was online for — makes two honest nodes compute different results. The list is frozen with the reason for every entry.
		read := map[*types.Var]*ssa.Function{}
		for _, f := range fns {
			for _, b := range f.Blocks {
				for _, in := range b.Instrs {
					var fa ssa.Value
					switch x := in.(type) {
					case *ssa.FieldAddr:
						fa = x
					case *ssa.Field:
						fa = x
					}
					if fa == nil {
						continue
					}
					fv := core.FieldOf(fa)
					if fv == nil || fv.Pkg() == nil || !strings.HasPrefix(fv.Pkg().Path(), core.ModPath) {
						continue
					}
					// shared service objects only: the struct that declares the field also declares a mutex (plain data types — headers,
					// accounts, decoded messages — are filled by decoders and are functions of the bytes they were decoded from)
					if !sharedOwner(c, fv) {
						continue
					}
					if _, ok := read[fv]; !ok {
						read[fv] = f
					}
				}
			}
		}
		written := map[*types.Var]*ssa.Function{}
		for _, f := range c.SrcFuncs {
			if _, in := cl[core.Outer(f)]; in || isTestHelper(c, f) {
				continue
			}
			if _, in := cl[f]; in {
				continue
			}
			for _, b := range f.Blocks {
				for _, in := range b.Instrs {
					fa, ok := in.(*ssa.FieldAddr)
					if !ok {
						continue
					}
					fv := core.FieldOf(fa)
					if fv == nil || read[fv] == nil {
						continue
					}
					if _, fresh := fa.X.(*ssa.Alloc); fresh {
						continue
					}
					if !core.AddrWritten(fa) {
						continue
					}
					if _, ok := written[fv]; !ok {
						written[fv] = f
					}
				}
			}
		}
		var keys []string
		byKey := map[string]*types.Var{}
		for fv := range written {
			k := ownerOfField(c, fv) + "." + fv.Name()
			keys = append(keys, k)
			byKey[k] = fv
		}
		sort.Strings(keys)
		for _, k := range keys {
			fv := byKey[k]
			why, listed := c01OutsideState[k]
			c.Check("outside-state/"+k, "effects", listed, token.NoPos, "field %s is read inside the consensus closure (e.g. by %s) and written outside it (e.g. by %s); listed=%v: %s", k, shortFn(read[fv]), shortFn(written[fv]), listed, why)
		}
		c.Note("fields read in the closure and written outside it: %d", len(keys))
	})

	c.Run("map-iteration", func() {
		perFn := map[string]int{}
		var order []string
		total := 0
		for _, f := range fns {
			for _, mr := range mapRangesIn(f) {
				total++
				if mr.Form != "" {
					continue
				}
				if ok := collectThenSort(mr.Range); ok {
					continue
				}
				name := shortFn(f)
				if perFn[name] == 0 {
					order = append(order, name)
				}
				perFn[name]++
			}
		}
		c.Floor("map-iteration/loops-in-closure", total, 15)
		for _, name := range order {
			e, listed := mapLoopTable[name]
			c.Check("map-order@"+name, "determinism", listed && perFn[name] <= e.n, token.NoPos, "%d map iteration(s) in %s are not in an order-insensitive form (keyed copy, commutative accumulation, collect-then-sort); listed=%v: %s", perFn[name], name, listed, e.reason)
		}
		// the two sorts the property names must be found by the collect-then-sort form
		for _, spec := range []string{"chain/account.Manager.Finalise", "chain/account.MergeChangeLogs", "chain/types.Profile.EncodeRLP"} {
			fn := c.Fn(spec)
			ok := false
			for _, mr := range mapRangesIn(fn) {
				if collectThenSort(mr.Range) {
					ok = true
				}
			}
			c.Check("collect-then-sort@"+shortFn(fn), "determinism", ok, fn.Pos(), "%s iterates a map only to collect its keys and sorts them before any other use", shortFn(fn))
		}
	})

	c.Run("node-local-reads", func() {
		db := c.Named("store/protocol.ChainDB")
		dbi := db.Underlying().(*types.Interface)
		hashKeyed := map[string]string{
			"GetBlockByHash": "by hash", "GetActDatabase": "by block hash", "GetTrieDatabase": "content-addressed store", "GetContractCode": "by code hash",
			"SetContractCode": "by code hash", "GetUnConfirmByHeight": "by height on the branch of a named leaf", "GetCandidatesTop": "by block hash",
			"CandidatesRanking": "by block hash", "SetBlock": "by hash",
		}
		siteOK := map[string]string{
			"GetBlockByHeight@(*chain.BlockChain).GetParentByHeight": "only for heights at or below the stable block, which is an ancestor of every live block",
			"LoadLatestBlock@(*consensus.StableManager).StableBlock": "read by GetParentByHeight only to choose between the by-height index and the branch walk, which return the same ancestor (callers checked below)",
		}
		n := 0
		for _, f := range fns {
			if inRO(f) {
				continue
			}
			for _, ci := range core.AllCalls(f) {
				o := core.CalleeObj(ci)
				if o == nil {
					continue
				}
				// a call on the chain database: interface method of ChainDB or of an interface that ChainDatabase satisfies with that method
				isDB := false
				for i := 0; i < dbi.NumMethods(); i++ {
					if core.SameFamily(o, dbi.Method(i)) && (ci.Common().IsInvoke() || recvNamed(o) != nil && recvNamed(o).Name() == "ChainDatabase") {
						isDB = true
					}
				}
				if !isDB {
					continue
				}
				n++
				key := o.Name() + "@" + shortFn(f)
				if _, ok := hashKeyed[o.Name()]; ok {
					c.CheckTrivial("db/"+key, "node-local-read", true, ci.Pos(), "%s: %s", o.Name(), hashKeyed[o.Name()])
					continue
				}
				if why, ok := siteOK[key]; ok {
					c.CheckTrivial("db/"+key, "node-local-read", true, ci.Pos(), "allowed at this site: %s", why)
					continue
				}
				c.Check("db/"+key, "node-local-read", false, ci.Pos(), "%s reads the chain database by %s, which is not keyed by a block or content hash: the result depends on the node's stable pointer (%s)", shortFn(f), o.Name(), closurePath(cl, f))
			}
		}
		c.Floor("db-calls-in-closure", n, 10)
		// premise of the StableBlock exemption: inside the closure the stable block is consulted by GetParentByHeight only
		sb := []*types.Func{c.Method("chain.BlockChain", "StableBlock"), c.Method("chain/consensus.DPoVP", "StableBlock"), c.Method("chain/consensus.StableManager", "StableBlock")}
		for _, f := range fns {
			for _, ci := range core.CallsIn(f, sb...) {
				nm := shortFn(f)
				okc := nm == "(*chain.BlockChain).GetParentByHeight" || nm == "(*chain.BlockChain).StableBlock" || nm == "(*consensus.DPoVP).StableBlock"
				c.Check("stable-pointer-read@"+nm, "node-local-read", okc, ci.Pos(), "%s consults the node's stable block inside the consensus closure", nm)
			}
		}
		// GetCanonicalAccount answers from the account as of the node's STABLE block: inside the closure it is called only where the known
		// finding D18 records it (VerifyAssetTx); every other account read goes through the manager's view of the branch being executed
		gca := c.Method("chain/account.Manager", "GetCanonicalAccount")
		nG := 0
		for _, f := range fns {
			for _, ci := range core.CallsIn(f, gca) {
				nG++
				nm := shortFn(f)
				if nm == "(*transaction.TxProcessor).VerifyAssetTx" {
					c.CheckTrivial("stable-state-read/GetCanonicalAccount@"+nm, "node-local-read", true, ci.Pos(), "the site of the recorded finding C01.1/db/GetAccount@GetCanonicalAccount (D18)")
					continue
				}
				c.Check("stable-state-read/GetCanonicalAccount@"+nm, "node-local-read", false, ci.Pos(), "%s reads an account as of the node's stable block (GetCanonicalAccount) inside the consensus closure (%s): nodes with different stable heights compute different results", nm, closurePath(cl, f))
			}
		}
		c.Floor("stable-state-read/sites", nG, 1)
		// the read-only manager (stable-only views for RPC) is created outside the consensus packages
		names, _ := callersOf(c, c.FuncObj("chain/account.NewReadOnlyManager"))
		ok := len(names) > 0
		for _, nme := range names {
			if !(strings.HasPrefix(nme, "main/") || strings.Contains(nme, "ReadContract") || strings.HasPrefix(nme, "(*main/")) {
				ok = false
			}
		}
		c.Check("ReadOnlyManager:only-for-queries", "who-may-call", ok, token.NoPos, "NewReadOnlyManager callers: %v", names)
	})

	c.Clause("C01.2", "miner and validator share one transition: both reach the same applyTx, Finalize and Seal; Finalize runs the votes-by-balance pass, then MergeChangeLogs, then Finalise")
	c.Run("shared-transition", func() {
		const cons = "chain/consensus"
		applyTx := c.Method("chain/transaction.TxProcessor", "applyTx")
		for _, spec := range []string{"chain/transaction.TxProcessor.Process", "chain/transaction.TxProcessor.ApplyTxs"} {
			fn := c.Fn(spec)
			c.Check(shortFn(fn)+"→applyTx", "must-call", len(core.CallsIn(fn, applyTx)) == 1, fn.Pos(), "%s executes transactions through the one applyTx", shortFn(fn))
		}
		fin, seal := c.Method(cons+".BlockAssembler", "Finalize"), c.Method(cons+".BlockAssembler", "Seal")
		prod := c.Method("chain/account.Manager", "GetTxsProduct")
		for _, pr := range [][2]string{{cons + ".BlockAssembler.RunBlock", "Process"}, {cons + ".BlockAssembler.MineBlock", "ApplyTxs"}} {
			fn := c.Fn(pr[0])
			ex := c.Method("chain/transaction.TxProcessor", pr[1])
			a, b, s, p := core.CallsIn(fn, ex), core.CallsIn(fn, fin), core.CallsIn(fn, seal), core.CallsIn(fn, prod)
			ok := len(a) == 1 && len(b) == 1 && len(s) == 1 && len(p) == 1
			if ok {
				ok = core.Dominates(a[0], b[0]) && core.Dominates(b[0], p[0]) && core.Dominates(p[0], s[0])
				// Seal gets the product of exactly these transactions and this gas
				sa := s[0].Common().Args
				ok = ok && core.Slice(sa[2])[p[0].Value()]
				pa := p[0].Common().Args
				gas := core.ResultValues(a[0])
				ok = ok && gas[len(gas)-1-boolToInt(pr[1] == "Process")] != nil
				_ = pa
			}
			c.Check(shortFn(fn)+":execute≺Finalize≺GetTxsProduct≺Seal", "order", ok, fn.Pos(), "%s runs %s, then Finalize, then seals the product", shortFn(fn), pr[1])
		}
		c01FinalizeOrder(c)
		// premise of the map-order exemption of ChangeVotesByBalance (see mapLoopTable): the per-voter VotesLogs of one candidate are
		// merged into one log, so the order in which the voters were visited does not reach the block's change-log root
		nm := c.Fn("chain/account.needMerge")
		nmv, nmEval := core.EvalConst(nm, map[int]constant.Value{0: c.Const("chain/account.VotesLog").Val()})
		c.Check("ChangeVotesByBalance:map-order-premise/needMerge(VotesLog)=true", "partial-evaluation", nmEval && nmv.Kind() == constant.Bool && constant.BoolVal(nmv), nm.Pos(),
			"ChangeVotesByBalance visits the voters in map order; that is harmless only because the VotesLogs it emits for one candidate are merged (additions commute), i.e. needMerge(VotesLog) is true")
	})

	c.Run("block-gas-accounting", func() {
		// miner and validator must account block gas identically: the pool is filled once from header.GasLimit on a fresh pool, debited only
		// when gas is bought and credited only with the unused rest of a bought amount
		add := c.Method("chain/types.GasPool", "AddGas")
		sub := c.Method("chain/types.GasPool", "SubGas")
		closedCallers(c, "GasPool.AddGas", []string{"(*chain/transaction.TxProcessor).Process", "(*chain/transaction.TxProcessor).ApplyTxs", "(*chain/transaction.TxProcessor).refundGas"}, add)
		closedCallers(c, "GasPool.SubGas", []string{"(*chain/transaction.TxProcessor).buyGas"}, sub)
		n := 0
		for _, spec := range []string{"chain/transaction.TxProcessor.Process", "chain/transaction.TxProcessor.ApplyTxs"} {
			fn := c.Fn(spec)
			for _, ci := range core.CallsIn(fn, add) {
				n++
				a := ci.Common().Args
				_, fresh := a[0].(*ssa.Alloc)
				okArg := len(a) == 2 && core.SliceHasField(core.Slice(a[1]), c.FieldVar("chain/types.Header", "GasLimit"))
				body, _ := core.LoopOf(ci.Block())
				c.Check("gas-pool-filled-once@"+shortFn(fn), "value-flow", fresh && okArg && body == nil, ci.Pos(), "%s fills a fresh gas pool once with header.GasLimit (fresh=%v, from GasLimit=%v, inside a loop=%v)", shortFn(fn), fresh, okArg, body != nil)
			}
		}
		c.Floor("gas-pool-fills", n, 2)
		rf := c.Fn("chain/transaction.TxProcessor.refundGas")
		for _, ci := range core.CallsIn(rf, add) {
			a := ci.Common().Args
			c.Check("refundGas:AddGas(restGas)", "value-flow", len(a) == 2 && a[1] == rf.Params[len(rf.Params)-1] || len(a) == 2 && core.Slice(a[1])[rf.Params[len(rf.Params)-1]], ci.Pos(), "only the unused rest of the gas a transaction bought returns to the pool")
		}
	})

	c.Clause("C01.3", "the transaction-type tables agree: dispatcher, gas table, data check and recipient check are each exhaustive over the 11 tx types and end in a rejecting default")
	c.Run("tx-type-tables", func() {
		// the tx type constants: untyped/uint16 constants of package params whose names end in Tx and that the dispatcher switches on
		handle := c.Fn("chain/transaction.TxProcessor.handleTx")
		base := switchConsts(c, handle)
		c.Floor("tx-types-in-dispatcher", len(base), 11)
		for _, spec := range []string{"chain/transaction.getTxBaseSpendGas", "chain/types.checkTxData", "chain/types.IsToExist"} {
			fn := c.Fn(spec)
			got := switchConsts(c, fn)
			var missing []string
			for k := range base {
				if !got[k] {
					missing = append(missing, k)
				}
			}
			sort.Strings(missing)
			c.Check("table/"+shortFn(fn), "registry", len(missing) == 0, fn.Pos(), "%s handles every tx type the dispatcher handles; missing: %v", shortFn(fn), missing)
		}
	})

	c.Clause("C01.4", "published versions do not remember discarded work: Finalise numbers each log from the parent's record plus one, never from the provisional counter that reverted transactions influence")
	c.Run("versions", func() {
		uv := c.Fn("chain/account.Manager.updateVersion")
		verF := c.FieldVar("chain/types.ChangeLog", "Version")
		getV := c.Method("chain/account.Account", "GetVersion")
		prov := c.FieldVar("chain/account.Account", "newestRecords")
		n := 0
		ok := true
		for _, b := range uv.Blocks {
			for _, in := range b.Instrs {
				st, isSt := in.(*ssa.Store)
				if !isSt || core.FieldOf(st.Addr) != verF {
					continue
				}
				n++
				sl := core.Slice(st.Val)
				if !core.SliceHasCall(sl, getV) && !core.SliceHasCall(sl, c.Method("chain/types.AccountAccessor", "GetVersion")) {
					ok = false
				}
				if core.SliceHasField(sl, prov) || core.SliceHasCall(sl, c.Method("chain/account.Account", "GetNextVersion")) {
					ok = false
				}
			}
		}
		c.Check("updateVersion:Version←GetVersion+1", "value-flow", ok && n >= 1, uv.Pos(), "the %d stores into ChangeLog.Version derive from the parent's record (GetVersion), not from the provisional counter", n)
		fin := c.Fn("chain/account.Manager.Finalise")
		c.Check("Finalise→updateVersion", "must-call", len(core.CallsInDeep(fin, c.Method("chain/account.Manager", "updateVersion"))) >= 1, fin.Pos(), "Finalise renumbers the versions of every account that has logs")
	})

	c.Clause("C01.5", "the validator aborts on the first bad transaction and on a gas mismatch; the miner reverts and skips")
	c.Run("abort-vs-skip", func() {
		p := c.Fn("chain/transaction.TxProcessor.Process")
		applyTx := c.Method("chain/transaction.TxProcessor", "applyTx")
		for _, g := range core.CallsIn(p, applyTx) {
			ev := core.ErrResult(g)
			ok := false
			for _, t := range core.TestsOf(ev, core.ErrNonNil) {
				all, any := true, false
				for _, r := range core.Returns(p) {
					if t.Fail == r.Block() || core.CanReach(t.Fail, r.Block(), g.Block()) {
						any = true
						if core.ClassifyReturn(r, core.Derived(ev), nil) != core.RetFailure {
							all = false
						}
					}
				}
				if core.CanReach(t.Fail, g.Block()) {
					all = false
				}
				if all && any {
					ok = true
				}
			}
			c.Check("Process:applyTx-error-aborts", "heeded-guard", ok, g.Pos(), "a transaction that cannot be applied makes Process return an error (the block is rejected) instead of continuing")
		}
		gu := c.Method("chain/types.Transaction", "GasUsed")
		found := false
		for _, cg := range core.CondGuards(p, nil) {
			if core.SliceHasCall(cg.Slice, gu) && core.SliceHasCall(cg.Slice, applyTx) {
				found = true
			}
		}
		c.Check("Process?tx.GasUsed≠gas", "quantity-guard", found, p.Pos(), "the gas the block claims for a transaction is compared with the gas its execution used, and a mismatch rejects")
	})

	// C01.6: "the result does not depend on which other transactions the miner tried and discarded" needs an exact revert: the change-journal
	// clauses of C07 (journal-before-write, undo covers do, sibling setters, payload types, snapshot/revert pairing) are necessary conditions of
	// C01 as well and are evaluated here under their C07 keys.
	c07(c)

	c.Clause("C01.7", "the header the miner executes with is the header it seals: the header-immutability clause C13.2 (no writer of Time, MinerAddress, Height, ParentHash below MineBlock after the header was prepared) is evaluated here as well — TIMESTAMP, NUMBER and COINBASE read those fields")
	c.Run("header-immutable-after-prepare", func() { c13HeaderImmutable(c) })

	c.NotDecidedf("that two executions produce equal hashes and equal account state (a value property); EVM arithmetic; nondeterminism hidden in cgo (secp256k1) or goleveldb; order-insensitivity of the table-listed loops is confirmed by reading, not proved")
}

func boolToInt(b bool) int {
	if b {
		return 0
	}
	return 0
}

func funcObj(fn *ssa.Function) *types.Func {
	if o, ok := fn.Object().(*types.Func); ok {
		return o
	}
	return nil
}

// clockFlow: the value is consumed only by comparisons, sinks, arithmetic feeding those, or parameters of repository functions that obey
// the same rule.
func clockFlow(v ssa.Value, sink func(ssa.CallInstruction) bool, seen map[ssa.Value]bool, depth int) (bool, ssa.Instruction) {
	if seen[v] || depth > 12 {
		return true, nil
	}
	seen[v] = true
	if v.Referrers() == nil {
		return true, nil
	}
	for _, r := range *v.Referrers() {
		switch x := r.(type) {
		case *ssa.DebugRef:
		case *ssa.BinOp:
			switch x.Op {
			case token.LSS, token.LEQ, token.GTR, token.GEQ, token.EQL, token.NEQ:
				// a comparison: its outcome steers the miner's selection only
			default:
				if ok, bad := clockFlow(x, sink, seen, depth+1); !ok {
					return false, bad
				}
			}
		case *ssa.Convert, *ssa.ChangeType, *ssa.MakeInterface, *ssa.Phi, *ssa.UnOp:
			if ok, bad := clockFlow(x.(ssa.Value), sink, seen, depth+1); !ok {
				return false, bad
			}
		case *ssa.Store:
			if x.Val != v {
				return false, x
			}
			// a local cell (also the varargs array of a log call): follow its readers
			root := x.Addr
			for {
				if ia, ok := root.(*ssa.IndexAddr); ok {
					root = ia.X
					continue
				}
				break
			}
			al, ok := root.(*ssa.Alloc)
			if !ok {
				return false, x
			}
			if ok2, bad := cellFlow(al, sink, seen, depth+1); !ok2 {
				return false, bad
			}
		case ssa.CallInstruction:
			if sink(x) {
				continue
			}
			sc := x.Common().StaticCallee()
			if sc != nil && sc.Pkg != nil && sc.Pkg.Pkg.Path() == "time" {
				if val := x.Value(); val != nil {
					if ok, bad := clockFlow(val, sink, seen, depth+1); !ok {
						return false, bad
					}
				}
				continue
			}
			if sc != nil && core.InRepo(sc) && sc.Blocks != nil {
				args := x.Common().Args
				okAll := true
				for i, a := range args {
					if a == v && i < len(sc.Params) {
						if ok, bad := clockFlow(sc.Params[i], sink, seen, depth+1); !ok {
							return false, bad
						}
					}
				}
				if okAll {
					continue
				}
			}
			return false, x
		default:
			return false, r
		}
	}
	return true, nil
}

func cellFlow(al *ssa.Alloc, sink func(ssa.CallInstruction) bool, seen map[ssa.Value]bool, depth int) (bool, ssa.Instruction) {
	if al.Referrers() == nil {
		return true, nil
	}
	for _, r := range *al.Referrers() {
		switch x := r.(type) {
		case *ssa.Store, *ssa.DebugRef:
		case *ssa.UnOp:
			if ok, bad := clockFlow(x, sink, seen, depth+1); !ok {
				return false, bad
			}
		case *ssa.IndexAddr:
			// element of a varargs array: stores are the fill, loads do not occur
		case *ssa.Slice:
			if ok, bad := clockFlow(x, sink, seen, depth+1); !ok {
				return false, bad
			}
		case *ssa.MakeClosure:
			// captured variable: conservatively follow loads inside the closure
			if cf, ok := x.Fn.(*ssa.Function); ok {
				for i, b := range x.Bindings {
					if b == ssa.Value(al) && i < len(cf.FreeVars) && cf.FreeVars[i].Referrers() != nil {
						for _, u := range *cf.FreeVars[i].Referrers() {
							if ld, ok := u.(*ssa.UnOp); ok {
								if ok2, bad := clockFlow(ld, sink, seen, depth+1); !ok2 {
									return false, bad
								}
							}
						}
					}
				}
			}
		default:
			return false, r
		}
	}
	return true, nil
}

// collectThenSort: the map loop only appends to one slice carried across iterations, and after the loop that slice is handed to a
// function of package sort before any other use.
func collectThenSort(rg *ssa.Range) bool {
	var next *ssa.Next
	if rg.Referrers() == nil {
		return false
	}
	for _, r := range *rg.Referrers() {
		if n, ok := r.(*ssa.Next); ok {
			if next != nil {
				return false
			}
			next = n
		}
	}
	if next == nil {
		return false
	}
	body, header := core.LoopOf(next.Block())
	if body == nil || header != next.Block() {
		return false
	}
	for b := range body {
		if b == header {
			continue
		}
		for _, s := range b.Succs {
			if !body[s] {
				return false
			}
		}
	}
	if ok, done := collectThenSortCell(body, header); done {
		return ok
	}
	var carried *ssa.Phi
	for b := range body {
		for _, in := range b.Instrs {
			switch x := in.(type) {
			case *ssa.Phi:
				if b == header {
					if carried != nil {
						return false
					}
					carried = x
				}
			case *ssa.Store:
				// only the varargs slot of append (a fresh local array) may be written
				root := x.Addr
				for {
					if ia, ok := root.(*ssa.IndexAddr); ok {
						root = ia.X
						continue
					}
					break
				}
				if _, ok := root.(*ssa.Alloc); !ok {
					return false
				}
			case *ssa.MapUpdate, *ssa.Send, *ssa.Go, *ssa.Defer, *ssa.Return, *ssa.Panic:
				return false
			case ssa.CallInstruction:
				if bi, ok := x.Common().Value.(*ssa.Builtin); ok && (bi.Name() == "append" || bi.Name() == "len") {
					continue
				}
				return false
			}
		}
	}
	if carried == nil || carried.Referrers() == nil {
		return false
	}
	if _, isSlice := carried.Type().Underlying().(*types.Slice); !isSlice {
		return false
	}
	// uses after the loop
	var sortCall ssa.CallInstruction
	var after []ssa.Instruction
	var feeds func(v ssa.Value, d int)
	feeding := map[ssa.Instruction]bool{}
	feeds = func(v ssa.Value, d int) {
		if v.Referrers() == nil || d > 4 {
			return
		}
		for _, r := range *v.Referrers() {
			if body[r.Block()] {
				continue
			}
			switch x := r.(type) {
			case *ssa.DebugRef:
			case *ssa.ChangeType:
				feeding[x] = true
				feeds(x, d+1)
			case *ssa.MakeInterface:
				feeding[x] = true
				feeds(x, d+1)
			case *ssa.Convert:
				feeding[x] = true
				feeds(x, d+1)
			case ssa.CallInstruction:
				if sc := x.Common().StaticCallee(); sc != nil && sc.Pkg != nil && sc.Pkg.Pkg.Path() == "sort" && sortCall == nil {
					sortCall = x
					feeding[x] = true
					continue
				}
				after = append(after, r)
			default:
				after = append(after, r)
			}
		}
	}
	feeds(carried, 0)
	if sortCall == nil {
		return false
	}
	for _, u := range after {
		if feeding[u] {
			continue
		}
		if !core.Dominates(sortCall, u) {
			return false
		}
	}
	return true
}

// switchConsts returns the constant case values (by constant name where known, else by value) of the switch statements of fn.
func switchConsts(c *core.Ctx, fn *ssa.Function) map[string]bool {
	out := map[string]bool{}
	// in SSA a switch over constants is a chain of `x == K` tests on one value; collect K for the most-compared value
	byVal := map[ssa.Value]map[string]bool{}
	for _, b := range fn.Blocks {
		for _, in := range b.Instrs {
			bo, ok := in.(*ssa.BinOp)
			if !ok || bo.Op != token.EQL {
				continue
			}
			k, isK := bo.Y.(*ssa.Const)
			x := bo.X
			if !isK {
				k, isK = bo.X.(*ssa.Const)
				x = bo.Y
			}
			if !isK || k.Value == nil || k.Value.Kind() != constant.Int {
				continue
			}
			if byVal[x] == nil {
				byVal[x] = map[string]bool{}
			}
			byVal[x][k.Value.ExactString()] = true
		}
	}
	best := 0
	for _, m := range byVal {
		if len(m) > best {
			best = len(m)
			out = m
		}
	}
	return out
}

// collectThenSortCell handles the form in which the collected slice is a variable cell (it is captured by the comparison closure of
// sort.Slice): the loop body only stores append(load(cell), k) back into the cell, and a sort call on the cell's value dominates every
// other read of the cell after the loop. done=false when the loop does not have this form at all.
func collectThenSortCell(body map[*ssa.BasicBlock]bool, header *ssa.BasicBlock) (ok, done bool) {
	var cell *ssa.Alloc
	for b := range body {
		for _, in := range b.Instrs {
			switch x := in.(type) {
			case *ssa.Store:
				root := x.Addr
				for {
					if ia, isIA := root.(*ssa.IndexAddr); isIA {
						root = ia.X
						continue
					}
					break
				}
				al, isAl := root.(*ssa.Alloc)
				if !isAl {
					return false, false
				}
				if _, isSlice := al.Type().(*types.Pointer).Elem().Underlying().(*types.Slice); isSlice && x.Addr == ssa.Value(al) {
					if cell != nil && cell != al {
						return false, true
					}
					cell = al
					// the stored value is an append on the cell's own value
					ap, isCall := x.Val.(*ssa.Call)
					if !isCall {
						return false, true
					}
					bi, isB := ap.Call.Value.(*ssa.Builtin)
					if !isB || bi.Name() != "append" {
						return false, true
					}
					ld, isLd := ap.Call.Args[0].(*ssa.UnOp)
					if !isLd || ld.X != ssa.Value(al) {
						return false, true
					}
				}
			case *ssa.MapUpdate, *ssa.Send, *ssa.Go, *ssa.Defer, *ssa.Return, *ssa.Panic:
				return false, false
			case ssa.CallInstruction:
				if bi, isB := x.Common().Value.(*ssa.Builtin); isB && (bi.Name() == "append" || bi.Name() == "len") {
					continue
				}
				return false, false
			}
		}
	}
	if cell == nil || cell.Referrers() == nil {
		return false, false
	}
	for b := range body {
		if b == header {
			continue
		}
		for _, s := range b.Succs {
			if !body[s] {
				return false, true
			}
		}
	}
	var sortCall ssa.CallInstruction
	var reads []ssa.Instruction
	for _, r := range *cell.Referrers() {
		if body[r.Block()] {
			continue
		}
		switch x := r.(type) {
		case *ssa.UnOp:
			isArg := false
			if x.Referrers() != nil {
				for _, u := range *x.Referrers() {
					var v ssa.Value = x
					_ = v
					if ci, isCall := u.(ssa.CallInstruction); isCall {
						if sc := ci.Common().StaticCallee(); sc != nil && sc.Pkg != nil && sc.Pkg.Pkg.Path() == "sort" {
							sortCall, isArg = ci, true
						}
					}
					if mi, isMI := u.(*ssa.MakeInterface); isMI && mi.Referrers() != nil {
						for _, w := range *mi.Referrers() {
							if ci, isCall := w.(ssa.CallInstruction); isCall {
								if sc := ci.Common().StaticCallee(); sc != nil && sc.Pkg != nil && sc.Pkg.Pkg.Path() == "sort" {
									sortCall, isArg = ci, true
								}
							}
						}
					}
				}
			}
			if !isArg {
				reads = append(reads, x)
			}
		case *ssa.MakeClosure:
			// the comparison closure of sort.Slice reads the cell while sorting: fine if it is handed to the sort call only
			if x.Referrers() != nil {
				for _, u := range *x.Referrers() {
					if ci, isCall := u.(ssa.CallInstruction); isCall {
						if sc := ci.Common().StaticCallee(); sc != nil && sc.Pkg != nil && sc.Pkg.Pkg.Path() == "sort" {
							continue
						}
					}
					if _, isDbg := u.(*ssa.DebugRef); isDbg {
						continue
					}
					reads = append(reads, x)
				}
			}
		case *ssa.Store, *ssa.DebugRef:
		default:
			reads = append(reads, r)
		}
	}
	if sortCall == nil {
		return false, true
	}
	for _, rd := range reads {
		if !core.Dominates(sortCall, rd) {
			return false, true
		}
	}
	return true, true
}

// globalWritesIn lists instructions of fn that write a package-level variable or memory reached from one (store to the variable, to a
// field/element under it, map update/delete on a map loaded from it).
func globalWritesIn(fn *ssa.Function) map[*ssa.Global][]ssa.Instruction {
	out := map[*ssa.Global][]ssa.Instruction{}
	var rootG func(v ssa.Value, d int) *ssa.Global
	rootG = func(v ssa.Value, d int) *ssa.Global {
		if d > 8 {
			return nil
		}
		switch x := v.(type) {
		case *ssa.Global:
			return x
		case *ssa.FieldAddr:
			return rootG(x.X, d+1)
		case *ssa.IndexAddr:
			return rootG(x.X, d+1)
		case *ssa.UnOp:
			if x.Op == token.MUL {
				return rootG(x.X, d+1)
			}
		case *ssa.Slice:
			return rootG(x.X, d+1)
		case *ssa.Field:
			return rootG(x.X, d+1)
		case *ssa.ChangeType:
			return rootG(x.X, d+1)
		}
		return nil
	}
	for _, b := range fn.Blocks {
		for _, in := range b.Instrs {
			switch x := in.(type) {
			case *ssa.Store:
				if g := rootG(x.Addr, 0); g != nil {
					out[g] = append(out[g], in)
				}
			case *ssa.MapUpdate:
				if g := rootG(x.Map, 0); g != nil {
					out[g] = append(out[g], in)
				}
			case *ssa.Call:
				if bi, ok := x.Call.Value.(*ssa.Builtin); ok && (bi.Name() == "delete" || bi.Name() == "copy" || bi.Name() == "clear") && len(x.Call.Args) > 0 {
					if g := rootG(x.Call.Args[0], 0); g != nil {
						out[g] = append(out[g], in)
					}
				}
			}
		}
	}
	return out
}

// c01FinalizeOrder: Finalize runs the votes pass, then merges the change logs, then finalises the accounts (evaluated under C01.2 and,
// because the ranking takes one merged VotesLog per candidate, under C10.3).
func c01FinalizeOrder(c *core.Ctx) {
	const cons = "chain/consensus"
	f := c.Fn(cons + ".BlockAssembler.Finalize")
	cv := core.CallsIn(f, c.FuncObj("chain/transaction.ChangeVotesByBalance"))
	mg := core.CallsIn(f, c.Method("chain/account.Manager", "MergeChangeLogs"))
	fi := core.CallsIn(f, c.Method("chain/account.Manager", "Finalise"))
	ok := len(cv) == 1 && len(mg) == 1 && len(fi) == 1 && core.Dominates(cv[0], mg[0]) && core.Dominates(mg[0], fi[0])
	c.Check("Finalize:ChangeVotesByBalance≺MergeChangeLogs≺Finalise", "order", ok, f.Pos(), "the votes pass runs before the logs are merged and the merged logs are final before versions are assigned")
	if len(fi) == 1 {
		h, why := core.CallHeeded(fi[0], core.ErrNonNil, nil)
		c.Check("Finalize→Finalise", "heeded-guard", h, fi[0].Pos(), "a failing Finalise fails Finalize: %s", orOK(why))
	}
}
