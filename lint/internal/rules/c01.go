package rules

import (
	"fmt"
	"sort"

	"golang.org/x/tools/go/ssa"

	"verif/lint/internal/core"
)

func init() { register("C01", c01) }

func c01Roots(c *core.Ctx) []*ssa.Function {
	var roots []*ssa.Function
	for _, s := range []string{
		"chain/transaction.TxProcessor.Process", "chain/transaction.TxProcessor.ApplyTxs",
		"chain/consensus.BlockAssembler.Finalize", "chain/consensus.BlockAssembler.Seal",
		"chain/account.Manager.MergeChangeLogs", "chain/account.Manager.Finalise", "chain/account.Manager.GetTxsProduct", "chain/account.Manager.Save",
		"chain/consensus.Validator.VerifyAfterTxProcess",
		"chain/types.Header.Hash", "chain/types.Transaction.Hash", "chain/types.ChangeLog.Hash", "chain/types.DeputyNode.Hash",
		"chain/types.Transactions.MerkleRootSha", "chain/types.ChangeLogSlice.MerkleRootSha", "chain/types.DeputyNodes.MerkleRootSha",
		"chain/types.Profile.EncodeRLP", "chain/types.ChangeLog.EncodeRLP", "chain/types.Header.EncodeRLP",
	} {
		roots = append(roots, c.Fn(s))
	}
	return roots
}

func c01(c *core.Ctx) {
	c.Clause("C01.dbg", "debug")
	c.Run("dbg", func() {
		stop := func(fn *ssa.Function) bool {
			rel := core.RelPkg(fn)
			return rel == "common/log" || rel == "metrics" || rel == "common/subscribe"
		}
		cl := cgClosure(c, c01Roots(c), stop)
		var fns []*ssa.Function
		for f := range cl {
			fns = append(fns, f)
		}
		sort.Slice(fns, func(i, j int) bool { return fns[i].String() < fns[j].String() })
		pk := map[string]int{}
		for _, f := range fns {
			pk[core.RelPkg(f)]++
		}
		fmt.Println("closure", len(fns), pk)
		db := c.Named("store/protocol.ChainDB")
		_ = db
		for _, f := range fns {
			for _, mr := range mapRangesIn(f) {
				fmt.Printf("MAP %s form=%q why=%s  via %s\n", shortFn(f), mr.Form, mr.Why, closurePath(cl, f))
			}
			for _, ci := range core.AllCalls(f) {
				if _, isGo := ci.(*ssa.Go); isGo {
					fmt.Printf("GO %s at %s via %s\n", shortFn(f), c.Pos(ci.Pos()), closurePath(cl, f))
				}
				if k := clockOrRandom(ci.Common().StaticCallee()); k != "" {
					fmt.Printf("SRC %s %s in %s at %s\n", k, ci.Common().StaticCallee().Name(), shortFn(f), c.Pos(ci.Pos()))
				}
				if ci.Common().IsInvoke() && namedOfType(ci.Common().Value.Type()) == "ChainDB" {
					fmt.Printf("DB %s in %s\n", ci.Common().Method.Name(), shortFn(f))
				}
			}
			for _, b := range f.Blocks {
				for _, in := range b.Instrs {
					if _, ok := in.(*ssa.Select); ok {
						fmt.Printf("SELECT %s\n", shortFn(f))
					}
				}
			}
		}
	})
}
