package rules

import (
	"go/types"

	"golang.org/x/tools/go/ssa"

	"verif/lint/internal/core"
)

// memoCache checks that a memo field of type atomic.Value holds nothing but what its accessor computed:
//   - every (*atomic.Value).Store on the field lies in `accessor` and stores a value that derives from a call of `compute` there;
//   - every plain store into the field writes the zero value (a reset, as Clone does);
//   - the field's address is used for nothing else than Load/Store calls.
//
// One obligation per writer site (keyed by function), plus a floor on the Store sites found.
func memoCache(c *core.Ctx, key string, field *types.Var, accessor *ssa.Function, compute *types.Func) {
	stores := 0
	seq := map[string]int{}
	for _, fn := range c.SrcFuncs {
		if isTestHelper(c, fn) {
			continue
		}
		for _, b := range fn.Blocks {
			for _, in := range b.Instrs {
				fa, ok := in.(*ssa.FieldAddr)
				if !ok || core.FieldOf(fa) != field {
					continue
				}
				for _, r := range *fa.Referrers() {
					name := shortFn(fn)
					switch u := r.(type) {
					case *ssa.DebugRef:
					case ssa.CallInstruction:
						sc := u.Common().StaticCallee()
						if sc == nil || len(u.Common().Args) == 0 || u.Common().Args[0] != ssa.Value(fa) || sc.Pkg == nil || sc.Pkg.Pkg.Path() != "sync/atomic" {
							c.Check(key+"/address-stays@"+name, "who-may-write", false, u.Pos(), "the address of the memo field %s is handed to %v: it may only be used for Load/Store", field.Name(), u.Common().Value)
							continue
						}
						switch sc.Name() {
						case "Load":
						case "Store":
							stores++
							seq[name]++
							ok := fn == accessor && len(u.Common().Args) == 2 && core.SliceHasCall(core.Slice(u.Common().Args[1]), compute)
							if ok {
								// nothing the caller supplied other than the receiver takes part
								for v := range core.Slice(u.Common().Args[1]) {
									if p, isP := v.(*ssa.Parameter); isP && p.Parent() == fn && p != fn.Params[0] {
										ok = false
									}
								}
							}
							c.Check(key+"/store@"+name+seqSuffix(seq[name]), "who-may-write", ok, u.Pos(), "the memo %s may only be filled by %s with the value %s computed from the receiver (a value taken from anywhere else makes the accessor answer something that is not a function of the content)", field.Name(), shortFn(accessor), compute.Name())
						default:
							c.Check(key+"/store@"+name+"#"+sc.Name(), "who-may-write", false, u.Pos(), "the memo %s is written with %s", field.Name(), sc.Name())
						}
					case *ssa.Store:
						if u.Addr != ssa.Value(fa) {
							c.Check(key+"/address-stays@"+name, "who-may-write", false, u.Pos(), "the address of the memo field %s is stored away", field.Name())
							continue
						}
						c.Check(key+"/reset@"+name, "who-may-write", isZeroValue(u.Val), u.Pos(), "a plain store into the memo %s must write the zero value (a reset)", field.Name())
					case *ssa.UnOp:
						// a read of the whole value
					default:
						c.Check(key+"/address-stays@"+name, "who-may-write", false, r.Pos(), "the address of the memo field %s is used by %T: it may only be used for Load/Store", field.Name(), r)
					}
				}
			}
		}
	}
	// a copy of the whole struct copies the memo with it: the copy is there to be changed, so the memo is reset before the copy leaves
	owner := ownerNamed(c, field)
	copies := 0
	for _, fn := range c.SrcFuncs {
		if owner == nil || isTestHelper(c, fn) {
			continue
		}
		for _, b := range fn.Blocks {
			for _, in := range b.Instrs {
				st, ok := in.(*ssa.Store)
				if !ok || !types.Identical(st.Val.Type(), owner) {
					continue
				}
				ld, isLoad := st.Val.(*ssa.UnOp)
				if !isLoad {
					continue
				}
				if al, isAl := ld.X.(*ssa.Alloc); isAl && al.Comment == "complit" {
					continue // a literal: its memo field is covered by the field-store rule above
				}
				copies++
				reset := false
				for _, b2 := range fn.Blocks {
					for _, in2 := range b2.Instrs {
						s2, ok := in2.(*ssa.Store)
						if !ok {
							continue
						}
						fa, ok := s2.Addr.(*ssa.FieldAddr)
						if !ok || core.FieldOf(fa) != field || fa.X != st.Addr || !isZeroValue(s2.Val) {
							continue
						}
						all := true
						for _, r := range core.Returns(fn) {
							if r.Block() != fn.Recover && !core.Dominates(s2, r) {
								all = false
							}
						}
						if all {
							reset = true
						}
					}
				}
				c.Check(key+"/copy-resets-memo@"+shortFn(fn), "who-may-write", reset, st.Pos(), "%s copies a whole %s, memo included; the copy's %s must be reset on every path before it is returned", shortFn(fn), owner.Obj().Name(), field.Name())
			}
		}
	}
	c.Note("%s: %d Store site(s), %d whole-struct cop(ies)", key, stores, copies)
	c.Floor(key+"/store-sites", stores, 1)
}

func seqSuffix(n int) string {
	if n <= 1 {
		return ""
	}
	return "#" + string(rune('0'+n))
}

// isZeroValue: a zero constant, or the load of a fresh local that nothing was stored into (the `T{}` composite literal).
func isZeroValue(v ssa.Value) bool {
	switch x := v.(type) {
	case *ssa.Const:
		return x.Value == nil || x.IsNil()
	case *ssa.UnOp:
		al, ok := x.X.(*ssa.Alloc)
		if !ok {
			return false
		}
		for _, r := range *al.Referrers() {
			switch u := r.(type) {
			case *ssa.UnOp, *ssa.DebugRef:
			case *ssa.Store:
				if u.Addr == ssa.Value(al) {
					return false
				}
				return false
			default:
				return false
			}
		}
		return true
	}
	return false
}

// ownerNamed finds the named struct type that declares field.
func ownerNamed(c *core.Ctx, field *types.Var) *types.Named {
	if field.Pkg() == nil {
		return nil
	}
	sc := field.Pkg().Scope()
	for _, n := range sc.Names() {
		tn, ok := sc.Lookup(n).(*types.TypeName)
		if !ok {
			continue
		}
		named, ok := tn.Type().(*types.Named)
		if !ok {
			continue
		}
		st, ok := named.Underlying().(*types.Struct)
		if !ok {
			continue
		}
		for i := 0; i < st.NumFields(); i++ {
			if st.Field(i) == field {
				return named
			}
		}
	}
	return nil
}
