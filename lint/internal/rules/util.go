package rules

import (
	"go/constant"
	"go/token"
	"go/types"
	"regexp"
	"sort"
	"strings"

	"golang.org/x/tools/go/ssa"

	"verif/lint/internal/core"
)

var (
	bTrue  = true
	bFalse = false
)

// shortFn is a compact name for keys: "(*DPoVP).InsertBlock" without the package path.
func shortFn(fn *ssa.Function) string {
	return pathPrefix.ReplaceAllString(core.FuncName(fn), "")
}

var pathPrefix = regexp.MustCompile(`[A-Za-z0-9_.-]+/`)

func objName(f *types.Func) string {
	if f == nil {
		return "<nil>"
	}
	if r := f.Type().(*types.Signature).Recv(); r != nil {
		t := r.Type()
		if p, ok := t.(*types.Pointer); ok {
			t = p.Elem()
		}
		if n, ok := t.(*types.Named); ok {
			return n.Obj().Name() + "." + f.Name()
		}
	}
	return f.Name()
}

// heeded: every call of target in fn is a linear guard: no possibly-successful exit of fn without the guard having accepted.
// At least min calls must exist. Returns the calls.
func heeded(c *core.Ctx, fn *ssa.Function, target *types.Func, fw core.FailWhen, min int, boolFail *bool) []ssa.CallInstruction {
	calls := core.CallsIn(fn, target)
	key := shortFn(fn) + "→" + objName(target)
	if len(calls) < min && fw == core.ErrNonNil {
		// the guard may have been moved into a helper of the same package whose error fn heeds and which itself heeds the guard
		if g, _ := heededDeep(fn, target, 2); g != nil {
			c.Check(key, "heeded-guard", true, g.Pos(), "in %s the guard %s is reached and heeded through the same-package helper called here", shortFn(fn), objName(target))
			return []ssa.CallInstruction{g}
		}
	}
	if len(calls) < min {
		c.Check(key, "guard-call-present", false, fn.Pos(), "%s must call %s (%d call(s) found, %d expected)", shortFn(fn), objName(target), len(calls), min)
		return calls
	}
	for i, g := range calls {
		k := key
		if len(calls) > 1 {
			k = key + "#" + string(rune('a'+i))
		}
		ok, why := core.CallHeeded(g, fw, boolFail)
		c.Check(k, "heeded-guard", ok, g.Pos(), "in %s the result of %s must be tested and a rejecting outcome must not reach a successful exit: %s", shortFn(fn), objName(target), orOK(why))
	}
	return calls
}

// heededBefore: every `action` instruction is preceded on all paths by a call of target whose rejecting outcome cannot reach it.
func heededBefore(c *core.Ctx, fn *ssa.Function, target *types.Func, fw core.FailWhen, actionName string, actions []ssa.Instruction) {
	key := shortFn(fn) + "→" + objName(target) + "≺" + actionName
	guards := core.CallsIn(fn, target)
	if len(actions) == 0 {
		c.Check(key, "guarded-action", false, fn.Pos(), "action %s not found in %s", actionName, shortFn(fn))
		return
	}
	for i, a := range actions {
		k := key
		if len(actions) > 1 {
			k = key + "#" + string(rune('a'+i))
		}
		ok, why := false, "no call of the guard in the function"
		for _, g := range guards {
			if ok2, w := core.HeededBefore(g, fw, a); ok2 {
				ok, why = true, ""
				break
			} else {
				why = w
			}
		}
		c.Check(k, "guarded-action", ok, a.Pos(), "in %s every path to %s must pass an accepting %s: %s", shortFn(fn), actionName, objName(target), orOK(why))
	}
}

func orOK(why string) string {
	if why == "" {
		return "ok"
	}
	return why
}

// instrs converts call instructions to plain instructions.
func instrs(cs []ssa.CallInstruction) []ssa.Instruction {
	out := make([]ssa.Instruction, len(cs))
	for i, c := range cs {
		out[i] = c
	}
	return out
}

// condGuard: fn contains an If whose condition is computed from the stated quantities (pred on the backward slice), whose
// rejecting edge leads only to failure returns and whose accepting edge is needed by every success exit.
func condGuard(c *core.Ctx, fn *ssa.Function, name string, boolFail *bool, pred func(sl map[ssa.Value]bool) bool) bool {
	key := shortFn(fn) + "?" + name
	for _, g := range core.CondGuards(fn, boolFail) {
		if pred(g.Slice) && g.GuardsSuccess(boolFail) {
			c.Check(key, "quantity-guard", true, g.If.Pos(), "condition on %s rejects and dominates every successful exit of %s", name, shortFn(fn))
			return true
		}
	}
	c.Check(key, "quantity-guard", false, fn.Pos(), "%s has no rejecting test computed from %s that every successful exit depends on", shortFn(fn), name)
	return false
}

// condGuardG is condGuard with a predicate on the whole guard (slice, polarity of the rejecting edge).
func condGuardG(c *core.Ctx, fn *ssa.Function, name string, boolFail *bool, pred func(g core.CondGuard) bool) bool {
	key := shortFn(fn) + "?" + name
	for _, g := range core.CondGuards(fn, boolFail) {
		if pred(g) && g.GuardsSuccess(boolFail) {
			c.Check(key, "quantity-guard", true, g.If.Pos(), "condition on %s rejects and dominates every successful exit of %s", name, shortFn(fn))
			return true
		}
	}
	c.Check(key, "quantity-guard", false, fn.Pos(), "%s has no rejecting test computed from %s that every successful exit depends on", shortFn(fn), name)
	return false
}

// condGuardLoop is condGuard for a test inside a loop: the rejecting edge leads only to failures and every iteration of the
// innermost loop evaluates it.
func condGuardLoop(c *core.Ctx, fn *ssa.Function, name string, boolFail *bool, pred func(sl map[ssa.Value]bool) bool) bool {
	key := shortFn(fn) + "?" + name
	for _, g := range core.CondGuards(fn, boolFail) {
		if pred(g.Slice) && (g.GuardsSuccess(boolFail) || core.EveryIterationPasses(g.If)) {
			c.Check(key, "quantity-guard", true, g.If.Pos(), "condition on %s rejects; evaluated on every iteration / before every successful exit of %s", name, shortFn(fn))
			return true
		}
	}
	c.Check(key, "quantity-guard", false, fn.Pos(), "%s has no rejecting test computed from %s on every iteration", shortFn(fn), name)
	return false
}

// fieldsRead returns the fields of struct st that occur in the backward slice of v.
func fieldsRead(sl map[ssa.Value]bool, st *types.Struct) map[string]bool {
	idx := map[*types.Var]bool{}
	for i := 0; i < st.NumFields(); i++ {
		idx[st.Field(i)] = true
	}
	out := map[string]bool{}
	for v := range sl {
		if f := core.FieldOf(v); f != nil && idx[f] {
			out[f.Name()] = true
		}
	}
	return out
}

// fieldCover checks that the value `sink` is computed from every field of st except the exempted ones, and from no
// exempted one that is marked "must not" (exempt value "!...").
func fieldCover(c *core.Ctx, key string, pos token.Pos, sink ssa.Value, st *types.Struct, exempt map[string]string) {
	sl := core.SliceShallow(sink)
	// follow static callees that receive part of the structure (one level, same repository)
	got := fieldsRead(sl, st)
	for v := range sl {
		if ci, ok := v.(ssa.CallInstruction); ok {
			if callee := core.StaticFn(ci); callee != nil && core.InRepo(callee) && callee.Blocks != nil {
				for _, r := range core.Returns(callee) {
					for _, res := range r.Results {
						for f := range fieldsRead(core.SliceShallow(res), st) {
							got[f] = true
						}
					}
				}
			}
		}
	}
	for i := 0; i < st.NumFields(); i++ {
		f := st.Field(i).Name()
		reason, ex := exempt[f]
		switch {
		case ex && strings.HasPrefix(reason, "!"):
			c.Check(key+"#"+f, "field-excluded", !got[f], pos, "field %s must not take part (%s)", f, reason[1:])
		case ex:
			c.CheckTrivial(key+"#"+f, "field-exempt", true, pos, "field %s exempt: %s", f, reason)
		default:
			c.Check(key+"#"+f, "field-cover", got[f], pos, "field %s must flow into the hashed/encoded value", f)
		}
	}
}

// callersOf lists the names of the (outermost) functions containing a call that may call one of targets, skipping files that
// only serve tests (*_for_test.go, chain/testchain, testify helpers).
func callersOf(c *core.Ctx, targets ...*types.Func) (names []string, sites []core.CallSite) {
	seen := map[string]bool{}
	for _, s := range c.CallSites(targets...) {
		if isTestHelper(c, s.Caller) {
			continue
		}
		sites = append(sites, s)
		n := core.FuncName(core.Outer(s.Caller))
		if !seen[n] {
			seen[n] = true
			names = append(names, n)
		}
	}
	sort.Strings(names)
	return
}

func isTestHelper(c *core.Ctx, fn *ssa.Function) bool {
	rel := core.RelPkg(fn)
	if strings.HasPrefix(rel, "chain/testchain") || strings.HasSuffix(rel, "/testify") || strings.Contains(rel, "testutil") {
		return true
	}
	pos := core.Outer(fn).Pos()
	if pos.IsValid() {
		f := c.Fset.Position(pos).Filename
		if strings.HasSuffix(f, "_for_test.go") || strings.HasSuffix(f, "_test_helper.go") || strings.HasSuffix(f, "test_util.go") || strings.HasSuffix(f, "testutil.go") {
			return true
		}
	}
	return false
}

// closedCallers checks callers(targets) ⊆ allowed (names as printed by core.FuncName); every allowed caller that disappears is
// fine, a new one is a violation.
func closedCallers(c *core.Ctx, key string, allowed []string, targets ...*types.Func) []core.CallSite {
	allow := map[string]bool{}
	for _, a := range allowed {
		allow[a] = true
	}
	expandAllowed(c, allow)
	_, sites := callersOf(c, targets...)
	seen := map[string]bool{}
	var names []string
	okBy := map[string]bool{}
	for _, s := range sites {
		n := core.FuncName(core.Outer(s.Caller))
		if seen[n] {
			continue
		}
		seen[n] = true
		names = append(names, n)
		// a private helper all of whose callers are permitted callers (recursively) counts as its callers: extracting a function does
		// not widen who can reach the target
		okBy[n] = allow[n] || ownedBy(c, s.Caller, allow, 0)
	}
	sort.Strings(names)
	for _, n := range names {
		c.Check(key+"@"+n, "who-may-call", okBy[n], token.NoPos, "caller %s of %s is not in the frozen set of permitted callers (nor a private helper reached only from them)", n, key)
	}
	return sites
}

// mustCallOnSuccess: every successful exit of fn is preceded by a call of target (no path from entry to a possibly-successful
// return avoids all calls of target).
func mustCall(c *core.Ctx, fn *ssa.Function, target *types.Func, boolFail *bool) bool {
	key := shortFn(fn) + "⇒" + objName(target)
	calls := core.CallsIn(fn, target)
	if len(calls) == 0 {
		c.Check(key, "must-call", false, fn.Pos(), "%s never calls %s", shortFn(fn), objName(target))
		return false
	}
	avoid := []*ssa.BasicBlock{}
	for _, ci := range calls {
		avoid = append(avoid, ci.Block())
	}
	ok := true
	for _, r := range core.Returns(fn) {
		if core.ClassifyReturn(r, nil, boolFail) == core.RetFailure {
			continue
		}
		if in(avoid, r.Block()) {
			continue
		}
		if core.CanReach(fn.Blocks[0], r.Block(), avoid...) {
			ok = false
		}
	}
	c.Check(key, "must-call", ok, calls[0].Pos(), "every successful exit of %s must be preceded by %s", shortFn(fn), objName(target))
	return ok
}

func in(bs []*ssa.BasicBlock, b *ssa.BasicBlock) bool {
	for _, x := range bs {
		if x == b {
			return true
		}
	}
	return false
}

// ordered: every call of `first` in fn dominates every call of `second`, and no `first` can execute after a `second`.
func ordered(c *core.Ctx, fn *ssa.Function, first, second *types.Func) bool {
	key := shortFn(fn) + ":" + objName(first) + "≺" + objName(second)
	a, b := core.CallsIn(fn, first), core.CallsIn(fn, second)
	if len(a) == 0 || len(b) == 0 {
		c.Check(key, "order", false, fn.Pos(), "%s must call both %s and %s (%d/%d found)", shortFn(fn), objName(first), objName(second), len(a), len(b))
		return false
	}
	ok := true
	for _, y := range b {
		dom := false
		for _, x := range a {
			if core.Dominates(x, y) {
				dom = true
			}
		}
		if !dom {
			ok = false
		}
	}
	c.Check(key, "order", ok, b[0].Pos(), "in %s every %s must be preceded by %s on all paths", shortFn(fn), objName(second), objName(first))
	return ok
}

// constInt returns the integer value of a constant.
func constInt(k *types.Const) (int64, bool) {
	return constant.Int64Val(constant.ToInt(k.Val()))
}

// performsCalls returns the call instructions in fn that perform target: direct calls, and calls of same-package helpers that call
// target on every path to a return (a wrapper counts as the operation), up to the given depth.
func performsCalls(fn *ssa.Function, target *types.Func, depth int) []ssa.CallInstruction {
	out := core.CallsIn(fn, target)
	if depth <= 0 {
		return out
	}
	for _, ci := range core.AllCalls(fn) {
		callee := ci.Common().StaticCallee()
		if callee == nil || callee.Blocks == nil || callee.Pkg != fn.Pkg || callee == fn {
			continue
		}
		inner := performsCalls(callee, target, depth-1)
		if len(inner) == 0 {
			continue
		}
		// every return of the helper is preceded by one of them
		var avoid []*ssa.BasicBlock
		for _, ic := range inner {
			avoid = append(avoid, ic.Block())
		}
		must := true
		for _, r := range core.Returns(callee) {
			if in(avoid, r.Block()) {
				continue
			}
			if core.CanReach(callee.Blocks[0], r.Block(), avoid...) {
				must = false
			}
		}
		if must {
			out = append(out, ci)
		}
	}
	return out
}

// expandAllowed: a permitted caller/writer that no longer exists (it was inlined away) is represented by its only reference caller.
func expandAllowed(c *core.Ctx, allow map[string]bool) {
	have := map[string]bool{}
	for _, fn := range c.SrcFuncs {
		have[core.FuncName(core.Outer(fn))] = true
	}
	toSpec := func(name string) string {
		n := strings.TrimPrefix(name, "(*")
		n = strings.TrimPrefix(n, "(")
		return strings.Replace(n, ").", ".", 1)
	}
	byspec := map[string]string{}
	for n := range have {
		byspec[toSpec(n)] = n
	}
	for a := range allow {
		if have[a] {
			continue
		}
		if cs := core.RefCallers[toSpec(a)]; len(cs) == 1 {
			if n, ok := byspec[cs[0]]; ok {
				allow[n] = true
			}
		}
	}
}

// expandInlinedNames: a table keyed by function names (any of the forms obligation keys use) gets, for every listed private helper that
// was written out inside its only reference caller on this tree, an entry for that caller with the same value.
func expandInlinedNames(c *core.Ctx, table map[string]string) {
	for _, pr := range c.InlinedPairs() {
		hf, cf := core.SpecForms(pr[0]), core.SpecForms(pr[1])
		for i := range hf {
			if v, ok := table[hf[i]]; ok && i < len(cf) {
				if _, have := table[cf[i]]; !have {
					table[cf[i]] = v + " (body now inside this caller)"
				}
			}
		}
	}
}
