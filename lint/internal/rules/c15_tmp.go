package rules

import "verif/lint/internal/core"

func init() { register("C15L", func(c *core.Ctx) { c15Locks(c) }) }
