package rules

import (
	"go/token"
	"go/types"

	"golang.org/x/tools/go/ssa"

	"verif/lint/internal/core"
)

// passers lists the instructions of fn after which `target` has certainly run when fn goes on normally: direct calls of target and calls
// of same-package functions every successful exit of which is preceded by target (recursively, depth-bounded).
func passers(fn *ssa.Function, target *types.Func, depth int) []ssa.Instruction {
	var out []ssa.Instruction
	for _, ci := range core.AllCalls(fn) {
		if _, isGo := ci.(*ssa.Go); isGo {
			continue
		}
		if _, isDefer := ci.(*ssa.Defer); isDefer {
			continue
		}
		callee := core.StaticFn(ci)
		if core.CalleeObj(ci) == target {
			out = append(out, ci)
			continue
		}
		if callee == nil || depth <= 0 || callee.Pkg != fn.Pkg || callee.Blocks == nil || callee == fn {
			continue
		}
		if successNeeds(callee, target, depth-1) {
			out = append(out, ci)
		}
	}
	return out
}

// successNeeds: no possibly-successful return of fn is reachable from the entry without passing one of the passers of target.
func successNeeds(fn *ssa.Function, target *types.Func, depth int) bool {
	ps := passers(fn, target, depth)
	if len(ps) == 0 {
		return false
	}
	return len(skippingReturns(fn, ps, nil)) == 0
}

// skippingReturns lists the returns of fn that may be successful and are reachable from the entry without passing any of ps,
// with the CFG edges in cut removed.
func skippingReturns(fn *ssa.Function, ps []ssa.Instruction, cut map[[2]*ssa.BasicBlock]bool) []*ssa.Return {
	return skippingReturnsFrom(fn, fn.Blocks[0], ps, cut)
}

// skippingReturnsFrom is skippingReturns for the paths that start at block `start` (e.g. the block of a call after which the target must run).
func skippingReturnsFrom(fn *ssa.Function, start *ssa.BasicBlock, ps []ssa.Instruction, cut map[[2]*ssa.BasicBlock]bool) []*ssa.Return {
	avoid := map[*ssa.BasicBlock]bool{}
	for _, p := range ps {
		avoid[p.Block()] = true
	}
	var out []*ssa.Return
	if avoid[start] {
		return nil
	}
	r := core.ReachCutAvoid(start, cut, avoid)
	for _, ret := range core.Returns(fn) {
		if ret.Block() == fn.Recover || !r[ret.Block()] {
			continue
		}
		if core.ClassifyReturn(ret, nil, nil) == core.RetFailure {
			continue
		}
		out = append(out, ret)
	}
	return out
}

// writtenOrFlagged decides "fn does not report success without having run target" while allowing the one optimisation that keeps it
// true: a skip under a dirty flag. If successful returns skip target, all of them must disappear when the edges taken on `flag == false`
// (for one boolean struct field `flag`) are removed, and then every function that writes one of stateFields outside a constructor must
// store true into that flag on every path from the write to its return.
func writtenOrFlagged(c *core.Ctx, key string, fn *ssa.Function, target *types.Func, stateFields []*types.Var, loaders ...*ssa.Function) {
	writtenOrFlaggedFrom(c, key, fn, nil, target, stateFields, loaders...)
}

// writtenOrFlaggedFrom is writtenOrFlagged for the paths that start at the block of `after` (nil: the entry of fn).
func writtenOrFlaggedFrom(c *core.Ctx, key string, fn *ssa.Function, after ssa.Instruction, target *types.Func, stateFields []*types.Var, loaders ...*ssa.Function) {
	start := fn.Blocks[0]
	if after != nil {
		start = after.Block()
	}
	ps := passers(fn, target, 3)
	if len(ps) == 0 {
		c.Check(key, "must-call", false, fn.Pos(), "%s (or a same-package helper on its success path) never calls %s", shortFn(fn), objName(target))
		return
	}
	skips := skippingReturnsFrom(fn, start, ps, nil)
	if len(skips) == 0 {
		c.Check(key, "must-call", true, fn.Pos(), "every successful exit of %s is preceded by %s", shortFn(fn), objName(target))
		return
	}
	// look for a dirty flag that explains every skip
	var flag *types.Var
	for _, b := range fn.Blocks {
		ifi := ifOf(b)
		if ifi == nil {
			continue
		}
		f, skipEdge := flagTest(ifi)
		if f == nil {
			continue
		}
		cut := map[[2]*ssa.BasicBlock]bool{{b, b.Succs[skipEdge]}: true}
		if len(skippingReturnsFrom(fn, start, ps, cut)) == 0 {
			flag = f
		}
	}
	if flag == nil {
		c.Check(key, "must-call", false, skips[0].Pos(), "%s can report success without %s having run, and the skip is not a test of a single dirty flag", shortFn(fn), objName(target))
		return
	}
	// the flag is raised by every writer of the state
	isState := map[*types.Var]bool{}
	for _, f := range stateFields {
		if f != flag {
			isState[f] = true
		}
	}
	okAll := true
	var firstBad token.Pos
	badName := ""
	n := 0
	for _, g := range c.SrcFuncs {
		if isTestHelper(c, g) || g.Pkg != fn.Pkg {
			continue
		}
		// what the start-up load puts into memory is what the file holds: no need to raise the flag there
		if onlyReachedFrom(c, g, loaders, 4) {
			continue
		}
		var raises []ssa.Instruction
		for _, st := range storesToO8(g, flag) {
			if k, ok := st.Val.(*ssa.Const); ok && k.Value != nil && k.Value.String() == "true" {
				raises = append(raises, st)
			}
		}
		for _, w := range stateWrites(g, isState) {
			n++
			covered := false
			avoid := map[*ssa.BasicBlock]bool{}
			for _, r := range raises {
				if core.Dominates(r, w) || (r.Block() == w.Block() && core.Dominates(w, r)) {
					covered = true
				}
				avoid[r.Block()] = true
			}
			if !covered && len(raises) > 0 {
				// every exit after the write that may be a success passes a raise (a failed exit leaves the caller to deal with it)
				covered = true
				rs := core.ReachCutAvoid(w.Block(), nil, avoid)
				for _, ret := range core.Returns(g) {
					if ret.Block() == g.Recover || (!rs[ret.Block()] && ret.Block() != w.Block()) {
						continue
					}
					if core.ClassifyReturn(ret, nil, nil) != core.RetFailure {
						covered = false
					}
				}
			}
			if !covered {
				okAll = false
				if firstBad == token.NoPos {
					firstBad, badName = w.Pos(), shortFn(g)
				}
			}
		}
	}
	c.Check(key, "must-call", okAll && n > 0, firstBad, "%s skips %s while %s is false; then every write of the flushed state must raise that flag (%d write sites; first uncovered one in %s)", shortFn(fn), objName(target), flag.Name(), n, badName)
}

// flagTest: the If tests one boolean struct field (possibly negated); returns the field and the index of the edge taken when it is false.
func flagTest(ifi *ssa.If) (*types.Var, int) {
	v := ifi.Cond
	neg := false
	for {
		if u, ok := v.(*ssa.UnOp); ok && u.Op == token.NOT {
			neg = !neg
			v = u.X
			continue
		}
		break
	}
	// an accessor that returns the flag (`func (x *T) IsDirty() bool { return x.inner.Dirty }`)
	if call, ok := v.(*ssa.Call); ok {
		if h := call.Call.StaticCallee(); h != nil && h.Blocks != nil {
			rs := core.Returns(h)
			if len(rs) == 1 && len(rs[0].Results) == 1 {
				v = rs[0].Results[0]
			}
		}
	}
	ld, ok := v.(*ssa.UnOp)
	if !ok || ld.Op != token.MUL {
		return nil, 0
	}
	fa, ok := ld.X.(*ssa.FieldAddr)
	if !ok {
		return nil, 0
	}
	f := core.FieldOf(fa)
	if b, ok := f.Type().Underlying().(*types.Basic); !ok || b.Kind() != types.Bool {
		return nil, 0
	}
	if neg {
		return f, 0 // `if !flag` : the true edge is taken when the flag is false
	}
	return f, 1
}

// stateWrites lists the instructions of g that write one of the fields (store to the field, map update / delete / copy / element store
// through a value loaded from the field), leaving out writes into an object g itself allocated.
func stateWrites(g *ssa.Function, isState map[*types.Var]bool) []ssa.Instruction {
	var under func(v ssa.Value, d int) (*types.Var, ssa.Value)
	under = func(v ssa.Value, d int) (*types.Var, ssa.Value) {
		if d > 8 {
			return nil, nil
		}
		switch x := v.(type) {
		case *ssa.FieldAddr:
			if f := core.FieldOf(x); isState[f] {
				return f, x.X
			}
			return under(x.X, d+1)
		case *ssa.IndexAddr:
			return under(x.X, d+1)
		case *ssa.UnOp:
			if x.Op == token.MUL {
				return under(x.X, d+1)
			}
		case *ssa.Slice:
			return under(x.X, d+1)
		}
		return nil, nil
	}
	var out []ssa.Instruction
	for _, b := range g.Blocks {
		for _, in := range b.Instrs {
			var target ssa.Value
			switch x := in.(type) {
			case *ssa.Store:
				target = x.Addr
			case *ssa.MapUpdate:
				target = x.Map
			case *ssa.Call:
				if bi, ok := x.Call.Value.(*ssa.Builtin); ok && (bi.Name() == "delete" || bi.Name() == "copy" || bi.Name() == "clear") && len(x.Call.Args) > 0 {
					target = x.Call.Args[0]
				}
			}
			if target == nil {
				continue
			}
			f, base := under(target, 0)
			if f == nil {
				continue
			}
			if _, fresh := base.(*ssa.Alloc); fresh {
				continue
			}
			out = append(out, in)
		}
	}
	return out
}

// propagatedDeep is `propagated` that follows same-package helpers: fn calls target, or calls a helper (depth-bounded) that does, and at
// every level the error is tested (a failure cannot reach a successful exit) or returned.
func propagatedDeep(c *core.Ctx, fn *ssa.Function, target *types.Func, depth int) {
	key := shortFn(fn) + "→" + objName(target)
	var walk func(f *ssa.Function, d int) (found bool, ok bool, why string, pos token.Pos)
	walk = func(f *ssa.Function, d int) (bool, bool, string, token.Pos) {
		found, ok, why, pos := false, true, "", token.NoPos
		for _, ci := range core.AllCalls(f) {
			callee := core.StaticFn(ci)
			direct := core.CalleeObj(ci) == target
			viaHelper := false
			if !direct && callee != nil && d > 0 && callee.Pkg == f.Pkg && callee.Blocks != nil && callee != f {
				hf, hok, hwhy, hpos := walk(callee, d-1)
				if hf {
					viaHelper = true
					if !hok {
						ok, why, pos = false, hwhy, hpos
					}
				}
			}
			if !direct && !viaHelper {
				continue
			}
			found = true
			if _, isCall := ci.(*ssa.Call); isCall {
				if h, w := heededOrReturned(ci); !h {
					ok, why, pos = false, shortFn(f)+": "+w, ci.Pos()
				}
			} else {
				ok, why, pos = false, shortFn(f)+": called by go/defer, the error is lost", ci.Pos()
			}
		}
		return found, ok, why, pos
	}
	found, ok, why, pos := walk(fn, depth)
	if !found {
		c.Check(key, "guard-call-present", false, fn.Pos(), "%s must call %s, directly or through a same-package helper", shortFn(fn), objName(target))
		return
	}
	if pos == token.NoPos {
		pos = fn.Pos()
	}
	c.Check(key, "heeded-guard", ok, pos, "the error of %s must be tested or returned on the way up to %s: %s", objName(target), shortFn(fn), orOK(why))
}

// onlyReachedFrom: g is one of roots, or has callers and every caller is (recursively, depth-bounded) only reached from roots.
func onlyReachedFrom(c *core.Ctx, g *ssa.Function, roots []*ssa.Function, depth int) bool {
	g = core.Outer(g)
	for _, r := range roots {
		if r == g {
			return true
		}
	}
	if depth <= 0 || len(roots) == 0 {
		return false
	}
	fo, _ := g.Object().(*types.Func)
	if fo == nil {
		return false
	}
	_, sites := callersOf(c, fo)
	if len(sites) == 0 {
		return false
	}
	for _, s := range sites {
		if !onlyReachedFrom(c, s.Caller, roots, depth-1) {
			return false
		}
	}
	return true
}

// homeOf finds where, in the family of fn, the calls of targets live: fn itself when it contains one, otherwise an unexported same-package
// helper that fn calls on the way to every normal return (the call dominates them) and that contains one — recursively, depth-bounded.
// Rules written for "fn does X before it returns" are then evaluated on the helper the X was moved into. Returns fn when nothing is found.
func homeOf(c *core.Ctx, fn *ssa.Function, targets ...*types.Func) *ssa.Function {
	var find func(f *ssa.Function, d int) *ssa.Function
	find = func(f *ssa.Function, d int) *ssa.Function {
		if len(core.CallsIn(f, targets...)) > 0 {
			return f
		}
		if d <= 0 {
			return nil
		}
		for _, ci := range core.AllCalls(f) {
			if _, isCall := ci.(*ssa.Call); !isCall {
				continue
			}
			h := core.StaticFn(ci)
			if h == nil || h.Pkg != f.Pkg || h.Blocks == nil || h == f {
				continue
			}
			if o, ok := h.Object().(*types.Func); !ok || o.Exported() {
				continue
			}
			dom := true
			for _, r := range core.Returns(f) {
				if r.Block() != f.Recover && !core.Dominates(ci, r) {
					dom = false
				}
			}
			if !dom {
				continue
			}
			if got := find(h, d-1); got != nil {
				return got
			}
		}
		return nil
	}
	if got := find(fn, 2); got != nil {
		return got
	}
	return fn
}

// memoTest: the If tests one pointer-typed struct field against nil; returns the field and the index of the edge taken when it is set.
func memoTest(ifi *ssa.If) (*types.Var, int) {
	bo, ok := ifi.Cond.(*ssa.BinOp)
	if !ok || (bo.Op != token.NEQ && bo.Op != token.EQL) {
		return nil, 0
	}
	x, y := bo.X, bo.Y
	if core.IsNilConst(x) {
		x, y = y, x
	}
	if !core.IsNilConst(y) {
		return nil, 0
	}
	ld, ok := x.(*ssa.UnOp)
	if !ok || ld.Op != token.MUL {
		return nil, 0
	}
	fa, ok := ld.X.(*ssa.FieldAddr)
	if !ok {
		return nil, 0
	}
	if bo.Op == token.NEQ {
		return core.FieldOf(fa), 0
	}
	return core.FieldOf(fa), 1
}

// computedOrMemo decides "fn answers from the current content": every successful exit of fn is preceded by target (the computation), or
// the exits that skip it are all taken under one memo field being set, and then every store into one of contentFields — other than the
// stores `sameContent` recognises as keeping the content (re-installing the computation's own result) — is followed, on every path to a
// successful return, by a store of nil into that memo. A content write that leaves the memo makes fn answer for content that is gone.
func computedOrMemo(c *core.Ctx, key string, fn *ssa.Function, target *types.Func, contentFields []*types.Var, sameContent func(*ssa.Store) bool) {
	ps := passers(fn, target, 3)
	if len(ps) == 0 {
		c.Check(key, "must-call", false, fn.Pos(), "%s never calls %s", shortFn(fn), objName(target))
		return
	}
	skips := skippingReturns(fn, ps, nil)
	if len(skips) == 0 {
		c.Check(key, "must-call", true, fn.Pos(), "every successful exit of %s is preceded by %s", shortFn(fn), objName(target))
		return
	}
	var memo *types.Var
	for _, b := range fn.Blocks {
		ifi := ifOf(b)
		if ifi == nil {
			continue
		}
		f, setEdge := memoTest(ifi)
		if f == nil {
			continue
		}
		cut := map[[2]*ssa.BasicBlock]bool{{b, b.Succs[setEdge]}: true}
		if len(skippingReturns(fn, ps, cut)) == 0 {
			memo = f
		}
	}
	if memo == nil {
		c.Check(key, "must-call", false, skips[0].Pos(), "%s can answer without %s having run, and the skip is not a test of a single memo field", shortFn(fn), objName(target))
		return
	}
	isContent := map[*types.Var]bool{}
	for _, f := range contentFields {
		isContent[f] = true
	}
	okAll, n := true, 0
	var firstBad token.Pos
	badName := ""
	for _, g := range c.SrcFuncs {
		if isTestHelper(c, g) || g.Pkg != fn.Pkg {
			continue
		}
		var clears []ssa.Instruction
		for _, st := range storesToO8(g, memo) {
			if core.IsNilConst(st.Val) {
				clears = append(clears, st)
			}
		}
		for _, b := range g.Blocks {
			for _, in := range b.Instrs {
				st, ok := in.(*ssa.Store)
				if !ok || !isContent[core.FieldOf(st.Addr)] {
					continue
				}
				if fa, isFa := st.Addr.(*ssa.FieldAddr); isFa {
					if _, fresh := fa.X.(*ssa.Alloc); fresh {
						continue
					}
				}
				if sameContent != nil && sameContent(st) {
					continue
				}
				n++
				covered := false
				avoid := map[*ssa.BasicBlock]bool{}
				for _, r := range clears {
					if r.Block() == st.Block() && core.Dominates(st, r) {
						covered = true
					}
					avoid[r.Block()] = true
				}
				if !covered {
					covered = len(clears) > 0
					rs := core.ReachCutAvoid(st.Block(), nil, avoid)
					for _, ret := range core.Returns(g) {
						if ret.Block() == g.Recover || (!rs[ret.Block()] && ret.Block() != st.Block()) {
							continue
						}
						if core.ClassifyReturn(ret, nil, nil) != core.RetFailure {
							covered = false
						}
					}
				}
				if !covered {
					okAll = false
					if firstBad == token.NoPos {
						firstBad, badName = st.Pos(), shortFn(g)
					}
				}
			}
		}
	}
	c.Check(key, "must-call", okAll && n > 0, firstBad, "%s answers from the memo %s when it is set; then every write of the content must drop the memo on its way to a successful return (%d content writes; first uncovered one in %s)", shortFn(fn), memo.Name(), n, badName)
}
