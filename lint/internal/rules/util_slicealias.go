package rules

import (
	"go/token"
	"go/types"
	"sort"

	"golang.org/x/tools/go/ssa"

	"verif/lint/internal/core"
)

// prefixAppend is one `append(x[lo:hi], …)` with an explicit upper bound and no capacity limit (no 3-index slice): the append
// may write into x's backing array behind hi. Reads lists the element accesses to the *old* x (the same SSA value, or a load of
// the variable x was loaded from, or a slice cut from one of these before the append) that can execute after the append and
// before that variable is assigned again.
type prefixAppend struct {
	Fn    *ssa.Function
	Call  *ssa.Call
	X     ssa.Value
	Reads []ssa.Instruction
}

func sameVarAddr(a, b ssa.Value) bool {
	if a == nil || b == nil {
		return false
	}
	if a == b {
		return true
	}
	fa, oka := a.(*ssa.FieldAddr)
	fb, okb := b.(*ssa.FieldAddr)
	return oka && okb && core.FieldOf(fa) == core.FieldOf(fb) && sameExpr(fa.X, fb.X, 0)
}

func prefixAppends(fn *ssa.Function) []prefixAppend {
	var out []prefixAppend
	for _, b := range fn.Blocks {
		for idx, in := range b.Instrs {
			call, ok := in.(*ssa.Call)
			if !ok {
				continue
			}
			args := builtinCall(call, "append")
			if args == nil {
				continue
			}
			sl, ok := args[0].(*ssa.Slice)
			if !ok || sl.High == nil || sl.Max != nil {
				continue
			}
			if _, isSlice := sl.X.Type().Underlying().(*types.Slice); !isSlice {
				continue
			}
			x := sl.X
			var addr ssa.Value
			if ld, ok := x.(*ssa.UnOp); ok && ld.Op == token.MUL {
				addr = ld.X
			}
			// forward walk from the append: the instructions that can execute after it without first passing an instruction
			// for which stop holds (the stopping instruction itself is included)
			reachable := func(stop func(ssa.Instruction) bool) []ssa.Instruction {
				var got []ssa.Instruction
				seen := map[*ssa.BasicBlock]bool{}
				var visit func(blk *ssa.BasicBlock, from int)
				visit = func(blk *ssa.BasicBlock, from int) {
					for i := from; i < len(blk.Instrs); i++ {
						got = append(got, blk.Instrs[i])
						if stop(blk.Instrs[i]) {
							return
						}
					}
					for _, s := range blk.Succs {
						if !seen[s] {
							seen[s] = true
							visit(s, 0)
						}
					}
				}
				visit(b, idx+1)
				return got
			}
			isLoadOfVar := func(in ssa.Instruction) bool {
				ld, ok := in.(*ssa.UnOp)
				return ok && ld.Op == token.MUL && addr != nil && sameVarAddr(ld.X, addr)
			}
			pa := prefixAppend{Fn: fn, Call: call, X: x}
			flagged := map[ssa.Instruction]bool{}
			flag := func(in ssa.Instruction) {
				if in != ssa.Instruction(call) && in != ssa.Instruction(sl) && !flagged[in] {
					flagged[in] = true
					pa.Reads = append(pa.Reads, in)
				}
			}
			// (1) values that denote the old slice when the append executes: x, earlier loads of its variable, slices cut from those
			pre := map[ssa.Value]bool{x: true}
			for _, ob := range fn.Blocks {
				for _, oi := range ob.Instrs {
					if isLoadOfVar(oi) && core.Dominates(oi, call) {
						pre[oi.(ssa.Value)] = true
					}
				}
			}
			for _, ob := range fn.Blocks {
				for _, oi := range ob.Instrs {
					if s2, ok := oi.(*ssa.Slice); ok && s2 != sl && pre[s2.X] && core.Dominates(s2, call) {
						pre[s2] = true
					}
				}
			}
			for y := range pre {
				def, _ := y.(ssa.Instruction)
				for _, in := range reachable(func(i ssa.Instruction) bool { return def != nil && i == def }) {
					if in != def && readsElements(in, map[ssa.Value]bool{y: true}) {
						flag(in)
					}
				}
			}
			// (2) loads of the variable executed after the append and before it is assigned again still yield the old slice
			for _, in := range reachable(func(i ssa.Instruction) bool {
				st, ok := i.(*ssa.Store)
				return ok && addr != nil && sameVarAddr(st.Addr, addr)
			}) {
				if !isLoadOfVar(in) {
					continue
				}
				y := in.(ssa.Value)
				if refs := y.Referrers(); refs != nil {
					for _, r := range *refs {
						if readsElements(r, map[ssa.Value]bool{y: true}) {
							flag(r)
						}
					}
				}
			}
			sort.Slice(pa.Reads, func(i, j int) bool { return pa.Reads[i].Pos() < pa.Reads[j].Pos() })
			out = append(out, pa)
		}
	}
	return out
}

// readsElements: does the instruction access elements of one of the given slice values (slicing, indexing, or handing the
// slice to append/copy as a source)?
func readsElements(in ssa.Instruction, vals map[ssa.Value]bool) bool {
	switch x := in.(type) {
	case *ssa.Slice:
		return vals[x.X]
	case *ssa.IndexAddr:
		return vals[x.X]
	case *ssa.Index:
		return vals[x.X]
	case *ssa.Range:
		return vals[x.X]
	case *ssa.Call:
		if a := builtinCall(x, "append"); a != nil {
			return len(a) > 1 && vals[a[1]]
		}
		if a := builtinCall(x, "copy"); a != nil {
			return vals[a[1]]
		}
	}
	return false
}
