package rules

import (
	"go/token"
	"go/types"

	"golang.org/x/tools/go/ssa"

	"verif/lint/internal/core"
)

// ---------------------------------------------------------------------------------------------
// C14.4 canonical-form guard inventory of common/rlp

func c14Canon(c *core.Ctx) {
	c.Clause("C14.4", "the canonical-form guards of the RLP decoder are in place, keyed by sentinel identity and compared quantity: ErrCanonSize ×6, ErrCanonInt ×3, ErrElemTooLarge ×2, ErrValueTooLarge ×2, ErrMoreThanOneValue; each sentinel is handed out under a rejecting condition on the stated quantity, and the errors travel from readKind/willRead to the typed readers")
	c.Run("canon", func() {
		stream := c14Rlp + ".Stream"
		fld := func(n string) *types.Var { return c.FieldVar(stream, n) }
		lp := func(n string) *types.Var { return c.FieldVar(c14Rlp+".listpos", n) }
		kindM, readUint, readFull, willRead, bytesM := c.Method(stream, "Kind"), c.Method(stream, "readUint"), c.Method(stream, "readFull"), c.Method(stream, "willRead"), c.Method(stream, "Bytes")
		sticky := fld("kinderr")

		fromCall := func(t *types.Func) func(ssa.Value) bool {
			return func(v ssa.Value) bool { return core.SliceHasCall(core.Slice(v), t) }
		}
		fromField := func(f *types.Var) func(ssa.Value) bool {
			return func(v ssa.Value) bool { return core.SliceHasField(core.Slice(v), f) }
		}
		isValue := func(x ssa.Value) func(ssa.Value) bool {
			return func(v ssa.Value) bool { return v == x || core.Derived(x)[v] }
		}
		// an element of the buffer that fn hands to src as argument argIdx (or gets from src as first result when argIdx < 0)
		elemOfBuffer := func(fn *ssa.Function, src *types.Func, argIdx int) func(ssa.Value) bool {
			return func(v ssa.Value) bool {
				for x := range core.Slice(v) {
					ia, ok := x.(*ssa.IndexAddr)
					if !ok {
						continue
					}
					for _, ci := range core.CallsIn(fn, src) {
						var buf ssa.Value
						if argIdx < 0 {
							if rv := core.ResultValues(ci); len(rv) > 0 {
								buf = rv[0]
							}
						} else if a := ci.Common().Args; argIdx < len(a) {
							buf = a[argIdx]
						}
						if buf != nil && (ia.X == buf || core.Derived(buf)[ia.X]) {
							return true
						}
					}
				}
				return false
			}
		}
		remaining := func(v ssa.Value) bool { // tos.size - tos.pos
			b, ok := v.(*ssa.BinOp)
			return ok && b.Op == token.SUB && core.SliceHasField(core.Slice(b.X), lp("size")) && core.SliceHasField(core.Slice(b.Y), lp("pos"))
		}

		type inst struct {
			fn, sentinel, name string
			match              func(fn *ssa.Function, ld *ssa.UnOp, hs []normCmp) bool
		}
		kindConst := func(n string) int64 { v, _ := constInt(c.Const(c14Rlp + "." + n)); return v }
		longForm := func(kind string) func(fn *ssa.Function, ld *ssa.UnOp, hs []normCmp) bool {
			return func(fn *ssa.Function, ld *ssa.UnOp, hs []normCmp) bool {
				if !holdsCmpConst(hs, token.LSS, 56, fromCall(readUint)) {
					return false
				}
				for _, r := range core.Returns(fn) {
					if len(r.Results) == 3 && core.Slice(core.RetVal(r, 2))[ld] {
						if k, ok := intConstOf(core.RetVal(r, 0)); ok && k == kindConst(kind) {
							return true
						}
					}
				}
				return false
			}
		}
		insts := []inst{
			{"readKind", "ErrCanonSize", "long-string-size<56", longForm("String")},
			{"readKind", "ErrCanonSize", "long-list-size<56", longForm("List")},
			{"readUint", "ErrCanonSize", "leading-zero-in-size", func(fn *ssa.Function, ld *ssa.UnOp, hs []normCmp) bool {
				return holdsCmpConst(hs, token.EQL, 0, fromField(fld("uintbuf")))
			}},
			{"Bytes", "ErrCanonSize", "single-byte<0x80-as-string", func(fn *ssa.Function, ld *ssa.UnOp, hs []normCmp) bool {
				return holdsCmpConst(hs, token.EQL, 1, fromCall(kindM)) && holdsCmpConst(hs, token.LSS, 128, elemOfBuffer(fn, readFull, 1))
			}},
			{"uint", "ErrCanonSize", "uint<0x80-as-string", func(fn *ssa.Function, ld *ssa.UnOp, hs []normCmp) bool {
				return holdsCmpConst(hs, token.GTR, 0, fromCall(kindM)) && holdsCmpConst(hs, token.LSS, 128, fromCall(readUint))
			}},
			{"decodeByteArray", "ErrCanonSize", "array-single-byte<0x80-as-string", func(fn *ssa.Function, ld *ssa.UnOp, hs []normCmp) bool {
				return holdsCmpConst(hs, token.EQL, 1, fromCall(kindM)) && holdsCmpConst(hs, token.LSS, 128, elemOfBuffer(fn, readFull, 1))
			}},
			{"decodeBigInt", "ErrCanonInt", "bigint-leading-zero", func(fn *ssa.Function, ld *ssa.UnOp, hs []normCmp) bool {
				isLen := func(v ssa.Value) bool {
					ci, ok := v.(*ssa.Call)
					if !ok {
						return false
					}
					b, ok := ci.Call.Value.(*ssa.Builtin)
					return ok && b.Name() == "len" && core.SliceHasCall(core.Slice(ci.Call.Args[0]), bytesM)
				}
				return holdsCmpConst(hs, token.GTR, 0, isLen) && holdsCmpConst(hs, token.EQL, 0, elemOfBuffer(fn, bytesM, -1))
			}},
			{"uint", "ErrCanonInt", "uint-single-zero-byte", func(fn *ssa.Function, ld *ssa.UnOp, hs []normCmp) bool {
				return holdsCmpConst(hs, token.EQL, 0, fromField(fld("byteval")))
			}},
			{"uint", "ErrCanonInt", "uint-leading-zero", func(fn *ssa.Function, ld *ssa.UnOp, hs []normCmp) bool {
				canonSize := c.Global(c14Rlp + ".ErrCanonSize")
				return holdsCmp(hs, token.EQL, fromCall(readUint), func(v ssa.Value) bool {
					u, ok := v.(*ssa.UnOp)
					if !ok {
						return false
					}
					g, ok := u.X.(*ssa.Global)
					return ok && g.Object() == canonSize
				})
			}},
			{"Kind", "ErrElemTooLarge", "element>rest-of-list", func(fn *ssa.Function, ld *ssa.UnOp, hs []normCmp) bool {
				return holdsCmp(hs, token.GTR, fromField(fld("size")), remaining)
			}},
			{"willRead", "ErrElemTooLarge", "read>rest-of-list", func(fn *ssa.Function, ld *ssa.UnOp, hs []normCmp) bool {
				return holdsCmp(hs, token.GTR, isValue(fn.Params[1]), remaining)
			}},
			{"Kind", "ErrValueTooLarge", "value>remaining-input", func(fn *ssa.Function, ld *ssa.UnOp, hs []normCmp) bool {
				return holdsBool(hs, fromField(fld("limited"))) && holdsCmp(hs, token.GTR, fromField(fld("size")), fromField(fld("remaining")))
			}},
			{"willRead", "ErrValueTooLarge", "read>remaining-input", func(fn *ssa.Function, ld *ssa.UnOp, hs []normCmp) bool {
				return holdsBool(hs, fromField(fld("limited"))) && holdsCmp(hs, token.GTR, isValue(fn.Params[1]), fromField(fld("remaining")))
			}},
		}
		resolve := func(name string) *ssa.Function {
			switch name {
			case "decodeByteArray", "decodeBigInt":
				return c.Fn(c14Rlp + "." + name)
			}
			return c.Fn(stream + "." + name)
		}
		per := map[string]int{}
		for _, in := range insts {
			fn := resolve(in.fn)
			g := c.Global(c14Rlp + "." + in.sentinel)
			found := false
			var pos token.Pos = fn.Pos()
			for _, ld := range loadsOfGlobal(fn, g) {
				if !raised(ld, sticky) {
					continue
				}
				if in.match(fn, ld, holds(controlConds(ld.Block()))) {
					found = true
					pos = ld.Pos()
				}
			}
			if found {
				per[in.sentinel]++
			}
			c.Check(in.fn+":"+in.sentinel+"?"+in.name, "canon-guard", found, pos, "%s must hand out %s under the rejecting condition %q", shortFn(fn), in.sentinel, in.name)
		}
		// the canonical test applies to every value a typed reader accepts: in the readers that fetch their bytes with one call and test the
		// bytes afterwards, that fetch (whose result the guard inspects) lies on every path to a successful return — no fast path around it
		for _, pr := range [][2]string{{"decodeBigInt", "Bytes"}, {"decodeByteArray", "Kind"}} {
			fn := resolve(pr[0])
			src := c.Method(stream, pr[1])
			calls := core.CallsIn(fn, src)
			ok := len(calls) >= 1
			for _, r := range core.Returns(fn) {
				if core.ClassifyReturn(r, nil, nil) == core.RetFailure {
					continue
				}
				dom := false
				for _, ci := range calls {
					if core.Dominates(ci, r) {
						dom = true
					}
				}
				if !dom {
					ok = false
				}
			}
			c.Check(pr[0]+":no-path-around-the-canonical-test", "guard-scope", ok, fn.Pos(), "every successful return of %s comes after the Stream.%s call whose result the canonical-form test inspects", shortFn(fn), pr[1])
		}
		c.Floor("ErrCanonSize", per["ErrCanonSize"], 5)
		c.Floor("ErrCanonInt", per["ErrCanonInt"], 3)
		c.Floor("ErrElemTooLarge", per["ErrElemTooLarge"], 1)
		c.Floor("ErrValueTooLarge", per["ErrValueTooLarge"], 1)

		// DecodeBytes: trailing bytes
		db := c.Fn(c14Rlp + ".DecodeBytes")
		rlen := c.StdFunc("bytes", "Reader.Len")
		condGuard(c, db, "ErrMoreThanOneValue?reader.Len()>0", nil, func(sl map[ssa.Value]bool) bool {
			return core.SliceHasCall(sl, rlen) && core.SliceHasOp(sl, token.GTR) && core.SliceHasIntConst(sl, 0)
		})
		more := c.Global(c14Rlp + ".ErrMoreThanOneValue")
		okMore := false
		for _, ld := range loadsOfGlobal(db, more) {
			hs := holds(controlConds(ld.Block()))
			if raised(ld, nil) && holdsCmpConst(hs, token.GTR, 0, fromCall(rlen)) {
				okMore = true
			}
		}
		c.Check("DecodeBytes:ErrMoreThanOneValue?trailing-bytes", "canon-guard", okMore, db.Pos(), "DecodeBytes returns ErrMoreThanOneValue when bytes are left in the reader")
		// the reader whose rest is measured is the one the stream consumed
		same := false
		for _, l := range core.CallsIn(db, rlen) {
			for _, ns := range core.CallsIn(db, c.FuncObj(c14Rlp+".NewStream")) {
				if core.Slice(ns.Common().Args[0])[l.Common().Args[0]] {
					same = true
				}
			}
		}
		c.Check("DecodeBytes:same-reader", "value-flow", same, db.Pos(), "the reader whose remaining length is tested is the reader the stream decoded from")
		for _, d := range core.CallsIn(db, c.Method(stream, "Decode")) {
			ok, why := core.CallHeeded(d, core.ErrNonNil, nil)
			c.Check("DecodeBytes→Stream.Decode", "heeded-guard", ok, d.Pos(), "a decoding error is returned: %s", orOK(why))
		}

		// propagation: the kind error is sticky and returned; the typed readers heed Kind / willRead / readFull / readUint
		kindFn := c.Fn(stream + ".Kind")
		rk := core.CallsIn(kindFn, c.Method(stream, "readKind"))
		okStore := false
		if len(rk) == 1 {
			rv := core.ResultValues(rk[0])
			for _, b := range kindFn.Blocks {
				for _, in := range b.Instrs {
					if st, ok := in.(*ssa.Store); ok && core.FieldOf(st.Addr) == sticky && len(rv) == 3 && rv[2] != nil && core.Derived(rv[2])[st.Val] {
						okStore = true
					}
				}
			}
		}
		okRet := true
		nRet := 0
		for _, r := range core.Returns(kindFn) {
			if core.ClassifyReturn(r, nil, nil) == core.RetFailure {
				continue
			}
			nRet++
			if !core.SliceHasField(core.Slice(core.RetVal(r, 2)), sticky) {
				okRet = false
			}
		}
		c.Check("Kind:readKind-error-sticky-and-returned", "value-flow", okStore && okRet && nRet >= 1, kindFn.Pos(), "Kind stores readKind's error in kinderr and every non-failing return hands back kinderr")
		rkFn := c.Fn(stream + ".readKind")
		nProp := 0
		for _, ci := range core.CallsIn(rkFn, readUint) {
			rv := core.ResultValues(ci)
			ok := false
			for _, r := range core.Returns(rkFn) {
				if len(rv) == 2 && rv[1] != nil && core.Slice(core.RetVal(r, 2))[rv[1]] {
					ok = true
				}
			}
			nProp++
			c.Check("readKind:readUint-error-returned#"+string(rune('a'+nProp-1)), "value-flow", ok, ci.Pos(), "the error of reading a long-form size is returned by readKind")
		}
		c.Exactly("readKind/readUint-calls", nProp, 2)
		n := 0
		for _, f := range []string{"Bytes", "uint", "List", "Raw"} {
			n += len(heeded(c, c.Fn(stream+"."+f), kindM, core.ErrNonNil, 1, nil))
		}
		n += len(heeded(c, c.Fn(c14Rlp+".decodeByteArray"), kindM, core.ErrNonNil, 1, nil))
		n += len(heeded(c, c.Fn(stream+".readFull"), willRead, core.ErrNonNil, 1, nil))
		n += len(heeded(c, c.Fn(stream+".readByte"), willRead, core.ErrNonNil, 1, nil))
		for _, p := range [][2]string{{stream + ".Bytes", "readFull"}, {stream + ".uint", "readUint"}, {stream + ".readUint", "readFull"}, {c14Rlp + ".decodeByteArray", "readFull"}, {c14Rlp + ".decodeBigInt", "Bytes"}} {
			fn := c.Fn(p[0])
			for _, ci := range core.CallsIn(fn, c.Method(stream, p[1])) {
				ok, why := errHeededAfter(ci)
				n++
				c.Check(shortFn(fn)+"→"+p[1], "heeded-guard", ok, ci.Pos(), "the error of %s is tested and a failure is returned: %s", p[1], orOK(why))
			}
		}
		c.Floor("error-propagation", n, 12)
	})
}
