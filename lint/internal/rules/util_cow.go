package rules

// util_cow.go — copy-on-write ownership analysis for a tree of heap nodes whose ownership is recorded in a tag field
// ("dye"): which instructions of a function write memory that belongs to a node the function did not allocate itself, and
// whether each such write is dominated by the equality test `node.tag == requested tag` on that very node.

import (
	"go/token"
	"go/types"
	"sort"

	"golang.org/x/tools/go/ssa"

	"verif/lint/internal/core"
)

type cow struct {
	node  *types.Named  // the node struct
	tag   *types.Var    // ownership tag field
	kids  *types.Var    // slice-of-children field (its backing array belongs to the node)
	fresh []*types.Func // methods that return a private copy of their receiver

	roMemo map[*ssa.Function]int // 1 = being analysed / writes, 2 = read-only
}

// readOnly: the repository function g (resolved callee) never writes node memory reachable from its parameters: no field
// store, element store, append/copy-into or hand-over to a writing callee on a node or node slice it did not allocate itself.
func (a *cow) readOnly(g *ssa.Function) bool {
	if g == nil || g.Blocks == nil || !core.InRepo(g) {
		return false
	}
	if a.roMemo == nil {
		a.roMemo = map[*ssa.Function]int{}
	}
	if st := a.roMemo[g]; st != 0 {
		return st == 2
	}
	a.roMemo[g] = 1
	if len(g.AnonFuncs) == 0 && len(a.writes(g, nil)) == 0 {
		a.roMemo[g] = 2
	}
	return a.roMemo[g] == 2
}

// returnsFreshSlice: every slice the resolved callee g returns is allocated by g itself (make / nil), never (a re-slice or
// append of) one of its arguments.
func (a *cow) returnsFreshSlice(g *ssa.Function) bool {
	if g == nil || g.Blocks == nil || !core.InRepo(g) {
		return false
	}
	rets := core.Returns(g)
	if len(rets) == 0 {
		return false
	}
	for _, r := range rets {
		if len(r.Results) != 1 || !freshValue(r.Results[0]) {
			return false
		}
	}
	return true
}

func (a *cow) isNodePtr(t types.Type) bool {
	p, ok := t.Underlying().(*types.Pointer)
	return ok && types.Identical(p.Elem(), a.node)
}

func (a *cow) isNodeSlice(t types.Type) bool {
	s, ok := t.Underlying().(*types.Slice)
	return ok && a.isNodePtr(s.Elem())
}

// isFreshCall: v is the result of a call that returns a node allocated for this call: one of the listed copy methods, or any
// resolved repository function all of whose returns are nodes it builds itself (directly or through such a function).
func (a *cow) isFreshCall(v ssa.Value) bool {
	ci, ok := v.(*ssa.Call)
	if !ok || !a.isNodePtr(ci.Type()) {
		return false
	}
	o := core.CalleeObj(ci)
	for _, f := range a.fresh {
		if o != nil && o == f {
			return true
		}
	}
	g := ci.Call.StaticCallee()
	if ci.Call.IsInvoke() || g == nil || !core.InRepo(g) {
		return false
	}
	objs, ok := builtObjects(g, 0)
	if !ok || len(objs) == 0 {
		return false
	}
	for _, ob := range objs {
		if !a.isNodePtr(ob.Alloc.Type()) {
			return false
		}
	}
	return true
}

// taggedAtBirth: the fresh call x hands `tag` to a resolved constructor g that stores that argument into the tag field of the
// node it returns, before returning it.
func (a *cow) taggedAtBirth(x *ssa.Call, tag ssa.Value) bool {
	g := x.Call.StaticCallee()
	if x.Call.IsInvoke() || g == nil || g.Blocks == nil {
		return false
	}
	rets := core.Returns(g)
	if len(rets) == 0 {
		return false
	}
	for _, r := range rets {
		if len(r.Results) != 1 {
			return false
		}
		found := false
		for _, src := range a.sources(r.Results[0]) {
			for _, s := range a.fieldStores(g, src, a.tag) {
				for i, p := range g.Params {
					if s.Val == p && i < len(x.Call.Args) && a.sameNode(x.Call.Args[i], tag) && core.Dominates(s, r) {
						found = true
					}
				}
			}
		}
		if !found {
			return false
		}
	}
	return true
}

// sources expands a value through phis, conversions and loads of local variable cells down to the values that define it.
func (a *cow) sources(v ssa.Value) []ssa.Value {
	seen := map[ssa.Value]bool{}
	var out []ssa.Value
	var walk func(x ssa.Value)
	walk = func(x ssa.Value) {
		if x == nil || seen[x] {
			return
		}
		seen[x] = true
		switch y := x.(type) {
		case *ssa.Phi:
			for _, e := range y.Edges {
				walk(e)
			}
			return
		case *ssa.ChangeType:
			walk(y.X)
			return
		case *ssa.UnOp:
			if y.Op == token.MUL {
				if cell, ok := y.X.(*ssa.Alloc); ok && cell.Referrers() != nil {
					n := 0
					for _, r := range *cell.Referrers() {
						if st, ok := r.(*ssa.Store); ok && st.Addr == cell {
							walk(st.Val)
							n++
						}
					}
					if n > 0 {
						return
					}
				}
			}
		}
		out = append(out, x)
	}
	walk(v)
	return out
}

func (a *cow) leafFresh(s ssa.Value) bool {
	if al, ok := s.(*ssa.Alloc); ok {
		return a.isNodePtr(al.Type())
	}
	if core.IsNilConst(s) {
		return true
	}
	return a.isFreshCall(s)
}

// nonFresh lists the defining values of node pointer v that were not allocated by this activation.
func (a *cow) nonFresh(v ssa.Value) []ssa.Value {
	var out []ssa.Value
	for _, s := range a.sources(v) {
		if !a.leafFresh(s) {
			out = append(out, s)
		}
	}
	return out
}

// fieldStores lists the stores in fn to field f of node value x (same SSA value).
func (a *cow) fieldStores(fn *ssa.Function, x ssa.Value, f *types.Var) []*ssa.Store {
	var out []*ssa.Store
	if x.Referrers() == nil {
		return nil
	}
	for _, r := range *x.Referrers() {
		fa, ok := r.(*ssa.FieldAddr)
		if !ok || fa.X != x || core.FieldOf(fa) != f || fa.Referrers() == nil {
			continue
		}
		for _, r2 := range *fa.Referrers() {
			if st, ok := r2.(*ssa.Store); ok && st.Addr == fa && st.Parent() == fn {
				out = append(out, st)
			}
		}
	}
	return out
}

// sliceOwners: the non-fresh nodes whose children backing array the slice value s may share. unknown is set when the origin
// of the slice cannot be determined.
func (a *cow) sliceOwners(s ssa.Value) (owners []ssa.Value, unknown bool) {
	seen := map[ssa.Value]bool{}
	set := map[ssa.Value]bool{}
	var walk func(x ssa.Value)
	walk = func(x ssa.Value) {
		if x == nil || seen[x] {
			return
		}
		seen[x] = true
		switch y := x.(type) {
		case *ssa.Const, *ssa.MakeSlice:
			return
		case *ssa.Slice:
			if al, ok := y.X.(*ssa.Alloc); ok {
				if _, isArr := al.Type().Underlying().(*types.Pointer).Elem().Underlying().(*types.Array); isArr {
					return // make([]T, const) / varargs array: fresh
				}
			}
			walk(y.X)
			return
		case *ssa.Phi:
			for _, e := range y.Edges {
				walk(e)
			}
			return
		case *ssa.ChangeType:
			walk(y.X)
			return
		case *ssa.Call:
			if core.BuiltinName(y) == "append" {
				walk(y.Call.Args[0]) // the result may still use the argument's array
				return
			}
			if !y.Call.IsInvoke() && y.Call.StaticCallee() != nil {
				if a.returnsFreshSlice(y.Call.StaticCallee()) {
					return // the resolved callee hands back memory it allocated itself (a private copy)
				}
				any := false
				for _, arg := range y.Call.Args {
					if a.isNodeSlice(arg.Type()) {
						walk(arg) // a helper returning a slice may hand back its argument's array
						any = true
					}
				}
				if any {
					return
				}
			}
			unknown = true
			return
		case *ssa.UnOp:
			if y.Op != token.MUL {
				unknown = true
				return
			}
			switch ad := y.X.(type) {
			case *ssa.FieldAddr:
				if core.FieldOf(ad) != a.kids {
					unknown = true
					return
				}
				for _, src := range a.sources(ad.X) {
					switch {
					case a.isFreshCall(src):
						// a private copy (the copy of the slice is clause 2); plus whatever this activation stored into it
						for _, st := range a.fieldStores(src.(*ssa.Call).Parent(), src, a.kids) {
							walk(st.Val)
						}
					case a.leafFresh(src):
						if al, ok := src.(*ssa.Alloc); ok {
							for _, st := range a.fieldStores(al.Parent(), al, a.kids) {
								walk(st.Val)
							}
						}
					default:
						set[src] = true
					}
				}
				return
			case *ssa.Alloc:
				if ad.Referrers() != nil {
					for _, r := range *ad.Referrers() {
						if st, ok := r.(*ssa.Store); ok && st.Addr == ad {
							walk(st.Val)
						}
					}
				}
				return
			}
			unknown = true
			return
		}
		unknown = true
	}
	walk(s)
	for v := range set {
		owners = append(owners, v)
	}
	sort.Slice(owners, func(i, j int) bool {
		return owners[i].Pos() < owners[j].Pos() || (owners[i].Pos() == owners[j].Pos() && owners[i].Name() < owners[j].Name())
	})
	return owners, unknown
}

type cowWrite struct {
	Instr   ssa.Instruction
	Kind    string // field:<name> | elem | append | call:<callee> | escape:<callee>
	Owners  []ssa.Value
	Unknown bool
}

// writes lists the instructions of fn that may write memory of a node not allocated by this activation (Owners non-empty or
// Unknown), plus nothing else. self is allowed as a callee receiving non-fresh nodes (the recursion obeys the same discipline).
func (a *cow) writes(fn *ssa.Function, self *types.Func) []cowWrite {
	var out []cowWrite
	add := func(in ssa.Instruction, kind string, owners []ssa.Value, unk bool) {
		if len(owners) > 0 || unk {
			out = append(out, cowWrite{in, kind, owners, unk})
		}
	}
	for _, b := range fn.Blocks {
		for _, in := range b.Instrs {
			switch x := in.(type) {
			case *ssa.Store:
				switch ad := x.Addr.(type) {
				case *ssa.FieldAddr:
					if a.isNodePtr(ad.X.Type()) {
						add(x, "field:"+core.FieldOf(ad).Name(), a.nonFresh(ad.X), false)
					}
				case *ssa.IndexAddr:
					if a.isNodeSlice(ad.X.Type()) {
						o, u := a.sliceOwners(ad.X)
						add(x, "elem", o, u)
					}
				}
			case ssa.CallInstruction:
				cc := x.Common()
				if bn := core.BuiltinName(x); bn != "" {
					if bn == "append" && len(cc.Args) > 0 && a.isNodeSlice(cc.Args[0].Type()) {
						o, u := a.sliceOwners(cc.Args[0])
						add(x, "append", o, u)
					}
					if bn == "copy" && len(cc.Args) > 0 && a.isNodeSlice(cc.Args[0].Type()) {
						o, u := a.sliceOwners(cc.Args[0])
						add(x, "copy", o, u)
					}
					continue
				}
				callee := core.CalleeObj(x)
				name := objName(callee)
				var g *ssa.Function
				if !cc.IsInvoke() {
					g = cc.StaticCallee()
				}
				for _, arg := range cc.Args {
					switch {
					case a.isNodeSlice(arg.Type()):
						if g != nil && g != fn && a.readOnly(g) {
							continue // the resolved callee only reads the list
						}
						o, u := a.sliceOwners(arg)
						add(x, "call:"+name, o, u)
					case a.isNodePtr(arg.Type()):
						if callee != nil && (callee == self || a.isFreshObj(callee)) {
							continue
						}
						if g != nil && g != fn && a.readOnly(g) {
							continue
						}
						add(x, "escape:"+name, a.nonFresh(arg), false)
					}
				}
			}
		}
	}
	return out
}

func (a *cow) isFreshObj(o *types.Func) bool {
	for _, f := range a.fresh {
		if o == f {
			return true
		}
	}
	return false
}

// tagTest: cond decides `N.tag == T` → (N, T, eqWhenTrue). One level of same-package predicate helper is looked through.
func (a *cow) tagTest(cond ssa.Value, depth int) (n, t ssa.Value, eqWhenTrue, ok bool) {
	switch x := cond.(type) {
	case *ssa.BinOp:
		if x.Op != token.EQL && x.Op != token.NEQ {
			return
		}
		for _, p := range [][2]ssa.Value{{x.X, x.Y}, {x.Y, x.X}} {
			if base, f, isLd := core.FieldLoad(p[0]); isLd && f == a.tag && a.isNodePtr(base.Type()) {
				return base, p[1], x.Op == token.EQL, true
			}
		}
	case *ssa.UnOp:
		if x.Op == token.NOT {
			n, t, e, k := a.tagTest(x.X, depth)
			return n, t, !e, k
		}
	case *ssa.Call:
		if depth > 0 || x.Call.IsInvoke() {
			return
		}
		g := x.Call.StaticCallee()
		if g == nil || g.Blocks == nil || !core.InRepo(g) {
			return
		}
		rets := core.Returns(g)
		if len(rets) != 1 || len(rets[0].Results) != 1 {
			return
		}
		n2, t2, e, k := a.tagTest(rets[0].Results[0], depth+1)
		if !k {
			return
		}
		mapArg := func(v ssa.Value) ssa.Value {
			for i, p := range g.Params {
				if p == v && i < len(x.Call.Args) {
					return x.Call.Args[i]
				}
			}
			return nil
		}
		n, t = mapArg(n2), mapArg(t2)
		if n == nil || t == nil {
			return nil, nil, false, false
		}
		return n, t, e, true
	}
	return
}

func (a *cow) sameNode(x, y ssa.Value) bool {
	if x == y || core.SameLoc(x, y) {
		return true
	}
	sx, sy := a.sources(x), a.sources(y)
	return len(sx) == 1 && len(sy) == 1 && (sx[0] == sy[0] || core.SameLoc(sx[0], sy[0]))
}

// ownedAt: block b is only reachable through the equal edge of a test `owner.tag == tagVal`.
func (a *cow) ownedAt(b *ssa.BasicBlock, owner, tagVal ssa.Value) bool {
	for _, e := range core.DominatingEdges(b) {
		n, t, eq, ok := a.tagTest(e.If.Cond, 0)
		if !ok || e.Taken != eq {
			continue
		}
		if a.sameNode(n, owner) && a.sameNode(t, tagVal) {
			return true
		}
	}
	return false
}

// tagParam finds the unique parameter of fn that has the tag field's type.
func (a *cow) tagParam(fn *ssa.Function) *ssa.Parameter {
	var found *ssa.Parameter
	for _, p := range fn.Params {
		if types.Identical(p.Type(), a.tag.Type()) {
			if found != nil {
				return nil
			}
			found = p
		}
	}
	return found
}

// describe names a node value structurally (no SSA register names, no positions).
func (a *cow) describe(fn *ssa.Function, v ssa.Value) string {
	switch x := v.(type) {
	case *ssa.Parameter:
		for i, p := range fn.Params {
			if p == x {
				if a.isNodePtr(x.Type()) {
					return "node-param"
				}
				return "param" + string(rune('0'+i))
			}
		}
	case *ssa.Alloc:
		return "new-node"
	case *ssa.Call:
		if a.isFreshCall(x) && len(x.Call.Args) > 0 {
			return "copy-of(" + a.describe(fn, x.Call.Args[0]) + ")"
		}
		return "call-result"
	case *ssa.Phi:
		return "phi"
	case *ssa.UnOp:
		if x.Op == token.MUL {
			if ia, ok := x.X.(*ssa.IndexAddr); ok {
				if base, f, isLd := core.FieldLoad(ia.X); isLd && f == a.kids {
					return "child-of(" + a.describe(fn, base) + ")"
				}
				return "element"
			}
			if base, f, isLd := core.FieldLoad(x); isLd {
				return a.describe(fn, base) + "." + f.Name()
			}
		}
	}
	return "value"
}

// lenSigns: the possible signs of len(key) − len(X.keyField) at block b, from the length comparisons on dominating edges, for
// the node X (returned). key is a string/slice parameter. Result bit mask: 1 = negative, 2 = zero, 4 = positive.
func lenSigns(b *ssa.BasicBlock, key ssa.Value, keyField *types.Var) (mask int, node ssa.Value) {
	mask = 7
	holds := func(op token.Token, s int) bool {
		switch op {
		case token.EQL:
			return s == 0
		case token.NEQ:
			return s != 0
		case token.LSS:
			return s < 0
		case token.LEQ:
			return s <= 0
		case token.GTR:
			return s > 0
		case token.GEQ:
			return s >= 0
		}
		return true
	}
	swap := map[token.Token]token.Token{token.EQL: token.EQL, token.NEQ: token.NEQ, token.LSS: token.GTR, token.LEQ: token.GEQ, token.GTR: token.LSS, token.GEQ: token.LEQ}
	for _, e := range core.DominatingEdges(b) {
		cmp, ok := e.If.Cond.(*ssa.BinOp)
		if !ok {
			continue
		}
		if _, known := swap[cmp.Op]; !known {
			continue
		}
		lx, ok1 := core.LenArg(cmp.X)
		ly, ok2 := core.LenArg(cmp.Y)
		if !ok1 || !ok2 {
			continue
		}
		op := cmp.Op
		var other ssa.Value
		switch {
		case lx == key:
			other = ly
		case ly == key:
			other, op = lx, swap[op]
		default:
			continue
		}
		base, f, isLd := core.FieldLoad(other)
		if !isLd || f != keyField {
			continue
		}
		if node != nil && !core.SameLoc(node, base) {
			continue
		}
		node = base
		for bit, s := range map[int]int{1: -1, 2: 0, 4: 1} {
			if holds(op, s) != e.Taken {
				mask &^= bit
			}
		}
	}
	return mask, node
}
