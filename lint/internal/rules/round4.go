package rules

import (
	"go/constant"
	"go/token"
	"go/types"

	"golang.org/x/tools/go/ssa"

	"verif/lint/internal/core"
)

// Clauses added after the fourth round of independently written breaking changes (DESIGN §8).

// c11DepositKeyFixed: the recorded deposit changes only with money that moved. In modifyCandidateInfo the keys a transaction supplies are
// copied into the stored profile only on the not-equal edge of a comparison with CandidateKeyDepositAmount (and with the node id).
func c11DepositKeyFixed(c *core.Ctx) {
	fn := c.Fn("chain/transaction.CandidateVoteEnv.modifyCandidateInfo")
	n := 0
	for _, fixed := range []string{"CandidateKeyDepositAmount", "CandidateKeyNodeID"} {
		k := c.Const("chain/types." + fixed)
		for _, b := range fn.Blocks {
			for _, in := range b.Instrs {
				mu, ok := in.(*ssa.MapUpdate)
				if !ok {
					continue
				}
				// the key comes out of an iteration over a map the caller handed in (the transaction's profile)
				fromTx := false
				var keyVal ssa.Value = mu.Key
				for v := range core.SliceShallow(mu.Key) {
					if nx, isNext := v.(*ssa.Next); isNext {
						if rg, isR := nx.Iter.(*ssa.Range); isR {
							for x := range core.Slice(rg.X) {
								if p, isP := x.(*ssa.Parameter); isP && p.Parent() == fn {
									fromTx = true
								}
							}
						}
					}
				}
				if !fromTx {
					continue
				}
				if fixed == "CandidateKeyDepositAmount" {
					n++
				}
				_, header := core.LoopOf(mu.Block())
				inIter := func(from, to *ssa.BasicBlock) bool {
					if from == to {
						return true
					}
					if header == nil {
						return core.CanReach(from, to)
					}
					return core.CanReach(from, to, header)
				}
				guarded := false
				for _, t := range fn.Blocks {
					ifi := ifOf(t)
					if ifi == nil {
						continue
					}
					bo, isB := ifi.Cond.(*ssa.BinOp)
					if !isB || (bo.Op != token.EQL && bo.Op != token.NEQ) {
						continue
					}
					var other ssa.Value
					switch {
					case constEquals(bo.X, k):
						other = bo.Y
					case constEquals(bo.Y, k):
						other = bo.X
					default:
						continue
					}
					if other != keyVal {
						continue
					}
					eq := t.Succs[0]
					if bo.Op == token.NEQ {
						eq = t.Succs[1]
					}
					if t.Dominates(mu.Block()) && !inIter(eq, mu.Block()) {
						guarded = true
					}
				}
				c.Check("modifyCandidateInfo:profile[key]←tx/key≠"+fixed, "guarded-action", guarded, mu.Pos(), "a key supplied by the transaction is copied into the stored profile only when it is not %s (the deposit record changes with money that moved, the node id never)", fixed)
			}
		}
	}
	c.Floor("modifyCandidateInfo/tx-keys-copied", n, 1)
}

// c11VotesFromBlockState: vote arithmetic reads the state of the branch being executed; the account as of the node's stable block
// (GetCanonicalAccount) is consulted in the executing packages only at the site of the recorded finding D18.
func c11VotesFromBlockState(c *core.Ctx) {
	gca := c.Method("chain/account.Manager", "GetCanonicalAccount")
	n := 0
	for _, s := range c.CallSites(gca) {
		rel := core.RelPkg(s.Caller)
		if rel != "chain/transaction" && rel != "chain/consensus" || isTestHelper(c, s.Caller) {
			continue
		}
		n++
		nm := shortFn(core.Outer(s.Caller))
		ok := nm == "(*transaction.TxProcessor).VerifyAssetTx"
		c.Check("stable-state-read/GetCanonicalAccount@"+nm, "node-local-read", ok, s.Instr.Pos(), "%s reads an account as of the node's stable block while executing a block: balances that changed in unstable ancestors are counted again", nm)
	}
	c.Floor("stable-state-read/sites-in-executing-packages", n, 1)
}

// c13RankIsIndex: the miner addresses the deputy list by rank arithmetic, the verifier by index arithmetic; they agree only when every node's
// rank is its position. NewTermRecord refuses a list in which some node's Rank differs from its index.
func c13RankIsIndex(c *core.Ctx) {
	fn := c.Fn("chain/deputynode.NewTermRecord")
	rank := c.FieldVar("chain/types.DeputyNode", "Rank")
	ok := false
	for _, b := range fn.Blocks {
		ifi := ifOf(b)
		if ifi == nil {
			continue
		}
		bo, isB := ifi.Cond.(*ssa.BinOp)
		if !isB || (bo.Op != token.EQL && bo.Op != token.NEQ) {
			continue
		}
		side := func(v ssa.Value) (hasRank, hasOtherField, hasIndex bool) {
			for x := range core.SliceShallow(v) {
				if f := core.FieldOf(x); f != nil {
					if f == rank {
						hasRank = true
					} else {
						hasOtherField = true
					}
				}
				switch y := x.(type) {
				case *ssa.Phi:
					hasIndex = true
				case *ssa.Extract:
					if _, isNext := y.Tuple.(*ssa.Next); isNext && y.Index == 1 {
						hasIndex = true
					}
				}
			}
			return
		}
		xr, xo, xi := side(bo.X)
		yr, yo, yi := side(bo.Y)
		// one side is the rank of a node, the other the bare position (no field read on it)
		if !((xr && yi && !yr && !yo) || (yr && xi && !xr && !xo)) {
			continue
		}
		// the unequal edge ends in a panic
		ne := b.Succs[1]
		if bo.Op == token.NEQ {
			ne = b.Succs[0]
		}
		for d, cur := 0, ne; d < 4 && cur != nil; d++ {
			if len(cur.Instrs) > 0 {
				if _, isPanic := cur.Instrs[len(cur.Instrs)-1].(*ssa.Panic); isPanic {
					ok = true
				}
			}
			if len(cur.Succs) != 1 {
				break
			}
			cur = cur.Succs[0]
		}
	}
	c.Check("NewTermRecord:rank=index", "rejecting-test", ok, fn.Pos(), "a deputy list in which a node's rank differs from its position is refused (rank arithmetic of the miner and index arithmetic of the verifier agree only then)")
}

// c13SlotLengthUnmodified: the slot length the miner rotates by is the configured timeout as it is (the verifier gets the same configuration
// value through chain.Config.MineTimeout): every store into Miner.timeoutTime is a plain read of MineConfig.Timeout.
func c13SlotLengthUnmodified(c *core.Ctx) {
	f := c.FieldVar("chain/miner.Miner", "timeoutTime")
	cfg := c.FieldVar("chain/miner.MineConfig", "Timeout")
	n := 0
	for _, w := range fieldWritersAll(c, f) {
		n++
		plain, fromCfg := true, false
		for v := range core.SliceShallow(w.Store.Val) {
			switch x := v.(type) {
			case *ssa.BinOp:
				plain = false
			case *ssa.Call:
				if core.BuiltinCallName(x) == "" {
					plain = false
				}
			}
			if core.FieldOf(v) == cfg {
				fromCfg = true
			}
		}
		c.Check("Miner.timeoutTime←MineConfig.Timeout@"+shortFn(w.Fn), "value-flow", plain && fromCfg, w.Store.Pos(), "the miner's slot length is the configured timeout itself, no arithmetic on the way")
	}
	c.Floor("Miner.timeoutTime/writers", n, 1)
	// ... and that is what reaches the window computation
	gs := c.Fn("chain/miner.Miner.getSleepTime")
	okArg := false
	for _, g := range core.CallsIn(gs, c.FuncObj("chain/consensus.GetNextMineWindow")) {
		a := g.Common().Args
		if len(a) >= 5 {
			plain := false
			for v := range core.SliceShallow(a[4]) {
				if core.FieldOf(v) == f {
					plain = true
				}
			}
			for v := range core.SliceShallow(a[4]) {
				if _, isB := v.(*ssa.BinOp); isB {
					plain = false
				}
			}
			okArg = plain
		}
	}
	c.Check("getSleepTime:GetNextMineWindow(mineTimeout=Miner.timeoutTime)", "value-flow", okArg, gs.Pos(), "the window computation gets the miner's slot length unmodified")
}

// c04IdentityFromContent: hash and signing hashes are functions of the encoded content: the functions that compute them read, of the
// Transaction struct, only `data` (and Hash its own memo, which C04.1 ties to the content). A second cache of derived data read here
// survives Clone/SetData and makes the identity of an object differ from the identity of its encoding.
func c04IdentityFromContent(c *core.Ctx) {
	txT := c.Named("chain/types.Transaction")
	st := txT.Underlying().(*types.Struct)
	allowed := map[string]map[string]bool{
		"chain/types.getHashData":                {"data": true},
		"chain/types.Transaction.Hash":           {"data": true, "hash": true},
		"chain/types.DefaultSigner.Hash":         {"data": true},
		"chain/types.ReimbursementTxSigner.Hash": {"data": true},
		"chain/types.GasPayerSigner.Hash":        {"data": true},
		"chain/types.calcBoxSubTxHashSet":        {"data": true},
	}
	n := 0
	for spec, okf := range allowed {
		fn := c.Fn(spec)
		for _, b := range fn.Blocks {
			for _, in := range b.Instrs {
				fa, ok := in.(*ssa.FieldAddr)
				if !ok {
					continue
				}
				pt, isP := fa.X.Type().Underlying().(*types.Pointer)
				if !isP || !types.Identical(pt.Elem(), txT) {
					continue
				}
				n++
				name := st.Field(fa.Field).Name()
				c.Check("identity-reads/"+shortFn(fn)+"/"+name, "who-may-read", okf[name], fa.Pos(), "%s reads Transaction.%s: the identity is computed from the content (data) only", shortFn(fn), name)
			}
		}
	}
	c.Floor("identity-reads/sites", n, 4)
}

var _ = constant.MakeBool
