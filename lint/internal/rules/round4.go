package rules

import (
	"go/constant"
	"go/token"
	"go/types"
	"strings"

	"golang.org/x/tools/go/ssa"

	"verif/lint/internal/core"
)

// Clauses added after the fourth round of independently written breaking changes (DESIGN §8).

// c11DepositKeyFixed: the recorded deposit changes only with money that moved. In modifyCandidateInfo the keys a transaction supplies are
// copied into the stored profile only on the not-equal edge of a comparison with CandidateKeyDepositAmount (and with the node id).
func c11DepositKeyFixed(c *core.Ctx) {
	fn := c.Fn("chain/transaction.CandidateVoteEnv.modifyCandidateInfo")
	n := 0
	for _, fixed := range []string{"CandidateKeyDepositAmount", "CandidateKeyNodeID"} {
		k := c.Const("chain/types." + fixed)
		for _, b := range fn.Blocks {
			for _, in := range b.Instrs {
				mu, ok := in.(*ssa.MapUpdate)
				if !ok {
					continue
				}
				// the key comes out of an iteration over a map the caller handed in (the transaction's profile)
				fromTx := false
				var keyVal ssa.Value = mu.Key
				for v := range core.SliceShallow(mu.Key) {
					if nx, isNext := v.(*ssa.Next); isNext {
						if rg, isR := nx.Iter.(*ssa.Range); isR {
							for x := range core.Slice(rg.X) {
								if p, isP := x.(*ssa.Parameter); isP && p.Parent() == fn {
									fromTx = true
								}
							}
						}
					}
				}
				if !fromTx {
					continue
				}
				if fixed == "CandidateKeyDepositAmount" {
					n++
				}
				_, header := core.LoopOf(mu.Block())
				inIter := func(from, to *ssa.BasicBlock) bool {
					if from == to {
						return true
					}
					if header == nil {
						return core.CanReach(from, to)
					}
					return core.CanReach(from, to, header)
				}
				guarded := false
				for _, t := range fn.Blocks {
					ifi := ifOf(t)
					if ifi == nil {
						continue
					}
					bo, isB := ifi.Cond.(*ssa.BinOp)
					if !isB || (bo.Op != token.EQL && bo.Op != token.NEQ) {
						continue
					}
					var other ssa.Value
					switch {
					case constEquals(bo.X, k):
						other = bo.Y
					case constEquals(bo.Y, k):
						other = bo.X
					default:
						continue
					}
					if other != keyVal {
						continue
					}
					eq := t.Succs[0]
					if bo.Op == token.NEQ {
						eq = t.Succs[1]
					}
					if t.Dominates(mu.Block()) && !inIter(eq, mu.Block()) {
						guarded = true
					}
				}
				c.Check("modifyCandidateInfo:profile[key]←tx/key≠"+fixed, "guarded-action", guarded, mu.Pos(), "a key supplied by the transaction is copied into the stored profile only when it is not %s (the deposit record changes with money that moved, the node id never)", fixed)
			}
		}
	}
	c.Floor("modifyCandidateInfo/tx-keys-copied", n, 1)
}

// c11VotesFromBlockState: vote arithmetic reads the state of the branch being executed; the account as of the node's stable block
// (GetCanonicalAccount) is consulted in the executing packages only at the site of the recorded finding D18.
func c11VotesFromBlockState(c *core.Ctx) {
	gca := c.Method("chain/account.Manager", "GetCanonicalAccount")
	n := 0
	for _, s := range c.CallSites(gca) {
		rel := core.RelPkg(s.Caller)
		if rel != "chain/transaction" && rel != "chain/consensus" || isTestHelper(c, s.Caller) {
			continue
		}
		n++
		nm := shortFn(core.Outer(s.Caller))
		ok := nm == "(*transaction.TxProcessor).VerifyAssetTx"
		c.Check("stable-state-read/GetCanonicalAccount@"+nm, "node-local-read", ok, s.Instr.Pos(), "%s reads an account as of the node's stable block while executing a block: balances that changed in unstable ancestors are counted again", nm)
	}
	c.Floor("stable-state-read/sites-in-executing-packages", n, 1)
}

// c13RankIsIndex: the miner addresses the deputy list by rank arithmetic, the verifier by index arithmetic; they agree only when every node's
// rank is its position. NewTermRecord refuses a list in which some node's Rank differs from its index.
func c13RankIsIndex(c *core.Ctx) {
	fn := c.Fn("chain/deputynode.NewTermRecord")
	rank := c.FieldVar("chain/types.DeputyNode", "Rank")
	ok := false
	for _, b := range fn.Blocks {
		ifi := ifOf(b)
		if ifi == nil {
			continue
		}
		bo, isB := ifi.Cond.(*ssa.BinOp)
		if !isB || (bo.Op != token.EQL && bo.Op != token.NEQ) {
			continue
		}
		side := func(v ssa.Value) (hasRank, hasOtherField, hasIndex bool) {
			for x := range core.SliceShallow(v) {
				if f := core.FieldOf(x); f != nil {
					if f == rank {
						hasRank = true
					} else {
						hasOtherField = true
					}
				}
				switch y := x.(type) {
				case *ssa.Phi:
					hasIndex = true
				case *ssa.Extract:
					if _, isNext := y.Tuple.(*ssa.Next); isNext && y.Index == 1 {
						hasIndex = true
					}
				}
			}
			return
		}
		xr, xo, xi := side(bo.X)
		yr, yo, yi := side(bo.Y)
		// one side is the rank of a node, the other the bare position (no field read on it)
		if !((xr && yi && !yr && !yo) || (yr && xi && !xr && !xo)) {
			continue
		}
		// the unequal edge ends in a panic
		ne := b.Succs[1]
		if bo.Op == token.NEQ {
			ne = b.Succs[0]
		}
		for d, cur := 0, ne; d < 4 && cur != nil; d++ {
			if len(cur.Instrs) > 0 {
				if _, isPanic := cur.Instrs[len(cur.Instrs)-1].(*ssa.Panic); isPanic {
					ok = true
				}
			}
			if len(cur.Succs) != 1 {
				break
			}
			cur = cur.Succs[0]
		}
	}
	c.Check("NewTermRecord:rank=index", "rejecting-test", ok, fn.Pos(), "a deputy list in which a node's rank differs from its position is refused (rank arithmetic of the miner and index arithmetic of the verifier agree only then)")
}

// c13SlotLengthUnmodified: the slot length the miner rotates by is the configured timeout as it is (the verifier gets the same configuration
// value through chain.Config.MineTimeout): every store into Miner.timeoutTime is a plain read of MineConfig.Timeout.
func c13SlotLengthUnmodified(c *core.Ctx) {
	f := c.FieldVar("chain/miner.Miner", "timeoutTime")
	cfg := c.FieldVar("chain/miner.MineConfig", "Timeout")
	n := 0
	for _, w := range fieldWritersAll(c, f) {
		n++
		plain, fromCfg := true, false
		for v := range core.SliceShallow(w.Store.Val) {
			switch x := v.(type) {
			case *ssa.BinOp:
				plain = false
			case *ssa.Call:
				if core.BuiltinCallName(x) == "" {
					plain = false
				}
			}
			if core.FieldOf(v) == cfg {
				fromCfg = true
			}
		}
		c.Check("Miner.timeoutTime←MineConfig.Timeout@"+shortFn(w.Fn), "value-flow", plain && fromCfg, w.Store.Pos(), "the miner's slot length is the configured timeout itself, no arithmetic on the way")
	}
	c.Floor("Miner.timeoutTime/writers", n, 1)
	// ... and that is what reaches the window computation
	gs := c.Fn("chain/miner.Miner.getSleepTime")
	okArg := false
	for _, g := range core.CallsIn(gs, c.FuncObj("chain/consensus.GetNextMineWindow")) {
		a := g.Common().Args
		if len(a) >= 5 {
			plain := false
			for v := range core.SliceShallow(a[4]) {
				if core.FieldOf(v) == f {
					plain = true
				}
			}
			for v := range core.SliceShallow(a[4]) {
				if _, isB := v.(*ssa.BinOp); isB {
					plain = false
				}
			}
			okArg = plain
		}
	}
	c.Check("getSleepTime:GetNextMineWindow(mineTimeout=Miner.timeoutTime)", "value-flow", okArg, gs.Pos(), "the window computation gets the miner's slot length unmodified")
}

// c04IdentityFromContent: hash and signing hashes are functions of the encoded content: the functions that compute them read, of the
// Transaction struct, only `data` (and Hash its own memo, which C04.1 ties to the content). A second cache of derived data read here
// survives Clone/SetData and makes the identity of an object differ from the identity of its encoding.
func c04IdentityFromContent(c *core.Ctx) {
	txT := c.Named("chain/types.Transaction")
	st := txT.Underlying().(*types.Struct)
	allowed := map[string]map[string]bool{
		"chain/types.getHashData":                {"data": true},
		"chain/types.Transaction.Hash":           {"data": true, "hash": true},
		"chain/types.DefaultSigner.Hash":         {"data": true},
		"chain/types.ReimbursementTxSigner.Hash": {"data": true},
		"chain/types.GasPayerSigner.Hash":        {"data": true},
		"chain/types.calcBoxSubTxHashSet":        {"data": true},
	}
	n := 0
	for spec, okf := range allowed {
		fn := c.Fn(spec)
		for _, b := range fn.Blocks {
			for _, in := range b.Instrs {
				fa, ok := in.(*ssa.FieldAddr)
				if !ok {
					continue
				}
				pt, isP := fa.X.Type().Underlying().(*types.Pointer)
				if !isP || !types.Identical(pt.Elem(), txT) {
					continue
				}
				n++
				name := st.Field(fa.Field).Name()
				c.Check("identity-reads/"+shortFn(fn)+"/"+name, "who-may-read", okf[name], fa.Pos(), "%s reads Transaction.%s: the identity is computed from the content (data) only", shortFn(fn), name)
			}
		}
	}
	c.Floor("identity-reads/sites", n, 4)
}

var _ = constant.MakeBool

// c20NoDroppingSend: nothing is dropped between the socket and its handler: in package network every send on a channel that is a field of
// one of the package's own types blocks (a plain send, or a select without default) — a `select { case ch <- m: default: }` turns
// back-pressure into silent loss, and nothing re-requests a lost confirm or transaction batch.
func c20NoDroppingSend(c *core.Ctx) {
	nSend := 0
	for _, fn := range c.SrcFuncs {
		if core.RelPkg(fn) != "network" || isTestHelper(c, fn) {
			continue
		}
		for _, b := range fn.Blocks {
			for _, in := range b.Instrs {
				switch x := in.(type) {
				case *ssa.Send:
					nSend++
				case *ssa.Select:
					for _, st := range x.States {
						if st.Dir != types.SendOnly {
							continue
						}
						nSend++
						var fld *types.Var
						for v := range core.SliceShallow(st.Chan) {
							if f := core.FieldOf(v); f != nil && f.Pkg() != nil && f.Pkg().Path() == core.ModPath+"/network" {
								fld = f
							}
						}
						name := "local-channel"
						if fld != nil {
							name = fld.Name()
							// a wake-up or stop signal carries nothing that could be lost (chan struct{}, chan bool)
							if ch, isCh := fld.Type().Underlying().(*types.Chan); isCh {
								switch et := ch.Elem().Underlying().(type) {
								case *types.Struct:
									if et.NumFields() == 0 {
										fld = nil
									}
								case *types.Basic:
									fld = nil
								}
							}
						}
						c.Check("send/"+name+"@"+shortFn(fn), "blocking-send", x.Blocking || fld == nil, x.Pos(), "a send on %s inside a select with a default case drops the message when the receiver is busy", name)
					}
				}
			}
		}
	}
	c.Floor("network/sends", nSend, 5)
}

// c16NoRawGasProduct: a gas price is never the wrapped product of two run-time quantities. In the functions that price execution (the gas
// functions of the jump table, memoryGasCost, the RequiredGas of the native contracts) a uint64 `*` has a constant operand, or an operand
// that was bounded by a dominating comparison (memoryGasCost's size test), or goes through math.SafeMul / big.Int.
func c16NoRawGasProduct(c *core.Ctx) {
	n, nMul := 0, 0
	seq := map[string]int{}
	var fns []*ssa.Function
	for _, fn := range c.SrcFuncs {
		if core.RelPkg(fn) != "chain/vm" || isTestHelper(c, fn) || fn.Parent() != nil {
			continue
		}
		name := fn.Name()
		if name == "RequiredGas" || name == "memoryGasCost" || name == "callGas" || (len(name) > 3 && name[:3] == "gas" && fn.Signature.Recv() == nil) {
			fns = append(fns, fn)
		}
	}
	for _, fn := range fns {
		n++
		for _, b := range fn.Blocks {
			for _, in := range b.Instrs {
				bo, ok := in.(*ssa.BinOp)
				if !ok || bo.Op != token.MUL {
					continue
				}
				bt, isB := bo.Type().Underlying().(*types.Basic)
				if !isB || bt.Kind() != types.Uint64 {
					continue
				}
				_, xc := bo.X.(*ssa.Const)
				_, yc := bo.Y.(*ssa.Const)
				nMul++
				okm := xc || yc
				if !okm {
					// both operands tested against a bound before (a comparison with a constant that dominates the product)
					bounded := func(v ssa.Value) bool {
						for x := range core.SliceShallow(v) {
							// a configured price (field of the gas table) or a length of something that exists in memory
							if f := core.FieldOf(x); f != nil && f.Pkg() != nil && f.Pkg().Path() == core.ModPath+"/chain/params" {
								return true
							}
							if call, isCall := x.(*ssa.Call); isCall {
								if o := core.CalleeObj(call); o != nil && (o.Name() == "BitLen" || o.Name() == "Len") {
									return true
								}
							}
							for _, t := range fn.Blocks {
								ifi := ifOf(t)
								if ifi == nil || !t.Dominates(b) {
									continue
								}
								cmp, isC := ifi.Cond.(*ssa.BinOp)
								if !isC {
									continue
								}
								switch cmp.Op {
								case token.GTR, token.LSS, token.GEQ, token.LEQ:
									_, kx := cmp.X.(*ssa.Const)
									_, ky := cmp.Y.(*ssa.Const)
									if (cmp.X == x && ky) || (cmp.Y == x && kx) {
										return true
									}
								}
							}
						}
						return false
					}
					okm = bounded(bo.X) && bounded(bo.Y)
					if bo.X == bo.Y {
						okm = bounded(bo.X)
					}
				}
				seq[shortFn(fn)]++
				c.Check("gas-product@"+shortFn(fn)+seqSuffix(seq[shortFn(fn)]), "overflow-checked", okm, bo.Pos(), "a uint64 product of two run-time values in a pricing function wraps silently: use math.SafeMul / big.Int or bound the operands first")
			}
		}
	}
	c.Floor("pricing-functions", n, 20)
	_ = nMul
}

// c15LocksReleased: a mutex of the network layer that a function takes is given back before the function returns or comes round its loop
// again (the server loop that leaves a select case with the peer table locked stops on its next event, for good). Per Lock/RLock call on a
// mutex field: unless the function defers the matching unlock, no path from the call reaches a return, or the call's own block again,
// without passing the matching Unlock/RUnlock on the same field.
func c15LocksReleased(c *core.Ctx) {
	mutexField := func(ci ssa.CallInstruction) (*types.Var, string) {
		o := core.CalleeObj(ci)
		if o == nil || o.Pkg() == nil || o.Pkg().Path() != "sync" {
			return nil, ""
		}
		switch o.Name() {
		case "Lock", "RLock", "Unlock", "RUnlock":
		default:
			return nil, ""
		}
		a := ci.Common().Args
		if len(a) == 0 {
			return nil, ""
		}
		// the mutex is the field whose address is taken last on the way to the receiver (x.mu, or the embedded x.T.RWMutex)
		var f *types.Var
		v := a[0]
		for d := 0; d < 4 && f == nil; d++ {
			switch x := v.(type) {
			case *ssa.FieldAddr:
				f = core.FieldOf(x)
				if f != nil && f.Embedded() {
					// an embedded sync type: name the lock by the field that holds the embedding struct as well
					if outer, isFA := x.X.(*ssa.FieldAddr); isFA && core.FieldOf(outer) != nil {
						f = core.FieldOf(outer)
					}
				}
			case *ssa.UnOp:
				v = x.X
			case *ssa.ChangeType:
				v = x.X
			default:
				d = 4
			}
		}
		return f, o.Name()
	}
	release := map[string]string{"Lock": "Unlock", "RLock": "RUnlock"}
	n := 0
	for _, fn := range c.SrcFuncs {
		rel := core.RelPkg(fn)
		if (rel != "network" && rel != "network/p2p") || isTestHelper(c, fn) {
			continue
		}
		seq := map[string]int{}
		for _, b := range fn.Blocks {
			for i, in := range b.Instrs {
				ci, ok := in.(*ssa.Call)
				if !ok {
					continue
				}
				f, kind := mutexField(ci)
				want, isAcq := release[kind]
				if f == nil || !isAcq {
					continue
				}
				n++
				matches := func(x ssa.Instruction) bool {
					xc, ok := x.(ssa.CallInstruction)
					if !ok {
						return false
					}
					if _, isGo := x.(*ssa.Go); isGo {
						return false
					}
					xf, xk := mutexField(xc)
					return xf == f && xk == want
				}
				deferred := false
				for _, bb := range fn.Blocks {
					for _, x := range bb.Instrs {
						if d, isD := x.(*ssa.Defer); isD && matches(d) {
							deferred = true
						}
					}
				}
				leak := ""
				if !deferred {
					releasedIn := func(instrs []ssa.Instruction) bool {
						for _, x := range instrs {
							if _, isD := x.(*ssa.Defer); !isD && matches(x) {
								return true
							}
						}
						return false
					}
					if !releasedIn(b.Instrs[i+1:]) {
						seen := map[*ssa.BasicBlock]bool{}
						var walk func(bb *ssa.BasicBlock)
						walk = func(bb *ssa.BasicBlock) {
							if leak != "" {
								return
							}
							if bb == b {
								leak = "the loop comes round to the Lock again"
								return
							}
							if seen[bb] {
								return
							}
							seen[bb] = true
							if releasedIn(bb.Instrs) {
								return
							}
							if len(bb.Instrs) > 0 {
								if _, isRet := bb.Instrs[len(bb.Instrs)-1].(*ssa.Return); isRet {
									leak = "a return is reached"
									return
								}
							}
							for _, s := range bb.Succs {
								walk(s)
							}
						}
						if len(b.Instrs) > 0 {
							if _, isRet := b.Instrs[len(b.Instrs)-1].(*ssa.Return); isRet {
								leak = "a return is reached"
							}
						}
						for _, s := range b.Succs {
							walk(s)
						}
					}
				}
				key := "lock-released/" + f.Name() + "@" + shortFn(fn)
				seq[key]++
				c.Check(key+seqSuffix(seq[key]), "acquire-release", leak == "", ci.Pos(), "%s on %s in %s is released on every way on: %s", kind, f.Name(), shortFn(fn), orOK(leak))
			}
		}
	}
	c.Floor("network/lock-sites", n, 20)
}

// c17MerkleNodesFresh: building the inner nodes does not write into the caller's leaf list: every value stored into MerkleTree.nodes is
// made in place (make / a literal) or an append to nodes itself.
func c17MerkleNodesFresh(c *core.Ctx) {
	f := c.FieldVar("common/merkle.MerkleTree", "nodes")
	n := 0
	seq := map[string]int{}
	for _, w := range fieldWritersAll(c, f) {
		n++
		ok := false
		switch v := w.Store.Val.(type) {
		case *ssa.MakeSlice:
			ok = true
		case *ssa.Slice:
			if _, isAl := v.X.(*ssa.Alloc); isAl {
				ok = true
			}
		case *ssa.Const:
			ok = v.Value == nil
		case *ssa.Call:
			if core.BuiltinCallName(v) == "append" && len(v.Call.Args) > 0 {
				for x := range core.SliceShallow(v.Call.Args[0]) {
					if core.FieldOf(x) == f {
						ok = true
					}
					if _, isMk := x.(*ssa.MakeSlice); isMk {
						ok = true
					}
				}
				for x := range core.SliceShallow(v.Call.Args[0]) {
					if fv := core.FieldOf(x); fv != nil && fv != f {
						ok = false
					}
				}
			}
		}
		key := "MerkleTree.nodes←fresh-or-own@" + shortFn(w.Fn)
		seq[key]++
		c.Check(key+seqSuffix(seq[key]), "value-flow", ok, w.Store.Pos(), "the node list is a slice made here or an extension of itself (the leaf list belongs to the caller: appending to an alias of it rewrites the caller's following elements)")
	}
	c.Floor("MerkleTree.nodes/writers", n, 2)
}

// c17ProofWalkerPrefix: the proof walker matches a short node's key against the FRONT of the remaining search key: bytes.Equal(n.Key,
// key[:len(n.Key)]) or bytes.HasPrefix(key, n.Key) — with the operands the other way round extension nodes never match and a present key
// verifies as absent.
func c17ProofWalkerPrefix(c *core.Ctx) {
	fn := c.Fn("store/trie.get")
	keyF := c.FieldVar("store/trie.shortNode", "Key")
	hasKeyField := func(v ssa.Value) bool {
		for x := range core.SliceShallow(v) {
			if core.FieldOf(x) == keyF {
				return true
			}
		}
		return false
	}
	fromParam := func(v ssa.Value) bool {
		for x := range core.Slice(v) {
			if p, isP := x.(*ssa.Parameter); isP && p.Parent() == fn && len(fn.Params) > 1 && p == fn.Params[1] {
				return true
			}
		}
		return false
	}
	good, bad := 0, 0
	var pos token.Pos = fn.Pos()
	for _, ci := range core.AllCalls(fn) {
		o := core.CalleeObj(ci)
		if o == nil || o.Pkg() == nil || o.Pkg().Path() != "bytes" {
			continue
		}
		a := ci.Common().Args
		if len(a) != 2 || !(hasKeyField(a[0]) || hasKeyField(a[1])) {
			continue
		}
		switch o.Name() {
		case "HasPrefix":
			if hasKeyField(a[1]) && fromParam(a[0]) {
				if ld, isLd := a[1].(*ssa.UnOp); !isLd || core.FieldOf(ld.X) != keyF {
					bad++
					pos = ci.Pos()
					continue
				}
				good++
			} else {
				bad++
				pos = ci.Pos()
			}
		case "Equal":
			// the other operand is a front slice of the search key as long as the node's key
			other := a[0]
			if hasKeyField(a[0]) {
				other = a[1]
			}
			okFront := false
			if sl, isSl := other.(*ssa.Slice); isSl && sl.Low == nil && sl.High != nil && hasKeyField(sl.High) && fromParam(sl.X) {
				okFront = true
			}
			if okFront {
				good++
			} else {
				bad++
				pos = ci.Pos()
			}
		default:
			bad++
			pos = ci.Pos()
		}
	}
	c.Check("proof.get:shortNode.Key-is-prefix-of-remaining-key", "comparison-shape", good >= 1 && bad == 0, pos, "the walker compares the node's key with the front of the remaining search key (%d such comparison(s), %d other)", good, bad)
}

// c03FilterAndSaveUnderOneHold: the confirms of one deputy are counted once only if the filter that decides which received confirms are
// new (VerifyConfirmPacket reads the confirms the block already has) and the save of what it let through run under one hold of the
// engine's chain lock — two packets verified before either is saved both pass. Every call of either in package consensus holds chainLock
// (the clause of C19.1 for these two callees, evaluated under C03).
func c03FilterAndSaveUnderOneHold(c *core.Ctx) {
	const cons = "chain/consensus"
	la := lockAnalysis(c)
	key := "consensus.DPoVP.chainLock"
	n := 0
	for _, m := range []*types.Func{c.Method(cons+".Validator", "VerifyConfirmPacket"), c.Method(cons+".Confirmer", "SaveConfirm")} {
		_, sites := callersOf(c, m)
		for _, s := range sites {
			if core.RelPkg(s.Caller) != cons {
				continue
			}
			if m.Name() == "SaveConfirm" {
				a := s.Instr.Common().Args
				if len(a) == 3 && core.SliceHasCall(core.Slice(a[2]), c.Method(cons+".Confirmer", "confirmBlock")) {
					continue // the node's own fresh signature: de-duplicated by the store
				}
			}
			n++
			ok, why := la.Held(s.Instr, key, core.WriteHeld)
			c.Check("lock/"+objName(m)+"@"+shortFn(s.Caller), "lockset", ok, s.Instr.Pos(), "call of %s in %s must hold %s: %s", objName(m), shortFn(s.Caller), key, orOK(why))
		}
	}
	c.Floor("confirm-filter-and-save/sites", n, 2)
}

// c18ExistFromIndexOnly: whether a transaction is known to the pool is decided by the index alone — isTxExist and the same-package
// helpers it calls read TxPool.hashIndexMap, not the slot list. (An index entry whose slot was emptied is what keeps a box dead after one
// of its sub transactions was packaged; a lookup that also asks for a live slot lets the box back in.)
func c18ExistFromIndexOnly(c *core.Ctx) {
	const tp = "chain/txpool"
	fn := c.Fn(tp + ".TxPool.isTxExist")
	txs := c.FieldVar(tp+".TxPool", "txs")
	idx := c.FieldVar(tp+".TxPool", "hashIndexMap")
	seen := map[*ssa.Function]bool{}
	readsTxs, readsIdx := "", false
	var walk func(f *ssa.Function, d int)
	walk = func(f *ssa.Function, d int) {
		if f == nil || f.Blocks == nil || seen[f] || d > 3 {
			return
		}
		seen[f] = true
		for _, b := range f.Blocks {
			for _, in := range b.Instrs {
				if fa, ok := in.(*ssa.FieldAddr); ok {
					switch core.FieldOf(fa) {
					case txs:
						readsTxs = shortFn(f)
					case idx:
						readsIdx = true
					}
				}
				if ci, ok := in.(ssa.CallInstruction); ok {
					if sc := core.StaticFn(ci); sc != nil && sc.Pkg == f.Pkg {
						if o, isF := sc.Object().(*types.Func); isF && !o.Exported() {
							walk(sc, d+1)
						}
					}
				}
			}
		}
	}
	walk(fn, 0)
	c.Check("isTxExist:answers-from-the-index-only", "who-may-read", readsIdx && readsTxs == "", fn.Pos(), "the existence test reads hashIndexMap and not the slot list (%s reads TxPool.txs)", orOK(readsTxs))
}

// c18GuardExpiryAfterPoolFixup: the replay guard forgets old blocks only after the pool was adjusted to the new head: in saveNewBlock and
// InsertConfirms no call that leads to TxGuard.DelOldBlocks can run before the fork update (onCurrentChanged walks both branches through
// the guard; a block dropped first makes the walk fail and the pool keeps the wrong transactions).
func c18GuardExpiryAfterPoolFixup(c *core.Ctx) {
	const cons = "chain/consensus"
	del := c.Method("chain/txpool.TxGuard", "DelOldBlocks")
	upd := []*types.Func{c.Method(cons+".ForkManager", "UpdateFork"), c.Method(cons+".ForkManager", "UpdateForkForConfirm")}
	n := 0
	for _, spec := range []string{cons + ".DPoVP.saveNewBlock", cons + ".DPoVP.InsertConfirms"} {
		fn := c.FnOrCaller(spec)
		us := core.CallsIn(fn, upd...)
		for _, d := range callsLeadingTo(fn, del) {
			n++
			ok := len(us) > 0
			for _, u := range us {
				// the expiry cannot still be followed by the fork update
				if core.ReachableAfter(d, u) {
					ok = false
				}
			}
			c.Check("DelOldBlocks-after-fork-update@"+shortFn(fn), "order", ok, d.Pos(), "in %s the guard's expiry (%s) runs only after the fork update and the pool fix-up that follows it", shortFn(fn), objName(core.CalleeObj(d)))
		}
	}
	c.Floor("guard-expiry/sites", n, 2)
}

// c07NilStaysNil: deleting is writing nil, and "not there" is read as nil: StorageCache.SetState stores the value it was given — the
// parameter itself, or a copy made under a test of the parameter against nil (an unconditional copy turns the nil an undo writes into an
// empty value that the readers no longer recognise as absent).
func c07NilStaysNil(c *core.Ctx) {
	fn := c.Fn("chain/account.StorageCache.SetState")
	if len(fn.Params) < 3 {
		c.Undecided("SetState:shape", "value-flow", fn.Pos(), "SetState(key, value) expected")
		return
	}
	val := fn.Params[2]
	n := 0
	for _, b := range fn.Blocks {
		for _, in := range b.Instrs {
			mu, ok := in.(*ssa.MapUpdate)
			if !ok {
				continue
			}
			n++
			okv := mu.Value == ssa.Value(val)
			if !okv {
				for _, t := range fn.Blocks {
					ifi := ifOf(t)
					if ifi == nil || !t.Dominates(b) {
						continue
					}
					if bo, isB := ifi.Cond.(*ssa.BinOp); isB && (bo.Op == token.EQL || bo.Op == token.NEQ) &&
						((bo.X == ssa.Value(val) && core.IsNilConst(bo.Y)) || (bo.Y == ssa.Value(val) && core.IsNilConst(bo.X))) {
						okv = true
					}
				}
			}
			c.Check("StorageCache.SetState:stores-the-given-value"+seqSuffix(n), "value-flow", okv, mu.Pos(), "the cache keeps the value it was given (nil stays nil), or copies it under a nil test")
		}
	}
	c.Floor("StorageCache.SetState/stores", n, 2)
}

// c07SuicideJournalledOnce: undoSuicide can only clear the flag (the log keeps no old flag), so a self-destruct is journalled at most once
// per account: in opSuicide every SetSuicide is on the not-yet-destroyed edge of GetSuicide() of the same account.
func c07SuicideJournalledOnce(c *core.Ctx) {
	fn := c.Fn("chain/vm.opSuicide")
	get := c.Method("chain/types.AccountAccessor", "GetSuicide")
	set := c.Method("chain/types.AccountAccessor", "SetSuicide")
	n := 0
	for _, s := range core.CallsIn(fn, set) {
		n++
		ok := false
		for _, g := range core.CallsIn(fn, get) {
			if recvValue(g) != recvValue(s) {
				continue
			}
			if k, _ := core.HeededBefore(g, core.IsTrue, s); k {
				ok = true
			}
		}
		c.Check("opSuicide:SetSuicide-only-when-not-yet-destroyed"+seqSuffix(n), "guarded-action", ok, s.Pos(), "a second SELFDESTRUCT of the same account journals nothing (the undo of a SuicideLog clears the flag whatever it was)")
	}
	c.Floor("opSuicide/SetSuicide", n, 1)
}

// c19LastSigCheckThenAct: the record of the last signed block only moves forward: in every function that stores into Confirmer.lastSig the
// stores come after a read of lastSig.Height made in the same function under the same hold of lastSigLock — no unlock of that mutex (other
// than a deferred one) can lie between the read the comparison uses and the store.
func c19LastSigCheckThenAct(c *core.Ctx) {
	const cons = "chain/consensus"
	lastSig := c.FieldVar(cons+".Confirmer", "lastSig")
	lockF := c.FieldVar(cons+".Confirmer", "lastSigLock")
	isLockCall := func(in ssa.Instruction, name string) bool {
		ci, ok := in.(*ssa.Call)
		if !ok {
			return false
		}
		o := core.CalleeObj(ci)
		if o == nil || o.Name() != name || len(ci.Call.Args) == 0 {
			return false
		}
		for v := range core.SliceShallow(ci.Call.Args[0]) {
			if core.FieldOf(v) == lockF {
				return true
			}
		}
		return false
	}
	n := 0
	for _, fn := range c.SrcFuncs {
		if core.RelPkg(fn) != cons || isTestHelper(c, fn) || strings.HasPrefix(fn.Name(), "New") {
			continue
		}
		var stores, loads, unlocks []ssa.Instruction
		for _, b := range fn.Blocks {
			for _, in := range b.Instrs {
				if isLockCall(in, "Unlock") {
					unlocks = append(unlocks, in)
				}
				switch x := in.(type) {
				case *ssa.Store:
					if fa, ok := x.Addr.(*ssa.FieldAddr); ok {
						if base, ok2 := fa.X.(*ssa.FieldAddr); ok2 && core.FieldOf(base) == lastSig {
							stores = append(stores, x)
						}
					}
				case *ssa.UnOp:
					if fa, ok := x.X.(*ssa.FieldAddr); ok && x.Op == token.MUL {
						if base, ok2 := fa.X.(*ssa.FieldAddr); ok2 && core.FieldOf(base) == lastSig {
							loads = append(loads, x)
						}
					}
				}
			}
		}
		for i, st := range stores {
			n++
			ok := false
			for _, ld := range loads {
				if !core.Dominates(ld, st) {
					continue
				}
				between := false
				for _, u := range unlocks {
					if core.ReachableAfter(ld, u) && core.ReachableAfter(u, st) {
						between = true
					}
				}
				if !between {
					ok = true
				}
			}
			c.Check("lastSig:compared-and-written-under-one-hold@"+shortFn(fn)+seqSuffix(i+1), "check-then-act", ok, st.Pos(), "the store into the last-signed record follows a read of the record made in this function with no unlock of lastSigLock in between")
		}
	}
	c.Floor("lastSig/stores", n, 2)
}

// c20PartialVerdictUsed: the confirm filters answer with the confirms that are good AND an error about the ones that are not (a duplicate
// is an error); delivery order decides which duplicates a node sees, so the good part must be used whatever the error says: in
// VerifyAndSeal and insertConfirms every test of the filter's error lies on the empty-list edge of a test of the list's length.
func c20PartialVerdictUsed(c *core.Ctx) {
	const cons = "chain/consensus"
	n := 0
	for _, e := range []struct{ fn, callee string }{
		{cons + ".DPoVP.VerifyAndSeal", "VerifyNewConfirms"},
		{cons + ".DPoVP.insertConfirms", "VerifyConfirmPacket"},
	} {
		fn := c.FnOrCaller(e.fn)
		for _, g := range core.CallsIn(fn, c.Method(cons+".Validator", e.callee)) {
			n++
			rv := core.ResultValues(g)
			ev := core.ErrResult(g)
			ok := true
			if ev != nil {
				for _, t := range core.TestsOf(ev, core.ErrNonNil) {
					under := false
					for _, b := range fn.Blocks {
						ifi := ifOf(b)
						if ifi == nil {
							continue
						}
						bo, isB := ifi.Cond.(*ssa.BinOp)
						if !isB || (bo.Op != token.EQL && bo.Op != token.NEQ && bo.Op != token.LEQ && bo.Op != token.GTR) {
							continue
						}
						isLenOfList := func(v ssa.Value) bool {
							call, isCall := v.(*ssa.Call)
							if !isCall || core.BuiltinCallName(call) != "len" || len(rv) == 0 || rv[0] == nil {
								return false
							}
							return core.SliceShallow(call.Call.Args[0])[rv[0]]
						}
						if !isLenOfList(bo.X) && !isLenOfList(bo.Y) {
							continue
						}
						empty := b.Succs[0] // len == 0 / len <= 0
						if bo.Op == token.NEQ || bo.Op == token.GTR {
							empty = b.Succs[1]
						}
						if (empty == t.If.Block() || empty.Dominates(t.If.Block())) && len(empty.Preds) == 1 {
							under = true
						}
					}
					if !under {
						// the other order (`err != nil && len(list) == 0`): from the error edge, without taking an empty-list edge, no
						// return is reached before the list is used (saved, stored into the block)
						cut := map[[2]*ssa.BasicBlock]bool{}
						for _, b := range fn.Blocks {
							ifi := ifOf(b)
							if ifi == nil {
								continue
							}
							bo, isB := ifi.Cond.(*ssa.BinOp)
							if !isB {
								continue
							}
							isLen := func(v ssa.Value) bool {
								call, isCall := v.(*ssa.Call)
								return isCall && core.BuiltinCallName(call) == "len" && len(rv) > 0 && rv[0] != nil && core.SliceShallow(call.Call.Args[0])[rv[0]]
							}
							if !isLen(bo.X) && !isLen(bo.Y) {
								continue
							}
							switch bo.Op {
							case token.EQL, token.LEQ:
								cut[[2]*ssa.BasicBlock{b, b.Succs[0]}] = true
							case token.NEQ, token.GTR:
								cut[[2]*ssa.BasicBlock{b, b.Succs[1]}] = true
							}
						}
						avoid := map[*ssa.BasicBlock]bool{}
						if len(rv) > 0 && rv[0] != nil {
							for _, b := range fn.Blocks {
								for _, in := range b.Instrs {
									switch x := in.(type) {
									case *ssa.Store:
										if core.SliceShallow(x.Val)[rv[0]] {
											avoid[b] = true
										}
									case *ssa.Call:
										if core.BuiltinCallName(x) == "" && x != g {
											for _, a := range x.Call.Args {
												if core.SliceShallow(a)[rv[0]] {
													avoid[b] = true
												}
											}
										}
									}
								}
							}
						}
						good := len(cut) > 0 && len(avoid) > 0 && !avoid[t.Fail]
						if good {
							for b := range core.ReachCutAvoid(t.Fail, cut, avoid) {
								if len(b.Instrs) > 0 {
									if _, isRet := b.Instrs[len(b.Instrs)-1].(*ssa.Return); isRet {
										good = false
									}
								}
							}
						}
						if !good && !avoid[t.Fail] {
							ok = false
						}
					}
				}
			}
			c.Check(shortFn(fn)+":"+e.callee+"/good-confirms-used-whatever-the-error", "partial-verdict", ok, g.Pos(), "the error of %s (it also reports mere duplicates) decides nothing unless the returned list is empty", e.callee)
		}
	}
	c.Floor("confirm-filter/calls", n, 2)
}

// c20NeedConfirmFromStable: a node whose blocks became stable through other deputies' confirms goes on signing: needConfirm measures a
// block against the later of its own last signature and the latest stable block — the hash it compares the parent with draws on both.
func c20NeedConfirmFromStable(c *core.Ctx) {
	const cons = "chain/consensus"
	fn := c.Fn(cons + ".Confirmer.needConfirm")
	lastSig := c.FieldVar(cons+".Confirmer", "lastSig")
	load := c.Method(cons+".StableBlockStore", "LoadLatestBlock")
	parentHash := c.Method("chain/types.Block", "ParentHash")
	ok, n := false, 0
	for _, b := range fn.Blocks {
		for _, in := range b.Instrs {
			bo, isB := in.(*ssa.BinOp)
			if !isB || (bo.Op != token.EQL && bo.Op != token.NEQ) {
				continue
			}
			var other ssa.Value
			if _, is := isCallOf(bo.X, parentHash); is {
				other = bo.Y
			} else if _, is := isCallOf(bo.Y, parentHash); is {
				other = bo.X
			}
			if other == nil {
				continue
			}
			n++
			sl := core.Slice(other)
			fromSig, fromStable := false, false
			for v := range sl {
				if fa, isFA := v.(*ssa.FieldAddr); isFA {
					if base, ok2 := fa.X.(*ssa.FieldAddr); ok2 && core.FieldOf(base) == lastSig {
						fromSig = true
					}
				}
				if _, is := isCallOf(v, load); is {
					fromStable = true
				}
			}
			if fromSig && fromStable {
				ok = true
			}
		}
	}
	c.Check("needConfirm:parent-compared-with-later-of(lastSig,stable)", "value-flow", ok && n >= 1, fn.Pos(), "the hash the block's parent is compared with is the last signed block's or, when that is behind, the latest stable block's")
}

// c17BranchWritesOnCopies: a trie never writes into a branch node another trie value may hold (SecureTrie.Copy and struct copies share every
// node that was not replaced): in package store/trie every store into an element of fullNode.Children goes to a node made in this
// function — the result of fullNode.copy() or a new node — unconditionally (a copy made only for "clean" nodes shares the dirty ones).
func c17BranchWritesOnCopies(c *core.Ctx) {
	kids := c.FieldVar("store/trie.fullNode", "Children")
	cp := c.Method("store/trie.fullNode", "copy")
	n := 0
	for _, fn := range c.SrcFuncs {
		if core.RelPkg(fn) != "store/trie" || isTestHelper(c, fn) {
			continue
		}
		seq := 0
		for _, b := range fn.Blocks {
			for _, in := range b.Instrs {
				st, ok := in.(*ssa.Store)
				if !ok {
					continue
				}
				ia, ok := st.Addr.(*ssa.IndexAddr)
				if !ok {
					continue
				}
				fa, ok := ia.X.(*ssa.FieldAddr)
				if !ok || core.FieldOf(fa) != kids {
					continue
				}
				n++
				seq++
				owner := fa.X
				fresh := false
				switch x := owner.(type) {
				case *ssa.Alloc:
					fresh = true
				case *ssa.Call:
					_, fresh = isCallOf(x, cp)
				}
				c.Check("fullNode.Children[i]←·@"+shortFn(fn)+seqSuffix(seq), "cow-ownership", fresh, st.Pos(), "the branch node written to was made here (copy() or a new node), unconditionally")
			}
		}
	}
	c.Floor("fullNode.Children/element-stores", n, 4)
}

// c14TypeCacheLocked: the codec a type is encoded and decoded with is complete when anybody gets it: the generator publishes an empty
// placeholder first (its recursion guard) and fills it afterwards, which is safe only because every access to the cache — the lookups
// included — holds typeCacheMutex. A lock-free lookup can hand out the placeholder.
func c14TypeCacheLocked(c *core.Ctx) {
	la := lockAnalysis(c)
	g := c.Global("common/rlp.typeCache")
	const key = "rlp.typeCacheMutex"
	n := 0
	seq := map[string]int{}
	for _, fn := range c.SrcFuncs {
		if core.RelPkg(fn) != "common/rlp" || isTestHelper(c, fn) || fn.Name() == "init" {
			continue
		}
		for _, b := range fn.Blocks {
			for _, in := range b.Instrs {
				uses := false
				for _, op := range in.Operands(nil) {
					if op != nil && *op != nil {
						if gl, ok := (*op).(*ssa.Global); ok && gl.Object() == g {
							uses = true
						}
					}
				}
				if !uses {
					continue
				}
				n++
				mode := core.ReadHeld
				if ld, ok := in.(*ssa.UnOp); ok {
					if refs := ld.Referrers(); refs != nil {
						for _, r := range *refs {
							switch x := r.(type) {
							case *ssa.MapUpdate:
								mode = core.WriteHeld
							case *ssa.Call:
								if core.BuiltinCallName(x) == "delete" {
									mode = core.WriteHeld
								}
							}
						}
					}
				}
				ok, why := la.Held(in, key, mode)
				k := "typeCache@" + shortFn(fn)
				seq[k]++
				c.Check(k+seqSuffix(seq[k]), "lockset", ok, in.Pos(), "access to the type-info cache in %s must hold %s: %s", shortFn(fn), key, orOK(why))
			}
		}
	}
	c.Floor("typeCache/accesses", n, 4)
}

// c09CloneSharesNothingMutable: a child view starts as a clone of its parent's; what the clone carries over by reference must be immutable
// or shared on purpose (the disk handle, the copy-on-write trie root). A map or slice field handed over as it is — a memo keyed by height,
// say — is written by both views, and equal-height siblings then read each other's entries.
func c09CloneSharesNothingMutable(c *core.Ctx) {
	n := 0
	for _, tn := range []string{"AccountTrieDB", "CandidateTrieDB"} {
		fn := c.Fn("store." + tn + ".Clone")
		n++
		for _, b := range fn.Blocks {
			for _, in := range b.Instrs {
				st, ok := in.(*ssa.Store)
				if !ok {
					continue
				}
				fa, ok := st.Addr.(*ssa.FieldAddr)
				if !ok {
					continue
				}
				if _, fresh := fa.X.(*ssa.Alloc); !fresh {
					continue
				}
				f := core.FieldOf(fa)
				if f == nil {
					continue
				}
				switch f.Type().Underlying().(type) {
				case *types.Map, *types.Slice:
				default:
					continue
				}
				shared := false
				if ld, isLd := st.Val.(*ssa.UnOp); isLd && ld.Op == token.MUL {
					if src, isFA := ld.X.(*ssa.FieldAddr); isFA && src.X == ssa.Value(fn.Params[0]) {
						shared = true
					}
				}
				c.Check(tn+".Clone:"+f.Name()+"-not-shared", "cow-ownership", !shared, st.Pos(), "the clone gets its own %s (a map or slice carried over by reference is written by parent and child alike)", f.Name())
			}
		}
	}
	c.Floor("view-clones/examined", n, 2)
}

// c11VotesAreQuotientDifference: the votes a balance is worth are floor(balance / VoteExchangeRate); the end-of-block adjustment is the
// difference of the two quotients (old balance, new balance), not the quotient of the difference — the two disagree whenever a balance
// crosses a multiple of the rate by an amount that is not one. Shape decided: in getVotesChangesByLogs the rate divides a value drawn from
// OldVal alone and a value drawn from NewVal alone.
func c11VotesAreQuotientDifference(c *core.Ctx) {
	fn := c.Fn("chain/transaction.getVotesChangesByLogs")
	rate := c.Global("chain/params.VoteExchangeRate")
	oldF, newF := c.FieldVar("chain/types.ChangeLog", "OldVal"), c.FieldVar("chain/types.ChangeLog", "NewVal")
	divOld, divNew, mixed := false, false, false
	for _, ci := range core.AllCalls(fn) {
		o := core.CalleeObj(ci)
		if o == nil || (o.Name() != "Div" && o.Name() != "Quo") || o.Pkg() == nil || o.Pkg().Path() != "math/big" {
			continue
		}
		a := ci.Common().Args
		if len(a) != 3 {
			continue
		}
		byRate := false
		for v := range core.SliceShallow(a[2]) {
			if g, ok := v.(*ssa.Global); ok && g.Object() == rate {
				byRate = true
			}
		}
		if !byRate {
			continue
		}
		hasOld, hasNew := false, false
		for v := range core.Slice(a[1]) {
			switch core.FieldOf(v) {
			case oldF:
				hasOld = true
			case newF:
				hasNew = true
			}
		}
		switch {
		case hasOld && hasNew:
			mixed = true
		case hasOld:
			divOld = true
		case hasNew:
			divNew = true
		}
	}
	c.Check("getVotesChangesByLogs:floor(new/rate)−floor(old/rate)", "arithmetic-shape", divOld && divNew && !mixed, fn.Pos(), "the rate divides the old balance and the new balance separately (quotients first, difference second)")
}

// c16MemoryZeroSizeFirst: a zero-length operand reserves no memory whatever its offset (the gas functions charge for offset+size only when
// size > 0), so the offset of such an operand is unchecked: Memory.Get and Memory.GetPtr slice the store only on the size ≠ 0 edge of a
// test of their size parameter.
func c16MemoryZeroSizeFirst(c *core.Ctx) {
	n := 0
	for _, m := range []string{"Get", "GetPtr"} {
		fn := c.Fn("chain/vm.Memory." + m)
		if len(fn.Params) < 3 {
			c.Undecided("Memory."+m+":shape", "guarded-action", fn.Pos(), "(offset, size) expected")
			continue
		}
		size := fn.Params[2]
		// same-package helpers that slice on behalf of fn are covered when they are Get/GetPtr themselves
		for _, b := range fn.Blocks {
			for _, in := range b.Instrs {
				sl, ok := in.(*ssa.Slice)
				if !ok {
					continue
				}
				n++
				guarded := false
				for _, t := range fn.Blocks {
					ifi := ifOf(t)
					if ifi == nil || !t.Dominates(b) {
						continue
					}
					bo, isB := ifi.Cond.(*ssa.BinOp)
					if !isB {
						continue
					}
					k, isK := bo.Y.(*ssa.Const)
					if bo.X != ssa.Value(size) || !isK || k.Value == nil || k.Int64() != 0 {
						continue
					}
					var nonZero *ssa.BasicBlock
					switch bo.Op {
					case token.EQL, token.LEQ:
						nonZero = t.Succs[1]
					case token.NEQ, token.GTR:
						nonZero = t.Succs[0]
					}
					if nonZero != nil && (nonZero == b || nonZero.Dominates(b)) && len(nonZero.Preds) == 1 {
						guarded = true
					}
				}
				c.Check("Memory."+m+":slice-only-when-size≠0"+seqSuffix(n), "guarded-action", guarded, sl.Pos(), "the store is sliced at the operand's offset only when the operand has a length (a zero-length operand's offset was never checked against the memory size)")
			}
		}
	}
	c.Floor("Memory/slices", n, 1)
}

// c15BigFieldsNeverNil: the *big.Int fields of a transaction are dereferenced without a test all over the node (GasPrice(), Amount()
// copy them); a box's sub transactions arrive as JSON from any peer, so txdata.UnmarshalJSON must not succeed with one of them unset: for
// every *big.Int field of txdata, the decoded member it is filled from has a nil test whose nil edge ends in an error.
func c15BigFieldsNeverNil(c *core.Ctx) {
	fn := c.Fn("chain/types.txdata.UnmarshalJSON")
	st := c.Struct("chain/types.txdata")
	n := 0
	for i := 0; i < st.NumFields(); i++ {
		f := st.Field(i)
		pt, isP := f.Type().(*types.Pointer)
		if !isP || pt.Elem().String() != "math/big.Int" {
			continue
		}
		n++
		// the stores into t.<f>
		ok, found := true, false
		for _, b := range fn.Blocks {
			for _, in := range b.Instrs {
				s, isSt := in.(*ssa.Store)
				if !isSt {
					continue
				}
				fa, isFA := s.Addr.(*ssa.FieldAddr)
				if !isFA || core.FieldOf(fa) != f || fa.X != ssa.Value(fn.Params[0]) {
					continue
				}
				found = true
				// the decoded member the value comes from
				var srcField *types.Var
				for v := range core.SliceShallow(s.Val) {
					if sf := core.FieldOf(v); sf != nil && sf != f {
						srcField = sf
					}
				}
				rejects := false
				for _, t := range fn.Blocks {
					ifi := ifOf(t)
					if ifi == nil {
						continue
					}
					bo, isB := ifi.Cond.(*ssa.BinOp)
					if !isB || (bo.Op != token.EQL && bo.Op != token.NEQ) || !(core.IsNilConst(bo.X) || core.IsNilConst(bo.Y)) {
						continue
					}
					tested := bo.X
					if core.IsNilConst(bo.X) {
						tested = bo.Y
					}
					isSrc := false
					for v := range core.SliceShallow(tested) {
						if core.FieldOf(v) == srcField && srcField != nil {
							isSrc = true
						}
					}
					if !isSrc {
						continue
					}
					nilEdge := t.Succs[0]
					if bo.Op == token.NEQ {
						nilEdge = t.Succs[1]
					}
					if len(nilEdge.Instrs) > 0 {
						if r, isRet := nilEdge.Instrs[len(nilEdge.Instrs)-1].(*ssa.Return); isRet && core.ClassifyReturn(r, nil, nil) == core.RetFailure {
							rejects = true
						}
					}
				}
				if !rejects {
					ok = false
				}
			}
		}
		c.Check("txdata.UnmarshalJSON:"+f.Name()+"-required", "rejecting-test", ok && found, fn.Pos(), "a JSON transaction without %s is refused (the field is dereferenced untested by its readers)", f.Name())
	}
	c.Floor("txdata/big-int-fields", n, 2)
}

// c15AllocationsNotSizedByPeer: what a peer writes into a request decides no allocation size: in package network every make(...) has a
// constant size or capacity, or one computed from lengths of values the node already holds (len(x)) — not from parameters or message
// fields (a 10-byte GetBlocks request with a huge range would reserve memory in proportion to the range).
func c15AllocationsNotSizedByPeer(c *core.Ctx) {
	n := 0
	for _, fn := range c.SrcFuncs {
		if core.RelPkg(fn) != "network" || isTestHelper(c, fn) {
			continue
		}
		seq := 0
		for _, b := range fn.Blocks {
			for _, in := range b.Instrs {
				mk, ok := in.(*ssa.MakeSlice)
				if !ok {
					continue
				}
				n++
				bad := ""
				for _, sz := range []ssa.Value{mk.Len, mk.Cap} {
					var walk func(v ssa.Value, d int)
					walk = func(v ssa.Value, d int) {
						if v == nil || d > 6 || bad != "" {
							return
						}
						switch x := v.(type) {
						case *ssa.Const:
						case *ssa.Call:
							if core.BuiltinCallName(x) != "len" && core.BuiltinCallName(x) != "cap" {
								bad = "a call result"
							}
						case *ssa.BinOp:
							walk(x.X, d+1)
							walk(x.Y, d+1)
						case *ssa.Convert:
							walk(x.X, d+1)
						case *ssa.Phi:
							for _, e := range x.Edges {
								walk(e, d+1)
							}
						case *ssa.Parameter:
							bad = "parameter " + x.Name()
						default:
							bad = "a run-time value"
						}
					}
					walk(sz, 0)
				}
				seq++
				c.Check("make-size@"+shortFn(fn)+seqSuffix(seq), "bounded-allocation", bad == "", mk.Pos(), "the size of this allocation is a constant or a length of something already in memory: %s", orOK(bad))
			}
		}
	}
	c.Floor("network/makes", n, 2)
}

// c16ReadCallsStartFresh: a read-only call leaves nothing behind for the next one: the account manager a ReadContract request executes on
// is made for that request — every call site of TxProcessor.ReadContract outside the tests gets a manager that derives from a
// NewReadOnlyManager call in the calling function or in its caller (a manager kept between requests keeps the first call's writes).
func c16ReadCallsStartFresh(c *core.Ctx) {
	rc := c.Method("chain/transaction.TxProcessor", "ReadContract")
	mk := c.FuncObj("chain/account.NewReadOnlyManager")
	n := 0
	for _, s := range c.CallSites(rc) {
		if isTestHelper(c, s.Caller) {
			continue
		}
		n++
		a := s.Instr.Common().Args
		ok := false
		if len(a) >= 2 {
			var fresh func(fn *ssa.Function, v ssa.Value, d int) bool
			fresh = func(fn *ssa.Function, v ssa.Value, d int) bool {
				if _, is := isCallOf(v, mk); is {
					return true
				}
				if p, isP := v.(*ssa.Parameter); isP && d < 2 {
					// handed in: every caller hands in a fresh one
					idx := -1
					for i, q := range fn.Params {
						if q == p {
							idx = i
						}
					}
					o, isF := fn.Object().(*types.Func)
					if idx < 0 || !isF {
						return false
					}
					sites := c.CallSites(o)
					if len(sites) == 0 {
						return false
					}
					for _, cs := range sites {
						if isTestHelper(c, cs.Caller) {
							continue
						}
						ca := cs.Instr.Common().Args
						if idx >= len(ca) || !fresh(cs.Caller, ca[idx], d+1) {
							return false
						}
					}
					return true
				}
				return false
			}
			ok = fresh(s.Caller, a[1], 0)
		}
		c.Check("ReadContract(fresh-manager)@"+shortFn(s.Caller), "value-flow", ok, s.Instr.Pos(), "the manager a read-only call executes on was made by NewReadOnlyManager for this request")
	}
	c.Floor("ReadContract/sites", n, 1)
}

// c07SetStateAlwaysDirty: C07.12. In StorageCache.SetState no return is reachable from the entry around the update of the dirty map.
func c07SetStateAlwaysDirty(c *core.Ctx) {
	fn := c.Fn("chain/account.StorageCache.SetState")
	dirty := c.FieldVar("chain/account.StorageCache", "dirty")
	if len(fn.Params) < 3 || len(fn.Blocks) == 0 {
		c.Undecided("SetState:shape", "must-pass-through", fn.Pos(), "SetState(key, value) expected")
		return
	}
	avoid := map[*ssa.BasicBlock]bool{}
	keyOK := true
	var first ssa.Instruction
	for _, b := range fn.Blocks {
		for _, in := range b.Instrs {
			mu, ok := in.(*ssa.MapUpdate)
			if !ok {
				continue
			}
			if _, f, isLd := core.FieldLoad(mu.Map); isLd && f == dirty {
				avoid[b] = true
				if first == nil {
					first = mu
				}
				if mu.Key != ssa.Value(fn.Params[1]) {
					keyOK = false
				}
			}
		}
	}
	if first == nil {
		c.Check("StorageCache.SetState:every-write-is-dirty", "must-pass-through", false, fn.Pos(), "SetState never records the write in the dirty map")
		return
	}
	ok, why := true, ""
	for _, r := range core.Returns(fn) {
		if avoid[r.Block()] {
			continue
		}
		if avoid[fn.Blocks[0]] {
			break
		}
		if core.ReachAvoiding(fn.Blocks[0], r.Block(), avoid) {
			ok, why = false, "a return (block "+r.Block().String()+") is reachable without the dirty update"
		}
	}
	c.Check("StorageCache.SetState:every-write-is-dirty", "must-pass-through", ok, first.Pos(), "every path through SetState records the write in the dirty map that Update flushes into the trie: %s", orOK(why))
	c.Check("StorageCache.SetState:dirty-key-is-the-written-key", "value-flow", keyOK, first.Pos(), "the dirty entry is made under the key that was written")
}
