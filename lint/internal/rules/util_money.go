package rules

import (
	"go/constant"
	"go/token"
	"go/types"
	"sort"
	"strings"

	"golang.org/x/tools/go/ssa"

	"verif/lint/internal/core"
)

// Helpers shared by the balance (C05) and vote (C11) rules.

// ---------------------------------------------------------------------------------------------
// closed, classified writer sets

// siteClass is one row of a frozen writer table: how many call sites the function holds and what they are.
type siteClass struct {
	n     int
	class string
}

// closedSites checks that the call sites of `method` (an interface method or any implementation of it) are exactly the rows of
// table, keyed by the outermost enclosing function. A site in a function that is not in the table, or more sites in a function
// than its row says, is a violation; fewer (a writer that disappeared) fails the hand-confirmed total below.
func closedSites(c *core.Ctx, what string, method *types.Func, table map[string]siteClass) map[string][]core.CallSite {
	by := map[string][]core.CallSite{}
	for _, s := range c.CallSites(method) {
		if isTestHelper(c, s.Caller) {
			continue
		}
		n := core.FuncName(core.Outer(s.Caller))
		by[n] = append(by[n], s)
	}
	var names []string
	for n := range by {
		names = append(names, n)
	}
	sort.Strings(names)
	total, want := 0, 0
	for _, row := range table {
		want += row.n
	}
	// sites that merely moved inside their package (a helper inlined into its caller, a block extracted into a helper) stay within the
	// package's budget: rows of the package minus what the listed functions still hold
	pkgOf := func(fname string) string {
		f := strings.TrimPrefix(strings.TrimPrefix(fname, "(*"), "(")
		if i := strings.LastIndex(f, "/"); i >= 0 {
			if d := strings.Index(f[i:], "."); d >= 0 {
				return f[:i+d]
			}
			return f
		}
		if d := strings.Index(f, "."); d >= 0 {
			return f[:d]
		}
		return f
	}
	budget := map[string]int{}
	for n, row := range table {
		budget[pkgOf(n)] += row.n
	}
	for _, n := range names {
		if row, ok := table[n]; ok {
			use := len(by[n])
			if use > row.n {
				use = row.n
			}
			budget[pkgOf(n)] -= use
		}
	}
	for _, n := range names {
		row, ok := table[n]
		total += len(by[n])
		extra := len(by[n]) - row.n
		if !ok {
			extra = len(by[n])
		}
		if extra > 0 && budget[pkgOf(n)] >= extra {
			budget[pkgOf(n)] -= extra
			c.CheckTrivial(what+"@"+n, "who-may-call", true, by[n][0].Instr.Pos(), "%d call site(s) of %s in %s, %d more than its row: moved here from another listed function of the package (the package's total did not grow)", len(by[n]), what, n, extra)
			continue
		}
		c.Check(what+"@"+n, "who-may-call", ok && len(by[n]) <= row.n, by[n][0].Instr.Pos(),
			"%d call site(s) of %s in %s; the frozen table allows %d (%s)", len(by[n]), what, n, row.n, orNoneM(row.class))
	}
	c.Check(what+"-sites", "instance-count", total <= want && total > 0, token.NoPos, "%d call sites of %s in the shipped code, the classified table holds %d (a new site must be classified)", total, what, want)
	// a method value (acc.SetBalance taken as a func) would be a writer that no call site shows
	for _, fn := range c.SrcFuncs {
		if isTestHelper(c, fn) {
			continue
		}
		for _, b := range fn.Blocks {
			for _, in := range b.Instrs {
				for _, op := range in.Operands(nil) {
					f, ok := (*op).(*ssa.Function)
					if !ok || f.Synthetic == "" {
						continue
					}
					if ci, isCall := in.(ssa.CallInstruction); isCall && ci.Common().Value == f {
						continue
					}
					if o, ok := f.Object().(*types.Func); ok && core.SameFamily(o, method) {
						c.Check(what+"-as-value@"+core.FuncName(core.Outer(fn)), "who-may-call", false, in.Pos(), "%s is taken as a function value; its calls cannot be classified", what)
					}
				}
			}
		}
	}
	return by
}

func orNoneM(s string) string {
	if s == "" {
		return "not a permitted writer"
	}
	return s
}

// ---------------------------------------------------------------------------------------------
// expressions

// unwrap strips conversions that do not change the value.
func unwrap(v ssa.Value) ssa.Value {
	for {
		switch x := v.(type) {
		case *ssa.ChangeType:
			v = x.X
		case *ssa.MakeInterface:
			v = x.X
		case *ssa.ChangeInterface:
			v = x.X
		default:
			return v
		}
	}
}

// sameExpr: a and b are the same SSA value or structurally the same side-effect-free expression (the same getter on the same
// receiver, the same field of the same base, equal constants). Only used for address-like operands.
func sameExprM(a, b ssa.Value) bool { return sameExprD(a, b, 0) }

func sameExprD(a, b ssa.Value, d int) bool {
	a, b = unwrap(a), unwrap(b)
	if a == b {
		return true
	}
	if d > 6 || a == nil || b == nil {
		return false
	}
	switch x := a.(type) {
	case *ssa.Const:
		y, ok := b.(*ssa.Const)
		return ok && x.Value != nil && y.Value != nil && constant.Compare(x.Value, token.EQL, y.Value) && types.Identical(x.Type(), y.Type())
	case *ssa.Call:
		y, ok := b.(*ssa.Call)
		if !ok {
			return false
		}
		ox, oy := core.CalleeObj(x), core.CalleeObj(y)
		if ox == nil || ox != oy || len(x.Call.Args) != len(y.Call.Args) {
			return false
		}
		if x.Call.IsInvoke() != y.Call.IsInvoke() {
			return false
		}
		if x.Call.IsInvoke() && !sameExprD(x.Call.Value, y.Call.Value, d+1) {
			return false
		}
		for i := range x.Call.Args {
			if !sameExprD(x.Call.Args[i], y.Call.Args[i], d+1) {
				return false
			}
		}
		return true
	case *ssa.UnOp:
		y, ok := b.(*ssa.UnOp)
		return ok && x.Op == y.Op && sameExprD(x.X, y.X, d+1)
	case *ssa.FieldAddr:
		y, ok := b.(*ssa.FieldAddr)
		return ok && x.Field == y.Field && sameExprD(x.X, y.X, d+1)
	case *ssa.Field:
		y, ok := b.(*ssa.Field)
		return ok && x.Field == y.Field && sameExprD(x.X, y.X, d+1)
	}
	return false
}

// recvValue returns the receiver a method call is made on (interface value or first argument).
func recvValue(ci ssa.CallInstruction) ssa.Value {
	cc := ci.Common()
	if cc.IsInvoke() {
		return cc.Value
	}
	if len(cc.Args) > 0 {
		return cc.Args[0]
	}
	return nil
}

// callArgs returns the arguments without the receiver.
func callArgs(ci ssa.CallInstruction) []ssa.Value {
	cc := ci.Common()
	if cc.IsInvoke() {
		return cc.Args
	}
	if sig := cc.Signature(); sig != nil && sig.Recv() != nil && len(cc.Args) > 0 {
		return cc.Args[1:]
	}
	return cc.Args
}

// bigOp describes `res = z.Op(x, y)` on *big.Int.
type bigOp struct {
	call ssa.CallInstruction
	name string
	x, y ssa.Value
}

// asBigOp recognises a value produced by a binary (*big.Int) method (Add, Sub, Mul, Div ...).
func asBigOp(v ssa.Value) *bigOp {
	ci, ok := unwrap(v).(*ssa.Call)
	if !ok {
		return nil
	}
	name := core.BigIntMethod(ci)
	if name == "" || len(ci.Call.Args) != 3 {
		return nil
	}
	return &bigOp{ci, name, ci.Call.Args[1], ci.Call.Args[2]}
}

// localValue follows v through local cells to the value(s) stored (Derived in reverse for the single-store case).
func localValue(v ssa.Value) ssa.Value {
	for i := 0; i < 4; i++ {
		ld, ok := v.(*ssa.UnOp)
		if !ok || ld.Op != token.MUL {
			return v
		}
		al, ok := ld.X.(*ssa.Alloc)
		if !ok || al.Referrers() == nil {
			return v
		}
		var st *ssa.Store
		n := 0
		for _, r := range *al.Referrers() {
			if s, ok := r.(*ssa.Store); ok && s.Addr == al {
				st = s
				n++
			}
		}
		if n != 1 {
			return v
		}
		v = st.Val
	}
	return v
}

// isZeroBig: v is big.NewInt(0) or a fresh new(big.Int) that nothing else writes.
func isZeroBig(c *core.Ctx, v ssa.Value) bool {
	v = unwrap(v)
	if ci, ok := v.(*ssa.Call); ok {
		if core.SameFamily(core.CalleeObj(ci), c.StdFunc("math/big", "NewInt")) && len(ci.Call.Args) == 1 {
			if k, ok := ci.Call.Args[0].(*ssa.Const); ok && k.Value != nil {
				if i, exact := constant.Int64Val(constant.ToInt(k.Value)); exact && i == 0 {
					return true
				}
			}
		}
		return false
	}
	if al, ok := v.(*ssa.Alloc); ok && al.Referrers() != nil {
		// new(big.Int) used only as an operand (never as the receiver of a mutator, never stored to)
		for _, r := range *al.Referrers() {
			switch r := r.(type) {
			case ssa.CallInstruction:
				if core.BigIntMethod(r) != "" && len(r.Common().Args) > 0 && r.Common().Args[0] == al && r.Common().Signature().Results().Len() > 0 {
					if _, isPtr := r.Common().Signature().Results().At(0).Type().(*types.Pointer); isPtr {
						return false
					}
				}
			case *ssa.Store:
				return false
			case *ssa.FieldAddr, *ssa.IndexAddr:
				return false
			}
		}
		return true
	}
	return false
}

// hasCallOn: the computation of v contains a call of target on receiver recv — directly, or inside a statically called
// repository helper that is handed recv as the argument which becomes that receiver (so extracting the expression into a helper
// does not change the answer).
func hasCallOn(v ssa.Value, target *types.Func, recv ssa.Value, depth int) bool {
	dr := core.Derived(recv)
	for x := range core.Slice(v) {
		ci, ok := x.(ssa.CallInstruction)
		if !ok {
			continue
		}
		if core.SameFamily(core.CalleeObj(ci), target) {
			if r := recvValue(ci); r == recv || dr[r] {
				return true
			}
		}
		if depth <= 0 {
			continue
		}
		callee := ci.Common().StaticCallee()
		if callee == nil || callee.Blocks == nil || !core.InRepo(callee) {
			continue
		}
		for k, a := range ci.Common().Args {
			if !(a == recv || dr[a]) || k >= len(callee.Params) {
				continue
			}
			for _, ret := range core.Returns(callee) {
				for i := range ret.Results {
					if hasCallOn(core.RetVal(ret, i), target, callee.Params[k], depth-1) {
						return true
					}
				}
			}
		}
	}
	return false
}

// isBigProduct: v is z.Mul(x, y), or the result of a repository helper every return of which is such a product.
func isBigProduct(v ssa.Value, depth int) bool {
	v = unwrap(localValue(v))
	if op := asBigOp(v); op != nil {
		return op.name == "Mul"
	}
	ci, ok := v.(*ssa.Call)
	if !ok || depth <= 0 {
		return false
	}
	callee := ci.Call.StaticCallee()
	if callee == nil || callee.Blocks == nil || !core.InRepo(callee) || callee.Signature.Results().Len() != 1 {
		return false
	}
	rets := core.Returns(callee)
	for _, ret := range rets {
		if !isBigProduct(core.RetVal(ret, 0), depth-1) {
			return false
		}
	}
	return len(rets) > 0
}

// ---------------------------------------------------------------------------------------------
// calls through function-typed struct fields (vm.Context.Transfer, CandidateVoteEnv.Transfer)

func fieldCalls(fn *ssa.Function, fields ...*types.Var) []ssa.CallInstruction {
	var out []ssa.CallInstruction
	for _, ci := range core.AllCalls(fn) {
		cc := ci.Common()
		if cc.IsInvoke() || cc.StaticCallee() != nil {
			continue
		}
		v := cc.Value
		if ld, ok := v.(*ssa.UnOp); ok && ld.Op == token.MUL {
			v = ld.X
		}
		f := core.FieldOf(v)
		for _, want := range fields {
			if f != nil && f == want {
				out = append(out, ci)
			}
		}
	}
	return out
}

// fieldWriters lists, over the whole repository (test helpers skipped), the values stored into the given struct field.
func fieldWriters(c *core.Ctx, field *types.Var) (vals []ssa.Value, at []*ssa.Store) {
	for _, fn := range c.SrcFuncs {
		if isTestHelper(c, fn) {
			continue
		}
		for _, b := range fn.Blocks {
			for _, in := range b.Instrs {
				if st, ok := in.(*ssa.Store); ok && core.FieldOf(st.Addr) == field {
					vals = append(vals, st.Val)
					at = append(at, st)
				}
			}
		}
	}
	return
}

// ---------------------------------------------------------------------------------------------
// guards reached through same-package helpers

// heededDeep: fn heeds target either directly or through a statically called helper of the same package whose error result fn
// heeds and which itself (recursively) heeds target on every successful exit. Returns the instruction in fn that stands for the
// guard (the direct call or the helper call), nil when there is none.
func heededDeep(fn *ssa.Function, target *types.Func, depth int) (ssa.CallInstruction, string) {
	why := "no call of the guard"
	for _, g := range core.CallsIn(fn, target) {
		if ok, w := core.CallHeeded(g, core.ErrNonNil, nil); ok {
			return g, ""
		} else {
			why = w
		}
	}
	if depth <= 0 {
		return nil, why
	}
	for _, ci := range core.AllCalls(fn) {
		callee := ci.Common().StaticCallee()
		if callee == nil || callee.Blocks == nil || callee.Pkg != fn.Pkg || callee == fn {
			continue
		}
		if core.ErrResult(ci) == nil {
			continue
		}
		if ok, _ := core.CallHeeded(ci, core.ErrNonNil, nil); !ok {
			continue
		}
		if g, _ := heededDeep(callee, target, depth-1); g != nil {
			return ci, ""
		}
	}
	return nil, why
}

// holder returns the function in which target is called directly, starting at fn and descending through same-package helpers.
func holder(fn *ssa.Function, target *types.Func, depth int) *ssa.Function {
	if len(core.CallsIn(fn, target)) > 0 {
		return fn
	}
	if depth <= 0 {
		return nil
	}
	for _, ci := range core.AllCalls(fn) {
		callee := ci.Common().StaticCallee()
		if callee == nil || callee.Blocks == nil || callee.Pkg != fn.Pkg || callee == fn {
			continue
		}
		if h := holder(callee, target, depth-1); h != nil {
			return h
		}
	}
	return nil
}

// ---------------------------------------------------------------------------------------------
// "may reach": class-hierarchy closure over repository functions

// mayReach computes whether a call instruction may (transitively) execute a call site of one of targets. Static callees are
// followed; an interface call is resolved to every repository method of that name whose receiver implements the interface;
// calls of function values are resolved to every repository function of an identical signature whose address is taken
// somewhere (closures included). Library functions are leaves.
type reacher struct {
	c       *core.Ctx
	targets []*types.Func
	memo    map[*ssa.Function]int // 1 = in progress/false, 2 = true, 3 = false
	impls   map[*types.Func][]*ssa.Function
	fvals   []*ssa.Function
	fvalsOK bool
}

func newReacher(c *core.Ctx, targets ...*types.Func) *reacher {
	return &reacher{c: c, targets: targets, memo: map[*ssa.Function]int{}, impls: map[*types.Func][]*ssa.Function{}}
}

func (r *reacher) implsOf(m *types.Func) []*ssa.Function {
	if v, ok := r.impls[m]; ok {
		return v
	}
	var out []*ssa.Function
	for _, fn := range r.c.SrcFuncs {
		if fn.Parent() != nil {
			continue
		}
		o, ok := fn.Object().(*types.Func)
		if ok && o != m && o.Name() == m.Name() && core.SameFamily(m, o) {
			out = append(out, fn)
		}
	}
	r.impls[m] = out
	return out
}

func (r *reacher) funcValues() []*ssa.Function {
	if r.fvalsOK {
		return r.fvals
	}
	seen := map[*ssa.Function]bool{}
	for _, fn := range r.c.SrcFuncs {
		for _, b := range fn.Blocks {
			for _, in := range b.Instrs {
				for _, op := range in.Operands(nil) {
					f, ok := (*op).(*ssa.Function)
					if !ok || seen[f] || !core.InRepo(f) {
						continue
					}
					if ci, isCall := in.(ssa.CallInstruction); isCall && ci.Common().Value == f {
						continue
					}
					seen[f] = true
					r.fvals = append(r.fvals, f)
				}
			}
		}
	}
	r.fvalsOK = true
	return r.fvals
}

func (r *reacher) callReaches(ci ssa.CallInstruction) bool {
	o := core.CalleeObj(ci)
	for _, t := range r.targets {
		if core.SameFamily(o, t) {
			return true
		}
	}
	cc := ci.Common()
	if sc := cc.StaticCallee(); sc != nil {
		return r.fnReaches(sc)
	}
	if cc.IsInvoke() {
		for _, f := range r.implsOf(cc.Method) {
			if r.fnReaches(f) {
				return true
			}
		}
		return false
	}
	// a function value: every address-taken repository function with this signature
	sig := cc.Signature()
	for _, f := range r.funcValues() {
		fs := f.Signature // for a bound-method wrapper the receiver is a free variable: this already is the method value's signature
		if types.Identical(types.NewSignatureType(nil, nil, nil, fs.Params(), fs.Results(), fs.Variadic()), types.NewSignatureType(nil, nil, nil, sig.Params(), sig.Results(), sig.Variadic())) {
			if r.fnReaches(f) {
				return true
			}
		}
	}
	return false
}

func (r *reacher) fnReaches(fn *ssa.Function) bool {
	if fn == nil || fn.Blocks == nil || !core.InRepo(fn) {
		return false
	}
	switch r.memo[fn] {
	case 1, 3:
		return false
	case 2:
		return true
	}
	r.memo[fn] = 1
	res := false
	for _, ci := range core.AllCalls(fn) {
		if r.callReaches(ci) {
			res = true
			break
		}
	}
	if !res {
		for _, a := range fn.AnonFuncs {
			if r.fnReaches(a) {
				res = true
				break
			}
		}
	}
	if res {
		r.memo[fn] = 2
	} else {
		r.memo[fn] = 3
	}
	return res
}

// eqGuard: the guard's condition is an (in)equality, possibly negated; failWhenUnequal says whether the rejecting edge is the
// one taken when the two sides differ.
func eqGuard(g core.CondGuard) (isEq, failWhenUnequal bool) {
	v, neg := g.If.Cond, false
	for {
		u, ok := v.(*ssa.UnOp)
		if !ok || u.Op != token.NOT {
			break
		}
		v, neg = u.X, !neg
	}
	b, ok := v.(*ssa.BinOp)
	if !ok || (b.Op != token.EQL && b.Op != token.NEQ) {
		return false, false
	}
	trueMeansUnequal := (b.Op == token.NEQ) != neg
	failOnTrue := g.Fail == g.If.Block().Succs[0]
	return true, trueMeansUnequal == failOnTrue
}

func rejectsWhenUnequal(g core.CondGuard) bool {
	isEq, u := eqGuard(g)
	return isEq && u
}

func rejectsWhenEqual(g core.CondGuard) bool {
	isEq, u := eqGuard(g)
	return isEq && !u
}

// ---------------------------------------------------------------------------------------------
// sign facts on *big.Int values

// signTest recognises `x.Sign() <op> 0` and `x.Cmp(zero) <op> 0` and returns x and the relation that holds for sign(x) on the
// true edge.
func signTest(c *core.Ctx, cond ssa.Value) (x ssa.Value, op token.Token, ok bool) {
	b, isB := cond.(*ssa.BinOp)
	if !isB {
		return nil, 0, false
	}
	l, r, o := b.X, b.Y, b.Op
	if k, isK := l.(*ssa.Const); isK && k.Value != nil {
		// 0 <op> call  ==>  call <flipped op> 0
		l, r = r, l
		switch o {
		case token.LSS:
			o = token.GTR
		case token.GTR:
			o = token.LSS
		case token.LEQ:
			o = token.GEQ
		case token.GEQ:
			o = token.LEQ
		}
	}
	k, isK := r.(*ssa.Const)
	if !isK || k.Value == nil || k.Value.Kind() != constant.Int {
		return nil, 0, false
	}
	if i, exact := constant.Int64Val(k.Value); !exact || i != 0 {
		return nil, 0, false
	}
	ci, isC := l.(*ssa.Call)
	if !isC {
		return nil, 0, false
	}
	switch core.BigIntMethod(ci) {
	case "Sign":
		return ci.Call.Args[0], o, true
	case "Cmp":
		if isZeroBig(c, ci.Call.Args[1]) {
			return ci.Call.Args[0], o, true
		}
		if isZeroBig(c, ci.Call.Args[0]) {
			// zero.Cmp(x) <op> 0  ==>  sign(x) <flipped op> 0
			switch o {
			case token.LSS:
				o = token.GTR
			case token.GTR:
				o = token.LSS
			case token.LEQ:
				o = token.GEQ
			case token.GEQ:
				o = token.LEQ
			}
			return ci.Call.Args[1], o, true
		}
	}
	return nil, 0, false
}

// negateRel returns the relation that holds on the false edge.
func negateRel(op token.Token) token.Token {
	switch op {
	case token.LSS:
		return token.GEQ
	case token.LEQ:
		return token.GTR
	case token.GTR:
		return token.LEQ
	case token.GEQ:
		return token.LSS
	case token.EQL:
		return token.NEQ
	case token.NEQ:
		return token.EQL
	}
	return token.ILLEGAL
}

// provenNonNegative: at `action`, value x (a *big.Int) is known to be >= 0 because a dominating test of its sign lets only the
// non-negative outcome through.
func provenNonNegative(c *core.Ctx, x ssa.Value, action ssa.Instruction) bool {
	for _, g := range core.EdgeGuardsOf(action) {
		y, rel, ok := signTest(c, g.If.Cond)
		if !ok || unwrap(localValue(y)) != unwrap(localValue(x)) {
			continue
		}
		if !g.OnTrue {
			rel = negateRel(rel)
		}
		switch rel {
		case token.GTR, token.GEQ, token.EQL:
			return true
		}
	}
	return false
}

// comparedBefore: a dominating If that lets only one outcome through to `action` compares (Cmp/Sign) the given values: either
// `res` itself, or both `a` and `b`.
func comparedBefore(action ssa.Instruction, res, a, b ssa.Value) bool {
	for _, g := range core.EdgeGuardsOf(action) {
		hasCmp := false
		for v := range g.Slice {
			if ci, ok := v.(ssa.CallInstruction); ok {
				switch core.BigIntMethod(ci) {
				case "Cmp", "Sign", "CmpAbs":
					hasCmp = true
				}
			}
		}
		if !hasCmp {
			continue
		}
		if res != nil && g.Slice[res] {
			return true
		}
		if a != nil && b != nil && g.Slice[a] && g.Slice[b] {
			return true
		}
	}
	return false
}

// bigMutators are the *big.Int methods that write their receiver.
var bigMutators = map[string]bool{"Add": true, "Sub": true, "Mul": true, "Div": true, "Quo": true, "Rem": true, "Mod": true, "Neg": true, "Abs": true, "Set": true,
	"SetInt64": true, "SetUint64": true, "SetBytes": true, "SetString": true, "SetBit": true, "Exp": true, "Lsh": true, "Rsh": true, "And": true, "Or": true, "Xor": true, "Not": true, "Sqrt": true}

// freshBig: v is a *big.Int nobody else holds: new(big.Int), big.NewInt(...), or the result of a big.Int method called on such a value
// (the methods return their receiver).
func freshBig(v ssa.Value, d int) bool {
	if d > 8 {
		return false
	}
	switch x := v.(type) {
	case *ssa.Alloc:
		return true
	case *ssa.Call:
		o := core.CalleeObj(x)
		if o == nil || o.Pkg() == nil || o.Pkg().Path() != "math/big" {
			return false
		}
		if o.Name() == "NewInt" {
			return true
		}
		if sig, ok := o.Type().(*types.Signature); ok && sig.Recv() != nil && len(x.Call.Args) > 0 {
			return freshBig(x.Call.Args[0], d+1)
		}
	case *ssa.Phi:
		for _, e := range x.Edges {
			if !freshBig(e, d+1) {
				return false
			}
		}
		return len(x.Edges) > 0
	case *ssa.UnOp:
		// a local cell that only ever holds fresh values
		if al, ok := x.X.(*ssa.Alloc); ok && x.Op == token.MUL && al.Referrers() != nil {
			n := 0
			for _, r := range *al.Referrers() {
				if st, ok := r.(*ssa.Store); ok && st.Addr == ssa.Value(al) {
					n++
					if !freshBig(st.Val, d+1) {
						return false
					}
				}
			}
			return n > 0
		}
	}
	return false
}

// sharedBigMutations lists the calls in fn of a mutating *big.Int method whose receiver is not fresh.
func sharedBigMutations(fn *ssa.Function) []*ssa.Call {
	var out []*ssa.Call
	for _, b := range fn.Blocks {
		for _, in := range b.Instrs {
			call, ok := in.(*ssa.Call)
			if !ok || len(call.Call.Args) == 0 {
				continue
			}
			o := core.CalleeObj(call)
			if o == nil || o.Pkg() == nil || o.Pkg().Path() != "math/big" || !bigMutators[o.Name()] {
				continue
			}
			sig, ok := o.Type().(*types.Signature)
			if !ok || sig.Recv() == nil {
				continue
			}
			if rn := recvNamed(o); rn == nil || rn.Name() != "Int" {
				continue
			}
			if !freshBig(call.Call.Args[0], 0) {
				out = append(out, call)
			}
		}
	}
	return out
}
