package rules

import (
	"go/ast"
	"go/constant"
	"go/token"
	"go/types"
	"strconv"

	"golang.org/x/tools/go/ssa"

	"verif/lint/internal/core"
)

// Extraction of a dispatch table "array of struct, indexed by a constant" from the typed AST: composite literals
// `[N]T{K: {...}}` and index assignments `tbl[K] = T{...}`. Entries are keyed by the constant's value; the attributes of an
// entry are the expressions assigned to the struct's fields (resolved by types.Var, keyed or positional).

type tableEntry struct {
	Key    int64
	Name   string // name of the constant used as index (or the number)
	Pos    token.Pos
	Fields map[*types.Var]ast.Expr
	Info   *types.Info
}

// structTable extracts the entries of every table with element type elem built in package pkgRel. `opaque` lists writes of
// table elements whose shape is not a struct literal under a constant index (they make the table undecidable).
func structTable(c *core.Ctx, pkgRel string, elem *types.Named) (entries []tableEntry, opaque []token.Pos) {
	pk := c.ByPath[pkgRel]
	if pk == nil {
		return nil, nil
	}
	info := pk.TypesInfo
	st, _ := elem.Underlying().(*types.Struct)
	isElem := func(t types.Type) bool { return t != nil && types.Identical(t, elem) }
	isTable := func(t types.Type) bool {
		if t == nil {
			return false
		}
		if p, ok := t.Underlying().(*types.Pointer); ok {
			t = p.Elem()
		}
		switch a := t.Underlying().(type) {
		case *types.Array:
			return isElem(a.Elem())
		case *types.Slice:
			return isElem(a.Elem())
		}
		return false
	}
	entryOf := func(key int64, name string, lit *ast.CompositeLit) tableEntry {
		e := tableEntry{Key: key, Name: name, Pos: lit.Pos(), Fields: map[*types.Var]ast.Expr{}, Info: info}
		for i, el := range lit.Elts {
			if kv, ok := el.(*ast.KeyValueExpr); ok {
				if id, ok := kv.Key.(*ast.Ident); ok {
					if f, ok := info.Uses[id].(*types.Var); ok {
						e.Fields[f] = kv.Value
					}
				}
			} else if st != nil && i < st.NumFields() {
				e.Fields[st.Field(i)] = el
			}
		}
		return e
	}
	constKey := func(e ast.Expr) (int64, string, bool) {
		tv, ok := info.Types[e]
		if !ok || tv.Value == nil {
			return 0, "", false
		}
		k, exact := constant.Int64Val(constant.ToInt(tv.Value))
		if !exact {
			return 0, "", false
		}
		name := strconv.FormatInt(k, 10)
		switch x := ast.Unparen(e).(type) {
		case *ast.Ident:
			if o, ok := info.Uses[x].(*types.Const); ok {
				name = o.Name()
			}
		case *ast.SelectorExpr:
			if o, ok := info.Uses[x.Sel].(*types.Const); ok {
				name = o.Name()
			}
		}
		return k, name, true
	}
	for _, file := range pk.Syntax {
		ast.Inspect(file, func(n ast.Node) bool {
			switch x := n.(type) {
			case *ast.CompositeLit:
				if !isTable(info.TypeOf(x)) {
					return true
				}
				next := int64(0)
				for _, el := range x.Elts {
					val := el
					key, name := next, strconv.FormatInt(next, 10)
					if kv, ok := el.(*ast.KeyValueExpr); ok {
						k, nm, ok := constKey(kv.Key)
						if !ok {
							opaque = append(opaque, kv.Pos())
							continue
						}
						key, name, val = k, nm, kv.Value
					}
					next = key + 1
					lit, ok := ast.Unparen(val).(*ast.CompositeLit)
					if !ok || !isElem(info.TypeOf(lit)) {
						opaque = append(opaque, val.Pos())
						continue
					}
					entries = append(entries, entryOf(key, name, lit))
				}
			case *ast.AssignStmt:
				for i, lhs := range x.Lhs {
					ix, ok := ast.Unparen(lhs).(*ast.IndexExpr)
					if !ok || !isTable(info.TypeOf(ix.X)) {
						continue
					}
					if len(x.Rhs) != len(x.Lhs) {
						opaque = append(opaque, x.Pos())
						continue
					}
					k, nm, okK := constKey(ix.Index)
					lit, okL := ast.Unparen(x.Rhs[i]).(*ast.CompositeLit)
					if !okK || !okL || !isElem(info.TypeOf(lit)) {
						opaque = append(opaque, x.Pos())
						continue
					}
					entries = append(entries, entryOf(k, nm, lit))
				}
			}
			return true
		})
	}
	return entries, opaque
}

// boolAttr returns the constant boolean value of an entry's field (false when the field is not set).
func (e tableEntry) boolAttr(f *types.Var) (val, known bool) {
	x, ok := e.Fields[f]
	if !ok {
		return false, true
	}
	tv, ok := e.Info.Types[x]
	if !ok || tv.Value == nil || tv.Value.Kind() != constant.Bool {
		return false, false
	}
	return constant.BoolVal(tv.Value), true
}

// isSetNonNil: the field is assigned an expression other than the nil literal.
func (e tableEntry) isSetNonNil(f *types.Var) bool {
	x, ok := e.Fields[f]
	if !ok {
		return false
	}
	if tv, ok := e.Info.Types[x]; ok && tv.IsNil() {
		return false
	}
	return true
}

// funcsOf resolves the function-valued expression assigned to field f to SSA functions: a named function, a conversion of
// one, or a call of a "maker" whose every return hands out a closure / function (then all of them). ok=false: unresolved.
func (e tableEntry) funcsOf(c *core.Ctx, f *types.Var) (fns []*ssa.Function, ok bool) {
	x, has := e.Fields[f]
	if !has {
		return nil, true
	}
	return exprFuncs(c, e.Info, x, 0)
}

func exprFuncs(c *core.Ctx, info *types.Info, x ast.Expr, depth int) ([]*ssa.Function, bool) {
	if depth > 4 {
		return nil, false
	}
	x = ast.Unparen(x)
	if tv, ok := info.Types[x]; ok && tv.IsNil() {
		return nil, true
	}
	funcObj := func(e ast.Expr) *types.Func {
		switch y := ast.Unparen(e).(type) {
		case *ast.Ident:
			f, _ := info.Uses[y].(*types.Func)
			return f
		case *ast.SelectorExpr:
			f, _ := info.Uses[y.Sel].(*types.Func)
			return f
		}
		return nil
	}
	if f := funcObj(x); f != nil {
		if fn := c.FuncOf(f); fn != nil {
			return []*ssa.Function{fn}, true
		}
		return nil, false
	}
	call, ok := x.(*ast.CallExpr)
	if !ok {
		return nil, false
	}
	if tv, ok := info.Types[call.Fun]; ok && tv.IsType() && len(call.Args) == 1 {
		return exprFuncs(c, info, call.Args[0], depth+1) // conversion
	}
	mk := funcObj(call.Fun)
	if mk == nil {
		return nil, false
	}
	mfn := c.FuncOf(mk)
	if mfn == nil || mfn.Blocks == nil {
		return nil, false
	}
	var out []*ssa.Function
	for _, r := range core.Returns(mfn) {
		if len(r.Results) != 1 {
			return nil, false
		}
		v := core.RetVal(r, 0)
		for {
			if ct, ok := v.(*ssa.ChangeType); ok {
				v = ct.X
				continue
			}
			break
		}
		switch y := v.(type) {
		case *ssa.MakeClosure:
			fn, ok := y.Fn.(*ssa.Function)
			if !ok {
				return nil, false
			}
			out = append(out, fn)
		case *ssa.Function:
			out = append(out, y)
		default:
			return nil, false
		}
	}
	return out, len(out) > 0
}

// staticReach computes the functions reachable from roots through static calls, created closures and referenced function
// values, staying inside the SSA package of the roots. Functions in stop are recorded in hit but not expanded.
func staticReach(roots []*ssa.Function, stop map[*ssa.Function]bool) (reached, hit map[*ssa.Function]bool) {
	reached, hit = map[*ssa.Function]bool{}, map[*ssa.Function]bool{}
	if len(roots) == 0 {
		return
	}
	home := core.Outer(roots[0]).Pkg
	var visit func(fn *ssa.Function)
	visit = func(fn *ssa.Function) {
		if fn == nil || reached[fn] {
			return
		}
		if stop[fn] {
			hit[fn] = true
			return
		}
		if fn.Blocks == nil || core.Outer(fn).Pkg != home {
			return
		}
		reached[fn] = true
		for _, b := range fn.Blocks {
			for _, in := range b.Instrs {
				for _, op := range in.Operands(nil) {
					switch y := (*op).(type) {
					case *ssa.Function:
						visit(y)
					case *ssa.MakeClosure:
						if f, ok := y.Fn.(*ssa.Function); ok {
							visit(f)
						}
					}
				}
				if mc, ok := in.(*ssa.MakeClosure); ok {
					if f, ok := mc.Fn.(*ssa.Function); ok {
						visit(f)
					}
				}
			}
		}
	}
	for _, r := range roots {
		visit(r)
	}
	return
}

// reachCut: blocks reachable from starts without entering avoid and without following a cut edge.
func reachCut(starts []*ssa.BasicBlock, avoid map[*ssa.BasicBlock]bool, cut map[[2]*ssa.BasicBlock]bool) map[*ssa.BasicBlock]bool {
	seen := map[*ssa.BasicBlock]bool{}
	var stack []*ssa.BasicBlock
	for _, s := range starts {
		if !avoid[s] && !seen[s] {
			seen[s] = true
			stack = append(stack, s)
		}
	}
	for len(stack) > 0 {
		b := stack[len(stack)-1]
		stack = stack[:len(stack)-1]
		for _, s := range b.Succs {
			if cut[[2]*ssa.BasicBlock{b, s}] || avoid[s] || seen[s] {
				continue
			}
			seen[s] = true
			stack = append(stack, s)
		}
	}
	return seen
}
