package rules

import (
	"go/token"
	"go/types"
	"sort"
	"strings"

	"golang.org/x/tools/go/ssa"

	"verif/lint/internal/core"
)

func init() { register("C08", c08) }

// argN returns the n-th declared parameter of the callee at a call site (the receiver is not counted), for static calls and
// interface invocations alike.
func argN(ci ssa.CallInstruction, n int) ssa.Value {
	cc := ci.Common()
	k := cc.Signature().Params().Len()
	i := len(cc.Args) - k + n
	if i < 0 || i >= len(cc.Args) {
		return nil
	}
	return cc.Args[i]
}

// recvOfCall returns the receiver value of a method call site.
func recvOfCall(ci ssa.CallInstruction) ssa.Value {
	cc := ci.Common()
	if cc.IsInvoke() {
		return cc.Value
	}
	if cc.Signature().Recv() != nil && len(cc.Args) > 0 {
		return cc.Args[0]
	}
	return nil
}

func toInstrs(sts []*ssa.Store) []ssa.Instruction {
	out := make([]ssa.Instruction, len(sts))
	for i, s := range sts {
		out[i] = s
	}
	return out
}

func callInstrs(cs []*ssa.Call) []ssa.Instruction {
	out := make([]ssa.Instruction, len(cs))
	for i, s := range cs {
		out[i] = s
	}
	return out
}

func c08(c *core.Ctx) {
	const st = "store"
	const ldb = "store/leveldb"
	oe := newOrder(c)

	// -----------------------------------------------------------------------------------------------------------------
	c.Clause("C08.1", "write-ahead, sync, then acknowledge: FileUtilsFlush writes, syncs and only then reports success (every error heeded); FileQueue.Put/PutBatch hand a record to the asynchronous writer and return nil only after the flush of exactly that record succeeded, and advance the append cursor by the flushed length; RunContext.flush syncs after its writes and passes the sync error on")
	c.Run("FileUtilsFlush", func() {
		fn := c.Fn(st + ".FileUtilsFlush")
		open := c.StdFunc("os", "OpenFile")
		seek := c.StdFunc("os", "File.Seek")
		write := c.StdFunc("os", "File.Write")
		sync := c.StdFunc("os", "File.Sync")
		n := 0
		n += len(heeded(c, fn, open, core.ErrNonNil, 1, nil))
		n += len(heeded(c, fn, seek, core.ErrNonNil, 1, nil))
		ws := heeded(c, fn, write, core.ErrNonNil, 1, nil)
		ss := heeded(c, fn, sync, core.ErrNonNil, 1, nil)
		n += len(ws) + len(ss)
		c.Floor("FileUtilsFlush/heeded-io-calls", n, 4)
		oe.after("FileUtilsFlush:Write≺Sync", callsTo("File.Write", write), "File.Sync", instrs(ss))
		// no write after the sync: what is acknowledged has been synced
		late := false
		for _, s := range ss {
			for _, w := range ws {
				if core.ReachableAfter(s, w) {
					late = true
				}
			}
		}
		c.Check("FileUtilsFlush:no-Write-after-Sync", "order", !late, fn.Pos(), "no write may follow the sync inside FileUtilsFlush")
		mustCall(c, fn, sync, nil)
		// same file, at the requested offset, the requested bytes; the reported length is the written length
		opens := core.CallsIn(fn, open)
		ok := len(opens) == 1 && len(ws) == 1 && len(ss) >= 1 && len(fn.Params) == 3
		if ok {
			file := core.Derived(core.ResultValues(opens[0])[0])
			ok = core.Slice(argN(opens[0], 0))[fn.Params[0]] && file[recvOfCall(ws[0])] && core.Slice(argN(ws[0], 0))[fn.Params[2]]
			for _, s := range ss {
				ok = ok && file[recvOfCall(s)]
			}
			for _, sk := range core.CallsIn(fn, seek) {
				ok = ok && file[recvOfCall(sk)] && core.Slice(argN(sk, 0))[fn.Params[1]] && core.Dominates(sk, ws[0])
			}
		}
		c.Check("FileUtilsFlush:same-file(path,offset,data)", "value-flow", ok, fn.Pos(), "seek, write and sync act on the file opened at `path`; the seek uses `offset`, the write `data`")
		ok = len(ws) == 1
		if ok {
			nw := core.ResultValues(ws[0])[0]
			for _, r := range realReturns(fn) {
				if core.ClassifyReturn(r, nil, nil) != core.RetFailure && (nw == nil || !core.Slice(core.RetVal(r, 0))[nw]) {
					ok = false
				}
			}
		}
		c.Check("FileUtilsFlush:returns-written-length", "value-flow", ok, fn.Pos(), "the length reported on success is the count returned by Write")
	})

	c.Run("FileQueue.Put", func() {
		flushObj := c.FuncObj(st + ".FileUtilsFlush")
		flushEv := callsTo("FileUtilsFlush", flushObj)
		offset := c.FieldVar(st+".FileQueue", "Offset")
		encode := c.FuncObj(st + ".FileUtilsEncode")
		pathM := c.Method(st+".FileQueue", "path")

		sfPut := c.Method(st+".SyncFileDB", "Put")
		handOver := callsTo("SyncFileDB.Put", sfPut)

		put := c.Fn(st + ".FileQueue.Put")
		fls := oe.performs(put, 2, 1, true, flushObj)
		c.Exactly("Put/FileUtilsFlush", len(fls), 1)
		var fl []ssa.CallInstruction
		for _, d := range fls {
			if d.call.Parent() == put {
				fl = append(fl, d.call)
			}
		}
		dl := deepSites(put, handOver, 3)
		oe.afterSites("Put:FileUtilsFlush≺SyncFileDB.Put", flushEv, "the hand-over to the asynchronous writer", dl)
		c.Floor("Put/hand-over", len(dl), 1)
		sts := storesToDeep(put, offset)
		oe.after("Put:FileUtilsFlush≺Offset+=", flushEv, "the advance of FileQueue.Offset", toInstrs(sts))
		if len(fl) == 1 && len(put.Params) == 4 {
			a := fl[0].Common().Args
			sl := core.Slice(a[2])
			ok := core.SliceHasCall(core.Slice(a[0]), pathM) && core.SliceHasField(core.Slice(a[1]), offset) &&
				core.SliceHasCall(sl, encode) && sl[put.Params[1]] && sl[put.Params[2]] && sl[put.Params[3]]
			for _, d := range dl {
				ok = ok && d.sliceAlong(argN(d.call, 0))[put.Params[1]] && d.sliceAlong(argN(d.call, 1))[put.Params[2]] && d.sliceAlong(argN(d.call, 2))[put.Params[3]]
			}
			c.Check("Put:flushed=encode(flag,key,val)=handed-over", "value-flow", ok, fl[0].Pos(), "the bytes flushed at (path(), Offset) are the encoding of the very (flag, key, val) that is handed to the asynchronous writer")
			length := core.ResultValues(fl[0])[0]
			ok = len(sts) >= 1
			for _, s := range sts {
				sl := core.Slice(s.Val)
				if length == nil || !sl[length] || !core.SliceHasField(sl, offset) || !core.SliceHasOp(sl, token.ADD) {
					ok = false
				}
			}
			c.Check("Put:Offset+=flushed-length", "value-flow", ok, put.Pos(), "the append cursor advances by the length FileUtilsFlush reported (%d store(s))", len(sts))
		}

		pb := c.Fn(st + ".FileQueue.PutBatch")
		fls = oe.performs(pb, 2, 1, true, flushObj)
		c.Exactly("PutBatch/FileUtilsFlush", len(fls), 1)
		fl = nil
		for _, d := range fls {
			if d.call.Parent() == pb {
				fl = append(fl, d.call)
			}
		}
		dl = deepSites(pb, handOver, 3)
		oe.afterSites("PutBatch:FileUtilsFlush≺SyncFileDB.Put", flushEv, "the hand-over to the asynchronous writer", dl)
		c.Floor("PutBatch/hand-over", len(dl), 1)
		encB := c.Method(st+".FileQueue", "encodeBatchItems")
		mergeB := c.Method(st+".FileQueue", "mergeBatchItems")
		if len(fl) == 1 && len(pb.Params) == 2 {
			a := fl[0].Common().Args
			sl := core.Slice(a[2])
			ok := core.SliceHasCall(core.Slice(a[0]), pathM) && core.SliceHasField(core.Slice(a[1]), offset) &&
				core.SliceHasCall(sl, encB) && core.SliceHasCall(sl, mergeB) && sl[pb.Params[1]]
			c.Check("PutBatch:flushed=merge(encode(items))", "value-flow", ok, fl[0].Pos(), "the bytes flushed at (path(), Offset) are the merged encodings of the batch items")
		}
		// every item handed over advances the cursor: on the way to the hand-over there is a loop that, in every iteration, both
		// leads on to the hand-over and adds the length of an encoded item to Offset
		for i, d := range dl {
			ok := false
			var cur ssa.Instruction = d.call
			for cur != nil && !ok {
				fn := cur.Parent()
				for _, s := range storesToO8(fn, offset) {
					sl := core.Slice(s.Val)
					if !core.SliceHasField(sl, offset) || !core.SliceHasOp(sl, token.ADD) || !sliceHasBuiltin(sl, "len") {
						continue
					}
					body, _ := core.LoopOf(cur.Block())
					if body != nil && core.EveryIterationPasses(cur) && core.EveryIterationPasses(s) && body[s.Block()] {
						ok = true
					}
				}
				if up := d.up(cur); up != nil {
					cur = up
				} else {
					cur = nil
				}
			}
			k := "PutBatch:Offset+=len(encoded item)-per-item"
			if len(dl) > 1 {
				k += "#" + string(rune('a'+i))
			}
			c.Check(k, "value-flow", ok, d.call.Pos(), "each batch item handed over advances the append cursor by the length of its encoding")
		}
	})

	c.Run("RunContext.flush", func() {
		top := c.Fn(st + ".RunContext.flush")
		write := c.StdFunc("os", "File.Write")
		sync := c.StdFunc("os", "File.Sync")
		seek := c.StdFunc("os", "File.Seek")
		// the writes may live in a same-package helper (write a new file, then rename it over the old one)
		fn := holder(top, write, 2)
		if fn == nil {
			c.Check("RunContext.flush:writes", "must-call", false, top.Pos(), "RunContext.flush (or a helper it calls) writes context.data")
			return
		}
		if fn != top {
			// the helper's error is heeded, and only then the new file replaces the old one; the rename's error is the result
			hobj, _ := fn.Object().(*types.Func)
			hc := heeded(c, top, hobj, core.ErrNonNil, 1, nil)
			rn := core.CallsIn(top, c.StdFunc("os", "Rename"))
			okR := len(hc) == 1 && len(rn) == 1
			if okR {
				okR = core.Dominates(hc[0], rn[0])
				if h, _ := core.HeededBefore(hc[0], core.ErrNonNil, rn[0]); !h {
					okR = false
				}
				// written path = first argument of the rename; target = the context's own path
				a := rn[0].Common().Args
				okR = okR && core.SliceHasField(core.Slice(a[1]), c.FieldVar(st+".RunContext", "Path"))
				ha := hc[0].Common().Args
				same := false
				for _, x := range ha {
					if x == a[0] || core.Derived(x)[a[0]] || core.Derived(a[0])[x] {
						same = true
					}
				}
				okR = okR && same
				if pr, _ := core.CallHeeded(rn[0], core.ErrNonNil, nil); !pr {
					okR = false
				}
			}
			c.Check("RunContext.flush:new-file-synced≺rename-over-context.data", "order", okR, top.Pos(), "the new content is written and synced to another path and replaces context.data by a rename only after that succeeded; the rename's error is handed on")
		}
		ws := heeded(c, fn, write, core.ErrNonNil, 2, nil)
		heeded(c, fn, seek, core.ErrNonNil, 1, nil)
		ss := propagated(c, fn, 1, sync)
		for i, w := range ws {
			ok := len(ss) > 0
			for _, s := range ss {
				if !core.Dominates(w, s) || core.ReachableAfter(s, w) {
					ok = false
				}
			}
			c.Check("RunContext.flush:Write≺Sync#"+string(rune('a'+i)), "order", ok, w.Pos(), "every write of context.data precedes the sync")
		}
		mustCall(c, fn, sync, nil)
		// Flush hands flush's error on and does not report success without the file having been replaced. The call may sit in a same-package
		// helper; a skip is accepted only under a dirty flag that every writer of the candidate cache raises.
		flushFn := c.Fn(st + ".RunContext.Flush")
		flushM := c.MethodOpt(st+".RunContext", "flush")
		if flushM == nil {
			// flush was inlined into Flush: the write rules above were evaluated on Flush itself; what remains is that Flush hands the
			// rename's error on, which `RunContext.flush:new-file-synced≺rename` already requires
			c.CheckTrivial("RunContext.Flush:success⇒context.data-replaced", "must-call", true, flushFn.Pos(), "flush is part of Flush now")
			return
		}
		propagatedDeep(c, flushFn, flushM, 3)
		var state []*types.Var
		cst := c.Struct(st + ".CandidateCache")
		for i := 0; i < cst.NumFields(); i++ {
			state = append(state, cst.Field(i))
		}
		writtenOrFlagged(c, "RunContext.Flush:success⇒context.data-replaced", flushFn, flushM, state, c.Fn(st+".RunContext.load"))
		// what is loaded is what will be written back: after CandidateCache.Decode the write cursor stands at the end of the records that were
		// decoded — the length it was given, or the length of the very buffer it was given — never at the end of a buffer it made larger
		// (Encode hands out CandidateBuf[:Cur]; slots beyond the decoded records are zeros, and the next load panics on them)
		dec := c.Fn(st + ".CandidateCache.Decode")
		curF := c.FieldVar(st+".CandidateCache", "Cur")
		nCur := 0
		for _, stt := range storesToO8(dec, curF) {
			nCur++
			ok := true
			val := stt.Val
			// `Cur = Cap` right after `Cap = len(buf)`: look through the field
			if f := core.FieldOf(loadAddr(val)); f != nil {
				for _, s2 := range storesToO8(dec, f) {
					if core.Dominates(s2, stt) {
						val = s2.Val
					}
				}
			}
			sl := core.Slice(val)
			fromInput := sl[dec.Params[1]] || sl[dec.Params[2]]
			for v := range sl {
				switch x := v.(type) {
				case *ssa.MakeSlice:
					ok = false
				case *ssa.Phi:
					// a buffer variable that is either the parameter or something else
					for _, e := range x.Edges {
						if _, isMk := e.(*ssa.MakeSlice); isMk {
							ok = false
						}
					}
				}
			}
			c.Check("CandidateCache.Decode:Cur=end-of-decoded-records"+seqSuffix(nCur), "value-flow", ok && fromInput, stt.Pos(), "the cursor after a load is computed from the input (its length), not from a buffer Decode allocated")
		}
		c.Floor("CandidateCache.Decode/Cur-stores", nCur, 1)
	})

	// -----------------------------------------------------------------------------------------------------------------
	c.Clause("C08.2", "data before index before cursor: BitCask.Put flushes the record, then (only on success) stores its position in LevelDB, then (only on success) moves the bitcask cursor, which advances by the flushed length; the asynchronous writer reports Done (which releases the write-ahead copy) only after put succeeded and the write extension ran")
	c.Run("BitCask.Put", func() { c08BitCaskPut(c, oe) })
	c.Run("SyncFileDB.start", func() {
		fn := c.Fn(st + ".SyncFileDB.start")
		put := c.Method(st+".SyncFileDB", "put")
		doneF := c.FieldVar(st+".SyncFileDB", "DoneChan")
		// which parameter of start is the Done channel: the one bound to SyncFileDB.DoneChan where the goroutine is started
		doneParam := map[ssa.Value]bool{}
		for _, s := range c.CallSites(c.Method(st+".SyncFileDB", "start")) {
			for i, a := range s.Instr.Common().Args {
				if core.SliceHasField(core.Slice(a), doneF) && i < len(fn.Params) {
					doneParam[fn.Params[i]] = true
				}
			}
		}
		var sends []ssa.Instruction
		for _, b := range fn.Blocks {
			for _, in := range b.Instrs {
				if sd, ok := in.(*ssa.Send); ok && (doneParam[sd.Chan] || core.SliceHasField(core.Slice(sd.Chan), doneF)) {
					sends = append(sends, sd)
				}
			}
		}
		c.Exactly("SyncFileDB.start/Done-sends", len(sends), 1)
		oe.after("SyncFileDB.start:put≺Done", callsTo("SyncFileDB.put", put), "the send on the Done channel", sends)
		awe := core.CallsIn(fn, c.Method(st+".SyncFileDB", "afterWriteExtend"))
		ok := len(awe) >= 1 && len(sends) >= 1
		for _, sd := range sends {
			dom := false
			for _, a := range awe {
				if core.Dominates(a, sd) {
					dom = true
				}
			}
			ok = ok && dom
		}
		c.Check("SyncFileDB.start:afterWriteExtend≺Done", "order", ok, fn.Pos(), "the write extension (asset indexes derived from a block) runs before the record is reported done")
		propagated(c, c.Fn(st+".SyncFileDB.put"), 1, c.Method(st+".BitCask", "Put"))
	})

	// -----------------------------------------------------------------------------------------------------------------
	c.Clause("C08.3", "block, height index and account records go into one batch; the batch is committed (heeded) before the stable pointer moves; the pointer moves (heeded) before the candidate list is rewritten; SetStableBlock advances LastConfirm and prunes only after blockCommit succeeded")
	c.Run("blockCommit", func() {
		fn := c.Fn(st + ".ChainDatabase.blockCommit")
		batchPut := c.Method(st+".Batch", "Put")
		commit := c.Method(st+".BeansDB", "Commit")
		newBatch := c.Method(st+".BeansDB", "NewBatch")
		setCB := c.FuncObj(ldb + ".SetCurrentBlock")
		setCands := c.Method(st+".RunContext", "SetCandidates")
		ctxFlush := c.Method(st+".RunContext", "Flush")
		putFlag := func(flag *types.Var) evPred {
			return evPred{"batch.Put(" + flag.Name() + ")", func(ci ssa.CallInstruction) bool {
				if !core.SameFamily(core.CalleeObj(ci), batchPut) {
					return false
				}
				a := argN(ci, 0)
				return a != nil && core.SliceHasGlobal(core.Slice(a), flag)
			}}
		}
		commits := deepSites(fn, callsTo("Beansdb.Commit", commit), 0)
		c.Exactly("blockCommit/Beansdb.Commit", len(commits), 1)
		propagated(c, fn, 1, commit)
		if len(commits) != 1 || commits[0].call.Parent() != fn {
			c.Undecided("blockCommit:Commit-site", "order", fn.Pos(), "Beansdb.Commit is expected to be called once, directly in blockCommit")
			return
		}
		cm := commits[0].call
		nb := core.CallsIn(fn, newBatch)
		c.Check("blockCommit:Commit(NewBatch())", "value-flow", len(nb) == 1 && core.Derived(nb[0].Value())[argN(cm, 0)], cm.Pos(), "the committed batch is the one batch created by Beansdb.NewBatch")
		classes := 0
		for _, flag := range []string{"ItemFlagBlock", "ItemFlagBlockHeight", "ItemFlagAct"} {
			ev := putFlag(c.Global(ldb + "." + flag))
			sites := deepSites(fn, ev, 2)
			if len(sites) == 0 {
				c.Check("blockCommit:"+ev.name+"≺Commit", "order", false, fn.Pos(), "blockCommit never puts a %s record into the batch", flag)
				continue
			}
			classes++
			for i, s := range sites {
				k := "blockCommit:" + ev.name + "≺Commit"
				if len(sites) > 1 {
					k += "#" + string(rune('a'+i))
				}
				ok, why := coveredBefore(s, fn, cm)
				c.Check(k, "order", ok, s.call.Pos(), "every %s record is put into the batch before Beansdb.Commit, on every path and for every element: %s", flag, orOK(why))
				// the batch written to is the committed one
				same := false
				if len(nb) == 1 {
					same = s.denotes(recvOfCall(s.call), nb[0].Value())
				}
				c.Check(k+":same-batch", "value-flow", same, s.call.Pos(), "the record is put into the batch that is committed")
			}
		}
		c.Exactly("blockCommit/record-classes-in-batch", classes, 3)

		scb := deepSites(fn, callsTo("SetCurrentBlock", setCB), 2)
		c.Exactly("blockCommit/SetCurrentBlock", len(scb), 1)
		oe.afterSites("blockCommit:Commit≺SetCurrentBlock", callsTo("Beansdb.Commit", commit), "leveldb.SetCurrentBlock", scb)
		for _, s := range scb {
			c.Check("blockCommit→SetCurrentBlock", "heeded-guard", s.returnedAlong(fn), s.call.Pos(), "a failed move of the stable pointer must fail blockCommit: its error is heeded or returned at every level up to blockCommit")
		}
		sc := deepSites(fn, callsTo("SetCandidates", setCands), 2)
		fl := deepSites(fn, callsTo("Context.Flush", ctxFlush), 2)
		c.Floor("blockCommit/candidate-writes", len(sc)+len(fl), 2)
		oe.afterSites("blockCommit:SetCurrentBlock≺SetCandidates", callsTo("SetCurrentBlock", setCB), "Context.SetCandidates", sc)
		oe.afterSites("blockCommit:SetCurrentBlock≺Context.Flush", callsTo("SetCurrentBlock", setCB), "Context.Flush", fl)
		oe.afterSites("blockCommit:SetCandidates≺Context.Flush", callsTo("SetCandidates", setCands), "Context.Flush", fl)
		for _, s := range append(append([]dsite{}, sc...), fl...) {
			c.Check("blockCommit→"+objName(core.CalleeObj(s.call)), "heeded-guard", s.returnedAlong(fn), s.call.Pos(), "a failed candidate write must fail blockCommit")
		}
		// what was put into the candidate cache reaches the file: after a SetCandidates no successful exit of the function that called it is
		// reachable around Context.Flush — or the skip is a test of a dirty flag that every writer of the cache raises (the half-kept flag
		// of the seeded changes leaves vote-only updates in memory; a restarted node then ranks from stale votes)
		c08CandidatesFlushed(c)
		// the pointer is moved to the block being committed
		for _, s := range scb {
			sl := s.sliceAlong(argN(s.call, 1))
			ok := core.SliceHasCall(sl, c.Method("chain/types.Block", "Hash")) && core.SliceHasField(sl, c.FieldVar(st+".CBlock", "Block")) &&
				core.SliceHasField(sl, c.FieldVar(st+".ChainDatabase", "UnConfirmBlocks"))
			c.Check("blockCommit:SetCurrentBlock(hash of the committed block)", "value-flow", ok, s.call.Pos(), "the stable pointer receives the hash of the block taken from UnConfirmBlocks for this commit")
		}
	})
	c.Run("SetStableBlock", func() {
		fn := c.Fn(st + ".ChainDatabase.SetStableBlock")
		bc := c.Method(st+".ChainDatabase", "blockCommit")
		ev := callsTo("blockCommit", bc)
		sites := deepSites(fn, ev, 0)
		c.Exactly("SetStableBlock/blockCommit", len(sites), 1)
		for _, s := range sites {
			ok, why := heededOrReturned(s.call)
			c.Check("SetStableBlock→blockCommit", "heeded-guard", ok, s.call.Pos(), "a failed blockCommit must stop the promotion: %s", orOK(why))
			c.Check("SetStableBlock:blockCommit-error-reaches-caller", "heeded-guard", s.returnedAlong(fn), s.call.Pos(), "the error of blockCommit is SetStableBlock's error")
		}
		last := c.FieldVar(st+".ChainDatabase", "LastConfirm")
		sts := storesToDeep(fn, last)
		c.Floor("SetStableBlock/LastConfirm-stores", len(sts), 1)
		oe.after("SetStableBlock:blockCommit≺LastConfirm=", ev, "the assignment of LastConfirm", toInstrs(sts))
		// pruning of the unconfirmed tree only after the commit
		unc := c.FieldVar(st+".ChainDatabase", "UnConfirmBlocks")
		var dels []ssa.Instruction
		for _, f := range core.Family(fn) {
			for _, d := range builtinCalls(f, "delete") {
				if core.SliceHasField(dsite{}.sliceAlong(d.Call.Args[0]), unc) {
					dels = append(dels, d)
				}
			}
		}
		c.Floor("SetStableBlock/UnConfirmBlocks-deletes", len(dels), 2)
		oe.after("SetStableBlock:blockCommit≺delete(UnConfirmBlocks)", ev, "the pruning of UnConfirmBlocks", dels)
	})

	// -----------------------------------------------------------------------------------------------------------------
	c.Clause("C08.3b", "state a block commits to is written (through the synced write-ahead file) before the block can turn stable: saveToStore succeeds before UpdateStable; Manager.Save, Account.Save and StorageCache.Save heed every storage error; TrieDatabase.Commit drops cached nodes only after the batch commit succeeded")
	c.Run("saveNewBlock", func() {
		const cons = "chain/consensus"
		const acc = "chain/account"
		fn := c.Fn(cons + ".DPoVP.saveNewBlock")
		sts := c.Method(cons+".DPoVP", "saveToStore")
		us := c.Method(cons+".DPoVP", "UpdateStable")
		oe.performs(fn, 1, 1, true, sts)
		usCalls := oe.performs(fn, 1, 1, false, us)
		c.Floor("saveNewBlock/UpdateStable", len(usCalls), 1)
		oe.afterSites("saveNewBlock:saveToStore≺UpdateStable", callsTo("saveToStore", sts), "DPoVP.UpdateStable", usCalls)

		s2s := c.Fn(cons + ".DPoVP.saveToStore")
		oe.performs(s2s, 1, 1, true, c.Method("store/protocol.ChainDB", "SetBlock"))
		oe.performs(s2s, 1, 1, true, c.Method(acc+".Manager", "Save"))

		save := c.Fn(acc + ".Manager.Save")
		n := len(oe.performs(save, 1, 1, false, c.Method(acc+".Account", "Save")))
		n += len(oe.performs(save, 1, 1, true, c.Method("store/trie.SecureTrie", "Commit")))
		tdbCommit := c.Method(st+".TrieDatabase", "Commit")
		n += len(oe.performs(save, 1, 1, true, tdbCommit))
		c.Floor("Manager.Save/heeded-storage-calls", n, 3)

		as := c.Fn(acc + ".Account.Save")
		n = len(oe.performs(as, 1, 4, false, c.Method(acc+".StorageCache", "Save")))
		n += len(oe.performs(as, 1, 1, false, c.Method("store/protocol.ChainDB", "SetContractCode")))
		c.Floor("Account.Save/heeded-storage-calls", n, 5)

		ss := c.Fn(acc + ".StorageCache.Save")
		oe.performs(ss, 1, 1, false, c.Method("store/trie.SecureTrie", "Commit"))
		oe.performs(ss, 1, 1, false, tdbCommit)

		tc := c.Fn(st + ".TrieDatabase.Commit")
		bCommit := c.Method(st+".Batch", "Commit")
		bc := propagated(c, tc, 1, bCommit)
		c.Floor("TrieDatabase.Commit/batch.Commit", len(bc), 2)
		propagated(c, tc, 1, c.Method(st+".TrieDatabase", "commit"))
		unc := core.CallsIn(tc, c.Method(st+".TrieDatabase", "uncache"))
		// the last batch.Commit (the one after the trie was moved into the batch) must have succeeded before nodes are dropped
		commitAfter := evPred{"the final batch.Commit", func(ci ssa.CallInstruction) bool {
			if !core.SameFamily(core.CalleeObj(ci), bCommit) {
				return false
			}
			for _, w := range core.CallsIn(tc, c.Method(st+".TrieDatabase", "commit")) {
				if core.Dominates(w, ci) {
					return true
				}
			}
			return false
		}}
		oe.after("TrieDatabase.Commit:batch.Commit≺uncache", commitAfter, "TrieDatabase.uncache", instrs(unc))
		propagated(c, c.Fn(st+".TrieDatabase.commit"), 1, bCommit)
		propagated(c, c.Fn(st+".LmDBBatch.Commit"), 1, c.Method(st+".Commit", "Commit"))
		propagated(c, c.Fn(st+".BeansDB.Commit"), 1, c.Method(st+".FileQueue", "PutBatch"))
		propagated(c, c.Fn(st+".BeansDB.Put"), 1, c.Method(st+".FileQueue", "Put"))
		propagated(c, c.Fn(st+".ChainDatabase.SetContractCode"), 1, c.Method(st+".BeansDB", "Put"))
	})

	c08b(c, oe)
}

// coveredBefore: the call d.call (in root's family or a helper on d's chain) is executed before `before` (an instruction of
// root) on every path and for every element: walking up from the call, at every level the site lies on every successful path of
// its function or in every iteration of its loop, the error of the enclosing function is heeded where it is called, and at the
// top level the site precedes `before` and cannot follow it.
func coveredBefore(d dsite, root *ssa.Function, before ssa.Instruction) (bool, string) {
	var cur ssa.Instruction = d.call
	for depth := 0; depth < 8; depth++ {
		fn := cur.Parent()
		inLoop := false
		if body, _ := core.LoopOf(cur.Block()); body != nil {
			inLoop = true
			if !core.EveryIterationPasses(cur) {
				return false, "in " + shortFn(fn) + " an iteration of the loop can skip it"
			}
		} else if fn != root {
			// every successful exit of the enclosing function passes the site
			for _, r := range realReturns(fn) {
				if core.ClassifyReturn(r, nil, nil) == core.RetFailure || r.Block() == cur.Block() {
					continue
				}
				if core.CanReach(fn.Blocks[0], r.Block(), cur.Block()) {
					return false, "a successful exit of " + shortFn(fn) + " avoids it"
				}
			}
		}
		if fn == root {
			if !core.ReachableAfter(cur, before) {
				return false, "it cannot be followed by the commit"
			}
			if core.ReachableAfter(before, cur) {
				return false, "it can execute after the commit"
			}
			if !inLoop && !core.Dominates(cur, before) {
				return false, "a path reaches the commit without it"
			}
			if ci, isCall := cur.(ssa.CallInstruction); isCall && cur != ssa.Instruction(d.call) && hasErrResult(ci) {
				if ok, why := core.HeededBefore(ci, core.ErrNonNil, before); !ok {
					return false, "the error of the enclosing function is not heeded before the commit: " + why
				}
			}
			return true, ""
		}
		next := d.up(cur)
		if next == nil {
			return false, "the use of " + shortFn(fn) + " is not unique"
		}
		if hasErrResult(next) {
			if ok, why := heededOrReturned(next); !ok {
				return false, "the error of " + shortFn(fn) + " is not heeded: " + why
			}
		}
		cur = next
	}
	return false, "nesting too deep"
}

func sortedNames(m map[string]bool) string {
	var ks []string
	for k := range m {
		ks = append(ks, k)
	}
	sort.Strings(ks)
	return strings.Join(ks, ", ")
}

// loadAddr: the address a load reads (nil when v is not a load).
func loadAddr(v ssa.Value) ssa.Value {
	if u, ok := v.(*ssa.UnOp); ok && u.Op == token.MUL {
		return u.X
	}
	return nil
}

// c08CandidatesFlushed: what blockCommit puts into the candidate cache reaches context.data (see the call site in C08.3). Evaluated under
// C08.3 and C10.9.
func c08CandidatesFlushed(c *core.Ctx) {
	const st = "store"
	fn := c.Fn(st + ".ChainDatabase.blockCommit")
	setCands := c.Method(st+".RunContext", "SetCandidates")
	ctxFlush := c.Method(st+".RunContext", "Flush")
	sc := deepSites(fn, callsTo("SetCandidates", setCands), 2)
	c.Floor("blockCommit/SetCandidates", len(sc), 1)
	var cstate []*types.Var
	ccst := c.Struct(st + ".CandidateCache")
	for i := 0; i < ccst.NumFields(); i++ {
		cstate = append(cstate, ccst.Field(i))
	}
	for i, s := range sc {
		k := "blockCommit:SetCandidates⇒Context.Flush"
		if len(sc) > 1 {
			k += "#" + string(rune('a'+i))
		}
		writtenOrFlaggedFrom(c, k, s.call.Parent(), s.call, ctxFlush, cstate, c.Fn(st+".RunContext.load"))
	}
}

// c08BitCaskPut: data before index before cursor in BitCask.Put, and the index position is the cursor as it is after the flush. Evaluated
// under C08.2 and C09.8 (the persisted account a reader gets once the write-behind queue has drained is the stable view's).
func c08BitCaskPut(c *core.Ctx, oe *orderEngine) {
	const st = "store"
	const ldb = "store/leveldb"
	fn := c.Fn(st + ".BitCask.Put")
	caf := c.Method(st+".BitCask", "checkAndFlush")
	setPos := c.FuncObj(ldb + ".SetPos")
	setCur := c.FuncObj(ldb + ".SetCurrentPos")
	curOff := c.FieldVar(st+".BitCask", "CurOffset")
	fl := oe.performs(fn, 2, 1, true, caf)
	sp := oe.performs(fn, 2, 1, true, setPos)
	sc := oe.performs(fn, 2, 1, true, setCur)
	oe.afterSites("BitCask.Put:checkAndFlush≺SetPos", callsTo("checkAndFlush", caf), "leveldb.SetPos", sp)
	oe.afterSites("BitCask.Put:SetPos≺SetCurrentPos", callsTo("SetPos", setPos), "leveldb.SetCurrentPos", sc)
	sts := storesToDeep(fn, curOff)
	oe.after("BitCask.Put:SetPos≺CurOffset+=", callsTo("SetPos", setPos), "the advance of BitCask.CurOffset", toInstrs(sts))
	if len(fl) == 1 && len(sp) == 1 && len(sc) == 1 {
		var length ssa.Value
		if fl[0].call.Parent() == fn {
			length = core.ResultValues(fl[0].call)[0]
		}
		ok := len(sts) >= 1
		for _, s := range sts {
			sl := core.Slice(s.Val)
			if length == nil || !sl[length] || !core.SliceHasField(sl, curOff) || !core.SliceHasOp(sl, token.ADD) {
				ok = false
			}
		}
		c.Check("BitCask.Put:CurOffset+=flushed-length", "value-flow", ok, fn.Pos(), "the bitcask cursor advances by the length checkAndFlush reported")
		// the position stored in the index is computed from the cursor the record was flushed at, for the same (flag, key)
		pos := sp[0].sliceAlong(argN(sp[0].call, 3))
		ok = core.SliceHasField(pos, curOff) && core.SliceHasField(pos, c.FieldVar(st+".BitCask", "CurIndex")) &&
			len(fn.Params) == 4 && sp[0].sliceAlong(argN(sp[0].call, 1))[fn.Params[1]] && sp[0].sliceAlong(argN(sp[0].call, 2))[fn.Params[2]]
		c.Check("BitCask.Put:SetPos(flag,key,CurOffset|CurIndex)", "value-flow", ok, sp[0].call.Pos(), "the index entry of (flag, key) is the bitcask cursor (offset | file index) the record was flushed at")
		// ... read AFTER checkAndFlush: that call rolls over to the next data file when the current one is full (it writes CurOffset and
		// CurIndex); a position computed before it points into the old file for the one record that triggered the roll-over
		okAfter := true
		nLd := 0
		for v := range pos {
			ld, isLd := v.(*ssa.UnOp)
			if !isLd || ld.Op != token.MUL {
				continue
			}
			if f := core.FieldOf(ld.X); f == curOff || f == c.FieldVar(st+".BitCask", "CurIndex") {
				nLd++
				if ld.Parent() == fl[0].call.Parent() && !core.Dominates(fl[0].call, ld) {
					okAfter = false
				}
			}
		}
		c.Check("BitCask.Put:cursor-read-after-checkAndFlush", "order", okAfter && nLd >= 2, sp[0].call.Pos(), "the cursor fields that make up the index position are loaded after checkAndFlush returned")
		cur := sc[0].sliceAlong(argN(sc[0].call, 2))
		c.Check("BitCask.Put:SetCurrentPos(CurOffset|CurIndex)", "value-flow", core.SliceHasField(cur, curOff), sc[0].call.Pos(), "the persisted cursor is computed from BitCask.CurOffset")
	}
	// checkAndFlush: flush heeded, at the cursor, length handed back
	cf := c.Fn(st + ".BitCask.checkAndFlush")
	flushObj := c.FuncObj(st + ".FileUtilsFlush")
	ff := heeded(c, cf, flushObj, core.ErrNonNil, 1, nil)
	if len(ff) == 1 {
		length := core.ResultValues(ff[0])[0]
		ok := core.SliceHasField(core.Slice(argN(ff[0], 1)), curOff) && len(cf.Params) == 2 && core.Slice(argN(ff[0], 2))[cf.Params[1]]
		for _, r := range realReturns(cf) {
			if core.ClassifyReturn(r, nil, nil) != core.RetFailure && (length == nil || !core.Derived(length)[core.RetVal(r, 0)]) {
				ok = false
			}
		}
		c.Check("checkAndFlush:FileUtilsFlush(CurOffset,data)→length", "value-flow", ok, ff[0].Pos(), "the record is flushed at the bitcask cursor and the flushed length is handed back")
	}
	// the index primitives pass the LevelDB error on
	dbPut := c.Method(ldb+".DatabasePutter", "Put")
	propagated(c, c.Fn(ldb+".SetPos"), 1, dbPut)
	propagated(c, c.Fn(ldb+".SetCurrentPos"), 1, dbPut)
	propagated(c, c.Fn(ldb+".SetCurrentBlock"), 1, dbPut)
}
