package rules

import (
	"go/constant"
	"go/token"
	"go/types"
	"sort"

	"golang.org/x/tools/go/ssa"

	"verif/lint/internal/core"
)

// ---------------------------------------------------------------------------------------------
// C14.2 hash = hash of the encoding

// hashThroughEncode checks that fn hashes `what` by rlp.Encode into a fresh Keccak state whose Sum it returns; returns the
// encoded interface argument of the rlp.Encode call (nil when the shape is not met).
func hashThroughEncode(c *core.Ctx, name string, fn *ssa.Function) ssa.Value {
	encs := core.CallsIn(fn, c.FuncObj(c14Rlp+".Encode"))
	keccak := c.FuncObj("common/crypto/sha3.NewKeccak256")
	ok := len(encs) == 1
	var arg ssa.Value
	if ok {
		a := encs[0].Common().Args
		arg = a[1]
		hs := core.CallsIn(fn, keccak)
		ok = len(hs) == 1 && core.Slice(a[0])[hs[0].Value()]
		if ok {
			// Sum is taken from the same state, after the encoding, into the returned array
			sums := core.CallsIn(fn, c.StdFunc("hash", "Hash.Sum"))
			ok = false
			for _, s := range sums {
				if !core.Derived(hs[0].Value())[s.Common().Value] || !core.Dominates(encs[0], s) {
					continue
				}
				for _, r := range core.Returns(fn) {
					if ld, isLd := core.RetVal(r, 0).(*ssa.UnOp); isLd && len(s.Common().Args) == 1 && core.Slice(s.Common().Args[0])[ld.X] && core.Dominates(s, r) {
						ok = true
					}
				}
			}
		}
	}
	c.Check(name+":keccak(rlp)", "hash-through-encoding", ok, fn.Pos(), "%s feeds one rlp.Encode into a fresh Keccak-256 state and returns that state's Sum", name)
	if !ok {
		return nil
	}
	return arg
}

func c14Hash(c *core.Ctx) {
	c.Clause("C14.2", "a hash is the hash of the object's own encoding: ChangeLog.Hash and Event.Hash go through their EncodeRLP (so they cover exactly the wire fields of C14.1), DeputyNode.Hash covers all four fields (Header.Hash: C02.2, Transaction.Hash: C04)")
	c.Run("ChangeLog.Hash", func() {
		for _, t := range []string{"ChangeLog", "Event"} {
			fn := c.Fn(c14Types + "." + t + ".Hash")
			arg := hashThroughEncode(c, t+".Hash", fn)
			self := arg != nil && ifaceOperand(arg) == ssa.Value(fn.Params[0])
			isEnc := self && types.Implements(fn.Params[0].Type(), c.Named(c14Rlp+".Encoder").Underlying().(*types.Interface))
			c.Check(t+".Hash:encodes-receiver", "hash-through-encoding", self && isEnc, fn.Pos(), "%s.Hash encodes the receiver itself, whose type implements rlp.Encoder — the hash is the hash of EncodeRLP's output", t)
		}
	})
	c.Run("DeputyNode.Hash", func() {
		fn := c.Fn(c14Types + ".DeputyNode.Hash")
		arg := hashThroughEncode(c, "DeputyNode.Hash", fn)
		if arg != nil {
			fieldCover(c, "DeputyNode.Hash", fn.Pos(), arg, c.Struct(c14Types+".DeputyNode"), map[string]string{})
		}
		c.Exactly("DeputyNode/fields", c.Struct(c14Types+".DeputyNode").NumFields(), 4)
	})
}

// ---------------------------------------------------------------------------------------------
// C14.3 registry exhaustive; constructor / decoder / redo shapes agree

type logReg struct {
	site                   ssa.CallInstruction
	newDec, extraDec, redo *ssa.Function
	undo                   *ssa.Function
	nonNil                 bool
}

// slotUse describes what a redo function accepts in one slot of the change log.
type slotUse struct {
	Types     []types.Type
	Nil       bool         // tests the slot against nil
	Unchecked []types.Type // assertions without comma-ok
	Ignored   bool         // neither asserted nor nil-tested: any shape is accepted
}

func slotUseOf(fn *ssa.Function, slot *types.Var) slotUse {
	var u slotUse
	touched := false
	for _, b := range fn.Blocks {
		for _, in := range b.Instrs {
			ld, ok := in.(*ssa.UnOp)
			if !ok || ld.Op != token.MUL || core.FieldOf(ld.X) != slot {
				continue
			}
			if fa, ok := ld.X.(*ssa.FieldAddr); !ok || len(fn.Params) == 0 || fa.X != ssa.Value(fn.Params[0]) {
				continue
			}
			for d := range core.Derived(ld) {
				if d.Referrers() == nil {
					continue
				}
				for _, r := range *d.Referrers() {
					switch x := r.(type) {
					case *ssa.TypeAssert:
						touched = true
						if x.CommaOk {
							u.Types = append(u.Types, x.AssertedType)
						} else {
							u.Unchecked = append(u.Unchecked, x.AssertedType)
						}
					case *ssa.BinOp:
						if (x.Op == token.EQL || x.Op == token.NEQ) && (core.IsNilConst(x.X) || core.IsNilConst(x.Y)) {
							touched = true
							u.Nil = true
						}
					}
				}
			}
		}
	}
	u.Ignored = !touched
	return u
}

func (u slotUse) acceptsType(t types.Type) bool {
	if u.Ignored {
		return true
	}
	for _, a := range u.Types {
		if types.Identical(a, t) {
			return true
		}
	}
	return false
}

func typeStr(t types.Type) string {
	return types.TypeString(t, func(p *types.Package) string { return p.Name() })
}

func c14Registry(c *core.Ctx) {
	c.Clause("C14.3", "every change-log type below LOG_TYPE_STOP is registered exactly once with non-nil decoders/redo/undo, and for each type the dynamic types its constructor stores in NewVal/Extra are produced by the registered decoder and accepted by the registered redo (empty-payload decoder branches no constructor can produce are listed as unreachable-shape exemptions, D30)")
	c.Run("registry", func() {
		clt := c.Named(c14Types + ".ChangeLogType")
		stop, _ := constInt(c.Const(c14Acct + ".LOG_TYPE_STOP"))
		// the enum
		names := map[int64]string{}
		sc := c.Pkg(c14Acct).Scope()
		for _, n := range sc.Names() {
			k, ok := sc.Lookup(n).(*types.Const)
			if !ok || !types.Identical(k.Type(), clt) {
				continue
			}
			v, _ := constInt(k)
			if v < stop {
				names[v] = n
			}
		}
		c.Exactly("log-types", len(names), 19)

		// registrations
		regObj := c.FuncObj(c14Types + ".RegisterChangeLog")
		regs := map[int64][]logReg{}
		for _, s := range c.CallSites(regObj) {
			if isTestHelper(c, s.Caller) {
				continue
			}
			a := s.Instr.Common().Args
			k, isC := intConstOf(a[0])
			if !isC {
				c.Undecided("register@"+core.FuncName(s.Caller), "registry", s.Instr.Pos(), "RegisterChangeLog is called with a non-constant log type")
				continue
			}
			r := logReg{site: s.Instr, newDec: funcValue(a[2]), extraDec: funcValue(a[3]), redo: funcValue(a[4]), undo: funcValue(a[5])}
			r.nonNil = r.newDec != nil && r.extraDec != nil && r.redo != nil && r.undo != nil
			regs[k] = append(regs[k], r)
		}
		var ks []int64
		for k := range names {
			ks = append(ks, k)
		}
		sort.Slice(ks, func(i, j int) bool { return ks[i] < ks[j] })
		for _, k := range ks {
			rs := regs[k]
			c.Check("registered:"+names[k], "registry", len(rs) == 1 && rs[0].nonNil, posOfReg(rs), "log type %s must be registered exactly once with four non-nil functions (%d registration(s))", names[k], len(rs))
		}
		for k, rs := range regs {
			if _, known := names[k]; !known {
				c.Check("registered:unknown-type", "registry", false, rs[0].site.Pos(), "RegisterChangeLog is called with value %d, which is not a ChangeLogType constant below LOG_TYPE_STOP", k)
			}
		}

		// constructors: functions that build a types.ChangeLog with a constant LogType
		clNamed := c.Named(c14Types + ".ChangeLog")
		fLogType, fNew, fExtra := c.FieldVar(c14Types+".ChangeLog", "LogType"), c.FieldVar(c14Types+".ChangeLog", "NewVal"), c.FieldVar(c14Types+".ChangeLog", "Extra")
		type ctor struct {
			fn         *ssa.Function
			newV, extV shapeSet
		}
		ctors := map[int64][]*ctor{}
		for _, fn := range c.SrcFuncs {
			if isTestHelper(c, fn) {
				continue
			}
			for _, al := range allocsOf(fn, clNamed) {
				ws := fieldWrites(fn, func(v ssa.Value) bool { return v == ssa.Value(al) })
				var k int64 = -1
				for _, w := range ws {
					if w.Top == fLogType {
						if v, isC := intConstOf(w.Vals[0]); isC {
							k = v
						}
					}
				}
				if k < 0 {
					continue
				}
				ct := &ctor{fn: fn}
				nNew, nExt := 0, 0
				for _, w := range ws {
					switch w.Top {
					case fNew:
						nNew++
						shapesOf(w.Vals[0], &ct.newV)
					case fExtra:
						nExt++
						shapesOf(w.Vals[0], &ct.extV)
					}
				}
				if nNew == 0 {
					ct.newV.Nil = true
				}
				if nExt == 0 {
					ct.extV.Nil = true
				}
				ctors[k] = append(ctors[k], ct)
			}
		}

		// D30 and its sibling: decoder products for an empty payload that no constructor can store
		unreachable := map[string]string{
			"CandidateLog.NewVal:*interface{}": "D30: decodeCandidate's empty-payload branch; a candidate profile is validated non-empty before NewCandidateLog, so no log carries an empty profile",
			"SignerLog.NewVal:nil":             "D30: decodeSigners' empty-payload branch; signer lists are validated non-empty before NewSignerLog",
			"AssetCodeLog.NewVal:nil":          "D30: decodeAsset's empty-payload branch; SetAssetCode(nil) has no caller, NewAssetCodeLog always stores a typed *Asset",
			"AssetCodeStateLog.Extra:nil":      "same shape as D30: decodeProfileChangeLogExtra's empty-payload branch; NewAssetCodeStateLog always stores a non-nil *ProfileChangeLogExtra",
		}
		usedExempt := map[string]bool{}
		nCtor, nPairs := 0, 0
		for _, k := range ks {
			name := names[k]
			if len(regs[k]) != 1 || !regs[k][0].nonNil {
				continue
			}
			r := regs[k][0]
			c.Check("constructor:"+name, "registry", len(ctors[k]) >= 1, r.site.Pos(), "log type %s has %d constructor(s) storing a constant LogType", name, len(ctors[k]))
			nCtor += len(ctors[k])
			for _, slot := range []struct {
				n   string
				f   *types.Var
				dec *ssa.Function
			}{{"NewVal", fNew, r.newDec}, {"Extra", fExtra, r.extraDec}} {
				var produced shapeSet
				for _, ret := range core.Returns(slot.dec) {
					shapesOf(core.RetVal(ret, 0), &produced)
				}
				var built shapeSet
				for _, ct := range ctors[k] {
					s := ct.newV
					if slot.n == "Extra" {
						s = ct.extV
					}
					built.Nil = built.Nil || s.Nil
					built.Unknown = built.Unknown || s.Unknown
					for _, t := range s.Types {
						built.add(t)
					}
				}
				key := name + "." + slot.n
				if built.Unknown || produced.Unknown {
					c.Undecided(key+":shapes", "codec-shape", r.site.Pos(), "a constructor or decoder of %s hands over a value whose dynamic type is not visible (constructor %s, decoder %s)", key, built.String(), produced.String())
					continue
				}
				nPairs++
				// constructor ⊆ decoder
				okSub := true
				for _, t := range built.Types {
					if !produced.has(t) {
						okSub = false
					}
				}
				if built.Nil && !produced.Nil {
					okSub = false
				}
				c.Check(key+":constructor⊆decoder", "codec-shape", okSub, slot.dec.Pos(), "what the constructor stores in %s %s must be what %s produces %s", key, built.String(), shortFn(slot.dec), produced.String())
				// decoder ⊆ redo
				use := slotUseOf(r.redo, slot.f)
				check := func(shape string, accepted, builtToo bool) {
					ek := key + ":" + shape
					if reason, ex := unreachable[ek]; ex && !accepted {
						usedExempt[ek] = true
						c.CheckTrivial(key+":decoder⊆redo:"+shape, "unreachable-shape", !builtToo, slot.dec.Pos(), "%s can yield %s, which %s rejects — exempt while no constructor stores that shape: %s", shortFn(slot.dec), shape, shortFn(r.redo), reason)
						return
					}
					c.Check(key+":decoder⊆redo:"+shape, "codec-shape", accepted, slot.dec.Pos(), "%s can yield %s in %s; %s must accept it (asserts %v, nil-test=%v, ignores slot=%v)", shortFn(slot.dec), shape, key, shortFn(r.redo), typeStrs(use.Types), use.Nil, use.Ignored)
				}
				for _, t := range produced.Types {
					check(typeStr(t), use.acceptsType(t), built.has(t))
				}
				if produced.Nil {
					check("nil", use.Ignored || use.Nil, built.Nil)
				}
			}
		}
		for ek := range unreachable {
			if !usedExempt[ek] {
				c.Note("C14.3: exemption %s is no longer needed", ek)
			}
		}
		c.Floor("constructors", nCtor, 19)
		c.Floor("slot-pairs-compared", nPairs, 38)
		c.Note("unreachable-shape exemptions in use: %d of %d (an exemption that is no longer needed is not a violation)", len(usedExempt), len(unreachable))
	})
}

func typeStrs(ts []types.Type) []string {
	var out []string
	for _, t := range ts {
		out = append(out, typeStr(t))
	}
	return out
}

func posOfReg(rs []logReg) token.Pos {
	if len(rs) > 0 {
		return rs[0].site.Pos()
	}
	return token.NoPos
}

var _ = constant.MakeInt64

// changeLogCtors returns the functions that build a types.ChangeLog with a constant LogType (the NewXLog constructors).
func changeLogCtors(c *core.Ctx) map[*ssa.Function]bool {
	out := map[*ssa.Function]bool{}
	clNamed := c.Named(c14Types + ".ChangeLog")
	fLogType := c.FieldVar(c14Types+".ChangeLog", "LogType")
	for _, fn := range c.SrcFuncs {
		if isTestHelper(c, fn) {
			continue
		}
		for _, al := range allocsOf(fn, clNamed) {
			for _, w := range fieldWrites(fn, func(v ssa.Value) bool { return v == ssa.Value(al) }) {
				if w.Top == fLogType {
					if _, isC := intConstOf(w.Vals[0]); isC {
						out[fn] = true
					}
				}
			}
		}
	}
	return out
}
