package rules

import (
	"go/token"
	"go/types"
	"sort"
	"strings"

	"golang.org/x/tools/go/ssa"

	"verif/lint/internal/core"
)

func init() { register("C13", c13) }

func c13(c *core.Ctx) {
	const cons = "chain/consensus"
	hdr := func(f string) *types.Var { return c.FieldVar("chain/types.Header", f) }
	checked := []string{"Time", "MinerAddress", "Height", "ParentHash"} // what verifyMiner / GetCorrectMiner and the parent lookup read
	_ = checked

	// ------------------------------------------------------------------------------------------------------------
	c.Clause("C13.1", "the miner applies the verifier's rule to its own header: in DPoVP.MineBlock Validator.VerifyMiner(header, parent) is heeded (no successful exit and no saveNewBlock without it), header being PrepareHeader(parent)'s result, which is also what the assembler executes, seals and signs; VerifyMiner and VerifyBeforeTxProcess both resolve to verifyMiner with the validator's own mineTimeout and deputy table")
	c.Run("miner-checks-own-header", func() {
		mine := c.Fn(cons + ".DPoVP.MineBlock")
		vm := c.Method(cons+".Validator", "VerifyMiner")
		asm := c.Method(cons+".BlockAssembler", "MineBlock")
		prep := c.Method(cons+".BlockAssembler", "PrepareHeader")
		heeded(c, mine, prep, core.ErrNonNil, 1, nil)
		heeded(c, mine, vm, core.ErrNonNil, 1, nil)
		asms := core.CallsIn(mine, asm)
		// the block is neither stored nor handed out unless the check accepted (whether the check runs before or after execution is irrelevant)
		heededBefore(c, mine, vm, core.ErrNonNil, "DPoVP.saveNewBlock", instrs(core.CallsIn(mine, c.Method(cons+".DPoVP", "saveNewBlock"))))
		c.Exactly("MineBlock/assembler-calls", len(asms), 1)
		pcs := core.CallsIn(mine, prep)
		if len(pcs) != 1 {
			c.Check("MineBlock:one PrepareHeader", "value-flow", false, mine.Pos(), "DPoVP.MineBlock must prepare exactly one header (%d calls)", len(pcs))
			return
		}
		header := core.ResultValues(pcs[0])[0]
		parent := pcs[0].Common().Args[1]
		hd, pd := core.Derived(header), core.Derived(parent)
		for _, g := range core.CallsIn(mine, vm) {
			a := g.Common().Args
			ok := header != nil && len(a) == 3 && pd[a[2]]
			if ok && !hd[a[1]] {
				// alternatively the header of the block the assembler returned (checked after sealing)
				ok = false
				if ld, isLd := a[1].(*ssa.UnOp); isLd && ld.Op == token.MUL && len(asms) == 1 {
					if fa, isFA := ld.X.(*ssa.FieldAddr); isFA && core.FieldOf(fa) == c.FieldVar("chain/types.Block", "Header") {
						if res := core.ResultValues(asms[0])[0]; res != nil && core.Derived(res)[fa.X] {
							ok = true
						}
					}
				}
			}
			c.Check("MineBlock:VerifyMiner(prepared header, same parent)", "value-flow", ok, g.Pos(),
				"the header that is checked is the prepared one (or the sealed block's) and the parent is the one it was prepared from")
		}
		for _, g := range asms {
			a := g.Common().Args
			c.Check("MineBlock:assembler.MineBlock(checked header)", "value-flow", header != nil && len(a) == 4 && hd[a[1]], g.Pos(), "the header that is executed, sealed and signed is the checked one")
		}
		ps := core.Slice(parent)
		c.Check("MineBlock:parent=CurrentBlock().Header", "value-flow", core.SliceHasCall(ps, c.Method(cons+".DPoVP", "CurrentBlock")) && core.SliceHasField(ps, c.FieldVar("chain/types.Block", "Header")),
			pcs[0].Pos(), "the parent is the header of the current head block")

		// both entries use the same rule with the same parameters
		vmObj := c.FuncObj(cons + ".verifyMiner")
		vmFn := c.Fn(cons + ".Validator.VerifyMiner")
		mt, dm := c.FieldVar(cons+".Validator", "mineTimeout"), c.FieldVar(cons+".Validator", "dm")
		fieldLoad := func(v ssa.Value, f *types.Var, base ssa.Value) bool {
			ld, isLd := v.(*ssa.UnOp)
			if !isLd || ld.Op != token.MUL {
				return false
			}
			fa, isFA := ld.X.(*ssa.FieldAddr)
			return isFA && core.FieldOf(fa) == f && fa.X == base
		}
		ownParams := func(fn *ssa.Function, a []ssa.Value) bool {
			return fieldLoad(a[2], mt, fn.Params[0]) && fieldLoad(a[3], dm, fn.Params[0])
		}
		calls := core.CallsIn(vmFn, vmObj)
		ok := len(calls) == 1
		if ok {
			a := calls[0].Common().Args
			ok = len(a) == 4 && a[0] == vmFn.Params[1] && a[1] == vmFn.Params[2] && ownParams(vmFn, a)
			d := core.Derived(calls[0].Value())
			for _, r := range core.Returns(vmFn) {
				if !d[core.RetVal(r, 0)] {
					ok = false
				}
			}
		}
		c.Check("Validator.VerifyMiner=verifyMiner(header, parent, v.mineTimeout, v.dm)", "value-flow", ok, vmFn.Pos(), "VerifyMiner is verifyMiner on its own arguments and returns its verdict unchanged")
		before := c.Fn(cons + ".Validator.VerifyBeforeTxProcess")
		calls = core.CallsIn(before, vmObj)
		ok = len(calls) == 1
		if ok {
			a := calls[0].Common().Args
			s0 := core.Slice(a[0])
			ok = len(a) == 4 && ownParams(before, a) && core.SliceHasField(s0, c.FieldVar("chain/types.Block", "Header")) && s0[before.Params[1]] &&
				core.SliceHasField(core.Slice(a[1]), c.FieldVar("chain/types.Block", "Header"))
		}
		c.Check("VerifyBeforeTxProcess:verifyMiner(block.Header, parent.Header, v.mineTimeout, v.dm)", "value-flow", ok, before.Pos(), "received blocks are checked by the same function with the same validator parameters")
	})

	// ------------------------------------------------------------------------------------------------------------
	c.Clause("C13.2", "the checked fields (Time, MinerAddress, Height, ParentHash) are not changed between the check and the signature: closed writer set of these fields in the whole repository, none of the writers can run below DPoVP.MineBlock between PrepareHeader and the signature; Seal stores only roots/GasUsed/DeputyRoot, the sealed header is the checked header or its Copy(), and its hash is what is signed")
	c.Run("header-immutable-after-check", func() { c13HeaderImmutable(c) })

	// ------------------------------------------------------------------------------------------------------------
	c.Clause("C13.3", "PrepareHeader: Time = max(parent.Time, now in whole seconds); ParentHash, Height and MinerAddress are derived from the same parent header")
	c.Run("prepare-header", func() {
		ph := c.Fn(cons + ".BlockAssembler.PrepareHeader")
		parent := ph.Params[1]
		one := func(f string) *ssa.Store {
			ss := fieldStoresInW3(ph, hdr(f))
			c.Exactly("PrepareHeader/stores#"+f, len(ss), 1)
			if len(ss) != 1 {
				return nil
			}
			return ss[0].St
		}
		if st := one("Time"); st != nil {
			ok, why := false, "the stored value is not a two-way choice"
			if phi, isPhi := st.Val.(*ssa.Phi); isPhi && len(phi.Edges) == 2 {
				isParent := func(v ssa.Value) bool {
					ld, isLd := stripConvW3(v).(*ssa.UnOp)
					if !isLd || ld.Op != token.MUL {
						return false
					}
					fa, isFA := ld.X.(*ssa.FieldAddr)
					return isFA && core.FieldOf(fa) == hdr("Time") && fa.X == parent
				}
				isNow := func(v ssa.Value) bool {
					sl := core.Slice(v)
					return core.SliceHasCall(sl, c.StdFunc("time", "Now")) && core.SliceHasCall(sl, c.StdFunc("time", "Time.Unix")) && !sl[parent]
				}
				// two loads of parent.Time are the same quantity; the clock value must be the very same reading
				eq := func(p, q ssa.Value) bool { return p == q || (isParent(p) && isParent(q)) }
				// the branch that decides
				why = "no comparison of the two candidates selects the larger one"
				idom := phi.Block().Idom()
				if idom != nil && len(idom.Instrs) > 0 {
					if ifi, isIf := idom.Instrs[len(idom.Instrs)-1].(*ssa.If); isIf {
						op, x, y, k := cmpWhen(ifi.Cond, true)
						if k && (op == token.LSS || op == token.LEQ) {
							op, x, y = swapOp[op], y, x
						}
						if k && (op == token.GTR || op == token.GEQ) {
							// when the condition is true (x > y) the value chosen must be x, otherwise y
							tEdge, fEdge := ssa.Value(nil), ssa.Value(nil)
							for i, p := range phi.Block().Preds {
								tBlk, fBlk := idom.Succs[0], idom.Succs[1]
								switch {
								case p == idom && tBlk == phi.Block():
									tEdge = phi.Edges[i]
								case p == idom && fBlk == phi.Block():
									fEdge = phi.Edges[i]
								case p == tBlk || tBlk.Dominates(p):
									tEdge = phi.Edges[i]
								case p == fBlk || fBlk.Dominates(p):
									fEdge = phi.Edges[i]
								}
							}
							if tEdge != nil && fEdge != nil && eq(tEdge, x) && eq(fEdge, y) && ((isParent(x) && isNow(y)) || (isNow(x) && isParent(y))) {
								ok, why = true, ""
							}
						}
					}
				}
			}
			c.Check("PrepareHeader:Time=max(parent.Time, now)", "quantity-guard", ok, st.Pos(), "the header time is the larger of the parent's time and the wall clock in seconds: %s", orOK(why))
		}
		if st := one("ParentHash"); st != nil {
			c.Check("PrepareHeader:ParentHash=parent.Hash()", "value-flow", sliceCallOn(core.Slice(st.Val), c.Method("chain/types.Header", "Hash"), parent), st.Pos(), "the new header names the parent it was checked against")
		}
		if st := one("Height"); st != nil {
			b, isB := st.Val.(*ssa.BinOp)
			ok := isB && b.Op == token.ADD
			if ok {
				sl := core.Slice(st.Val)
				ok = core.SliceHasField(sl, hdr("Height")) && sl[parent] && core.SliceHasIntConst(sl, 1) && countCalls(sl) == 0
			}
			c.Check("PrepareHeader:Height=parent.Height+1", "value-flow", ok, st.Pos(), "the new height is the parent's height plus one")
		}
		if st := one("MinerAddress"); st != nil {
			gm := c.Method("chain/deputynode.Manager", "GetMyMinerAddress")
			sl := core.Slice(st.Val)
			ok := core.SliceHasCall(sl, gm)
			for _, g := range core.CallsIn(ph, gm) {
				as := core.Slice(g.Common().Args[1])
				if !(core.SliceHasField(as, hdr("Height")) && as[parent] && core.SliceHasIntConst(as, 1)) {
					ok = false
				}
				if k, _ := core.HeededBefore(g, core.IsFalse, st); !k {
					ok = false
				}
			}
			c.Check("PrepareHeader:MinerAddress=own address at parent.Height+1", "value-flow", ok, st.Pos(), "the miner address is this node's deputy address in the term of the new height, and a non-deputy does not mine")
		}
	})

	c.Clause("C13.4", "the two sides of the schedule agree on their inputs: miner and verifier read the deputy set of the height being mined (parent height + 1) for the round length and for the rotation, and the parent's miner takes part in the rotation only outside the first block of a term / height 1")
	c.Run("schedule-inputs", func() {
		const dn = "chain/deputynode"
		hdrHeight := c.FieldVar("chain/types.Header", "Height")
		isNext := func(v ssa.Value, parent ssa.Value) bool {
			sl := core.Slice(v)
			return sl[parent] && core.SliceHasField(sl, hdrHeight) && core.SliceHasIntConst(sl, 1) && core.SliceHasOp(sl, token.ADD)
		}
		gcm := c.Fn("chain/consensus.GetCorrectMiner")
		cnt := core.CallsIn(gcm, c.Method(dn+".Manager", "GetDeputiesCount"))
		rot := core.CallsIn(gcm, c.Method(dn+".Manager", "GetDeputyByDistance"))
		ok := len(cnt) == 1 && len(rot) == 1
		if ok {
			ok = isNext(cnt[0].Common().Args[1], gcm.Params[0]) && isNext(rot[0].Common().Args[1], gcm.Params[0])
		}
		c.Check("GetCorrectMiner:deputies-of(parent.Height+1)", "value-flow", ok, gcm.Pos(), "the verifier takes the round length and the rotation from the deputy set of the block being verified (parent height + 1), both from the same height")
		if len(rot) == 1 {
			a := rot[0].Common().Args
			sl := core.Slice(a[2])
			c.Check("GetCorrectMiner:rotation-starts-after(parent.MinerAddress)", "value-flow", sl[gcm.Params[0]] && core.SliceHasField(sl, c.FieldVar("chain/types.Header", "MinerAddress")), rot[0].Pos(), "the rotation starts after the parent's miner")
		}
		// miner side: one height for distance and window, = parent height + 1
		sch := c.Fn("chain/miner.Miner.schedule")
		gmd := core.CallsIn(sch, c.Method(dn+".Manager", "GetMinerDistance"))
		gst := core.CallsIn(sch, c.Method("chain/miner.Miner", "getSleepTime"))
		ok = len(gmd) == 1 && len(gst) >= 1
		if ok {
			h := gmd[0].Common().Args[1]
			hs := core.Slice(h)
			ok = core.SliceHasCall(hs, c.Method("chain/types.Block", "Height")) && core.SliceHasIntConst(hs, 1) && core.SliceHasOp(hs, token.ADD) && hs[sch.Params[1]]
			for _, g := range gst {
				if g.Common().Args[1] != h && !core.Derived(h)[g.Common().Args[1]] {
					ok = false
				}
			}
		}
		c.Check("Miner.schedule:distance-and-window-for(parent.Height+1)", "value-flow", ok, sch.Pos(), "the miner computes its distance and its window for the same height, the parent's height + 1")
		gs := c.Fn("chain/miner.Miner.getSleepTime")
		for _, g := range core.CallsIn(gs, c.FuncObj("chain/consensus.GetNextMineWindow")) {
			a := g.Common().Args
			c.Check("getSleepTime:GetNextMineWindow(mineHeight, distance)", "value-flow", a[0] == gs.Params[1] && a[1] == gs.Params[2], g.Pos(), "the window is computed for the height and distance handed in")
		}
		gnw := c.Fn("chain/consensus.GetNextMineWindow")
		for _, g := range core.CallsIn(gnw, c.Method(dn+".Manager", "GetDeputiesCount")) {
			c.Check("GetNextMineWindow:GetDeputiesCount(nextHeight)", "value-flow", g.Common().Args[1] == gnw.Params[0], g.Pos(), "the miner's round length comes from the deputy set of the height being mined")
		}
		// miner side (GetMinerDistance) and verifier side (GetDeputyByDistance) decide "this is the first block of a term" with the same
		// predicate functions: the sets of repository predicates called in their term-start tests are equal (a predicate that differs at one
		// height makes every deputy mine in a slot the verifier gives to somebody else there)
		predsOf := func(fn *ssa.Function) string {
			set := map[string]bool{}
			for _, b := range fn.Blocks {
				ifi := ifOf(b)
				if ifi == nil {
					continue
				}
				sl := core.SliceShallow(ifi.Cond)
				if !sl[fn.Params[1]] {
					continue
				}
				for v := range sl {
					if ci, ok := v.(*ssa.Call); ok {
						if sf := core.StaticFn(ci); sf != nil && core.InRepo(sf) && sf.Signature.Results().Len() == 1 {
							if bt, isB := sf.Signature.Results().At(0).Type().Underlying().(*types.Basic); isB && bt.Kind() == types.Bool {
								set[core.FuncName(sf)] = true
							}
						}
					}
				}
			}
			var ks []string
			for k := range set {
				ks = append(ks, k)
			}
			sort.Strings(ks)
			return strings.Join(ks, ",")
		}
		pm, pv := predsOf(c.Fn(dn+".Manager.GetMinerDistance")), predsOf(c.Fn(dn+".Manager.GetDeputyByDistance"))
		c.Check("term-start-predicates:miner=verifier", "sibling-agreement", pm == pv && pm != "", c.Fn(dn+".Manager.GetDeputyByDistance").Pos(), "GetMinerDistance decides the term-start case with {%s}, GetDeputyByDistance with {%s}", pm, pv)
		// no package-level variable is computed, at package initialisation, from a parameter the node's configuration may override later
		// (params.TermDuration / InterimDuration are assigned by ConfigFromFile.Check): such a snapshot disagrees with the functions that
		// read the live parameter
		cfgGlobals := map[*ssa.Global]bool{}
		for _, fn := range c.SrcFuncs {
			if isTestHelper(c, fn) || fn.Name() == "init" {
				continue
			}
			for _, b := range fn.Blocks {
				for _, in := range b.Instrs {
					if st, ok := in.(*ssa.Store); ok {
						if g, isG := st.Addr.(*ssa.Global); isG && g.Pkg != nil && strings.HasSuffix(g.Pkg.Pkg.Path(), "/chain/params") {
							cfgGlobals[g] = true
						}
					}
				}
			}
		}
		c.Floor("configurable-params", len(cfgGlobals), 2)
		nInit := 0
		var inits []*ssa.Function
		for _, sp := range c.SSAPkg {
			if f := sp.Func("init"); f != nil && f.Blocks != nil {
				inits = append(inits, f)
			}
		}
		sort.Slice(inits, func(i, j int) bool { return inits[i].Pkg.Pkg.Path() < inits[j].Pkg.Pkg.Path() })
		for _, fn := range inits {
			nInit++
			for _, b := range fn.Blocks {
				for _, in := range b.Instrs {
					ld, ok := in.(*ssa.UnOp)
					if !ok || ld.Op != token.MUL {
						continue
					}
					if g, isG := ld.X.(*ssa.Global); isG && cfgGlobals[g] && fn.Pkg != g.Pkg {
						c.Check("init-snapshot/"+g.Name()+"@"+core.RelPkg(fn), "determinism", false, ld.Pos(), "package %s reads params.%s while it is initialised; the configuration assigns that parameter later, so the value kept differs from what the functions reading params.%s see", core.RelPkg(fn), g.Name(), g.Name())
					}
				}
			}
		}
		c.Floor("package-initialisers-scanned", nInit, 20)
		// the parent's miner is consulted only outside the term-start / height-1 case, in both rotation functions
		snap := c.FuncObj(dn + ".IsRewardBlock")
		for _, spec := range []string{dn + ".Manager.GetMinerDistance", dn + ".Manager.GetDeputyByDistance"} {
			fn := c.Fn(spec)
			parentMiner := fn.Params[2]
			// the special-case test: an If whose condition slice holds IsRewardBlock(targetHeight) or targetHeight == 1
			var special []*ssa.If
			for _, b := range fn.Blocks {
				ifi, isIf := b.Instrs[len(b.Instrs)-1].(*ssa.If)
				if !isIf {
					continue
				}
				sl := core.Slice(ifi.Cond)
				if sl[fn.Params[1]] && (core.SliceHasCall(sl, snap) || core.SliceHasIntConst(sl, 1) && core.SliceHasOp(sl, token.EQL)) && !sl[parentMiner] {
					special = append(special, ifi)
				}
			}
			c.Floor(shortFn(fn)+"/term-start-tests", len(special), 2)
			uses := 0
			okAll := true
			var bad ssa.Instruction
			var walk func(v ssa.Value, d int)
			seen := map[ssa.Value]bool{}
			walk = func(v ssa.Value, d int) {
				if seen[v] || d > 4 || v.Referrers() == nil {
					return
				}
				seen[v] = true
				for _, r := range *v.Referrers() {
					switch x := r.(type) {
					case *ssa.DebugRef:
					case *ssa.Store:
						if al, isAl := x.Addr.(*ssa.Alloc); isAl && al.Referrers() != nil {
							for _, u := range *al.Referrers() {
								if ld, isLd := u.(*ssa.UnOp); isLd {
									walk(ld, d+1)
								}
							}
						}
					case *ssa.BinOp, ssa.CallInstruction:
						uses++
						// not reachable over the "is term start" edges: every special test must have been passed on its false side
						for _, sp := range special {
							if sp.Block().Dominates(r.Block()) {
								continue
							}
							// a use before (or beside) a special-case test
							okAll = false
							bad = r
						}
						for _, sp := range special {
							if core.CanReach(sp.Block().Succs[0], r.Block(), sp.Block()) && !core.CanReach(sp.Block().Succs[1], r.Block(), sp.Block()) {
								okAll = false
								bad = r
							}
						}
					}
				}
			}
			walk(parentMiner, 0)
			where := ""
			if bad != nil {
				where = c.Pos(bad.Pos())
			}
			c.Check(shortFn(fn)+":parent-miner-only-outside-term-start", "guarded-action", okAll && uses >= 1, fn.Pos(), "%s consults the parent's miner (%d uses) only after the height-1 / first-block-of-term case has been decided; offending use: %s", shortFn(fn), uses, where)
		}
	})

	c.Clause("C13.5", "round length and rotation are computed over one list: GetDeputiesCount (the number of slots in a round), GetMinerDistance and GetDeputyByDistance (who owns a slot) all answer from GetDeputiesByHeight(height, true), the term's node list cut to DeputyCount (the rule of C03.6, evaluated here as well)")
	c.Run("one-deputy-set", func() { oneDeputySet(c) })

	c.Clause("C13.6", "rank is position: NewTermRecord refuses a deputy list in which some node's Rank differs from its index (the miner computes distances from ranks, the verifier indexes the list)")
	c.Run("rank-is-index", func() { c13RankIsIndex(c) })
	c.Clause("C13.7", "one slot length: the miner rotates by the configured timeout as it is — every write of Miner.timeoutTime is a plain read of MineConfig.Timeout and that field, unmodified, is what GetNextMineWindow gets")
	c.Run("slot-length-unmodified", func() { c13SlotLengthUnmodified(c) })

	c.NotDecidedf("slot arithmetic is NOT decided: uniqueness of the in-turn deputy per instant, rotation by rank (GetDeputyByDistance), the modulo/window computation in GetCorrectMiner, that GetNextMineWindow is the earliest unfinished slot and agrees with GetCorrectMiner at window boundaries — these quantify over integers and deputy tables")
	c.NotDecidedf("that the miner loop wakes up inside its own window (timers, wall clock), and the one-second tolerance of verifyTime")
	c.NotDecidedf("writes to the header through packages outside the scanned scope (storage, RLP reflection, logging) — they are handed values or decode into fresh objects; stated as trusted base, not decided")
}

// c13HeaderImmutable is clause C13.2 (the checked header fields are not changed between the check and the signature); evaluated under
// C01.7 as well: the block is executed with the header's time, so a time written after execution makes the miner's result differ from
// what every validator computes from the sealed header.
func c13HeaderImmutable(c *core.Ctx) {
	const cons = "chain/consensus"
	hdr := func(f string) *types.Var { return c.FieldVar("chain/types.Header", f) }
	checked := []string{"Time", "MinerAddress", "Height", "ParentHash"}
	_ = hdr
	var fields []*types.Var
	for _, f := range checked {
		fields = append(fields, hdr(f))
	}
	allowed := []string{
		"(*chain/consensus.BlockAssembler).PrepareHeader", // builds the header, before the check
		"(*chain/types.Header).DecodeRLP",                 // codec, into the header being decoded
		"(*chain/types.Header).UnmarshalJSON",             // generated codec
		"(*chain.Genesis).ToBlock",                        // genesis header
	}
	writers := map[*ssa.Function]bool{}
	for _, f := range fields {
		sites := closedWriters(c, "Header."+f.Name(), allowed, fieldStores(c, f))
		for _, s := range sites {
			writers[core.Outer(s.Fn)] = true
		}
		c.Floor("Header."+f.Name()+"-writers", len(sites), 3)
	}
	ss := structStores(c, c.Named("chain/types.Header"))
	c.Check("Header:no-whole-struct-store", "who-may-write", len(ss) == 0, token.NoPos, "no `*h = Header{...}` through a pointer that is not a fresh local (%d found)", len(ss))

	// what can run below DPoVP.MineBlock once the header has been prepared, up to and including the assembler call (which signs)
	mine := c.Fn(cons + ".DPoVP.MineBlock")
	pcs := core.CallsIn(mine, c.Method(cons+".BlockAssembler", "PrepareHeader"))
	asms := core.CallsIn(mine, c.Method(cons+".BlockAssembler", "MineBlock"))
	if len(pcs) != 1 || len(asms) != 1 {
		c.Undecided("MineBlock:window", "write-set", mine.Pos(), "needs exactly one PrepareHeader and one assembler.MineBlock call")
		return
	}
	byName := methodIndex(c)
	var roots []*ssa.Function
	for _, ci := range core.AllCalls(mine) {
		if ci == pcs[0] || !core.ReachableAfter(pcs[0], ci) {
			continue
		}
		if ci != asms[0] && core.ReachableAfter(asms[0], ci) {
			continue // after the block has been signed
		}
		if _, isDefer := ci.(*ssa.Defer); isDefer {
			continue
		}
		roots = append(roots, calleeFuncs(byName, ci)...)
	}
	scope := func(fn *ssa.Function) bool {
		rel := core.RelPkg(fn)
		if isTestHelper(c, fn) {
			return false
		}
		// the engine, execution, accounts, VM, block types, pool and deputy table; logging, metrics, storage and the RLP reflection layer are
		// leaves (they are handed values, never the *Header under construction)
		for _, p := range []string{"chain/consensus", "chain/transaction", "chain/account", "chain/vm", "chain/types", "chain/txpool", "chain/deputynode", "chain/params", "common/crypto", "common/merkle"} {
			if rel == p || strings.HasPrefix(rel, p+"/") {
				return true
			}
		}
		return false
	}
	r := reachBelow(c, roots, scope)
	c.Floor("functions-below-MineBlock-after-prepare", len(r), 150)
	for _, must := range []string{"chain/transaction.TxProcessor.ApplyTxs", cons + ".BlockAssembler.Finalize", cons + ".BlockAssembler.Seal", cons + ".SignBlock", "chain/types.NewBlock", "chain/transaction.NewEVMContext"} {
		c.CheckTrivial("reach-control/"+must[strings.LastIndex(must, "/")+1:], "positive-control", r[c.Fn(must)], token.NoPos, "%s must be in the computed reach set (otherwise the write-set scan is vacuous)", must)
	}
	var bad []string
	for w := range writers {
		if r[w] {
			bad = append(bad, core.FuncName(w))
		}
	}
	sort.Strings(bad)
	c.Check("no-writer-of-checked-fields-below-MineBlock", "write-set", len(bad) == 0, asms[0].Pos(),
		"no function that stores into Header.Time/MinerAddress/Height/ParentHash may run between PrepareHeader and the signature (%d functions scanned; offenders: %s)", len(r), strings.Join(bad, ", "))
	// the same scan, per store, for every function in the reach set (a new writer shows up here with its position)
	n := 0
	for fn := range r {
		for _, s := range fieldStoresInW3(fn, fields...) {
			n++
			c.Check("store-below-MineBlock:"+shortFn(fn)+"#"+s.Field.Name(), "write-set", false, s.St.Pos(), "%s stores into Header.%s and can run between PrepareHeader and the signature", shortFn(fn), s.Field.Name())
		}
	}
	c.Note("C13.2: %d functions may run below DPoVP.MineBlock between PrepareHeader and the signature; %d stores into checked header fields among them", len(r), n)

	// Seal: the sealed header is the given header or its Copy(), and Seal stores nothing but execution products into it
	seal := c.Fn(cons + ".BlockAssembler.Seal")
	hset := core.Derived(seal.Params[1])
	for _, cp := range core.CallsIn(seal, c.Method("chain/types.Header", "Copy")) {
		if hset[cp.Common().Args[0]] {
			for v := range core.Derived(cp.Value()) {
				hset[v] = true
			}
		}
	}
	{
		products := map[string]bool{"VersionRoot": true, "LogRoot": true, "TxRoot": true, "GasUsed": true, "DeputyRoot": true}
		st := c.Struct("chain/types.Header")
		var all []*types.Var
		for i := 0; i < st.NumFields(); i++ {
			all = append(all, st.Field(i))
		}
		k := 0
		var walk func(fn *ssa.Function)
		walk = func(fn *ssa.Function) {
			for _, s := range fieldStoresInW3(fn, all...) {
				k++
				base := s.St.Addr.(*ssa.FieldAddr).X
				c.Check("Seal:store#"+s.Field.Name(), "write-set", hset[base] && products[s.Field.Name()], s.St.Pos(),
					"Seal may only store execution products, and only into the header it seals (field %s)", s.Field.Name())
			}
			for _, a := range fn.AnonFuncs {
				walk(a)
			}
		}
		walk(seal)
		c.Floor("Seal/header-stores", k, 5)
		nb := core.CallsIn(seal, c.FuncObj("chain/types.NewBlock"))
		okNB := len(nb) == 1 && hset[nb[0].Common().Args[0]]
		if okNB {
			d := core.Derived(nb[0].Value())
			for _, ret := range core.Returns(seal) {
				if !d[core.RetVal(ret, 0)] {
					okNB = false
				}
			}
		}
		c.Check("Seal:returns NewBlock(header or header.Copy())", "value-flow", okNB, seal.Pos(), "the sealed block carries the checked header (or its field-by-field copy)")
	}
	// Header.Copy returns a fresh cell initialised from the receiver
	cpFn := c.Fn("chain/types.Header.Copy")
	okFresh := len(core.Returns(cpFn)) > 0
	for _, ret := range core.Returns(cpFn) {
		al, isAl := ret.Results[0].(*ssa.Alloc)
		if !isAl {
			okFresh = false
			continue
		}
		init := false
		for _, ref := range *al.Referrers() {
			if st, isSt := ref.(*ssa.Store); isSt && st.Addr == al {
				if ld, isLd := st.Val.(*ssa.UnOp); isLd && ld.Op == token.MUL && ld.X == cpFn.Params[0] {
					init = true
				}
			}
		}
		if !init {
			okFresh = false
		}
	}
	c.Check("Header.Copy:fresh cell ← *h", "value-flow", okFresh, cpFn.Pos(), "Copy returns a new Header initialised with every field of the receiver")
	nbFn := c.Fn("chain/types.NewBlock")
	okHdr := false
	for _, s := range fieldStoresInW3(nbFn, c.FieldVar("chain/types.Block", "Header")) {
		okHdr = s.St.Val == nbFn.Params[0]
	}
	c.Check("NewBlock:Header←header param", "value-flow", okHdr, nbFn.Pos(), "NewBlock keeps the header pointer it is given")

	// BlockAssembler.MineBlock: executes and seals the checked header, signs the hash of the sealed block, then only adds the signature
	am := c.Fn(cons + ".BlockAssembler.MineBlock")
	sealObj := c.Method(cons+".BlockAssembler", "Seal")
	sign := c.FuncObj(cons + ".SignBlock")
	seals := core.CallsIn(am, sealObj)
	signs := core.CallsIn(am, sign)
	okAM := len(seals) == 1 && len(signs) == 1
	if okAM {
		okAM = seals[0].Common().Args[1] == am.Params[1] && core.Dominates(seals[0], signs[0]) &&
			sliceCallOn(core.Slice(signs[0].Common().Args[0]), c.Method("chain/types.Block", "Hash"), seals[0].Value())
		for _, g := range core.CallsIn(am, c.Method("chain/transaction.TxProcessor", "ApplyTxs")) {
			if g.Common().Args[1] != am.Params[1] || !core.Dominates(g, seals[0]) {
				okAM = false
			}
		}
		d := core.Derived(seals[0].Value())
		for _, ret := range core.Returns(am) {
			if v := core.RetVal(ret, 0); !core.IsNilConst(v) && !d[v] {
				okAM = false
			}
		}
	}
	c.Check("assembler.MineBlock:Seal(checked header)≺SignBlock(sealed.Hash)", "order", okAM, am.Pos(), "the block that is signed and returned is the sealed copy of the checked header")
	heeded(c, am, sign, core.ErrNonNil, 1, nil)
	if okAM {
		st := c.Struct("chain/types.Header")
		var all []*types.Var
		for i := 0; i < st.NumFields(); i++ {
			all = append(all, st.Field(i))
		}
		sig := core.ResultValues(signs[0])[0]
		for _, s := range fieldStoresInW3(am, all...) {
			ok := s.Field.Name() == "SignData" && sig != nil && core.Derived(sig)[s.St.Val] && core.Dominates(signs[0], s.St)
			c.Check("assembler.MineBlock:store#"+s.Field.Name(), "write-set", ok, s.St.Pos(), "after sealing, the only header store is SignData ← SignBlock's result")
		}
	}
}
