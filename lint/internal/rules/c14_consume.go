package rules

import (
	"go/constant"
	"go/token"
	"go/types"
	"reflect"
	"sort"

	"golang.org/x/tools/go/ssa"

	"verif/lint/internal/core"
)

// c14Consume: clause C14.8 — a custom decoder consumes the value it decodes.
//
// rlp.Stream.Kind() reads the header of the next value and caches it; a DecodeRLP that returns nil after Kind() alone leaves that header
// cached, and the next read on the stream takes it for its own. That is harmless only when nothing follows in the enclosing list
// (ListEnd drops the cache). So every DecodeRLP method either consumes on every successful path, or its type is decoded only where nothing
// can follow: as the last field of every struct that holds it, and, where a decoder function decodes it by hand, behind a size test that
// keeps the empty case away.
func c14Consume(c *core.Ctx) {
	c.Clause("C14.8", "a custom decoder consumes the value it decodes: every DecodeRLP method calls a consuming Stream method on each successful path, or (it returns on an empty value after Kind() alone) its type is the last RLP field of every struct that holds it and every hand-written Stream.Decode into it is kept away from the empty case by a test of the size Kind() reported")
	c.Run("decoders-consume", func() {
		stream := c.Named("common/rlp.Stream")
		consuming := map[string]bool{"Bytes": true, "Raw": true, "Uint": true, "Bool": true, "List": true, "ListEnd": true, "Decode": true}
		isStreamCall := func(ci ssa.CallInstruction, names map[string]bool) bool {
			o := core.CalleeObj(ci)
			if o == nil || !names[o.Name()] {
				return false
			}
			rn := recvNamed(o)
			return rn != nil && types.Identical(rn.Type(), stream)
		}
		nDec := 0
		var lazy []*types.Named
		lazyFn := map[*types.Named]*ssa.Function{}
		for _, fn := range c.SrcFuncs {
			if fn.Name() != "DecodeRLP" || fn.Signature.Recv() == nil || isTestHelper(c, fn) || fn.Blocks == nil {
				continue
			}
			nDec++
			var ps []ssa.Instruction
			for _, ci := range core.AllCalls(fn) {
				if isStreamCall(ci, consuming) {
					ps = append(ps, ci)
				}
			}
			if len(skippingReturns(fn, ps, nil)) == 0 {
				continue
			}
			rt := fn.Signature.Recv().Type()
			if p, ok := rt.(*types.Pointer); ok {
				rt = p.Elem()
			}
			if named, ok := rt.(*types.Named); ok {
				lazy = append(lazy, named)
				lazyFn[named] = fn
			}
		}
		c.Floor("DecodeRLP-methods", nDec, 6)
		sort.Slice(lazy, func(i, j int) bool { return lazy[i].String() < lazy[j].String() })
		isLazy := func(t types.Type) *types.Named {
			for i := 0; i < 3; i++ {
				if p, ok := t.(*types.Pointer); ok {
					t = p.Elem()
					continue
				}
				break
			}
			for _, l := range lazy {
				if types.Identical(t, l) {
					return l
				}
			}
			return nil
		}
		for _, l := range lazy {
			name := l.Obj().Name()
			// (a) last RLP field of every struct that holds it
			nHold := 0
			for _, pkg := range c.Pkgs {
				sc := pkg.Types.Scope()
				for _, n := range sc.Names() {
					tn, ok := sc.Lookup(n).(*types.TypeName)
					if !ok {
						continue
					}
					st, ok := tn.Type().Underlying().(*types.Struct)
					if !ok {
						continue
					}
					last := -1
					for i := 0; i < st.NumFields(); i++ {
						if reflect.StructTag(st.Tag(i)).Get("rlp") != "-" && st.Field(i).Exported() {
							last = i
						}
					}
					for i := 0; i < st.NumFields(); i++ {
						if isLazy(st.Field(i).Type()) != l || reflect.StructTag(st.Tag(i)).Get("rlp") == "-" {
							continue
						}
						nHold++
						c.Check(name+":last-field-of/"+tn.Pkg().Name()+"."+tn.Name(), "shape", i == last, st.Field(i).Pos(), "%s.DecodeRLP returns on an empty value without consuming it; in %s.%s the field %s must be the last RLP field (something decoded after it would read the cached empty-list header)", name, tn.Pkg().Name(), tn.Name(), st.Field(i).Name())
					}
				}
			}
			// (b) hand-written decodes into it sit behind a size test
			kindM := map[string]bool{"Kind": true}
			nHand := 0
			for _, fn := range c.SrcFuncs {
				if isTestHelper(c, fn) || fn == lazyFn[l] {
					continue
				}
				for _, ci := range core.AllCalls(fn) {
					if !isStreamCall(ci, map[string]bool{"Decode": true}) {
						continue
					}
					a := c4Args(ci)
					if len(a) != 1 {
						continue
					}
					v := a[0]
					if mi, ok := v.(*ssa.MakeInterface); ok {
						v = mi.X
					}
					if isLazy(v.Type()) != l {
						continue
					}
					nHand++
					guarded := false
					for _, b := range fn.Blocks {
						ifi := ifOf(b)
						if ifi == nil || !b.Dominates(ci.Block()) || b == ci.Block() {
							continue
						}
						cmp, ok := ifi.Cond.(*ssa.BinOp)
						if !ok {
							continue
						}
						k, isK := cmp.Y.(*ssa.Const)
						if !isK || k.Value == nil || k.Value.Kind() != constant.Int || constant.Sign(k.Value) != 0 {
							continue
						}
						fromKind := false
						for w := range core.Slice(cmp.X) {
							if kc, ok := w.(ssa.CallInstruction); ok && isStreamCall(kc, kindM) {
								fromKind = true
							}
						}
						if !fromKind {
							continue
						}
						emptyEdge := -1
						switch cmp.Op {
						case token.LEQ, token.EQL:
							emptyEdge = 0
						case token.GTR, token.NEQ:
							emptyEdge = 1
						}
						if emptyEdge >= 0 && !core.CanReach(b.Succs[emptyEdge], ci.Block(), b) && b.Succs[emptyEdge] != ci.Block() {
							guarded = true
						}
					}
					c.Check(name+":hand-decode-behind-size-test@"+shortFn(fn), "guarded-action", guarded, ci.Pos(), "%s decodes a %s by hand; %s.DecodeRLP leaves an empty value in the stream, so the call must be dominated by a test of the size Kind() reported that keeps the empty case away", shortFn(fn), name, name)
				}
			}
			c.Note("%s.DecodeRLP can return without consuming (empty value): held by %d struct field(s), decoded by hand at %d site(s)", name, nHold, nHand)
		}
		c.Note("DecodeRLP methods: %d, returning on an empty value without consuming: %d", nDec, len(lazy))
	})

	c.Clause("C14.9", "lookup tables indexed by a byte cover every byte: an index into a fixed-size array that comes from a uint8/uint16/int8/int16 value (through conversions only) is in range for every value of that type, or a dominating comparison with a constant keeps the other values away — decoding arbitrary text or bytes must not end in an index-out-of-range panic")
	c.Run("byte-indexed-tables", func() {
		n, nOK := 0, 0
		seq := map[string]int{}
		// index values that are narrower than their type by construction (confirmed by reading)
		exempt := map[string]string{
			"(*trie.Trie).tryGet":          "nibble of a hex key: every key reaches the trie through keybytesToHex (values 0..16; C17.3 checks the conversion at the three entry points)",
			"(*trie.Trie).insert":          "nibble of a hex key (see tryGet)",
			"(*trie.Trie).delete":          "nibble of a hex key (see tryGet)",
			"trie.get":                     "nibble of a hex key: VerifyProof converts the key with keybytesToHex before the walk",
			"(*cloudflare.curvePoint).Mul": "2-bit window of the scalar (value & 3 computed two lines above in the vendored bn256 code)",
		}
		for _, fn := range c.SrcFuncs {
			if isTestHelper(c, fn) {
				continue
			}
			for _, s := range narrowIndexSites(fn) {
				n++
				name := shortFn(fn)
				if why, ex := exempt[name]; ex && !s.Guards {
					c.CheckTrivial("table-index@"+name+"/exempt", "bounds", true, s.Instr.Pos(), "exempt: %s", why)
					continue
				}
				seq[name]++
				if c.Check("table-index@"+name+seqSuffix(seq[name]), "bounds", s.Guards, s.Instr.Pos(), "%s indexes an array of %d elements with a value of type %s, which has more values than that, and no dominating comparison with a constant keeps them away", name, s.Len, s.Range) {
					nOK++
				}
			}
		}
		c.Note("array index expressions with a narrow-typed index larger than the array: %d (%d guarded)", n, nOK)
	})
}

// c14Narrow: clause C14.10.
func c14Narrow(c *core.Ctx) {
	c.Clause("C14.10", "marshalers do not truncate: in the text / JSON / RLP encoders of the repository's own types (MarshalText, MarshalJSON, EncodeRLP) no integer is converted to a narrower integer type on its way into the output — a value that does not fit is written modulo 2^n and decodes to a different value")
	c.Run("no-narrowing-in-encoders", func() {
		width := func(t types.Type) (int, bool) {
			b, ok := t.Underlying().(*types.Basic)
			if !ok || b.Info()&types.IsInteger == 0 {
				return 0, false
			}
			switch b.Kind() {
			case types.Int8, types.Uint8:
				return 8, true
			case types.Int16, types.Uint16:
				return 16, true
			case types.Int32, types.Uint32:
				return 32, true
			case types.Int, types.Uint, types.Int64, types.Uint64, types.Uintptr:
				return 64, true
			}
			return 0, false
		}
		nEnc, nConv := 0, 0
		seq := map[string]int{}
		for _, fn := range c.SrcFuncs {
			if isTestHelper(c, fn) || fn.Signature.Recv() == nil {
				continue
			}
			switch fn.Name() {
			case "MarshalText", "MarshalJSON", "EncodeRLP":
			default:
				continue
			}
			nEnc++
			for _, b := range fn.Blocks {
				for _, in := range b.Instrs {
					cv, ok := in.(*ssa.Convert)
					if !ok {
						continue
					}
					if _, isK := cv.X.(*ssa.Const); isK {
						continue
					}
					from, ok1 := width(cv.X.Type())
					to, ok2 := width(cv.Type())
					if !ok1 || !ok2 {
						continue
					}
					nConv++
					if to >= from {
						continue
					}
					name := shortFn(fn)
					seq[name]++
					c.Check("narrowing@"+name+seqSuffix(seq[name]), "value-range", false, cv.Pos(), "%s converts a %s to the narrower %s while encoding", name, cv.X.Type(), cv.Type())
				}
			}
		}
		c.Floor("encoders-scanned", nEnc, 30)
		c.Floor("integer-conversions-in-encoders", nConv, 1)
	})
}
