package rules

import (
	"fmt"
	"go/types"

	"golang.org/x/tools/go/ssa"

	"verif/lint/internal/core"
)

// condReverter recognises the helper form of the revert idiom, `func h(..., snapshot, ..., err) { if err != nil { Revert(snapshot); ... } }`:
// sf has an error parameter and calls one of revM with an argument derived from another parameter, and no return of sf is reachable from
// its entry around that call once the `err == nil` edges are removed. It returns the indices of the two parameters in sf.Params.
func condReverter(sf *ssa.Function, revM ...*types.Func) (snapIdx, errIdx int, ok bool) {
	if sf == nil || sf.Blocks == nil || !core.InRepo(sf) {
		return 0, 0, false
	}
	for ei, pe := range sf.Params {
		if !core.IsErrorType(pe.Type()) {
			continue
		}
		tests := core.TestsOf(pe, core.ErrNonNil)
		if len(tests) == 0 {
			continue
		}
		cut := map[[2]*ssa.BasicBlock]bool{}
		for _, t := range tests {
			if t.OK != t.Fail {
				cut[[2]*ssa.BasicBlock{t.If.Block(), t.OK}] = true
			}
		}
		for _, rv := range core.CallsIn(sf, revM...) {
			a := rv.Common().Args
			if len(a) == 0 {
				continue
			}
			si := -1
			for i, ps := range sf.Params {
				if i != ei && (core.Derived(ps)[a[len(a)-1]] || a[len(a)-1] == ssa.Value(ps)) {
					si = i
				}
			}
			if si < 0 {
				continue
			}
			r := core.ReachCutAvoid(sf.Blocks[0], cut, map[*ssa.BasicBlock]bool{rv.Block(): true})
			leak := false
			for _, ret := range core.Returns(sf) {
				if ret.Block() != sf.Recover && r[ret.Block()] {
					leak = true
				}
			}
			if !leak {
				return si, ei, true
			}
		}
	}
	return 0, 0, false
}

// condRevertCall: ci calls a conditional reverter; returns the snapshot argument and the error argument of the call.
func condRevertCall(ci ssa.CallInstruction, revM ...*types.Func) (snap, errv ssa.Value, ok bool) {
	if _, isDefer := ci.(*ssa.Defer); isDefer {
		return nil, nil, false
	}
	if _, isGo := ci.(*ssa.Go); isGo {
		return nil, nil, false
	}
	sf := core.StaticFn(ci)
	si, ei, is := condReverter(sf, revM...)
	if !is {
		return nil, nil, false
	}
	a := ci.Common().Args
	if si >= len(a) || ei >= len(a) {
		return nil, nil, false
	}
	return a[si], a[ei], true
}

func valKey(v ssa.Value) string { return fmt.Sprintf("covered:%p", v) }
