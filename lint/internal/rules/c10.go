package rules

import (
	"go/constant"
	"go/token"
	"go/types"
	"sort"
	"strings"

	"golang.org/x/tools/go/ssa"

	"verif/lint/internal/core"
)

func init() { register("C10", c10) }

// implementersOf lists the non-test named types of the repository that implement the interface.
func implementersOf(c *core.Ctx, iface *types.Named) []string {
	it, ok := iface.Underlying().(*types.Interface)
	if !ok {
		return nil
	}
	var out []string
	for _, pk := range c.Pkgs {
		rel := strings.TrimPrefix(strings.TrimPrefix(pk.PkgPath, core.ModPath), "/")
		if strings.HasPrefix(rel, "chain/testchain") || strings.Contains(rel, "testutil") || strings.HasSuffix(rel, "/testify") {
			continue
		}
		sc := pk.Types.Scope()
		for _, n := range sc.Names() {
			tn, ok := sc.Lookup(n).(*types.TypeName)
			if !ok || tn.IsAlias() {
				continue
			}
			if _, isI := tn.Type().Underlying().(*types.Interface); isI {
				continue
			}
			if types.Implements(tn.Type(), it) || types.Implements(types.NewPointer(tn.Type()), it) {
				if f := c.Fset.Position(tn.Pos()).Filename; strings.HasSuffix(f, "_for_test.go") {
					continue
				}
				out = append(out, rel+"."+tn.Name())
			}
		}
	}
	sort.Strings(out)
	return out
}

// countsFromZero: idx is the index of a `for i, x := range list` (or an equivalent counting loop): it starts at 0 and advances by
// exactly 1 per iteration.
// go/ssa emits two shapes: rangeindex (phi starts at -1, the body uses phi+1) and a plain for loop (phi starts at 0, body uses phi).
func countsFromZero(idx ssa.Value) bool {
	switch x := idx.(type) {
	case *ssa.BinOp: // rangeindex: idx = phi + 1, phi = [-1, idx]
		if x.Op != token.ADD || !intConstIs(x.Y, 1) {
			return false
		}
		phi, ok := x.X.(*ssa.Phi)
		if !ok || len(phi.Edges) < 2 {
			return false
		}
		init := 0
		for _, e := range phi.Edges {
			switch {
			case intConstIs(e, -1):
				init++
			case e == idx:
			default:
				return false
			}
		}
		return init == 1
	case *ssa.Phi: // for i := 0; …; i++
		init := 0
		for _, e := range x.Edges {
			if intConstIs(e, 0) {
				init++
				continue
			}
			b, ok := e.(*ssa.BinOp)
			if !ok || b.Op != token.ADD || b.X != idx || !intConstIs(b.Y, 1) {
				return false
			}
		}
		return init == 1
	}
	return false
}

func c10(c *core.Ctx) {
	const cons = "chain/consensus"
	blk := func(m string) *types.Func { return c.Method("chain/types.Block", m) }

	// ------------------------------------------------------------------------------------------------------------------
	c.Clause("C10.1", "miner and validator derive the deputies of a snapshot block identically: LoadTopCandidates has exactly the two call sites Seal and verifyDeputy, both pass the block's ParentHash, both run exactly on the IsSnapshotBlock(own height) branch; Seal puts the loaded list into the body and writes DeputyRoot from that same list into the header of the block it returns; GetCandidatesTop(hash) answers with the Top of the block looked up by that hash")
	var ltcSites []core.CallSite
	c.Run("sibling-agreement", func() {
		ltc := c.Method(cons+".CandidateLoader", "LoadTopCandidates")
		snap := c.FuncObj("chain/deputynode.IsSnapshotBlock")
		ltcSites = closedCallers(c, "LoadTopCandidates", []string{"(*chain/consensus.BlockAssembler).Seal", "chain/consensus.verifyDeputy"}, ltc)
		c.Exactly("LoadTopCandidates/call-sites", len(ltcSites), 2)
		impl := implementersOf(c, c.Named(cons+".CandidateLoader"))
		c.Check("CandidateLoader:single-implementation", "registry", len(impl) == 1 && impl[0] == cons+".DPoVP", token.NoPos,
			"the only non-test implementation of CandidateLoader must be DPoVP (found %v); a second one must satisfy C10.2 too", impl)

		// scope: the load happens on the IsSnapshotBlock==true branch only, and always there
		scoped := func(fn *ssa.Function, site ssa.CallInstruction, name string, heightOK func(arg ssa.Value) bool) {
			snaps := core.CallsIn(fn, snap)
			c.Exactly(name+"/IsSnapshotBlock-calls", len(snaps), 1)
			onlyThere, alwaysThere, hOK := false, false, false
			for _, g := range snaps {
				if len(g.Common().Args) == 1 && heightOK(g.Common().Args[0]) {
					hOK = true
				}
				if ok, _ := core.ValueHeededBefore(g, g.Value(), core.IsFalse, site); ok {
					onlyThere = true
				}
				for _, t := range core.TestsOf(g.Value(), core.IsFalse) {
					// t.OK = successor taken when the height is a snapshot height
					r := reachAvoiding(t.OK, map[*ssa.BasicBlock]bool{site.Block(): true})
					miss := false
					for _, ret := range core.Returns(fn) {
						if r[ret.Block()] && ret.Block() != fn.Recover {
							miss = true
						}
					}
					if !miss && t.OK != t.Fail {
						alwaysThere = true
					}
				}
			}
			c.Check(name+":IsSnapshotBlock(own height)", "value-flow", hOK, fn.Pos(), "the snapshot test of %s must read the height of the block being sealed / verified", name)
			c.Check(name+":LoadTopCandidates-only-at-snapshot-height", "guard-scope", onlyThere, site.Pos(), "%s loads the candidates only on the IsSnapshotBlock branch", name)
			c.Check(name+":LoadTopCandidates-always-at-snapshot-height", "guard-scope", alwaysThere, site.Pos(), "%s cannot finish a snapshot-height block without loading the candidates", name)
		}

		// Seal
		seal := c.Fn(cons + ".BlockAssembler.Seal")
		hdr := seal.Params[1]
		var sealSite ssa.CallInstruction
		for _, s := range core.CallsIn(seal, ltc) {
			sealSite = s
		}
		if sealSite == nil {
			c.Check("Seal:LoadTopCandidates(header.ParentHash)", "value-flow", false, seal.Pos(), "Seal does not call LoadTopCandidates")
		} else {
			_, a := recvArgs(sealSite)
			sl := core.Slice(a[0])
			c.Check("Seal:LoadTopCandidates(header.ParentHash)", "value-flow", sl[hdr] && core.SliceHasField(sl, c.FieldVar("chain/types.Header", "ParentHash")), sealSite.Pos(),
				"the miner loads the candidates of the parent of the header it seals")
			scoped(seal, sealSite, "Seal", func(arg ssa.Value) bool {
				s := core.Slice(arg)
				return s[hdr] && core.SliceHasField(s, c.FieldVar("chain/types.Header", "Height"))
			})
			list := core.Derived(sealSite.Value())
			// the returned block
			var retBlock ssa.Value
			for _, r := range core.Returns(seal) {
				if r.Block() != seal.Recover {
					retBlock = core.RetVal(r, 0)
				}
			}
			retD := map[ssa.Value]bool{}
			if retBlock != nil {
				retD = core.Derived(retBlock)
			}
			// body
			bodyOK := false
			for _, ci := range core.CallsIn(seal, blk("SetDeputyNodes")) {
				recv, args := recvArgs(ci)
				if len(args) == 1 && list[args[0]] && retD[recv] && core.Dominates(sealSite, ci) {
					bodyOK = true
				}
			}
			dnField := c.FieldVar("chain/types.Block", "DeputyNodes")
			for _, b := range seal.Blocks {
				for _, in := range b.Instrs {
					if st, ok := in.(*ssa.Store); ok && core.FieldOf(st.Addr) == dnField && list[st.Val] && retD[st.Addr.(*ssa.FieldAddr).X] {
						bodyOK = true
					}
				}
			}
			c.Check("Seal:body.DeputyNodes←loaded-list", "value-flow", bodyOK, sealSite.Pos(), "the list returned by LoadTopCandidates is what Seal puts into the body of the block it returns")
			// the values that are the Header of the returned block: the header argument of the NewBlock call that made it, or a value
			// stored into its Header field
			hdrOfRet := map[ssa.Value]bool{}
			for _, nb := range core.CallsIn(seal, c.FuncObj("chain/types.NewBlock")) {
				if retBlock != nil && nb.Value() != nil && core.Derived(nb.Value())[retBlock] && len(nb.Common().Args) > 0 {
					for d := range core.Derived(nb.Common().Args[0]) {
						hdrOfRet[d] = true
					}
				}
			}
			if retBlock != nil {
				for _, st := range fieldStoresInto(retBlock, nil) {
					if core.FieldOf(st.Addr) == c.FieldVar("chain/types.Block", "Header") {
						for d := range core.Derived(st.Val) {
							hdrOfRet[d] = true
						}
					}
				}
			}
			nbFn := c.Fn("chain/types.NewBlock")
			nbOK := false
			for _, b := range nbFn.Blocks {
				for _, in := range b.Instrs {
					if st, ok := in.(*ssa.Store); ok && core.FieldOf(st.Addr) == c.FieldVar("chain/types.Block", "Header") && st.Val == nbFn.Params[0] {
						nbOK = true
					}
				}
			}
			c.CheckTrivial("NewBlock:Header←first-argument", "accessor-returns-field", nbOK, nbFn.Pos(), "NewBlock keeps the header pointer it is given (so a later write to that header is a write to the block's header)")
			// root
			rootField := c.FieldVar("chain/types.Header", "DeputyRoot")
			mroot := c.Method("chain/types.DeputyNodes", "MerkleRootSha")
			nStores, rootOK, hdrOK := 0, true, true
			for _, b := range seal.Blocks {
				for _, in := range b.Instrs {
					st, ok := in.(*ssa.Store)
					if !ok || core.FieldOf(st.Addr) != rootField {
						continue
					}
					nStores++
					fromList := false
					for v := range core.Slice(st.Val) {
						if ci, is := isCallOf(v, mroot); is {
							if recv, _ := recvArgs(ci); list[recv] {
								fromList = true
							}
						}
					}
					if !fromList {
						rootOK = false
					}
					// the header written is the header of the returned block
					if !hdrOfRet[st.Addr.(*ssa.FieldAddr).X] {
						hdrOK = false
					}
					if !core.Dominates(sealSite, st) {
						rootOK = false
					}
				}
			}
			c.Check("Seal:DeputyRoot←root(loaded-list)", "value-flow", nStores >= 1 && rootOK, sealSite.Pos(), "DeputyRoot is the Merkle root of the very list put into the body (%d store(s))", nStores)
			c.Check("Seal:DeputyRoot-on-returned-header", "value-flow", nStores >= 1 && hdrOK, sealSite.Pos(), "the header that receives DeputyRoot is the header of the block Seal returns")
			// and on the snapshot branch both happen always: no return reachable from the load without the root store
			var rootBlocks = map[*ssa.BasicBlock]bool{}
			for _, b := range seal.Blocks {
				for _, in := range b.Instrs {
					if st, ok := in.(*ssa.Store); ok && core.FieldOf(st.Addr) == rootField {
						rootBlocks[b] = true
					}
				}
			}
			always := len(rootBlocks) > 0
			if !rootBlocks[sealSite.Block()] {
				r := reachAvoiding(sealSite.Block(), rootBlocks)
				for _, ret := range core.Returns(seal) {
					if r[ret.Block()] {
						always = false
					}
				}
			}
			c.Check("Seal:loaded⇒DeputyRoot-written", "must-call", always, sealSite.Pos(), "once the list is loaded no exit of Seal skips writing DeputyRoot")
		}

		// verifyDeputy
		vd := c.Fn(cons + ".verifyDeputy")
		for _, s := range core.CallsIn(vd, ltc) {
			_, a := recvArgs(s)
			sl := core.Slice(a[0])
			c.Check("verifyDeputy:LoadTopCandidates(block.ParentHash)", "value-flow", sl[vd.Params[0]] && core.SliceHasCall(sl, blk("ParentHash")), s.Pos(),
				"the validator loads the candidates of the parent of the block it verifies")
			scoped(vd, s, "verifyDeputy", func(arg ssa.Value) bool {
				x := core.Slice(arg)
				return x[vd.Params[0]] && core.SliceHasCall(x, blk("Height"))
			})
		}
		accessor(c, "chain/types.Block.ParentHash", c.FieldVar("chain/types.Header", "ParentHash"))
		accessor(c, "chain/types.Block.Height", c.FieldVar("chain/types.Header", "Height"))

		// GetCandidatesTop answers from the block with the asked hash
		gct := c.Fn("store.ChainDatabase.GetCandidatesTop")
		hash := gct.Params[1]
		topF := c.FieldVar("store.CBlock", "Top")
		n := 0
		for _, r := range core.Returns(gct) {
			if r.Block() == gct.Recover {
				continue
			}
			n++
			sl := core.Slice(core.RetVal(r, 0))
			ok := false
			if core.SliceHasField(sl, topF) {
				// (a) the block was found in the unconfirmed map under that hash
				for v := range sl {
					if lk, is := v.(*ssa.Lookup); is && core.Derived(hash)[lk.Index] && core.SliceHasField(core.Slice(lk.X), c.FieldVar("store.ChainDatabase", "UnConfirmBlocks")) {
						ok = true
					}
				}
				// (b) or it is the stable block and a dominating test compared its hash with the asked one
				if !ok && core.SliceHasField(sl, c.FieldVar("store.ChainDatabase", "LastConfirm")) {
					for b := r.Block(); b != nil; b = b.Idom() {
						d := b.Idom()
						if d == nil {
							break
						}
						ifi := ifOf(d)
						if ifi == nil {
							continue
						}
						cs := core.Slice(ifi.Cond)
						bo, isB := ifi.Cond.(*ssa.BinOp)
						if isB && bo.Op == token.EQL && cs[hash] && core.SliceHasCall(cs, blk("Hash")) && core.SliceHasField(cs, c.FieldVar("store.ChainDatabase", "LastConfirm")) &&
							(d.Succs[0] == b || d.Succs[0].Dominates(b)) && edgeOnly(d, d.Succs[0]) {
							ok = true
						}
					}
				}
			}
			c.Check("GetCandidatesTop:answers-for-asked-hash#"+string(rune('a'+n-1)), "value-flow", ok, r.Pos(), "every answer of GetCandidatesTop is the Top of the block found under the asked hash")
		}
		c.Floor("GetCandidatesTop/returns", n, 2)
	})

	// ------------------------------------------------------------------------------------------------------------------
	c.Clause("C10.2", "rank and votes of a deputy come from one source: in every CandidateLoader implementation the rank handed to NewDeputyNode is the index (0,1,2,…) of the element of the GetCandidatesTop(blockHash) list cut to DeputyCount, the address is that element's address, and the votes are that element's Total — not a second read of account state")
	rankOK, votesOK, appendOK := false, false, false
	c.Run("provenance", func() {
		fn := c.Fn(cons + ".DPoVP.LoadTopCandidates")
		ndn := c.FuncObj("chain/types.NewDeputyNode")
		gct := c.Method("store/protocol.ChainDB", "GetCandidatesTop")
		calls := core.CallsIn(fn, ndn)
		c.Exactly("LoadTopCandidates/NewDeputyNode-calls", len(calls), 1)
		tops := core.CallsIn(fn, gct)
		c.Exactly("LoadTopCandidates/GetCandidatesTop-calls", len(tops), 1)
		if len(calls) != 1 || len(tops) != 1 {
			return
		}
		top := tops[0]
		_, ta := recvArgs(top)
		c.Check("LoadTopCandidates:GetCandidatesTop(blockHash)", "value-flow", len(ta) == 1 && core.Derived(fn.Params[1])[ta[0]], top.Pos(), "the list is the Top of the block whose hash the caller passed")
		call := calls[0]
		a := call.Common().Args // votes, rank, address, nodeID
		// rank = index of an element read from the list
		idx := stripConvV10(a[1])
		var elem ssa.Value // the list element `list[idx]`
		var listV ssa.Value
		for _, b := range fn.Blocks {
			for _, in := range b.Instrs {
				if u, ok := in.(*ssa.UnOp); ok {
					if s, i := elemLoad(u); s != nil && i == idx && core.Slice(s)[top.Value()] {
						elem, listV = u, s
					}
				}
			}
		}
		rankOK = elem != nil && countsFromZero(idx)
		c.Check("LoadTopCandidates:rank=index-in-top-list", "value-provenance", rankOK, call.Pos(), "the rank given to NewDeputyNode is the 0-based position of the element in the list returned by GetCandidatesTop")
		cut := false
		if listV != nil {
			dc := c.FieldVar("chain/deputynode.Manager", "DeputyCount")
			for v := range core.Slice(listV) {
				if s, ok := v.(*ssa.Slice); ok && s.Low == nil && s.High != nil && core.SliceHasField(core.Slice(s.High), dc) && core.Slice(s.X)[top.Value()] {
					cut = true
				}
			}
		}
		c.Check("LoadTopCandidates:list-cut-to-DeputyCount", "value-provenance", cut, call.Pos(), "the list is cut to its first DeputyCount entries (a prefix, so positions are kept)")
		addrOK := elem != nil && core.Slice(a[2])[elem]
		for _, ci := range sliceCallsWhere(core.Slice(a[2]), func(f *types.Func) bool { return f.Pkg() != nil && strings.HasSuffix(f.Pkg().Path(), "/chain/account") }) {
			_ = ci
			addrOK = false
		}
		c.Check("LoadTopCandidates:address=element.address", "value-provenance", addrOK, call.Pos(), "the miner address of the deputy is the address of the ranked element")
		// the account state LoadTopCandidates uses (node id; votes, see D8) is the state of the branch the block is built on: accounts are
		// taken from Manager.GetAccount, never from GetCanonicalAccount (the node's stable state: nodes with different stable heights would
		// write different deputy lists into the same snapshot block)
		gaM := c.Method("chain/account.Manager", "GetAccount")
		okAcc := true
		nAcc := 0
		for _, x := range a {
			for v := range core.Slice(x) {
				ci, isCall := v.(ssa.CallInstruction)
				if !isCall {
					continue
				}
				o := core.CalleeObj(ci)
				if o == nil || o.Pkg() == nil || !strings.HasSuffix(o.Pkg().Path(), "/chain/account") || recvNamed(o) == nil || recvNamed(o).Name() != "Manager" {
					continue
				}
				nAcc++
				if o != gaM {
					okAcc = false
				}
			}
		}
		c.Check("LoadTopCandidates:accounts-from-Manager.GetAccount", "value-provenance", okAcc && nAcc > 0, call.Pos(), "every account-manager read that feeds NewDeputyNode is Manager.GetAccount (%d reads)", nAcc)
		// votes: Total of the same element, and no read of account state in between
		totalF := c.FieldVar("store.Candidate", "Total")
		getTotal := c.Method("store.Candidate", "GetTotal")
		vs := core.Slice(a[0])
		fromElem := false
		if elem != nil {
			for v := range vs {
				if ci, is := isCallOf(v, getTotal); is {
					if recv, _ := recvArgs(ci); core.Derived(elem)[recv] {
						fromElem = true
					}
				}
				if base, f := fieldLoad(v); f == totalF && core.Derived(elem)[base] {
					fromElem = true
				}
			}
		}
		stateReads := sliceCallsWhere(vs, func(f *types.Func) bool {
			if f.Pkg() == nil {
				return false
			}
			p := f.Pkg().Path()
			if strings.HasSuffix(p, "/chain/account") {
				return true
			}
			// methods of the account interfaces
			if r := f.Type().(*types.Signature).Recv(); r != nil {
				if n, ok := r.Type().(*types.Named); ok && (n.Obj().Name() == "AccountAccessor" || n.Obj().Name() == "AccountManager") {
					return true
				}
				if _, isI := r.Type().Underlying().(*types.Interface); isI && strings.HasSuffix(p, "/chain/types") {
					return true
				}
			}
			return false
		})
		votesOK = fromElem && len(stateReads) == 0
		why := "ok"
		if !fromElem {
			why = "the votes value is not computed from the ranked element's Total"
		}
		if len(stateReads) > 0 {
			why += "; it is read from account state (" + objName(core.CalleeObj(stateReads[0])) + "), i.e. from a different state than the one that produced the order"
		}
		c.Check("LoadTopCandidates:votes=element.Total", "value-provenance", votesOK, call.Pos(), "the votes of a deputy must come from the same list element that fixed its rank: %s", why)
		// every iteration appends the node, and the appended slice is what is returned
		var app ssa.Value
		if call.Value() != nil {
			for _, b := range fn.Blocks {
				for _, in := range b.Instrs {
					if cl, ok := in.(*ssa.Call); ok {
						if bi, isB := cl.Call.Value.(*ssa.Builtin); isB && bi.Name() == "append" && len(cl.Call.Args) == 2 && core.Slice(cl.Call.Args[1])[call.Value()] && core.EveryIterationPasses(cl) {
							app = cl
						}
					}
				}
			}
		}
		if app != nil {
			for _, r := range core.Returns(fn) {
				if core.Slice(core.RetVal(r, 0))[app] {
					appendOK = true
				}
			}
		}
		c.Check("LoadTopCandidates:every-element-appended-in-order", "value-flow", appendOK, call.Pos(), "each iteration appends its deputy node to the returned list, so position i of the result carries rank i")
	})

	// ------------------------------------------------------------------------------------------------------------------
	c.Clause("C10.3", "the ranking is fed by every vote change: Manager.Save hands CandidatesRanking(newBlockHash, logs of type VotesLog) before the logs are cleared on every successful path; CandidatesRanking gives them to the Ranking of the block stored under that hash; Ranking updates the all-candidates index before updateTop (whose re-rank branches read that index); NewChainDataBase ranks the persisted candidates; needMerge(VotesLog) holds")
	c.Run("feed", func() {
		save := c.Fn("chain/account.Manager.Save")
		cr := c.Method("store/protocol.ChainDB", "CandidatesRanking")
		mustCall(c, save, cr, nil)
		votesLog := c.Const("chain/account.VotesLog")
		filter := c.MethodOpt("chain/account.LogProcessor", "filterLogsByType")
		// selectsVotes: list (a value of fn) is built by appending, out of the processor's log list, the logs whose LogType equals want
		selects := func(fn *ssa.Function, list ssa.Value, want func(sl map[ssa.Value]bool) bool) bool {
			for _, b := range fn.Blocks {
				ifi := ifOf(b)
				if ifi == nil {
					continue
				}
				bo, ok := ifi.Cond.(*ssa.BinOp)
				if !ok || bo.Op != token.EQL {
					continue
				}
				sl := core.Slice(bo)
				if !want(sl) || !core.SliceHasField(sl, c.FieldVar("chain/types.ChangeLog", "LogType")) || !core.SliceHasField(sl, c.FieldVar("chain/account.LogProcessor", "changeLogs")) {
					continue
				}
				// the equal edge leads to an append that reaches the list
				for _, in := range b.Succs[0].Instrs {
					if cl, ok := in.(*ssa.Call); ok {
						if bi, isB := cl.Call.Value.(*ssa.Builtin); isB && bi.Name() == "append" && core.Slice(list)[cl] {
							return true
						}
					}
				}
			}
			return false
		}
		for _, ci := range core.CallsIn(save, cr) {
			_, a := recvArgs(ci)
			okHash := len(a) == 2 && core.Derived(save.Params[1])[a[0]]
			okLogs := false
			if len(a) == 2 && filter == nil {
				// filterLogsByType written out in Save
				okLogs = selects(save, a[1], func(sl map[ssa.Value]bool) bool {
					for v := range sl {
						if constEquals(v, votesLog) {
							return true
						}
					}
					return false
				})
			}
			if len(a) == 2 && filter != nil {
				for v := range core.Slice(a[1]) {
					if f, is := isCallOf(v, filter); is {
						_, fa := recvArgs(f)
						if len(fa) == 1 && constEquals(fa[0], votesLog) && core.Derived(f.Value())[a[1]] {
							okLogs = true
						}
					}
				}
			}
			c.Check("Save:CandidatesRanking(newBlockHash,·)", "value-flow", okHash, ci.Pos(), "the ranking is updated for the block being saved")
			c.Check("Save:CandidatesRanking(·,filterLogsByType(VotesLog))", "value-flow", okLogs, ci.Pos(), "the ranking receives exactly the change logs of type VotesLog")
			// not after the logs were dropped
			late := false
			for _, cl := range callsLeadingTo(save, c.Method("chain/account.LogProcessor", "Clear")) {
				if core.ReachableAfter(cl, ci) {
					late = true
				}
			}
			for _, cl := range core.CallsIn(save, c.Method("chain/account.Manager", "clear"), c.Method("chain/account.Manager", "Reset")) {
				if core.ReachableAfter(cl, ci) {
					late = true
				}
			}
			c.Check("Save:CandidatesRanking-before-clear", "order", !late, ci.Pos(), "the vote logs are handed over before the manager drops its change logs")
			// the ranking reads the block's own account writes: updateTop → collectUnregisters takes the accounts dyed with this block's
			// height out of the block's account trie, so every Put of Save has happened when the ranking runs
			colU := c.Fn("store.CBlock.collectUnregisters")
			reads := core.CallsIn(colU, c.Method("store.AccountTrieDB", "Collect"))
			c.Floor("collectUnregisters/reads-the-block's-account-writes", len(reads), 1)
			puts := core.CallsIn(save, c.Method("store.AccountTrieDB", "Put"))
			c.Floor("Save/account-Puts", len(puts), 1)
			okOrd := len(puts) > 0
			for _, p := range puts {
				// no Put can still run once the ranking has run, and the ranking is not reachable without passing the loop
				if core.ReachableAfter(ci, p) || !core.ReachableAfter(p, ci) {
					okOrd = false
				}
			}
			c.Check("Save:account-Puts≺CandidatesRanking", "order", okOrd, ci.Pos(), "the accounts of the block are in its account trie before the ranking looks there for the candidates that unregistered in this block")
		}
		// filterLogsByType selects by the LogType field out of the processor's log list
		if filter != nil {
			ff := c.Fn("chain/account.LogProcessor.filterLogsByType")
			selOK := false
			for _, r := range core.Returns(ff) {
				if selects(ff, core.RetVal(r, 0), func(sl map[ssa.Value]bool) bool { return sl[ff.Params[1]] }) {
					selOK = true
				}
			}
			c.Check("filterLogsByType:selects-by-LogType", "value-flow", selOK, ff.Pos(), "filterLogsByType returns the processor's logs whose LogType equals the asked type")
		}
		// the logs the ranking gets are merged after the last producer of VotesLogs (one log per candidate: the index takes the first)
		c01FinalizeOrder(c)
		// needMerge(VotesLog)
		nm := c.Fn("chain/account.needMerge")
		// partial evaluation of needMerge for the constant VotesLog (if-chains, switches and write-once lookup tables are all evaluated)
		nmv, nmEval := core.EvalConst(nm, map[int]constant.Value{0: votesLog.Val()})
		nmOK := nmEval && nmv.Kind() == constant.Bool && constant.BoolVal(nmv)
		c.CheckTrivial("needMerge(VotesLog)=true", "registry", nmOK, nm.Pos(), "vote logs of one candidate are merged into one log per block (the ranking takes one entry per candidate from the logs)")

		// CandidatesRanking → CBlock.Ranking of the block under `hash` with the same logs
		crf := c.Fn("store.ChainDatabase.CandidatesRanking")
		rk := c.Method("store.CBlock", "Ranking")
		mustCall(c, crf, rk, nil)
		for _, ci := range core.CallsIn(crf, rk) {
			recv, a := recvArgs(ci)
			okRecv := false
			for v := range core.Slice(recv) {
				if lk, is := v.(*ssa.Lookup); is && core.Derived(crf.Params[1])[lk.Index] && core.SliceHasField(core.Slice(lk.X), c.FieldVar("store.ChainDatabase", "UnConfirmBlocks")) {
					okRecv = true
				}
			}
			c.Check("CandidatesRanking:Ranking-of-block[hash](voteLogs)", "value-flow", okRecv && len(a) == 1 && core.Derived(crf.Params[2])[a[0]], ci.Pos(),
				"the logs are ranked into the block stored under the given hash")
		}

		// Ranking: index update ≺ updateTop, both with the collected candidates, and the collected candidates carry the log's address and new value
		rf := c.Fn("store.CBlock.Ranking")
		put := c.Method("store.CandidateTrieDB", "Put")
		getAll := c.Method("store.CandidateTrieDB", "GetAll")
		writers := callsLeadingTo(rf, put)
		readers := callsLeadingTo(rf, getAll)
		c.Floor("Ranking/index-writers", len(writers), 1)
		c.Floor("Ranking/index-readers", len(readers), 1)
		ordOK := len(writers) > 0 && len(readers) > 0
		for _, r := range readers {
			dom := false
			for _, w := range writers {
				// the writer (or, for a write inside a loop, the loop it sits in) lies on every path to the reader …
				if core.Dominates(w, r) {
					dom = true
				}
				if _, h := core.LoopOf(w.Block()); h != nil && h != r.Block() && h.Dominates(r.Block()) && core.EveryIterationPasses(w) {
					dom = true
				}
				// … and no index write can still follow the read
				if core.ReachableAfter(r, w) {
					ordOK = false
				}
			}
			if !dom {
				ordOK = false
			}
		}
		c.Check("Ranking:index-update≺updateTop", "order", ordOK, rf.Pos(), "the all-candidates index is updated before the top list is recomputed from it")
		// the list a writer works on: its only argument (helper) or the slice the element it puts is read from (inline loop)
		writerList := func(w ssa.CallInstruction) ssa.Value {
			_, wa := recvArgs(w)
			if core.SameFamily(core.CalleeObj(w), put) {
				if len(wa) >= 1 {
					if sv, _ := elemLoad(wa[0]); sv != nil {
						return sv
					}
				}
				return nil
			}
			if len(wa) == 1 {
				return wa[0]
			}
			return nil
		}
		sameList := len(writers) > 0 && len(readers) > 0
		for _, r := range readers {
			_, ra := recvArgs(r)
			for _, w := range writers {
				if wl := writerList(w); len(ra) != 1 || wl == nil || (ra[0] != wl && !core.Derived(wl)[ra[0]] && !core.Derived(ra[0])[wl]) {
					sameList = false
				}
			}
		}
		// (with updateTop written out inside Ranking the reader is the GetAll call itself, which takes no list: the two list rules and the
		// per-element rule below are stated on the helper form and are not decided on such a tree)
		utInlined := c.InlinedAway("store.CBlock.updateTop")
		if utInlined {
			c.Note("updateTop was inlined into CBlock.Ranking: same-changed-list / changed-list provenance / every-candidate-put are not decided on this tree")
		} else {
			c.Check("Ranking:same-changed-list-to-index-and-top", "value-flow", sameList, rf.Pos(), "index update and top update receive the same list of changed candidates")
		}
		if len(readers) > 0 && !utInlined {
			_, ra := recvArgs(readers[0])
			okk := len(ra) == 1
			if okk {
				sl := core.Slice(ra[0])
				okk = sl[rf.Params[1]] && core.SliceHasField(sl, c.FieldVar("chain/types.ChangeLog", "Address")) && core.SliceHasField(sl, c.FieldVar("chain/types.ChangeLog", "NewVal"))
			}
			c.Check("Ranking:changed-list←(log.Address,log.NewVal)", "value-flow", okk, readers[0].Pos(), "every changed candidate is built from the address and the new value of a vote log")
		}
		// the index writer really writes every element of that list into this block's index (directly or in a same-package helper)
		putsEvery := func(f *ssa.Function, list, owner ssa.Value) bool {
			for _, ci := range core.CallsIn(f, put) {
				recv, a := recvArgs(ci)
				s, _ := elemLoad(a[0])
				rs := core.Slice(recv)
				if s != nil && (s == list || core.Derived(list)[s]) && core.EveryIterationPasses(ci) && core.SliceHasField(rs, c.FieldVar("store.CBlock", "CandidateTrieDB")) && rs[owner] {
					return true
				}
			}
			return false
		}
		dOK := len(writers) > 0
		for _, w := range writers {
			_, wa := recvArgs(w)
			if core.SameFamily(core.CalleeObj(w), put) {
				// direct: the Put sits in a loop of Ranking itself over the list handed to the top update
				okk := false
				for _, r := range readers {
					if _, ra := recvArgs(r); len(ra) == 1 && putsEvery(rf, ra[0], rf.Params[0]) {
						okk = true
					}
				}
				dOK = dOK && okk
				continue
			}
			h := core.StaticFn(w)
			wr, _ := recvArgs(w)
			if h == nil || len(wa) != 1 || len(h.Params) != 2 || wr != rf.Params[0] || !putsEvery(h, h.Params[1], h.Params[0]) {
				dOK = false
			}
		}
		c.Check("Ranking:every-changed-candidate-put-into-own-index", "value-flow", dOK || utInlined, rf.Pos(), "the index update puts every element of the changed list into the index of the block being ranked")
		// updateTop: the re-rank branches read this block's index
		ut := c.Fn("store.CBlock.updateTop")
		rank := c.Method("store.VoteTop", "Rank")
		nre := 0
		for _, ci := range core.CallsIn(ut, rank) {
			recv, a := recvArgs(ci)
			nre++
			ok := false
			for v := range core.Slice(a[1]) {
				if g, is := isCallOf(v, getAll); is {
					gr, _ := recvArgs(g)
					s := core.Slice(gr)
					if s[ut.Params[0]] && core.SliceHasField(s, c.FieldVar("store.CBlock", "CandidateTrieDB")) {
						ok = true
					}
				}
			}
			rs := core.Slice(recv)
			ok = ok && rs[ut.Params[0]] && core.SliceHasField(rs, c.FieldVar("store.CBlock", "Top"))
			c.Check("updateTop:re-rank-reads-own-index#"+string(rune('a'+nre-1)), "value-flow", ok, ci.Pos(), "a full re-rank in updateTop ranks the block's own all-candidates index into the block's own Top")
		}
		c.Floor("updateTop/re-rank-branches", nre, 2)

		// start-up (the code may live in a private helper NewChainDataBase calls on the way to every return)
		ncd := homeOf(c, c.Fn("store.NewChainDataBase"), rank)
		getC := c.Method("store.CandidateCache", "GetCandidates")
		nr := 0
		for _, ci := range core.CallsIn(ncd, rank) {
			recv, a := recvArgs(ci)
			rs := core.Slice(recv)
			if core.SliceHasCall(core.Slice(a[1]), getC) && core.SliceHasField(rs, c.FieldVar("store.ChainDatabase", "LastConfirm")) && core.SliceHasField(rs, c.FieldVar("store.CBlock", "Top")) {
				nr++
				dom := true
				for _, r := range core.Returns(ncd) {
					if r.Block() != ncd.Recover && !core.Dominates(ci, r) {
						dom = false
					}
				}
				c.Check("NewChainDataBase:Top.Rank(persisted candidates)", "must-call", dom, ci.Pos(), "every normal exit of NewChainDataBase has ranked the persisted candidates into LastConfirm.Top")
			}
		}
		c.Floor("NewChainDataBase/rank-calls", nr, 1)
	})

	// ------------------------------------------------------------------------------------------------------------------
	c.Clause("C10.4", "total order and cut: VoteTop.ranking compares Total (swap when the earlier has fewer votes) and then, only on equality, the address bytes (swap when the earlier is larger); nothing is swapped when the earlier has more votes; every Rank call is cut to max_candidate_count")
	c.Run("total-order", func() {
		fn := c.Fn("store.VoteTop.ranking")
		cands := fn.Params[2]
		totalF := c.FieldVar("store.Candidate", "Total")
		addrF := c.FieldVar("store.Candidate", "Address")
		bigCmp := c.StdFunc("math/big", "Int.Cmp")
		bytesCmp := c.StdFunc("bytes", "Compare")
		// index of the candidates element whose field f the value v is read from
		elemIdx := func(v ssa.Value, f *types.Var) ssa.Value {
			for x := range core.Slice(v) {
				if base, ff := fieldLoad(x); ff == f {
					if s, i := elemLoad(base); s == cands {
						return i
					}
				}
				if fa, ok := x.(*ssa.FieldAddr); ok && core.FieldOf(fa) == f {
					if s, i := elemLoad(fa.X); s == cands {
						return i
					}
				}
			}
			return nil
		}
		isSwap := func(b *ssa.BasicBlock, i, j ssa.Value) bool {
			toI, toJ := false, false
			for _, in := range b.Instrs {
				st, ok := in.(*ssa.Store)
				if !ok {
					continue
				}
				ia, ok := st.Addr.(*ssa.IndexAddr)
				if !ok || ia.X != cands {
					continue
				}
				s, from := elemLoad(st.Val)
				if s != cands {
					continue
				}
				if ia.Index == i && from == j {
					toI = true
				}
				if ia.Index == j && from == i {
					toJ = true
				}
			}
			return toI && toJ
		}
		votes := core.CallsIn(fn, bigCmp)
		c.Exactly("ranking/votes-comparisons", len(votes), 1)
		addrs := core.CallsIn(fn, bytesCmp)
		c.Exactly("ranking/address-comparisons", len(addrs), 1)
		if len(votes) != 1 || len(addrs) != 1 {
			return
		}
		vc, ac := votes[0], addrs[0]
		recv, va := recvArgs(vc)
		i, j := elemIdx(recv, totalF), elemIdx(va[0], totalF)
		// j runs over the positions after i
		later := false
		if i != nil && j != nil {
			if phi, ok := j.(*ssa.Phi); ok {
				for _, e := range phi.Edges {
					if b, ok := e.(*ssa.BinOp); ok && b.Op == token.ADD && b.X == i && intConstIs(b.Y, 1) {
						later = true
					}
				}
			}
		}
		c.Check("ranking:compares-Total-of-earlier-with-later", "shape", later, vc.Pos(), "the votes comparison is candidates[i].Total.Cmp(candidates[j].Total) with j ranging over the positions after i")
		// votes: swap exactly on `< 0`
		var ltIf, eqIf *ssa.If
		if refs := vc.Value().Referrers(); refs != nil {
			for _, r := range *refs {
				bo, ok := r.(*ssa.BinOp)
				if !ok || bo.X != vc.Value() || !intConstIs(bo.Y, 0) || bo.Referrers() == nil {
					continue
				}
				for _, u := range *bo.Referrers() {
					if ifi, ok := u.(*ssa.If); ok {
						switch bo.Op {
						case token.LSS:
							ltIf = ifi
						case token.EQL:
							eqIf = ifi
						}
					}
				}
			}
		}
		c.Check("ranking:fewer-votes-earlier⇒swap", "shape", later && ltIf != nil && isSwap(ltIf.Block().Succs[0], i, j) && edgeOnly(ltIf.Block(), ltIf.Block().Succs[0]), vc.Pos(),
			"when the earlier candidate has fewer votes the two are swapped (descending by votes)")
		// address comparison only on equality, swap on `> 0`
		ai, aj := elemIdx(ac.Common().Args[0], addrF), elemIdx(ac.Common().Args[1], addrF)
		var gtIf *ssa.If
		if refs := ac.Value().Referrers(); refs != nil {
			for _, r := range *refs {
				if bo, ok := r.(*ssa.BinOp); ok && bo.Op == token.GTR && bo.X == ac.Value() && intConstIs(bo.Y, 0) && bo.Referrers() != nil {
					for _, u := range *bo.Referrers() {
						if ifi, ok := u.(*ssa.If); ok {
							gtIf = ifi
						}
					}
				}
			}
		}
		c.Check("ranking:tie⇒larger-address-earlier⇒swap", "shape", later && ai == i && aj == j && gtIf != nil && isSwap(gtIf.Block().Succs[0], i, j) && edgeOnly(gtIf.Block(), gtIf.Block().Succs[0]), ac.Pos(),
			"on equal votes the candidate with the larger address moves back (ascending by address)")
		onlyOnEq := eqIf != nil && ltIf != nil && (eqIf.Block().Succs[0] == ac.Block() || eqIf.Block().Succs[0].Dominates(ac.Block())) && edgeOnly(eqIf.Block(), eqIf.Block().Succs[0]) &&
			(ltIf.Block().Succs[1] == eqIf.Block() || ltIf.Block().Succs[1].Dominates(eqIf.Block()))
		c.Check("ranking:address-compared-only-on-equal-votes", "shape", onlyOnEq, ac.Pos(), "the address comparison is reached only through the votes-equal edge of the not-fewer branch")
		// more votes earlier: no swap within this iteration
		noSwap := eqIf != nil
		if eqIf != nil {
			_, h := core.LoopOf(vc.Block())
			avoid := map[*ssa.BasicBlock]bool{}
			if h != nil {
				avoid[h] = true
			}
			for b := range reachAvoiding(eqIf.Block().Succs[1], avoid) {
				if isSwap(b, i, j) {
					noSwap = false
				}
			}
		}
		c.Check("ranking:more-votes-earlier⇒no-swap", "shape", noSwap, vc.Pos(), "when the earlier candidate has more votes nothing is swapped in that step")
		// the i-th result is candidates[i] after the inner loop; result length bounded by topSize
		resOK, cutOK := false, false
		for _, r := range core.Returns(fn) {
			mk, ok := core.RetVal(r, 0).(*ssa.MakeSlice)
			if !ok {
				continue
			}
			if core.Slice(mk.Len)[fn.Params[1]] {
				cutOK = true
			}
			if mk.Referrers() != nil {
				for _, u := range *mk.Referrers() {
					if ia, ok := u.(*ssa.IndexAddr); ok && ia.Index == i && ia.Referrers() != nil {
						for _, w := range *ia.Referrers() {
							if st, ok := w.(*ssa.Store); ok && st.Addr == ia {
								if s, from := elemLoad(st.Val); s == cands && from == i {
									resOK = true
								}
							}
						}
					}
				}
			}
		}
		c.Check("ranking:result[i]=candidates[i]", "shape", resOK, fn.Pos(), "position i of the result is the element selected for position i")
		c.Check("ranking:result-length-bounded-by-topSize", "shape", cutOK, fn.Pos(), "the result length is computed from topSize")
		// every Rank call uses the list size limit
		maxc := c.Global("store.max_candidate_count")
		rank := c.Method("store.VoteTop", "Rank")
		n := 0
		for _, s := range c.CallSites(rank) {
			if isTestHelper(c, s.Caller) {
				continue
			}
			n++
			_, a := recvArgs(s.Instr)
			c.Check("Rank(max_candidate_count)@"+shortFn(s.Caller)+"#"+string(rune('a'+n-1)), "value-flow", len(a) == 2 && core.SliceHasGlobal(core.Slice(a[0]), maxc), s.Instr.Pos(), "every ranking is cut to the list size limit")
		}
		c.Floor("Rank/call-sites", n, 5)
		rk := c.Fn("store.VoteTop.Rank")
		ok := false
		for _, ci := range core.CallsIn(rk, c.Method("store.VoteTop", "ranking")) {
			_, a := recvArgs(ci)
			if len(a) == 2 && a[0] == rk.Params[1] && a[1] == rk.Params[2] {
				for _, rs := range core.CallsIn(rk, c.Method("store.VoteTop", "Reset")) {
					_, ra := recvArgs(rs)
					if len(ra) == 1 && core.Derived(ci.Value())[ra[0]] && core.Dominates(ci, rs) {
						ok = true
					}
				}
			}
		}
		c.Check("Rank:Top←ranking(topSize,candidates)", "value-flow", ok, rk.Pos(), "Rank stores exactly what ranking returned for its own arguments")
	})

	c.Run("published-list-is-ranked", func() {
		// Every list that becomes a VoteTop.Top has the provenance "output of the total order": it is a ranking() result, an already published
		// Top, an order-preserving filter or prefix of one, or empty. The two copy-in functions (NewVoteTop, Reset) may fill Top from their
		// parameter; every caller must hand them such a list. A list assembled any other way (an incremental insert, a partial sort) is
		// reported: an order that depends on how the list was reached differs between a node that followed the blocks and one that re-ranked
		// after a restart.
		topF := c.FieldVar("store.VoteTop", "Top")
		ranking := c.Method("store.VoteTop", "ranking")
		filterU := c.FuncObj("store.filterUnregisters")
		copyIn := map[*ssa.Function]int{c.Fn("store.NewVoteTop"): 0, c.Fn("store.VoteTop.Reset"): 1}
		var ranked func(v ssa.Value, d int) bool
		ranked = func(v ssa.Value, d int) bool {
			if d > 12 {
				return false
			}
			switch x := v.(type) {
			case *ssa.Call:
				switch core.CalleeObj(x) {
				case ranking:
					return true
				case filterU:
					return ranked(x.Call.Args[0], d+1)
				}
				return false
			case *ssa.UnOp:
				if x.Op != token.MUL {
					return false
				}
				if fa, ok := x.X.(*ssa.FieldAddr); ok && core.FieldOf(fa) == topF {
					return true
				}
				if al, ok := x.X.(*ssa.Alloc); ok { // a local cell
					n := 0
					for _, r := range *al.Referrers() {
						if st, ok := r.(*ssa.Store); ok && st.Addr == ssa.Value(al) {
							n++
							if !ranked(st.Val, d+1) {
								return false
							}
						}
					}
					return n > 0
				}
				return false
			case *ssa.MakeSlice:
				k, ok := x.Len.(*ssa.Const)
				return ok && k.Value != nil && k.Int64() == 0
			case *ssa.Slice:
				if al, ok := x.X.(*ssa.Alloc); ok { // make(T, 0) with constant bounds: `new [0]T` sliced
					if arr, ok := al.Type().Underlying().(*types.Pointer).Elem().Underlying().(*types.Array); ok && arr.Len() == 0 {
						return true
					}
				}
				return x.Low == nil && ranked(x.X, d+1) // a prefix keeps the order
			case *ssa.Phi:
				for _, e := range x.Edges {
					if !ranked(e, d+1) {
						return false
					}
				}
				return true
			case *ssa.ChangeType:
				return ranked(x.X, d+1)
			case *ssa.Parameter:
				pf := x.Parent()
				fo, _ := pf.Object().(*types.Func)
				idx := -1
				for i, pp := range pf.Params {
					if pp == x {
						idx = i
					}
				}
				if fo == nil || idx < 0 {
					return false
				}
				_, sites := callersOf(c, fo)
				if len(sites) == 0 {
					return false
				}
				for _, cs := range sites {
					a := cs.Instr.Common().Args
					if cs.Instr.Common().IsInvoke() || idx >= len(a) || !ranked(a[idx], d+3) {
						return false
					}
				}
				return true
			}
			return false
		}
		nStores, nElem := 0, 0
		seq := map[string]int{}
		for _, fn := range c.SrcFuncs {
			if isTestHelper(c, fn) {
				continue
			}
			_, isCopyIn := copyIn[fn]
			for _, b := range fn.Blocks {
				for _, in := range b.Instrs {
					st, ok := in.(*ssa.Store)
					if !ok {
						continue
					}
					name := shortFn(fn)
					if fa, ok := st.Addr.(*ssa.FieldAddr); ok && core.FieldOf(fa) == topF {
						nStores++
						if isCopyIn {
							continue
						}
						seq[name]++
						c.Check("Top-store@"+name+seqSuffix(seq[name]), "value-flow", ranked(st.Val, 0), st.Pos(), "the list %s stores into VoteTop.Top is a ranking() result, a published Top, an order-preserving filter/prefix of one, or empty", name)
						continue
					}
					if ia, ok := st.Addr.(*ssa.IndexAddr); ok {
						if ld, ok := ia.X.(*ssa.UnOp); ok && ld.Op == token.MUL {
							if fa, ok := ld.X.(*ssa.FieldAddr); ok && core.FieldOf(fa) == topF {
								nElem++
								c.Check("Top-element-store@"+name, "value-flow", isCopyIn, st.Pos(), "%s overwrites an element of a published VoteTop.Top in place; only the copy-in functions NewVoteTop and Reset fill the list", name)
							}
						}
					}
				}
			}
		}
		c.Floor("Top-stores", nStores, 6)
		c.Floor("Top-element-stores", nElem, 2)
		var cis []*ssa.Function
		for f := range copyIn {
			cis = append(cis, f)
		}
		sort.Slice(cis, func(i, j int) bool { return cis[i].String() < cis[j].String() })
		for _, f := range cis {
			fo := f.Object().(*types.Func)
			_, sites := callersOf(c, fo)
			k := map[string]int{}
			for _, cs := range sites {
				a := cs.Instr.Common().Args
				name := shortFn(cs.Caller)
				k[name]++
				ok := !cs.Instr.Common().IsInvoke() && copyIn[f] < len(a) && ranked(a[copyIn[f]], 0)
				c.Check(shortFn(f)+"←ranked-list@"+name+seqSuffix(k[name]), "value-flow", ok, cs.Instr.Pos(), "%s hands %s a list with the provenance of the total order", name, shortFn(f))
			}
			c.Floor(shortFn(f)+"/callers", len(sites), 1)
		}
	})

	// ------------------------------------------------------------------------------------------------------------------
	c.Clause("C10.5", "snapshot loading cannot crash on what sealing produced: the deputy list of a stable snapshot block reaches NewTermRecord (saveSnapshot → SaveSnapshot), whose rank-sequence and votes-order panics are discharged only by C10.2 (rank = position; votes from the list that fixed the order)")
	c.Run("term-record", func() {
		ntr := c.FuncObj("chain/deputynode.NewTermRecord")
		ss := c.Fn("chain/deputynode.Manager.SaveSnapshot")
		chain := false
		for _, ci := range core.CallsIn(ss, ntr) {
			if a := ci.Common().Args; len(a) == 2 && core.Derived(ss.Params[2])[a[1]] {
				chain = true
			}
		}
		sv := c.Fn(cons + ".DPoVP.saveSnapshot")
		fromBody := false
		for _, ci := range core.CallsIn(sv, c.Method("chain/deputynode.Manager", "SaveSnapshot")) {
			_, a := recvArgs(ci)
			if len(a) == 2 && core.SliceHasField(core.Slice(a[1]), c.FieldVar("chain/types.Block", "DeputyNodes")) {
				fromBody = true
			}
		}
		us := c.Fn(cons + ".DPoVP.UpdateStable")
		reach := len(core.CallsIn(us, c.Method(cons+".DPoVP", "saveSnapshot"))) > 0
		c.Check("UpdateStable→saveSnapshot→SaveSnapshot→NewTermRecord(block.DeputyNodes)", "call-chain", chain && fromBody && reach, sv.Pos(), "the body list of a stable snapshot block is what NewTermRecord validates")
		// the panics
		nf := c.Fn("chain/deputynode.NewTermRecord")
		rankPanic, votesPanic := false, false
		for _, b := range nf.Blocks {
			if len(b.Instrs) == 0 {
				continue
			}
			if _, isP := b.Instrs[len(b.Instrs)-1].(*ssa.Panic); !isP {
				continue
			}
			for d := b; d != nil; d = d.Idom() {
				ifi := ifOf(d)
				if ifi == nil || d == b {
					continue
				}
				sl := core.Slice(ifi.Cond)
				if core.SliceHasField(sl, c.FieldVar("chain/types.DeputyNode", "Rank")) {
					rankPanic = true
				}
				if core.SliceHasField(sl, c.FieldVar("chain/types.DeputyNode", "Votes")) && core.SliceHasCall(sl, c.StdFunc("math/big", "Int.Cmp")) {
					votesPanic = true
				}
				break
			}
		}
		c.Check("NewTermRecord:panics-on-rank-and-votes-order", "anchor", rankPanic && votesPanic, nf.Pos(), "NewTermRecord panics when rank ≠ position or votes increase (the demand side of this clause)")
		c.Check("NewTermRecord:rank-sequence", "discharged-by", rankOK && appendOK, nf.Pos(), "rank i at position i: guaranteed by C10.2 (rank = loop index, appended in order)")
		c.Check("NewTermRecord:votes-non-increasing", "discharged-by", votesOK, nf.Pos(), "votes non-increasing along the list: guaranteed only when the votes come from the ranked list itself (C10.2)")
	})

	// ------------------------------------------------------------------------------------------------------------------
	c.Clause("C10.6b", "a restarted node ranks what a running node ranks: the candidates NewChainDataBase hands to Top.Rank are only those whose stored profile says isCandidate == true")
	c.Run("restart-filter", func() {
		ncd := homeOf(c, c.Fn("store.NewChainDataBase"), c.Method("store.VoteTop", "Rank"))
		rank := core.CallsIn(ncd, c.Method("store.VoteTop", "Rank"))
		c.Floor("NewChainDataBase/Rank-calls", len(rank), 1)
		isCandKey := constant.StringVal(c.Const("chain/types.CandidateKeyIsCandidate").Val())
		isCandFn := c.Method("store.ChainDatabase", "isCandidate")
		// an append is "flag-filtered" when it is dominated by a test whose condition reads Profile[isCandidate] (or calls isCandidate)
		filtered := func(fn *ssa.Function, ap ssa.Instruction) bool {
			for _, b := range fn.Blocks {
				ifi, isIf := b.Instrs[len(b.Instrs)-1].(*ssa.If)
				if !isIf || !b.Dominates(ap.Block()) || b == ap.Block() {
					continue
				}
				sl := core.Slice(ifi.Cond)
				reads := core.SliceHasCall(sl, isCandFn)
				for v := range sl {
					if lk, isLk := v.(*ssa.Lookup); isLk {
						if k, isK := lk.Index.(*ssa.Const); isK && k.Value != nil && k.Value.Kind() == constant.String && constant.StringVal(k.Value) == isCandKey {
							reads = true
						}
					}
				}
				if !reads {
					continue
				}
				// the append must lie on one side only of that test
				if core.CanReach(b.Succs[0], ap.Block(), b) != core.CanReach(b.Succs[1], ap.Block(), b) {
					return true
				}
			}
			return false
		}
		var appendsOf func(fn *ssa.Function, v ssa.Value, depth int) (aps []ssa.Instruction, owner []*ssa.Function)
		appendsOf = func(fn *ssa.Function, v ssa.Value, depth int) ([]ssa.Instruction, []*ssa.Function) {
			var aps []ssa.Instruction
			var owner []*ssa.Function
			for x := range core.Slice(v) {
				call, isCall := x.(*ssa.Call)
				if !isCall {
					continue
				}
				if bi, isB := call.Call.Value.(*ssa.Builtin); isB && bi.Name() == "append" {
					aps = append(aps, call)
					owner = append(owner, fn)
					continue
				}
				if callee := core.StaticFn(call); callee != nil && core.RelPkg(callee) == "store" && callee.Blocks != nil && depth < 2 {
					// a helper that produces the list: its returned slice's appends count
					if _, isSl := call.Type().Underlying().(*types.Slice); isSl {
						for _, r := range core.Returns(callee) {
							a2, o2 := appendsOf(callee, core.RetVal(r, 0), depth+1)
							aps = append(aps, a2...)
							owner = append(owner, o2...)
						}
					}
				}
			}
			return aps, owner
		}
		for i, g := range rank {
			a := g.Common().Args
			aps, owners := appendsOf(ncd, a[len(a)-1], 0)
			ok := len(aps) >= 1
			for k, ap := range aps {
				if !filtered(owners[k], ap) {
					ok = false
				}
			}
			c.Check("NewChainDataBase:Rank(only isCandidate==true)"+suffix(i, len(rank)), "guarded-action", ok, g.Pos(), "every element of the list ranked at start-up was appended under a test of the stored isCandidate flag (%d appends found)", len(aps))
		}
	})

	c.Clause("C10.6", "restart repopulates what has no disk fallback: NewChainDataBase inserts every reloaded candidate it ranks into LastConfirm.CandidateTrieDB (the all-candidates index, whose only reader GetAll never falls back to disk) before returning")
	c.Run("restart", func() {
		ncd := homeOf(c, c.Fn("store.NewChainDataBase"), c.Method("store.VoteTop", "Rank"))
		getC := c.Method("store.CandidateCache", "GetCandidates")
		set := c.Method("store.CandidateTrieDB", "Set")
		put := c.Method("store.CandidateTrieDB", "Put")
		ok := false
		var at token.Pos = ncd.Pos()
		for _, ci := range core.CallsIn(ncd, set, put) {
			recv, a := recvArgs(ci)
			rs := core.Slice(recv)
			if !core.SliceHasField(rs, c.FieldVar("store.ChainDatabase", "LastConfirm")) || !core.SliceHasField(rs, c.FieldVar("store.CBlock", "CandidateTrieDB")) {
				continue
			}
			s, idx := elemLoad(a[0])
			if s == nil || !core.SliceHasCall(core.Slice(s), getC) || !countsFromZero(idx) || !core.EveryIterationPasses(ci) {
				continue
			}
			// the loop lies on the way to every normal exit
			_, h := core.LoopOf(ci.Block())
			through := h != nil
			for _, r := range core.Returns(ncd) {
				if r.Block() != ncd.Recover && h != nil && !h.Dominates(r.Block()) {
					through = false
				}
			}
			// and it walks the same list that was ranked
			sameAsRanked := false
			for _, rc := range core.CallsIn(ncd, c.Method("store.VoteTop", "Rank")) {
				_, ra := recvArgs(rc)
				if len(ra) == 2 && ra[1] == s {
					sameAsRanked = true
				}
			}
			if through && sameAsRanked {
				ok, at = true, ci.Pos()
			}
		}
		c.Check("NewChainDataBase:reloaded-candidates→LastConfirm.CandidateTrieDB", "must-call", ok, at, "every candidate ranked at start-up is also inserted into the all-candidates index of the stable block, on every normal exit")
		// the index has no other source: GetAll reads only the in-memory trie
		ga := c.Fn("store.CandidateTrieDB.GetAll")
		onlyTrie := true
		for _, ci := range core.AllCalls(ga) {
			if f := core.CalleeObj(ci); f != nil && f.Pkg() != nil && strings.HasSuffix(f.Pkg().Path(), "/store") {
				if r := f.Type().(*types.Signature).Recv(); r == nil || !strings.Contains(r.Type().String(), "PatriciaTrie") {
					onlyTrie = false
				}
			}
		}
		c.CheckTrivial("CandidateTrieDB.GetAll:memory-only", "anchor", onlyTrie, ga.Pos(), "GetAll has no read-through to disk (which is why start-up must repopulate the index)")
	})

	// ------------------------------------------------------------------------------------------------------------------
	c.Clause("C10.7", "per-fork lists: a new block's Top and all-candidates index are private copies of its parent's (NewNormalBlock clones both; SetBlock passes the three structures of one and the same parent block)")
	c.Run("fork-isolation", func() {
		nnb := c.Fn("store.NewNormalBlock")
		for _, f := range []struct {
			field string
			typ   string
			par   int
		}{{"Top", "store.VoteTop", 3}, {"CandidateTrieDB", "store.CandidateTrieDB", 2}} {
			fv := c.FieldVar("store.CBlock", f.field)
			clone := c.Method(f.typ, "Clone")
			ok, n := true, 0
			for _, b := range nnb.Blocks {
				for _, in := range b.Instrs {
					st, isSt := in.(*ssa.Store)
					if !isSt || core.FieldOf(st.Addr) != fv {
						continue
					}
					n++
					ci, is := isCallOf(st.Val, clone)
					if !is {
						ok = false
						continue
					}
					if recv, _ := recvArgs(ci); recv != nnb.Params[f.par] {
						ok = false
					}
				}
			}
			c.Check("NewNormalBlock:"+f.field+"←parent."+f.field+".Clone()", "value-flow", ok && n >= 1, nnb.Pos(), "the child's %s is a clone of the structure passed in, never the parent's own object", f.field)
		}
		sb := c.Fn("store.ChainDatabase.SetBlock")
		calls := core.CallsIn(sb, c.FuncObj("store.NewNormalBlock"))
		c.Floor("SetBlock/NewNormalBlock-calls", len(calls), 1)
		for _, ci := range calls {
			a := ci.Common().Args
			ok := len(a) == 4
			if ok {
				var bases []ssa.Value
				for k, fname := range []string{"AccountTrieDB", "CandidateTrieDB", "Top"} {
					base, f := fieldLoad(a[k+1])
					if f != c.FieldVar("store.CBlock", fname) {
						ok = false
					}
					bases = append(bases, base)
				}
				if ok && (bases[0] != bases[1] || bases[1] != bases[2]) {
					ok = false
				}
				// … and that block becomes the parent link
				if ok {
					linked := false
					for _, bc := range core.CallsIn(sb, c.Method("store.CBlock", "BeChildOf")) {
						recv, ba := recvArgs(bc)
						if core.Derived(ci.Value())[recv] && len(ba) == 1 && ba[0] == bases[0] {
							linked = true
						}
					}
					ok = linked
				}
			}
			c.Check("SetBlock:child-built-from-one-parent", "value-flow", ok, ci.Pos(), "account view, candidate index and top list of a new block all come from the block that becomes its parent")
		}
	})

	// ------------------------------------------------------------------------------------------------------------------
	c.Clause("C10.8", "only registered candidates are ranked: every list that updateTop ranks into the block's Top has passed filterUnregisters with the unregister set collected for this block")
	c.Run("unregistered-filtered", func() {
		ut := c.Fn("store.CBlock.updateTop")
		fu := c.FuncObj("store.filterUnregisters")
		cu := c.Method("store.CBlock", "collectUnregisters")
		filtered := func(v ssa.Value) bool {
			for x := range core.Slice(v) {
				if ci, is := isCallOf(x, fu); is {
					if a := ci.Common().Args; len(a) == 2 && core.SliceHasCall(core.Slice(a[1]), cu) {
						return true
					}
				}
			}
			return false
		}
		n := 0
		for _, ci := range core.CallsIn(ut, c.Method("store.VoteTop", "Rank")) {
			_, a := recvArgs(ci)
			n++
			c.Check("updateTop:re-ranked-list-filtered#"+string(rune('a'+n-1)), "value-provenance", len(a) == 2 && filtered(a[1]), ci.Pos(),
				"the list handed to the full re-rank must have the candidates unregistered in this block removed (the incremental branches do remove them)")
		}
		m := 0
		for _, ci := range core.CallsIn(ut, c.Method("store.VoteTop", "MergeCandidates")) {
			recv, a := recvArgs(ci)
			m++
			// the changed list is filtered and the receiver's Top was replaced by a filtered list before the merge
			topFiltered := false
			for _, st := range fieldStoresInto(recv, ci) {
				if core.FieldOf(st.Addr) == c.FieldVar("store.VoteTop", "Top") && filtered(st.Val) {
					topFiltered = true
				}
			}
			c.Check("updateTop:merged-lists-filtered#"+string(rune('a'+m-1)), "value-provenance", len(a) == 1 && filtered(a[0]) && topFiltered, ci.Pos(),
				"both inputs of the incremental merge (old top, changed candidates) have this block's unregistered candidates removed")
		}
		c.Floor("updateTop/rank-inputs", n+m, 3)
	})

	c.Clause("C10.9", "the persisted candidate list follows every change: what blockCommit puts into the candidate cache is flushed to context.data on every successful path (or skipped only under a dirty flag every cache writer raises) — a restarted node ranks from that file (clause of C08.3, evaluated here as well)")
	c.Run("candidates-flushed", func() { c08CandidatesFlushed(c) })

	c.Clause("C10.10", "the all-candidates index of one block is not altered by what another block writes: the copy-on-write clause of PatriciaTrie.put (C09.1) is evaluated here as well — a full re-rank reads that index")
	c.Run("index-copy-on-write", func() { c09PutCOW(c) })

	c.Clause("C10.11", "what is ranked is what the accounts say: every vote change reaches the ranking as a VotesLog with different old and new value and only candidates hold votes — the writer clause C11.2 (a count is changed through SetVotes with a fresh value, never by mutating GetVotes' result: such a log has OldVal == NewVal and is dropped before the ranking) and the candidate-guard clause C11.3 (an unregistered candidate keeps 0 votes; the full re-rank relies on it) are evaluated here as well")
	c.Run("vote-writers", func() { c11Writers(c) })
	c.Run("vote-guards", func() { c11Guards(c) })

	c.Clause("C10.12", "the persisted candidate record is as long as its head says: in CandidateCache.Set every update of the in-memory position index (address → offset, length) is dominated by a binary.Write of a record head into CandidateBuf, the buffer that is flushed to context.data and parsed by its heads after a restart; an index entry whose length exists in memory only makes the reloaded list differ from (or fail to load on) a node that restarts")
	c.Run("candidate-head-written-with-index", func() { c10CandidateHeadWritten(c) })

	c.NotDecidedf("that the incremental updateTop (four branches on list fullness and movement of the minimum) yields the same list as a full sort of all registered candidates over a history of blocks — arithmetic on runtime lists, not decided")
	c.NotDecidedf("that the list after a restart equals the list of a node that never stopped (the persisted candidate file versus the in-memory index as values); only the structural repopulation of the index is decided")
	c.NotDecidedf("that candidates unregistered in EARLIER blocks leave the all-candidates index (CandidateTrieDB has no delete): C10.8 only decides the filter for the current block's unregister set")
	c.NotDecidedf("non-emptiness of the snapshot list (NewTermRecord's third panic) — it depends on the number of registered candidates and DeputyCount at run time")
	c.NotDecidedf("that Top of the parent block is itself correct at the time Seal/verifyDeputy read it; node-id / profile values of the deputies (read from account state)")
}

// c10CandidateHeadWritten: C10.12.
func c10CandidateHeadWritten(c *core.Ctx) {
	fn := c.Fn("store.CandidateCache.Set")
	idx := c.FieldVar("store.CandidateCache", "Candidates")
	buf := c.FieldVar("store.CandidateCache", "CandidateBuf")
	var heads []ssa.CallInstruction
	for _, ci := range core.AllCalls(fn) {
		callee := ci.Common().StaticCallee()
		if callee == nil || callee.Pkg == nil || callee.Pkg.Pkg.Path() != "encoding/binary" || callee.Name() != "Write" || len(ci.Common().Args) < 3 {
			continue
		}
		if core.SliceHasField(core.Slice(ci.Common().Args[0]), buf) {
			heads = append(heads, ci)
		}
	}
	n := 0
	for _, b := range fn.Blocks {
		for _, in := range b.Instrs {
			mu, ok := in.(*ssa.MapUpdate)
			if !ok {
				continue
			}
			if _, f, isLd := core.FieldLoad(mu.Map); !isLd || f != idx {
				continue
			}
			n++
			ok = false
			for _, h := range heads {
				if core.Dominates(h, mu) {
					ok = true
				}
			}
			c.Check("CandidateCache.Set:index-update"+seqSuffix(n)+":head-written", "pairing", ok, mu.Pos(), "CandidateCache.Set updates the position index; a binary.Write of the record head into CandidateBuf dominates the update (%d head writes found)", len(heads))
		}
	}
	c.Floor("CandidateCache.Set/index-updates", n, 2)
}
