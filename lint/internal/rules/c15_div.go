package rules

import (
	"go/constant"
	"go/token"
	"go/types"
	"sort"
	"strings"

	"golang.org/x/tools/go/ssa"

	"verif/lint/internal/core"
)

// c15DivInventory: integer divisions / remainders in the call-graph closure of the network roots whose divisor is neither a non-zero
// constant nor tested against zero in the function itself, keyed by function + kind of divisor (never by line); value = {count, the
// invariant that keeps the divisor away from zero}. A new key or a higher count is a violation. Premises that are orderings in the
// code are obligations of their own (below).
var c15DivInventory = map[string]c15Entry{
	"(*chain/consensus.ForkManager).needSwitchFork#div(call TwoThirdDeputyCount)": {1, "newHead was accepted before UpdateFork runs: verifySigner found its signer among the deputies of its own height, so that list is not empty and the threshold is ≥ 1"},
	"chain/consensus.GetCorrectMiner#div(expr)":                                   {1, "nodeCount × mineTimeout: nodeCount = deputies(parent.Height+1) is not empty because verifySigner (signer is a deputy of the block's height) and verifyHeight (height = parent+1) are heeded before verifyMiner — premise obligation verifySigner,verifyHeight≺verifyMiner; the miner's own call passes its own height; mineTimeout see below"},
	"chain/consensus.GetCorrectMiner#div(param mineTimeout)":                      {1, "node configuration (Validator.mineTimeout / Miner timeout), validated at start-up; not taken from a message"},
	"(*chain/transaction.CandidateVoteEnv).refundDeposit#div(var TermDuration)":   {1, whyTermDuration},
	"chain/deputynode.GetDeputyTermIndexByHeight#div(var TermDuration)":           {1, whyTermDuration},
	"chain/deputynode.GetLastSnapshotHeight#div(var TermDuration)":                {1, whyTermDuration},
	"chain/deputynode.GetSignerTermIndexByHeight#div(var TermDuration)":           {1, whyTermDuration},
	"chain/deputynode.IsRewardBlock#div(var TermDuration)":                        {1, whyTermDuration},
	"chain/deputynode.IsSnapshotBlock#div(var TermDuration)":                      {1, whyTermDuration},
	"chain/deputynode.NewTermRecord#div(var TermDuration)":                        {2, whyTermDuration},
	"common/crypto.AesDecrypt#div(call BlockSize)":                                {1, "cipher.Block.BlockSize of an AES cipher is the constant 16"},
	"common/crypto.PKCS5Padding#div(param blockSize)":                             {1, "callers pass block.BlockSize() of an AES cipher (16)"},
	"common/crypto/ecies.concatKDF#div(expr)":                                     {1, "hash.BlockSize() × 8 of the curve's hash (sha256: 64)"},
}

const whyTermDuration = "params.TermDuration is a protocol parameter (1000000), assigned by the package initialiser and, under a `> 0` test, by the node configuration — premise obligation: no other store in shipped code"

func divisorKind(v ssa.Value) string {
	for {
		if cv, ok := v.(*ssa.Convert); ok {
			v = cv.X
			continue
		}
		break
	}
	switch x := v.(type) {
	case *ssa.Parameter:
		return "param " + x.Name()
	case *ssa.UnOp:
		if g, ok := x.X.(*ssa.Global); ok && x.Op == token.MUL {
			return "var " + g.Name()
		}
	case *ssa.Call:
		if o := core.CalleeObj(x); o != nil {
			return "call " + o.Name()
		}
		if x.Call.IsInvoke() {
			return "call " + x.Call.Method.Name()
		}
	}
	return "expr"
}

// zeroTested: a test of the divisor against zero (or `< 1`) dominates the division and the division is not reachable from the edge on
// which the divisor is zero.
func zeroTested(bo *ssa.BinOp) bool {
	same := func(a, b ssa.Value) bool {
		strip := func(v ssa.Value) ssa.Value {
			for {
				if cv, ok := v.(*ssa.Convert); ok {
					v = cv.X
					continue
				}
				return v
			}
		}
		return strip(a) == strip(b)
	}
	fn := bo.Parent()
	for _, b := range fn.Blocks {
		if b == bo.Block() || !b.Dominates(bo.Block()) {
			continue
		}
		ifi := ifOf(b)
		if ifi == nil {
			continue
		}
		cmp, ok := ifi.Cond.(*ssa.BinOp)
		if !ok {
			continue
		}
		x, y, op := cmp.X, cmp.Y, cmp.Op
		if k, isC := x.(*ssa.Const); isC && k.Value != nil {
			// constant on the left: mirror
			x, y = y, x
			switch op {
			case token.LSS:
				op = token.GTR
			case token.GTR:
				op = token.LSS
			case token.LEQ:
				op = token.GEQ
			case token.GEQ:
				op = token.LEQ
			}
		}
		k, isC := y.(*ssa.Const)
		if !isC || k.Value == nil || k.Value.Kind() != constant.Int || !same(x, bo.Y) {
			continue
		}
		kv, _ := constant.Int64Val(k.Value)
		zeroEdge := -1 // index of the successor taken when the divisor is zero
		switch {
		case op == token.EQL && kv == 0:
			zeroEdge = 0
		case op == token.NEQ && kv == 0:
			zeroEdge = 1
		case op == token.GTR && kv == 0, op == token.GEQ && kv == 1:
			zeroEdge = 1
		case op == token.LEQ && kv == 0, op == token.LSS && kv == 1:
			zeroEdge = 0
		}
		if zeroEdge < 0 {
			continue
		}
		if !core.CanReach(b.Succs[zeroEdge], bo.Block(), b) && b.Succs[zeroEdge] != bo.Block() {
			return true
		}
	}
	return false
}

// c15Div: clause C15.9.
func c15Div(c *core.Ctx, cl map[*ssa.Function]*ssa.Function) {
	c.Clause("C15.9", "no division by a quantity a peer can make zero: every integer division / remainder reachable from the network roots divides by a non-zero constant, by a value tested against zero on every path to it, or is inventoried with the invariant that keeps its divisor away from zero (the deputy list of an accepted block's height is not empty because the signer and height checks run, heeded, before the miner-slot check)")
	c.Run("divisions", func() {
		type agg struct {
			n   int
			pos token.Pos
		}
		found := map[string]*agg{}
		total, guarded := 0, 0
		var fns []*ssa.Function
		for f := range cl {
			fns = append(fns, f)
		}
		sort.Slice(fns, func(i, j int) bool { return fns[i].String() < fns[j].String() })
		for _, fn := range fns {
			for _, d := range intDivisions(fn) {
				total++
				if zeroTested(d) {
					guarded++
					continue
				}
				k := core.FuncName(fn) + "#div(" + divisorKind(d.Y) + ")"
				if found[k] == nil {
					found[k] = &agg{pos: d.Pos()}
				}
				found[k].n++
			}
		}
		var keys []string
		for k := range found {
			keys = append(keys, k)
		}
		sort.Strings(keys)
		for _, k := range keys {
			e, listed := c15DivInventory[k]
			c.Check("div/"+k, "crash-inventory", listed && found[k].n <= e.n, found[k].pos, "%d division(s) by a value that is neither a non-zero constant nor zero-tested; inventoried=%v (%d): %s", found[k].n, listed, e.n, e.why)
		}
		c.Floor("divisions/in-closure", total, 12)
		c.Floor("divisions/zero-tested", guarded, 2)
		c.Note("integer divisions in the network closure: %d, zero-tested in place: %d, inventoried keys: %d", total, guarded, len(keys))

		// premise: the signer and height checks are heeded before the miner-slot check
		vb := c.Fn("chain/consensus.Validator.VerifyBeforeTxProcess")
		vm := core.CallsIn(vb, c.FuncObj("chain/consensus.verifyMiner"))
		c.Floor("VerifyBeforeTxProcess/verifyMiner", len(vm), 1)
		for _, pre := range []string{"verifySigner", "verifyHeight"} {
			if found["chain/consensus.GetCorrectMiner#div(expr)"] == nil {
				// the division is tested in place (or gone): the ordering is no longer what keeps it safe
				c.CheckTrivial("premise/"+pre+"≺verifyMiner", "heeded-guard", true, vb.Pos(), "not needed: GetCorrectMiner's division by the round length is zero-tested in place")
				continue
			}
			ok := len(vm) > 0
			for _, m := range vm {
				h := false
				for _, g := range core.CallsIn(vb, c.FuncObj("chain/consensus."+pre)) {
					if hb, _ := core.HeededBefore(g, core.ErrNonNil, m); hb {
						h = true
					}
				}
				if !h {
					ok = false
				}
			}
			c.Check("premise/"+pre+"≺verifyMiner", "heeded-guard", ok, vb.Pos(), "a heeded %s dominates verifyMiner in VerifyBeforeTxProcess: the deputy list GetCorrectMiner divides by is the non-empty list the signer was found in", pre)
		}
		// the other caller of the slot check is the miner itself, on the header it is about to seal
		closedCallers(c, "Validator.VerifyMiner", []string{"(*chain/consensus.DPoVP).MineBlock"}, c.Method("chain/consensus.Validator", "VerifyMiner"))
		// premise: TermDuration is written by nobody but the package initialiser
		td := c.Global("chain/params.TermDuration")
		n := 0
		for _, fn := range c.SrcFuncs {
			if isTestHelper(c, fn) || fn.Name() == "init" {
				continue
			}
			for _, b := range fn.Blocks {
				for _, in := range b.Instrs {
					if st, ok := in.(*ssa.Store); ok {
						if g, isG := st.Addr.(*ssa.Global); isG && g.Object() == td {
							// the configuration may override it, with a value it tested to be positive
							pos := false
							for _, bb := range fn.Blocks {
								ifi := ifOf(bb)
								if ifi == nil || !bb.Dominates(b) || bb == b {
									continue
								}
								cmp, isCmp := ifi.Cond.(*ssa.BinOp)
								if !isCmp || cmp.Op != token.GTR {
									continue
								}
								k, isK := cmp.Y.(*ssa.Const)
								if !isK || k.Value == nil || constant.Sign(k.Value) != 0 {
									continue
								}
								sv := st.Val
								if cv, isCv := sv.(*ssa.Convert); isCv {
									sv = cv.X
								}
								if (core.Derived(cmp.X)[st.Val] || cmp.X == sv || sameExprF(cmp.X, sv)) && !core.CanReach(bb.Succs[1], b, bb) {
									pos = true
								}
							}
							if pos {
								continue
							}
							n++
							c.Check("premise/TermDuration-written@"+shortFn(fn), "who-may-write", false, st.Pos(), "%s assigns params.TermDuration a value it did not test to be positive", shortFn(fn))
						}
					}
				}
			}
		}
		c.Check("premise/TermDuration-constant", "who-may-write", n == 0, token.NoPos, "params.TermDuration is assigned by the package initialiser, or by the configuration with a value tested > 0 (%d other stores)", n)
	})
	_ = types.Typ
}

// c15OpenDecode: clause C15.10.
func c15OpenDecode(c *core.Ctx) {
	c.Clause("C15.10", "no open-ended decode of remote bytes: the rlp decoder builds nested []interface{} values for an interface{} target recursively, as deep as the input nests; every Stream.Decode (or rlp.Decode/DecodeBytes) whose target is a *interface{} is dominated by a test of the size Kind() reported that lets only the empty value through — a must-be-empty field is refused by its head, not decoded first and measured afterwards")
	c.Run("open-decodes", func() {
		stream := c.Named("common/rlp.Stream")
		n := 0
		seq := map[string]int{}
		for _, fn := range c.SrcFuncs {
			if isTestHelper(c, fn) || core.RelPkg(fn) == "common/rlp" {
				continue
			}
			for _, ci := range core.AllCalls(fn) {
				o := core.CalleeObj(ci)
				if o == nil || o.Pkg() == nil || !strings.HasSuffix(o.Pkg().Path(), "/common/rlp") {
					continue
				}
				if o.Name() != "Decode" && o.Name() != "DecodeBytes" {
					continue
				}
				a := ci.Common().Args
				if len(a) == 0 {
					continue
				}
				t := a[len(a)-1]
				if mi, ok := t.(*ssa.MakeInterface); ok {
					t = mi.X
				}
				pt, ok := t.Type().Underlying().(*types.Pointer)
				if !ok {
					continue
				}
				it, ok := pt.Elem().Underlying().(*types.Interface)
				if !ok || it.NumMethods() != 0 {
					continue
				}
				n++
				guarded := false
				for _, b := range fn.Blocks {
					ifi := ifOf(b)
					if ifi == nil || !b.Dominates(ci.Block()) || b == ci.Block() {
						continue
					}
					cmp, ok := ifi.Cond.(*ssa.BinOp)
					if !ok {
						continue
					}
					k, isK := cmp.Y.(*ssa.Const)
					if !isK || k.Value == nil || k.Value.Kind() != constant.Int || constant.Sign(k.Value) != 0 {
						continue
					}
					fromKind := false
					for w := range core.Slice(cmp.X) {
						if kc, ok := w.(ssa.CallInstruction); ok {
							if ko := core.CalleeObj(kc); ko != nil && ko.Name() == "Kind" {
								if rn := recvNamed(ko); rn != nil && types.Identical(rn.Type(), stream) {
									fromKind = true
								}
							}
						}
					}
					if !fromKind {
						continue
					}
					nonEmptyEdge := -1
					switch cmp.Op {
					case token.GTR, token.NEQ:
						nonEmptyEdge = 0
					case token.LEQ, token.EQL:
						nonEmptyEdge = 1
					}
					if nonEmptyEdge >= 0 && !core.CanReach(b.Succs[nonEmptyEdge], ci.Block(), b) && b.Succs[nonEmptyEdge] != ci.Block() {
						guarded = true
					}
				}
				name := shortFn(fn)
				seq[name]++
				c.Check("open-decode@"+name+seqSuffix(seq[name]), "guarded-action", guarded, ci.Pos(), "%s decodes into an interface{}: the call must be dominated by a Kind() size test that admits the empty value only", name)
			}
		}
		c.Floor("open-decodes", n, 2)
	})
}
