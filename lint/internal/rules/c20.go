package rules

import (
	"go/token"
	"go/types"

	"golang.org/x/tools/go/ssa"

	"verif/lint/internal/core"
)

func init() { register("C20", c20) }

func c20(c *core.Ctx) {
	const pmSpec = "network.ProtocolManager"
	blk := func(m string) *types.Func { return c.Method("chain/types.Block", m) }

	// -----------------------------------------------------------------------------------------
	c.Clause("C20.1", "no closure started with go/defer inside a loop of the message-path packages refers to a variable declared by the loop statement while the module's language version shares that variable between iterations")
	c.Run("loopclosure", func() {
		c20LoopClosures(c)
	})

	// -----------------------------------------------------------------------------------------
	c.Clause("C20.2", "no append to a prefix x[:k] (without capacity limit) is followed by an element access to the old x before x is assigned again — the insert that overwrites its right neighbour")
	c.Run("slice-insert", func() {
		n := 0
		perFn := map[string]int{}
		printerSort := c.Fn("store.cbTable.Sort")
		for _, fn := range c.SrcFuncs {
			rel := core.RelPkg(fn)
			if (rel != "network" && rel != "store") || isTestHelper(c, fn) {
				continue
			}
			for _, pa := range prefixAppends(fn) {
				n++
				name := shortFn(fn)
				key := "prefix-append/" + name
				if perFn[name] > 0 {
					key += "#" + string(rune('a'+perFn[name]))
				}
				perFn[name]++
				pos := pa.Call.Pos()
				if len(pa.Reads) > 0 {
					pos = pa.Reads[0].Pos()
				}
				if fn == printerSort {
					// one named construct: rowsBefore/rowsAfter are cut from t.Rows and the middle that is appended is t.Rows[startRow:endRow]
					// itself (same backing array, same length), so the append copies the region onto itself; debugging printer of the block
					// tree, not on a message path
					c.CheckTrivial(key, "slice-aliasing-exempt", true, pos, "same-length in-place splice in the block-tree printer (%d access(es) through slices cut before the append)", len(pa.Reads))
					continue
				}
				c.Check(key, "slice-aliasing", len(pa.Reads) == 0, pos, "in %s append(x[:k], …) may overwrite x[k]; %d later access(es) to the old x before x is assigned again", name, len(pa.Reads))
			}
		}
		c.Floor("prefix-appends-in-network+store", n, 2) // BlockCache.Remove (the delete idiom: result assigned straight back), cbTable.Sort
	})

	// -----------------------------------------------------------------------------------------
	c.Clause("C20.3", "a block whose parent is unknown is cached and its parent requested; the timer branch drains the cache and re-arms; insertBlock merges cached confirms before InsertBlock; a confirm for an unknown block is kept in confirmsCache")
	c.Run("rcvBlockLoop", func() {
		loop := c.Fn(pmSpec + ".rcvBlockLoop")
		hasBlock := c.Method("network.BlockChain", "HasBlock")
		add := c.Method("network.BlockCache", "Add")
		request := c.Method("network.peer", "RequestBlocks")

		// the HasBlock(b.ParentHash()) test
		var parentTests []ssa.CallInstruction
		for _, g := range core.CallsIn(loop, hasBlock) {
			a := g.Common().Args
			if core.SliceHasCall(core.Slice(a[len(a)-1]), blk("ParentHash")) {
				parentTests = append(parentTests, g)
			}
		}
		c.Exactly("rcvBlockLoop/HasBlock(parent)", len(parentTests), 1)
		if len(parentTests) != 1 {
			return
		}
		pt := parentTests[0]
		// which block is tested
		var tested ssa.Value
		for v := range core.Slice(pt.Common().Args[len(pt.Common().Args)-1]) {
			if ci, ok := v.(ssa.CallInstruction); ok && core.SameFamily(core.CalleeObj(ci), blk("ParentHash")) {
				tested = ci.Common().Args[0]
			}
		}
		_, header := core.LoopOf(pt.Block())
		inIteration := func(from, to *ssa.BasicBlock) bool {
			if header == nil {
				return core.CanReach(from, to)
			}
			return core.CanReach(from, to, header)
		}
		// the places where a block is handed to the chain: pm.insertBlock(b), or merge + chain.InsertBlock(b) written out at the site
		sites := netInserts(c, loop)
		var ins []netInsert
		for _, s := range sites {
			if s.Fn == loop {
				ins = append(ins, s)
			}
		}
		adds := core.CallsIn(loop, add)
		c.Check("rcvBlockLoop:insertBlock-present", "must-call", len(ins) >= 1, loop.Pos(), "rcvBlockLoop inserts received blocks")
		for _, s := range ins {
			ok, why := core.HeededBefore(pt, core.IsFalse, s.Call)
			c.Check("rcvBlockLoop:HasBlock(parent)≺insertBlock", "guarded-action", ok && s.Block == tested && tested != nil, s.Call.Pos(), "a received block is inserted only when its parent is known, and it is the tested block: %s", orOK(why))
		}
		for _, s := range sites {
			c.Check("insertBlock:ProtocolManager.mergeConfirmsFromCache≺BlockChain.InsertBlock@"+shortFn(s.Fn), "order", s.Merged, s.Call.Pos(), "the confirms that arrived before the block are merged into it before it is handed to InsertBlock, on every path (at the site or in the forwarding helper), and into that block")
			if s.Helper != nil {
				c.Check("insertBlock:returns-InsertBlock-result@"+shortFn(s.Helper), "value-flow", s.Verdict, s.Helper.Pos(), "%s reports InsertBlock's verdict (rcvBlockLoop stops the batch on an error)", shortFn(s.Helper))
			}
		}
		c.Check("rcvBlockLoop:blockCache.Add-present", "must-call", len(adds) == 1, loop.Pos(), "rcvBlockLoop caches blocks whose parent is unknown (%d Add calls)", len(adds))
		if len(adds) != 1 {
			return
		}
		ad := adds[0]
		okAdd := false
		for _, t := range core.TestsOf(pt.Value(), core.IsFalse) {
			// t.Fail = successor when the parent is unknown
			if t.If.Block().Dominates(ad.Block()) && inIteration(t.Fail, ad.Block()) && !inIteration(t.OK, ad.Block()) {
				okAdd = true
			}
		}
		c.Check("rcvBlockLoop:unknown-parent→blockCache.Add", "branch-reaches", okAdd && ad.Common().Args[len(ad.Common().Args)-1] == tested, ad.Pos(), "the parent-unknown branch, and only it, puts the tested block into the cache")
		// the parent request follows the caching and asks for height−1
		nReq := 0
		for _, r := range core.CallsIn(loop, request) {
			if _, isGo := r.(*ssa.Go); !isGo && r.Value() == nil {
				continue
			}
			if !core.Dominates(ad, r) {
				continue
			}
			nReq++
			a := r.Common().Args
			ok := len(a) >= 3
			if ok {
				for _, h := range a[len(a)-2:] {
					sl := core.Slice(h)
					heightOfTested := false
					for v := range sl {
						if ci, isCall := v.(ssa.CallInstruction); isCall && core.SameFamily(core.CalleeObj(ci), blk("Height")) && ci.Common().Args[0] == tested {
							heightOfTested = true
						}
					}
					if !heightOfTested || !core.SliceHasOp(sl, token.SUB) || !core.SliceHasIntConst(sl, 1) {
						ok = false
					}
				}
			}
			c.Check("rcvBlockLoop:Add≺RequestBlocks(h−1,h−1)", "value-flow", ok, r.Pos(), "after caching, the parent (height−1 of the cached block) is requested from the sending peer")
		}
		c.Exactly("rcvBlockLoop/parent-requests-after-Add", nReq, 1)

		// timer branch
		iterate := c.Method("network.BlockCache", "Iterate")
		reset := c.StdFunc("time", "Timer.Reset")
		its := core.CallsIn(loop, iterate)
		c.Check("rcvBlockLoop:blockCache.Iterate-present", "must-call", len(its) == 1, loop.Pos(), "the timer branch walks the block cache (%d Iterate calls)", len(its))
		if len(its) == 1 {
			it := its[0]
			rearm := false
			for _, r := range core.CallsIn(loop, reset) {
				if core.Dominates(it, r) {
					rearm = true
				}
			}
			c.Check("rcvBlockLoop:Iterate≺Timer.Reset", "order", rearm, it.Pos(), "the timer is re-armed after the cache walk on every path")
			// ... and on every way round the loop that consumed a tick: from the entry of the select case that receives from the timer's
			// channel no path leads back to the select without passing Timer.Reset (a tick that is consumed without re-arming is the last one)
			okTick, nTick := true, 0
			for _, b := range loop.Blocks {
				for _, in := range b.Instrs {
					sel, isSel := in.(*ssa.Select)
					if !isSel {
						continue
					}
					for k, stt := range sel.States {
						isTimer := false
						for v := range core.SliceShallow(stt.Chan) {
							if f := core.FieldOf(v); f != nil && f.Name() == "C" && f.Pkg() != nil && f.Pkg().Path() == "time" {
								isTimer = true
							}
						}
						if !isTimer {
							continue
						}
						// the block entered when the select index equals k
						var entry *ssa.BasicBlock
						for _, bb := range loop.Blocks {
							ifi := ifOf(bb)
							if ifi == nil {
								continue
							}
							bo, ok := ifi.Cond.(*ssa.BinOp)
							if !ok || bo.Op != token.EQL {
								continue
							}
							kc, ok := bo.Y.(*ssa.Const)
							ex, ok2 := bo.X.(*ssa.Extract)
							if !ok || !ok2 || ex.Tuple != ssa.Value(sel) || ex.Index != 0 || kc.Value == nil || kc.Int64() != int64(k) {
								continue
							}
							entry = bb.Succs[0]
						}
						if entry == nil {
							continue
						}
						nTick++
						avoid := map[*ssa.BasicBlock]bool{}
						for _, r := range core.CallsIn(loop, reset) {
							avoid[r.Block()] = true
						}
						if !avoid[entry] && core.ReachCutAvoid(entry, nil, avoid)[sel.Block()] {
							okTick = false
						}
					}
				}
			}
			c.Check("rcvBlockLoop:every-tick-re-arms", "order", okTick && nTick >= 1, it.Pos(), "from the timer case no path returns to the select around Timer.Reset (%d timer case(s))", nTick)
			// the callback inserts a cached block exactly when its parent is known and reports it for removal
			var cb *ssa.Function
			a := it.Common().Args
			for v := range core.Derived(a[len(a)-1]) {
				if mc, ok := v.(*ssa.MakeClosure); ok {
					cb, _ = mc.Fn.(*ssa.Function)
				}
			}
			if mc, ok := a[len(a)-1].(*ssa.MakeClosure); ok {
				cb, _ = mc.Fn.(*ssa.Function)
			}
			if cb == nil {
				for v := range core.Slice(a[len(a)-1]) {
					if mc, ok := v.(*ssa.MakeClosure); ok {
						cb, _ = mc.Fn.(*ssa.Function)
					}
				}
			}
			if cb == nil {
				c.Undecided("rcvBlockLoop:Iterate(callback)", "closure-resolves", it.Pos(), "the callback handed to blockCache.Iterate is not a function literal of rcvBlockLoop")
			} else {
				okCb := false
				for _, g := range core.CallsIn(cb, hasBlock) {
					ga := g.Common().Args
					if !core.SliceHasCall(core.Slice(ga[len(ga)-1]), blk("ParentHash")) {
						continue
					}
					for _, s := range sites {
						if s.Fn != cb || len(cb.Params) == 0 {
							continue
						}
						if k, _ := core.HeededBefore(g, core.IsFalse, s.Call); k && s.Block == ssa.Value(cb.Params[0]) {
							okCb = true
						}
					}
				}
				c.Check("rcvBlockLoop$drain:HasBlock(parent)≺insertBlock", "guarded-action", okCb, cb.Pos(), "the drain callback inserts the cached block it was given once its parent is known")
			}
		}
	})
	c.Run("insertBlock", func() {
		mfn := c.Fn(pmSpec + ".mergeConfirmsFromCache")
		pop := c.Method("network.ConfirmCache", "Pop")
		pops := core.CallsIn(mfn, pop)
		ok := len(pops) == 1
		if ok {
			a := pops[0].Common().Args
			ok = len(a) == 3 && core.SliceHasCall(core.Slice(a[1]), blk("Height")) && core.SliceHasCall(core.Slice(a[2]), blk("Hash")) &&
				core.Slice(a[1])[mfn.Params[1]] && core.Slice(a[2])[mfn.Params[1]]
		}
		c.Check("mergeConfirmsFromCache:Pop(block.Height,block.Hash)", "value-flow", ok, mfn.Pos(), "cached confirms are looked up by the block's own height and hash")
		confirms := c.FieldVar("chain/types.Block", "Confirms")
		stored := false
		if len(pops) == 1 {
			for _, b := range mfn.Blocks {
				for _, in := range b.Instrs {
					if st, isSt := in.(*ssa.Store); isSt && core.FieldOf(st.Addr) == confirms && core.Slice(st.Val)[pops[0].Value()] && core.Slice(st.Addr)[mfn.Params[1]] {
						stored = true
					}
				}
			}
		}
		c.Check("mergeConfirmsFromCache:Confirms←Pop", "value-flow", stored, mfn.Pos(), "the popped confirms are appended to the block's Confirms")
	})
	c.Run("handleConfirmMsg", func() {
		fn := c.Fn(pmSpec + ".handleConfirmMsg")
		hasBlock := c.Method("network.BlockChain", "HasBlock")
		push := c.Method("network.ConfirmCache", "Push")
		decode := c.Method("network/p2p.Msg", "Decode")
		hashF := c.FieldVar("network.BlockConfirmData", "Hash")
		hb, ps, ds := core.CallsIn(fn, hasBlock), core.CallsIn(fn, push), core.CallsIn(fn, decode)
		if len(hb) != 1 || len(ps) != 1 || len(ds) != 1 {
			c.Check("handleConfirmMsg:shape", "must-call", false, fn.Pos(), "handleConfirmMsg must decode once, test HasBlock once and push to the confirm cache once (%d/%d/%d)", len(ds), len(hb), len(ps))
			return
		}
		// the decoded object: what Decode was given
		var decoded ssa.Value
		if mi, ok := ds[0].Common().Args[len(ds[0].Common().Args)-1].(*ssa.MakeInterface); ok {
			decoded = mi.X
		}
		hashArg := hb[0].Common().Args[len(hb[0].Common().Args)-1]
		c.Check("handleConfirmMsg:HasBlock(confirm.Hash)", "value-flow", decoded != nil && core.SliceHasField(core.Slice(hashArg), hashF) && core.Slice(hashArg)[decoded], hb[0].Pos(), "the block is looked up by the hash of the decoded confirm")
		ok := false
		for _, t := range core.TestsOf(hb[0].Value(), core.IsFalse) {
			if core.CanReach(t.Fail, ps[0].Block()) && !core.CanReach(t.OK, ps[0].Block()) && t.If.Block().Dominates(ps[0].Block()) {
				ok = true
				// ... on every path: no return is reachable from the unknown-block edge around the Push (a confirm that arrives before its
				// block and is dropped is never asked for again once the block came in)
				r := core.ReachCutAvoid(t.Fail, nil, map[*ssa.BasicBlock]bool{ps[0].Block(): true})
				for _, ret := range core.Returns(fn) {
					if ret.Block() != fn.Recover && r[ret.Block()] {
						ok = false
					}
				}
			}
		}
		pa := ps[0].Common().Args
		c.Check("handleConfirmMsg:unknown-block→confirmsCache.Push", "branch-reaches", ok && decoded != nil && pa[len(pa)-1] == decoded, ps[0].Pos(), "a confirm for a block that is not known yet is kept in the confirm cache (and only then)")
		// the known-block branch hands the confirm to the chain
		ic := core.CallsIn(fn, c.Method("network.BlockChain", "InsertConfirms"))
		ok = false
		for _, i := range ic {
			if k, _ := core.HeededBefore(hb[0], core.IsFalse, i); k {
				ok = true
			}
		}
		c.Check("handleConfirmMsg:known-block→InsertConfirms", "guarded-action", ok, fn.Pos(), "a confirm for a known block is handed to InsertConfirms")
	})

	// -----------------------------------------------------------------------------------------
	c.Clause("C20.5", "nothing a peer sends puts a block on the blacklist: the set of refused block hashes is filled from the operator's file at start-up and grows only by descendants of listed blocks (IsBlackBlock adds a block whose parent is listed); an insert error is not a verdict on the block (a known block is refused too), so it never lists one")
	c.Run("blacklist-writers", func() {
		set := c.Method("network.HashSet", "set")
		sites := closedCallers(c, "HashSet.set", []string{"(*network.invalidBlockCache).IsBlackBlock"}, set)
		c.Floor("blacklist/set-sites", len(sites), 1)
		isExist := c.Method("network.HashSet", "isExist")
		ibb := c.Fn("network.invalidBlockCache.IsBlackBlock")
		for _, st := range core.CallsIn(ibb, set) {
			ok := false
			for _, g := range core.CallsIn(ibb, isExist) {
				a := g.Common().Args
				if len(a) == 2 && a[1] == ssa.Value(ibb.Params[2]) {
					if h, _ := core.HeededBefore(g, core.IsFalse, st); h {
						ok = true
					}
				}
			}
			c.Check("IsBlackBlock:set-only-under-listed-parent", "guarded-action", ok, st.Pos(), "IsBlackBlock lists a block only after it found the block's parent in the list")
		}
		// the map itself is written by nobody else
		cacheF := c.FieldVar("network.HashSet", "cache")
		n := 0
		for _, fn := range c.SrcFuncs {
			if isTestHelper(c, fn) || core.RelPkg(fn) != "network" {
				continue
			}
			for _, b := range fn.Blocks {
				for _, in := range b.Instrs {
					if mu, ok := in.(*ssa.MapUpdate); ok && core.SliceHasField(core.SliceShallow(mu.Map), cacheF) {
						n++
						c.Check("HashSet.cache-update@"+shortFn(fn), "who-may-write", fn == c.Fn("network.HashSet.set"), mu.Pos(), "HashSet.cache is updated in %s, outside HashSet.set", shortFn(fn))
					}
				}
			}
		}
		c.Floor("blacklist/cache-updates", n, 1)
	})

	c.Clause("C20.4", "in handleTxsMsg a transaction reaches AddTx only after VerifyTxBody accepted it and ExistTx denied it, and the transaction added is the one verified (each goroutine owns its variable)")
	c.Run("handleTxsMsg", func() {
		fn := c.Fn(pmSpec + ".handleTxsMsg")
		vtb := c.Method("chain/types.Transaction", "VerifyTxBody")
		addTx := c.Method("network.TxPool", "AddTx")
		exist := c.Method("chain/txpool.TxGuard", "ExistTx")
		adds := core.CallsInDeep(fn, addTx)
		c.Exactly("handleTxsMsg/AddTx", len(adds), 1)
		guards := core.CallsIn(fn, vtb)
		c.Exactly("handleTxsMsg/VerifyTxBody", len(guards), 1)
		if len(adds) != 1 || len(guards) != 1 {
			return
		}
		ad, g := adds[0], guards[0]
		verified := g.Common().Args[0]
		inner := ad.Parent()
		if inner == fn {
			// AddTx called directly in the loop
			ok, why := core.HeededBefore(g, core.ErrNonNil, ad)
			c.Check("handleTxsMsg:VerifyTxBody≺AddTx", "guarded-action", ok, ad.Pos(), "AddTx only after VerifyTxBody accepted: %s", orOK(why))
			a := ad.Common().Args
			c.Check("handleTxsMsg:AddTx(verified tx)", "value-flow", core.Derived(verified)[a[len(a)-1]], ad.Pos(), "the transaction added is the one verified")
		} else {
			mk := closureSite(fn, inner)
			if mk == nil {
				c.Undecided("handleTxsMsg:closure", "closure-resolves", ad.Pos(), "AddTx is called in a closure that is not created directly in handleTxsMsg")
				return
			}
			ok, why := core.HeededBefore(g, core.ErrNonNil, mk)
			c.Check("handleTxsMsg:VerifyTxBody≺AddTx", "guarded-action", ok, mk.Pos(), "the goroutine that adds the transaction is only started after VerifyTxBody accepted: %s", orOK(why))
			// the closure's transaction: a free variable bound to a cell that is allocated in the same iteration and holds the verified tx
			a := ad.Common().Args
			var fv *ssa.FreeVar
			for v := range core.Slice(a[len(a)-1]) {
				if f, isFv := v.(*ssa.FreeVar); isFv {
					fv = f
				}
			}
			okVal, okOwn := false, false
			if fv != nil {
				mc := mk.(*ssa.MakeClosure)
				for i, f := range inner.FreeVars {
					if f != fv {
						continue
					}
					cell, isAlloc := mc.Bindings[i].(*ssa.Alloc)
					if !isAlloc {
						continue
					}
					// every store into the cell stores the verified transaction
					stores := 0
					okVal = true
					for _, r := range *cell.Referrers() {
						if st, isSt := r.(*ssa.Store); isSt && st.Addr == cell {
							stores++
							if !core.Derived(verified)[st.Val] && st.Val != verified {
								okVal = false
							}
						}
					}
					if stores == 0 {
						okVal = false
					}
					// the cell belongs to the iteration: it is allocated inside the loop that starts the goroutine
					lb, _ := core.LoopOf(mk.Block())
					okOwn = lb != nil && lb[cell.Block()]
				}
			}
			c.Check("handleTxsMsg:AddTx(verified tx)", "value-flow", okVal, ad.Pos(), "the transaction the goroutine adds is the one VerifyTxBody accepted")
			c.Check("handleTxsMsg:goroutine-owns-tx", "loop-variable-capture", okOwn, mk.Pos(), "the variable the goroutine reads is allocated per iteration (not the shared range variable)")
		}
		// ExistTx in front of AddTx, on the same transaction
		ex := core.CallsIn(inner, exist)
		ok := false
		for _, e := range ex {
			ea, aa := e.Common().Args, ad.Common().Args
			if k, _ := core.HeededBefore(e, core.IsTrue, ad); k && sameLoad(ea[len(ea)-1], aa[len(aa)-1]) {
				ok = true
			}
		}
		c.Check("handleTxsMsg:!ExistTx≺AddTx", "guarded-action", ok, ad.Pos(), "AddTx only when the guard says the transaction is not yet on the current fork (%d ExistTx calls)", len(ex))
		// every element of the batch is looked at: the verification is evaluated in every iteration
		c.Check("handleTxsMsg:VerifyTxBody-every-iteration", "loop-coverage", core.EveryIterationPasses(g), g.Pos(), "every transaction of the batch is verified")
	})

	c.Clause("C20.6", "a transaction gossiped by several peers at once enters the pool once: handleTxsMsg adds from one goroutine per message, so the pool's existence test and its index insert happen under one hold of the pool's mutex (clause of C18.3, evaluated here as well)")
	c.Run("pool-insert-atomic", func() { c18InsertAtomic(c) })

	c.Clause("C20.7", "nothing is dropped between the socket and its handler: every send of package network on a channel held in one of its own types blocks (no select-with-default around it)")
	c.Run("no-dropping-send", func() { c20NoDroppingSend(c) })

	c.Clause("C20.8", "what a node ends with does not depend on which duplicates it happened to see or on who made its blocks stable: the confirm filters' error decides nothing unless the list of good confirms is empty (VerifyAndSeal, insertConfirms); needConfirm measures a block against the later of the node's last signature and the latest stable block")
	c.Run("partial-verdict-used", func() { c20PartialVerdictUsed(c) })
	c.Run("need-confirm-from-stable", func() { c20NeedConfirmFromStable(c) })

	c.NotDecidedf("convergence itself: equality of the end states (current/stable block, pool content) over all delivery orders, duplications and interleavings is a property of histories and is not decided")
	c.NotDecidedf("that BlockCache keeps heights ascending and loses no block (only the overwrite-by-append shape is decided), eviction at 10240 entries, timing of the 500 ms drain, which peer is asked")
	c.NotDecidedf("exactly-once delivery to the pool across batches and peers (TxPool's own duplicate test belongs to C18)")
}

// sameLoad: a and b are the same value or loads of the same cell / free variable.
func sameLoad(a, b ssa.Value) bool {
	if a == b {
		return true
	}
	la, oka := a.(*ssa.UnOp)
	lb, okb := b.(*ssa.UnOp)
	return oka && okb && la.Op == token.MUL && lb.Op == token.MUL && la.X == lb.X
}

// argIs: one of the call's arguments is v.
func argIs(ci ssa.CallInstruction, v ssa.Value) bool {
	for _, a := range ci.Common().Args {
		if a == v {
			return v != nil
		}
	}
	return false
}

// c20LoopClosures is the loop-variable capture rule C20.1 (evaluated under C19.6 as well: the engine's background goroutines).
func c20LoopClosures(c *core.Ctx) {
	fromTypes, fromMod := moduleGoVersion(c)
	c.CheckTrivial("language-version-known", "go-directive", fromTypes != "" && (fromMod == "" || fromMod == fromTypes || fromMod+".0" == fromTypes), token.NoPos,
		"language version used by the type checker: %q, go directive of go.mod: %q (loop variables are shared between iterations: %v)", fromTypes, fromMod, sharedLoopVar(fromTypes))
	n := 0
	for _, rel := range []string{"network", "network/p2p", "chain/consensus"} {
		perFn := map[string]int{}
		for _, lc := range loopClosures(c, rel) {
			n++
			name := objName(lc.Func)
			key := "loopclosure/" + rel + "." + name
			if perFn[name] > 0 {
				key += "#" + string(rune('a'+perFn[name]))
			}
			perFn[name]++
			var names []string
			for _, v := range lc.Captured {
				names = append(names, v.Name())
			}
			ok := len(lc.Captured) == 0 || !lc.Shared
			c.Check(key, "loop-variable-capture", ok, lc.Stmt.Pos(), "a goroutine/deferred closure in a loop of %s refers to loop variable(s) %v (shared between iterations: %v): it would see the value of a later iteration", name, names, lc.Shared)
		}
	}
	c.Floor("go/defer-closures-in-loops", n, 3) // handleTxsMsg, stableBlockLoop, p2p.Server.listenLoop
}
