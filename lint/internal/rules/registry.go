// Package rules holds the per-property rule tables: the only repository-specific part of the checker.
package rules

import "verif/lint/internal/core"

// Rule is the entry point of one property's rules.
type Rule func(c *core.Ctx)

// All maps property id to its rules.
var All = map[string]Rule{}

func register(id string, r Rule) { All[id] = r }
