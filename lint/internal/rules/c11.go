package rules

import (
	"go/constant"
	"go/token"
	"go/types"

	"golang.org/x/tools/go/ssa"

	"verif/lint/internal/core"
)

func init() { register("C11", c11) }

// sliceHasStrConst: the slice contains a string constant equal to s.
func sliceHasStrConst(sl map[ssa.Value]bool, s string) bool {
	for v := range sl {
		if k, ok := v.(*ssa.Const); ok && k.Value != nil && k.Value.Kind() == constant.String && constant.StringVal(k.Value) == s {
			return true
		}
	}
	return false
}

func strConst(k *types.Const) string { return constant.StringVal(k.Val()) }

// candidateGuard: `site` (a SetVotes on account acc) is reachable only through the true edge of a test
// acc.GetCandidateState(CandidateKeyIsCandidate) == IsCandidateNode on the same account value.
func candidateGuard(c *core.Ctx, site ssa.CallInstruction, acc ssa.Value) bool {
	gcs := c.Method("chain/types.AccountAccessor", "GetCandidateState")
	key, yes := strConst(c.Const("chain/types.CandidateKeyIsCandidate")), strConst(c.Const("chain/types.IsCandidateNode"))
	for _, g := range core.EdgeGuardsOf(site) {
		b, ok := g.If.Cond.(*ssa.BinOp)
		if !ok || !(b.Op == token.EQL && g.OnTrue || b.Op == token.NEQ && !g.OnTrue) {
			continue
		}
		call, other := b.X, b.Y
		if _, isK := call.(*ssa.Const); isK {
			call, other = other, call
		}
		ci, isCall := call.(*ssa.Call)
		k, isK := other.(*ssa.Const)
		if !isCall || !isK || k.Value == nil || k.Value.Kind() != constant.String || constant.StringVal(k.Value) != yes {
			continue
		}
		if !core.SameFamily(core.CalleeObj(ci), gcs) || !core.Derived(acc)[recvValue(ci)] {
			continue
		}
		a := callArgs(ci)
		if ak, ok := a[0].(*ssa.Const); ok && ak.Value != nil && ak.Value.Kind() == constant.String && constant.StringVal(ak.Value) == key {
			return true
		}
	}
	return false
}

func c11(c *core.Ctx) {
	const tr = "chain/transaction"
	const cons = "chain/consensus"
	acc := func(m string) *types.Func { return c.Method("chain/types.AccountAccessor", m) }

	c.Clause("C11.1", "the end-of-block vote adjustment sees every balance change of the block: in Finalize, ChangeVotesByBalance runs after issueTermReward and refundCandidateDeposit, on the manager that is then finalised, and nothing that runs after it in Finalize, RunBlock or MineBlock can reach a balance write; chargeForGas precedes Finalize (Process/ApplyTxs charge on every successful exit and dominate Finalize); the adjustment is computed from all BalanceLog entries of the manager")
	c.Run("finalize", func() {
		fin := c.Fn(cons + ".BlockAssembler.Finalize")
		cvbObj := c.FuncObj(tr + ".ChangeVotesByBalance")
		issue := c.Method(cons+".BlockAssembler", "issueTermReward")
		refund := c.Method(cons+".BlockAssembler", "refundCandidateDeposit")
		finalise := c.Method("chain/account.Manager", "Finalise")
		cv := core.CallsIn(fin, cvbObj)
		c.Exactly("Finalize→ChangeVotesByBalance", len(cv), 1)
		if len(cv) != 1 {
			return
		}
		ordered(c, fin, issue, cvbObj)
		ordered(c, fin, refund, cvbObj)
		ordered(c, fin, cvbObj, finalise)
		heeded(c, fin, issue, core.ErrNonNil, 1, nil)
		heeded(c, fin, refund, core.ErrNonNil, 1, nil)
		mustCall(c, fin, cvbObj, nil)
		// no balance writer may run after the adjustment (a later one would leave votes that do not match balances)
		for _, w := range append(core.CallsIn(fin, issue), core.CallsIn(fin, refund)...) {
			c.Check("Finalize:no-"+objName(core.CalleeObj(w))+"-after-adjustment", "order", !core.ReachableAfter(cv[0], w), w.Pos(), "%s must not run after ChangeVotesByBalance", objName(core.CalleeObj(w)))
		}
		fs := core.CallsIn(fin, finalise)
		if len(fs) == 1 {
			c.Check("Finalize:adjusts-the-manager-it-finalises", "value-flow", sameExprM(cv[0].Common().Args[0], recvValue(fs[0])), cv[0].Pos(), "ChangeVotesByBalance works on the account manager that Finalise then commits")
		}
		r := newReacher(c, acc("SetBalance"))
		after := func(fn *ssa.Function, from ssa.CallInstruction) {
			n := 0
			for _, ci := range core.AllCalls(fn) {
				if ci == from || !core.ReachableAfter(from, ci) {
					continue
				}
				callee := ci.Common().StaticCallee()
				if callee != nil && !core.InRepo(callee) {
					continue
				}
				n++
				name := objName(core.CalleeObj(ci))
				if core.CalleeObj(ci) == nil {
					name = "func-value"
				}
				c.Check(shortFn(fn)+":after-"+objName(core.CalleeObj(from))+":"+name+"-writes-no-balance", "no-reach", !r.callReaches(ci), ci.Pos(),
					"%s runs after the vote adjustment and must not be able to reach AccountAccessor.SetBalance", name)
			}
			c.Floor(shortFn(fn)+"/calls-after-"+objName(core.CalleeObj(from)), n, 1)
		}
		after(fin, cv[0])
		// positive control of the reachability engine: the writers before the adjustment do reach SetBalance
		for _, w := range append(core.CallsIn(fin, issue), core.CallsIn(fin, refund)...) {
			c.CheckTrivial("control:"+objName(core.CalleeObj(w))+"-reaches-SetBalance", "positive-control", r.callReaches(w), w.Pos(), "the reachability engine sees that %s writes balances", objName(core.CalleeObj(w)))
		}
		// ... and it resolves interface calls and registered function values: reverting a snapshot replays undoBalance
		c.CheckTrivial("control:Manager.RevertToSnapshot-reaches-SetBalance", "positive-control", r.fnReaches(c.Fn("chain/account.Manager.RevertToSnapshot")), token.NoPos,
			"the reachability engine follows LogProcessor → registered undo functions → SetBalance")
		finObj := c.Method(cons+".BlockAssembler", "Finalize")
		for _, row := range [][2]string{{cons + ".BlockAssembler.RunBlock", "Process"}, {cons + ".BlockAssembler.MineBlock", "ApplyTxs"}} {
			fn := c.Fn(row[0])
			exec := c.Method(tr+".TxProcessor", row[1])
			ordered(c, fn, exec, finObj)
			fz := core.CallsIn(fn, finObj)
			if len(fz) == 1 {
				after(fn, fz[0])
				for _, e := range core.CallsIn(fn, exec) {
					c.Check(shortFn(fn)+":no-"+row[1]+"-after-Finalize", "order", !core.ReachableAfter(fz[0], e), e.Pos(), "txs are not executed after Finalize")
				}
			} else {
				c.Check(shortFn(fn)+":one-Finalize", "order", false, fn.Pos(), "%s must call Finalize exactly once (%d)", shortFn(fn), len(fz))
			}
		}
		// fees are credited inside Process / ApplyTxs before they return successfully
		charge := c.Method(tr+".TxProcessor", "chargeForGas")
		mustCall(c, c.Fn(tr+".TxProcessor.Process"), charge, nil)
		mustCall(c, c.Fn(tr+".TxProcessor.ApplyTxs"), charge, nil)

		// the adjustment is derived from every BalanceLog of the manager
		vl := c.Fn(tr + ".votesChangeByBalanceLog")
		fl := core.CallsIn(vl, c.FuncObj(tr+".filterLogs"))
		ok := len(fl) == 1
		if ok {
			a := fl[0].Common().Args
			bl, _ := constInt(c.Const("chain/account.BalanceLog"))
			k, isK := a[1].(*ssa.Const)
			ok = core.SliceHasCall(core.Slice(a[0]), c.Method("chain/account.Manager", "GetChangeLogs")) && core.Slice(a[0])[vl.Params[0]] && isK && k.Value != nil && k.Int64() == bl
			if ok {
				ok = false
				for _, ret := range core.Returns(vl) {
					if core.Slice(core.RetVal(ret, 0))[fl[0].Value()] {
						ok = true
					}
				}
			}
		}
		c.Check("votesChangeByBalanceLog:filterLogs(am.GetChangeLogs(), BalanceLog)", "value-flow", ok, vl.Pos(), "the per-account balance deltas are taken from all change logs of the manager, filtered by BalanceLog")
		cvf := c.Fn(tr + ".ChangeVotesByBalance")
		ccv := core.CallsIn(cvf, c.FuncObj(tr+".changeCandidateVotes"))
		okLoop := len(ccv) == 1 && core.EveryIterationPasses(ccv[0]) && core.SliceHasCall(core.Slice(ccv[0].Common().Args[2]), c.FuncObj(tr+".votesChangeByBalanceLog"))
		c.Check("ChangeVotesByBalance:applies-every-delta", "value-flow", okLoop, cvf.Pos(), "every entry of the computed delta map is applied through changeCandidateVotes")
	})

	c.Clause("C11.2", "vote state has a closed set of writers: call sites of AccountAccessor.SetVotes / SetVoteFor lie in a frozen table (register, unregister, deposit top-up, vote move ×2, balance adjustment, genesis, journal wrapper/replay); the pointer GetVotes hands out is never used as the receiver of a big.Int mutator; in CallVoteTx the old candidate is debited (modifyCandidateVotes) before VoteFor is overwritten")
	c.Run("writers", func() { c11Writers(c) })

	c.Clause("C11.3", "only candidates are credited or debited: the SetVotes sites in changeCandidateVotes and the debit in modifyCandidateVotes lie on the true edge of GetCandidateState(isCandidate)==\"true\" of the same account; CallVoteTx rejects a target whose profile says it is not a candidate before any vote is moved; unRegisterCandidate sets the votes of the account it unregisters to zero")
	c.Run("guards", func() { c11Guards(c) })

	c.Clause("C11.4", "subtractions on vote counts are guarded like subtractions on balances: every SetVotes whose argument is a big.Int Sub, or an Add of a delta not proven ≥ 0, is dominated by a heeded comparison of the operands or a sign test of the result (Account.SetVotes itself has no sign guard, unlike Account.SetBalance)")
	c.Run("sign", func() {
		n := 0
		perFn := map[string]int{}
		for _, s := range c.CallSites(acc("SetVotes")) {
			if isTestHelper(c, s.Caller) || core.RelPkg(s.Caller) == "chain/account" {
				continue
			}
			arg := callArgs(s.Instr)[0]
			op := asBigOp(localValue(arg))
			if op == nil || (op.name != "Sub" && op.name != "Add") {
				continue
			}
			n++
			fnName := shortFn(s.Caller)
			key := fnName + ":SetVotes←" + op.name
			perFn[key]++
			if perFn[key] > 1 {
				key += "#" + string(rune('a'+perFn[key]-1))
			}
			account := recvValue(s.Instr)
			// which operand is the stored count, which the delta
			isCount := func(v ssa.Value) bool {
				for w := range core.Slice(v) {
					if ci, ok := w.(ssa.CallInstruction); ok && core.SameFamily(core.CalleeObj(ci), acc("GetVotes")) && core.Derived(account)[recvValue(ci)] {
						return true
					}
				}
				return false
			}
			count, delta := op.x, op.y
			if op.name == "Add" && !isCount(count) && isCount(delta) {
				count, delta = delta, count
			}
			ok := false
			switch {
			case op.name == "Add" && provenNonNegative(c, delta, s.Instr):
				ok = true
			case comparedBefore(s.Instr, op.call.Value(), count, delta):
				ok = true
			}
			c.Check(key, "validated-use", ok, s.Instr.Pos(), "votes %s delta reaches SetVotes: the delta must be proven ≥ 0 (Add) or the operands/result must be compared first", map[string]string{"Sub": "−", "Add": "+"}[op.name])
		}
		c.Floor("arithmetic-SetVotes-sites", n, 2)
		// every other write of a count is relative too: outside the journal (package account) a SetVotes argument is computed from
		// GetVotes of the same account, or the site is one of the listed absolute writes (the count has no other contributors there)
		absolute := map[string]string{
			"(*transaction.CandidateVoteEnv).registerCandidate":   "first registration: nobody can have voted for an account that is not a candidate yet (CallVoteTx refuses non-candidates), the count starts at the deposit votes",
			"(*transaction.CandidateVoteEnv).unRegisterCandidate": "unregistering: the count is zeroed together with the isCandidate flag (C11.3)",
			"(*chain.Genesis).initCandidateListInfo":              "genesis deputies start at zero",
		}
		expandInlinedNames(c, absolute)
		nRel, nAbs := 0, 0
		absSeen := map[string]int{}
		for _, s := range c.CallSites(acc("SetVotes")) {
			if isTestHelper(c, s.Caller) || core.RelPkg(s.Caller) == "chain/account" {
				continue
			}
			account := recvValue(s.Instr)
			rel := false
			for w := range core.Slice(callArgs(s.Instr)[0]) {
				if ci, ok := w.(ssa.CallInstruction); ok && core.SameFamily(core.CalleeObj(ci), acc("GetVotes")) && core.Derived(account)[recvValue(ci)] {
					rel = true
				}
			}
			if rel {
				nRel++
				continue
			}
			nAbs++
			name := shortFn(core.Outer(s.Caller))
			absSeen[name]++
			reason, listed := absolute[name]
			c.Check("SetVotes:relative-or-listed@"+name+seqSuffix(absSeen[name]), "value-flow", listed && absSeen[name] == 1, s.Instr.Pos(), "%s writes a vote count that is not computed from the account's current count (GetVotes of the same account): an absolute write drops what the voters contributed; listed=%v: %s", name, listed, reason)
		}
		c.Floor("relative-SetVotes-sites", nRel, 3)
		c.Note("SetVotes sites outside the journal: %d relative, %d absolute (listed)", nRel, nAbs)
		// sibling: SetBalance has the guard SetVotes lacks (recorded so that the contrast is part of the evidence)
		sv := c.Fn("chain/account.Account.SetVotes")
		has := false
		for _, g := range core.CondGuards(sv, nil) {
			if _, _, ok := signTest(c, g.If.Cond); ok {
				has = true
			}
		}
		for _, b := range sv.Blocks {
			for _, in := range b.Instrs {
				if _, isP := in.(*ssa.Panic); isP {
					has = true
				}
			}
		}
		c.Note("Account.SetVotes has a sign guard of its own: %v (Account.SetBalance has one — C05.4)", has)
	})

	c.Clause("C11.5", "the balance a vote transaction weighs is the sender's balance before this transaction bought gas: the end-of-block pass starts from the block-start balance, so the two must not be separated by the gas purchase")
	c.Run("vote-weight-balance", func() {
		const tr = "chain/transaction"
		ap := c.Fn(tr + ".TxProcessor.applyTx")
		ht := core.CallsIn(ap, c.Method(tr+".TxProcessor", "handleTx"))
		gb := c.Method("chain/types.AccountAccessor", "GetBalance")
		buy := []*types.Func{c.Method(tr+".TxProcessor", "buyAndPayIntrinsicGas"), c.Method(tr+".TxProcessor", "buyGas")}
		c.Exactly("applyTx/handleTx-calls", len(ht), 1)
		if len(ht) != 1 {
			return
		}
		// the *big.Int argument of handleTx that comes from a GetBalance call
		htFn := c.Fn(tr + ".TxProcessor.handleTx")
		var balArg ssa.Value
		var balParam *ssa.Parameter
		for i, a := range ht[0].Common().Args {
			if core.SliceHasCall(core.Slice(a), gb) && i < len(htFn.Params) {
				if _, isPtr := a.Type().(*types.Pointer); isPtr && namedPtr(a.Type()) == "Int" {
					balArg, balParam = a, htFn.Params[i]
				}
			}
		}
		if !c.Check("applyTx:handleTx(initial balance from GetBalance)", "value-flow", balArg != nil, ht[0].Pos(), "handleTx is given the sender's balance read by applyTx") {
			return
		}
		ok := false
		for v := range core.Slice(balArg) {
			call, isCall := v.(*ssa.Call)
			if !isCall || !core.SameFamily(core.CalleeObj(call), gb) {
				continue
			}
			before := true
			for _, b := range core.CallsIn(ap, buy...) {
				if !core.Dominates(call, b) {
					before = false
				}
			}
			if before && len(core.CallsIn(ap, buy...)) >= 1 {
				ok = true
			}
		}
		c.Check("applyTx:initial-balance-read≺buyGas", "order", ok, ht[0].Pos(), "the balance handed to handleTx is read before the gas purchase debits the sender")
		// and that value (not a fresh read) is what the vote transaction weighs
		cv := core.CallsIn(htFn, c.Method(tr+".CandidateVoteEnv", "CallVoteTx"))
		okv := len(cv) >= 1
		for _, g := range cv {
			found := false
			for _, a := range g.Common().Args {
				if balParam != nil && core.Slice(a)[balParam] {
					found = true
				}
			}
			if !found {
				okv = false
			}
		}
		c.Check("handleTx:CallVoteTx(initial balance)", "value-flow", okv, htFn.Pos(), "the vote transaction is weighed with the balance handed in by applyTx")
	})

	c.Clause("C11.6", "vote counts and candidate profiles of one fork do not leak into another: the account copy a block executes on has its own Votes and its own Profile (AccountData.Copy is deep for them; premise of C09.6, evaluated here as well)")
	c.Run("copy-deep", func() { c09CopyDeep(c) })

	c.Clause("C11.7", "the recorded deposit changes only with money that moved: a profile update copies the transaction's keys into the stored profile only when the key is neither the deposit amount nor the node id")
	c.Run("deposit-key-fixed", func() { c11DepositKeyFixed(c) })
	c.Clause("C11.8", "vote arithmetic reads the state of the branch being executed: in the executing packages the account as of the node's stable block (GetCanonicalAccount) is read only at the recorded asset pre-check — a balance delta of an unstable ancestor would be converted into votes twice")
	c.Run("votes-from-block-state", func() { c11VotesFromBlockState(c) })

	c.Clause("C11.9", "balance votes are floor(balance / rate) on both sides of a change: in getVotesChangesByLogs VoteExchangeRate divides a value drawn from the old balance alone and a value drawn from the new balance alone (shape of the formula only; the sums stay undecided)")
	c.Run("quotient-difference", func() { c11VotesAreQuotientDifference(c) })

	c.NotDecidedf("the tally equation itself is NOT decided: that a candidate's votes equal deposit/DepositExchangeRate + Σ balance(voter)/VoteExchangeRate over its voters (sums over runtime balances); D19 shows a reachable history where it fails")
	c.NotDecidedf("clause 4 only says whether a negative count is prevented, not whether counts are right; clause 1 says the adjustment runs after every balance writer, not that its arithmetic (per-account floor division of old/new balance) matches the per-tx vote moves")
	c.NotDecidedf("writes to the vote counter that bypass the accessor interface inside package account or types (decoders, Copy), and candidates' Top-list ranking (C10)")
}

// c11Writers is clause C11.2 (closed writers of vote state, GetVotes results never mutated); evaluated under C10.11 as well.
func c11Writers(c *core.Ctx) {
	const tr = "chain/transaction"
	const cons = "chain/consensus"
	acc := func(m string) *types.Func { return c.Method("chain/types.AccountAccessor", m) }
	_, _ = tr, cons
	_ = acc
	closedSites(c, "SetVotes", acc("SetVotes"), map[string]siteClass{
		"(*" + tr + ".CandidateVoteEnv).registerCandidate":    {1, "initial votes from the deposit"},
		"(*" + tr + ".CandidateVoteEnv).unRegisterCandidate":  {1, "zero on unregistration"},
		tr + ".addDepositChangeVotes":                         {1, "deposit top-up"},
		"(*" + tr + ".CandidateVoteEnv).modifyCandidateVotes": {2, "vote move: old candidate −v, new candidate +v"},
		tr + ".changeCandidateVotes":                          {1, "end-of-block balance adjustment"},
		"(*chain.Genesis).initCandidateListInfo":              {1, "genesis"},
		"(*chain/account.SafeAccount).SetVotes":               {1, "journalling wrapper → raw account"},
		"chain/account.redoVotes":                             {1, "journal replay"},
		"chain/account.undoVotes":                             {1, "journal undo"},
	})
	closedSites(c, "SetVoteFor", acc("SetVoteFor"), map[string]siteClass{
		"(*" + tr + ".CandidateVoteEnv).CallVoteTx": {1, "vote tx"},
		"(*chain/account.SafeAccount).SetVoteFor":   {1, "journalling wrapper → raw account"},
		"chain/account.redoVoteFor":                 {1, "journal replay"},
		"chain/account.undoVoteFor":                 {1, "journal undo"},
	})
	// GetVotes returns the stored pointer: nobody may compute into it
	n, bad := 0, 0
	for _, s := range c.CallSites(acc("GetVotes")) {
		if isTestHelper(c, s.Caller) {
			continue
		}
		n++
		v := s.Instr.Value()
		if v == nil {
			continue
		}
		for d := range core.Derived(v) {
			if d.Referrers() == nil {
				continue
			}
			for _, r := range *d.Referrers() {
				ci, ok := r.(ssa.CallInstruction)
				if !ok || core.BigIntMethod(ci) == "" || ci.Common().Args[0] != d {
					continue
				}
				if res := ci.Common().Signature().Results(); res.Len() > 0 {
					if _, isPtr := res.At(0).Type().(*types.Pointer); isPtr {
						bad++
						c.Check("GetVotes-result-mutated@"+core.FuncName(core.Outer(s.Caller)), "alias-write", false, ci.Pos(), "the *big.Int returned by GetVotes is the stored counter; %s writes into it without SetVotes", core.BigIntMethod(ci))
					}
				}
			}
		}
	}
	c.Floor("GetVotes-sites", n, 5)
	c.Check("GetVotes-result-never-mutated", "alias-write", bad == 0, token.NoPos, "%d of %d GetVotes results are used as the receiver of a big.Int mutator", bad, n)

	cv := c.Fn(tr + ".CandidateVoteEnv.CallVoteTx")
	mod := c.Method(tr+".CandidateVoteEnv", "modifyCandidateVotes")
	ordered(c, cv, mod, acc("SetVoteFor"))
	ms, sv := core.CallsIn(cv, mod), core.CallsIn(cv, acc("SetVoteFor"))
	if len(ms) == 1 && len(sv) == 1 {
		c.Check("CallVoteTx:no-modifyCandidateVotes-after-SetVoteFor", "order", !core.ReachableAfter(sv[0], ms[0]), ms[0].Pos(), "the vote move reads the old VoteFor, so it must not run after SetVoteFor")
		a := ms[0].Common().Args // c, voter, newCandidate, votes
		c.Check("CallVoteTx:same-voter", "value-flow", core.Derived(a[1])[recvValue(sv[0])] || a[1] == recvValue(sv[0]), sv[0].Pos(), "VoteFor is set on the voter account whose old vote was moved")
		// the new VoteFor is the candidate that was credited
		gcand := core.Slice(a[2])
		c.Check("CallVoteTx:VoteFor=credited-candidate", "value-flow", gcand[callArgs(sv[0])[0]], sv[0].Pos(), "the address stored in VoteFor is the one the credited candidate account was looked up by")
	}
	// modifyCandidateVotes debits the candidate the voter currently votes for
	mf := c.Fn(tr + ".CandidateVoteEnv.modifyCandidateVotes")
	for _, s := range core.CallsIn(mf, acc("SetVotes")) {
		op := asBigOp(callArgs(s)[0])
		if op == nil || op.name != "Sub" {
			continue
		}
		sl := core.Slice(recvValue(s))
		okOld := false
		for v := range sl {
			if ci, ok := v.(ssa.CallInstruction); ok && core.SameFamily(core.CalleeObj(ci), acc("GetVoteFor")) && recvValue(ci) == mf.Params[1] {
				okOld = true
			}
		}
		c.Check("modifyCandidateVotes:debits voter.GetVoteFor()", "value-flow", okOld, s.Pos(), "the debited account is looked up by the voter's current VoteFor")
	}
}

// c11Guards is clause C11.3 (only candidates are credited or debited); evaluated under C10.11 as well.
func c11Guards(c *core.Ctx) {
	const tr = "chain/transaction"
	const cons = "chain/consensus"
	acc := func(m string) *types.Func { return c.Method("chain/types.AccountAccessor", m) }
	_, _ = tr, cons
	_ = acc
	n := 0
	cc := c.Fn(tr + ".changeCandidateVotes")
	for i, s := range core.CallsIn(cc, acc("SetVotes")) {
		n++
		c.Check("changeCandidateVotes:IsCandidate≺SetVotes#"+string(rune('a'+i)), "guarded-action", candidateGuard(c, s, recvValue(s)), s.Pos(), "the adjusted account is tested to be a candidate")
	}
	mf := c.Fn(tr + ".CandidateVoteEnv.modifyCandidateVotes")
	for _, s := range core.CallsIn(mf, acc("SetVotes")) {
		op := asBigOp(callArgs(s)[0])
		if op == nil || op.name != "Sub" {
			continue
		}
		n++
		c.Check("modifyCandidateVotes:IsCandidate≺debit", "guarded-action", candidateGuard(c, s, recvValue(s)), s.Pos(), "the old candidate is only debited while it is still a candidate")
	}
	c.Exactly("candidate-guarded-sites", n, 2)

	cv := c.Fn(tr + ".CandidateVoteEnv.CallVoteTx")
	mod := c.Method(tr+".CandidateVoteEnv", "modifyCandidateVotes")
	key, no := strConst(c.Const("chain/types.CandidateKeyIsCandidate")), strConst(c.Const("chain/types.NotCandidateNode"))
	for _, m := range core.CallsIn(cv, mod) {
		target := m.Common().Args[2]
		okNo, okMissing := false, false
		for _, g := range core.CondGuards(cv, nil) {
			if !g.GuardsAction(m) {
				continue
			}
			// the condition reads profile[isCandidate] of the target account
			reads := false
			for v := range g.Slice {
				if lk, ok := v.(*ssa.Lookup); ok {
					if k, isK := lk.Index.(*ssa.Const); isK && k.Value != nil && k.Value.Kind() == constant.String && constant.StringVal(k.Value) == key {
						for w := range core.Slice(lk.X) {
							if ci, isCall := w.(ssa.CallInstruction); isCall && core.SameFamily(core.CalleeObj(ci), acc("GetCandidate")) && core.Derived(target)[recvValue(ci)] {
								reads = true
							}
						}
					}
				}
			}
			if !reads {
				continue
			}
			if rejectsWhenEqual(g) && sliceHasStrConst(g.Slice, no) {
				okNo = true
			}
			if ex, ok := g.If.Cond.(*ssa.Extract); ok && ex.Index == 1 && g.Fail == g.If.Block().Succs[1] {
				okMissing = true
			}
		}
		c.Check("CallVoteTx:target-not-candidate⇒reject", "guarded-action", okNo, m.Pos(), "a target whose profile says isCandidate==\"false\" is rejected before votes are moved")
		c.Check("CallVoteTx:target-without-profile⇒reject", "guarded-action", okMissing, m.Pos(), "a target without an isCandidate entry is rejected before votes are moved")
	}
	// unRegisterCandidate
	un := c.Fn(tr + ".CandidateVoteEnv.unRegisterCandidate")
	scs := c.Method("chain/types.AccountAccessor", "SetCandidateState")
	var off ssa.CallInstruction
	for _, s := range core.CallsIn(un, scs) {
		a := callArgs(s)
		k0, ok0 := a[0].(*ssa.Const)
		k1, ok1 := a[1].(*ssa.Const)
		if ok0 && ok1 && k0.Value != nil && k1.Value != nil && constant.StringVal(k0.Value) == key && constant.StringVal(k1.Value) == no {
			off = s
		}
	}
	okZero := false
	if off != nil {
		for _, s := range core.CallsIn(un, acc("SetVotes")) {
			if recvValue(s) == recvValue(off) && isZeroBig(c, callArgs(s)[0]) && (core.AlwaysFollowedBy(off, s) || (core.Dominates(s, off) && s.Block() == off.Block())) {
				okZero = true
			}
		}
	}
	c.Check("unRegisterCandidate:votes←0", "paired-write", off != nil && okZero, un.Pos(), "whenever an account is marked not-a-candidate its votes are set to zero on the same path")
}
