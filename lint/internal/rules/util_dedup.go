package rules

import (
	"go/token"
	"go/types"

	"golang.org/x/tools/go/ssa"

	"verif/lint/internal/core"
)

// ---------------------------------------------------------------------------------------------
// test-and-insert ("seen set") recognition, used by C04.4, C04.5b, C06.3, C06.4
//
// A dedupSite is a place of function F where a key is tested against a set and
//   - when the key is already present, F can only fail (every return reachable over that edge is a failure return);
//   - otherwise the key is inserted into the same set before the test can run again.
// Two source shapes are recognised, so that moving the three lines into a closure or a helper of the package is not noticed:
//   inline:     if _, ok := set[k]; ok { return err }; set[k] = v
//   predicate:  seen := func(k K) bool { if _, ok := set[k]; ok { return true }; set[k] = v; return false }   (closure or function)
//               if seen(k) { return err }

type dedupSite struct {
	At   ssa.Instruction // the membership test inside F: the Lookup (inline) or the call of the predicate
	Key  ssa.Value       // the key, a value of F
	Set  ssa.Value       // identity of the set inside F (the map value, or the local cell that holds it)
	Test core.Test       // the branch on the outcome; Test.Fail is the "already present" edge
}

// setRoot strips loads of local cells, so that two uses of one captured/addressed map variable compare equal.
func setRoot(v ssa.Value) ssa.Value {
	for {
		switch x := v.(type) {
		case *ssa.UnOp:
			if x.Op == token.MUL {
				if _, ok := x.X.(*ssa.Alloc); ok {
					return x.X
				}
				if _, ok := x.X.(*ssa.FreeVar); ok {
					return x.X
				}
			}
			return v
		case *ssa.ChangeType:
			v = x.X
		default:
			return v
		}
	}
}

// insertAfter: F contains a MapUpdate of the set with the same key on the accepting side of t such that the membership
// test cannot be evaluated again (next iteration) without the insertion having happened.
func insertAfter(fn *ssa.Function, lk *ssa.Lookup, t core.Test) bool {
	root := setRoot(lk.X)
	for _, b := range fn.Blocks {
		for _, in := range b.Instrs {
			mu, ok := in.(*ssa.MapUpdate)
			if !ok || setRoot(mu.Map) != root || !core.SamePlaceLoad(lk.Index, mu.Key) {
				continue
			}
			if b != t.OK && !t.OK.Dominates(b) {
				continue
			}
			// from the accepting edge the lookup is not reachable again around the insertion
			if b != t.OK && core.CanReach(t.OK, lk.Block(), b) {
				continue
			}
			return true
		}
	}
	return false
}

type dedupPred struct {
	keyParam int // index into Params
	setFree  int // index into FreeVars, -1
	setParam int // index into Params, -1
}

// dedupPredicate recognises `func(k) bool` that returns true iff k was already in the set and inserts it otherwise.
func dedupPredicate(fn *ssa.Function) *dedupPred {
	if fn == nil || fn.Blocks == nil || fn.Signature.Results().Len() != 1 {
		return nil
	}
	if b, ok := fn.Signature.Results().At(0).Type().Underlying().(*types.Basic); !ok || b.Info()&types.IsBoolean == 0 {
		return nil
	}
	for _, b := range fn.Blocks {
		for _, in := range b.Instrs {
			lk, ok := in.(*ssa.Lookup)
			if !ok || !lk.CommaOk {
				continue
			}
			if _, isMap := lk.X.Type().Underlying().(*types.Map); !isMap {
				continue
			}
			p := &dedupPred{keyParam: -1, setFree: -1, setParam: -1}
			for i, par := range fn.Params {
				if core.Derived(par)[lk.Index] {
					p.keyParam = i
				}
			}
			if p.keyParam < 0 {
				continue
			}
			switch r := setRoot(lk.X).(type) {
			case *ssa.FreeVar:
				for i, fv := range fn.FreeVars {
					if fv == r {
						p.setFree = i
					}
				}
			case *ssa.Parameter:
				for i, par := range fn.Params {
					if par == r {
						p.setParam = i
					}
				}
			}
			if p.setFree < 0 && p.setParam < 0 {
				continue
			}
			okVal := extractOf(lk, 1)
			if okVal == nil {
				continue
			}
			for _, t := range core.TestsOf(okVal, core.IsTrue) {
				// present ⇒ only `return true`
				if !core.RejectsOnly(t, nil, &bTrue) {
					continue
				}
				// absent ⇒ inserted, and only `return false`
				if !insertAfter(fn, lk, t) {
					continue
				}
				good := true
				for _, ret := range core.Returns(fn) {
					if core.CanReach(t.OK, ret.Block(), t.If.Block()) && core.ClassifyReturn(ret, nil, &bFalse) != core.RetFailure {
						good = false
					}
				}
				if good {
					return p
				}
			}
		}
	}
	return nil
}

func extractOf(tuple ssa.Value, idx int) ssa.Value {
	if tuple.Referrers() == nil {
		return nil
	}
	for _, r := range *tuple.Referrers() {
		if e, ok := r.(*ssa.Extract); ok && e.Index == idx {
			return e
		}
	}
	return nil
}

// dedupSites lists the test-and-insert sites of fn. boolFail is fn's rejecting boolean result (nil for error-returning fn).
func dedupSites(fn *ssa.Function, boolFail *bool) []dedupSite {
	var out []dedupSite
	for _, b := range fn.Blocks {
		for _, in := range b.Instrs {
			switch x := in.(type) {
			case *ssa.Lookup:
				if !x.CommaOk {
					continue
				}
				if _, isMap := x.X.Type().Underlying().(*types.Map); !isMap {
					continue
				}
				okVal := extractOf(x, 1)
				if okVal == nil {
					continue
				}
				for _, t := range core.TestsOf(okVal, core.IsTrue) {
					if core.RejectsOnly(t, nil, boolFail) && insertAfter(fn, x, t) {
						out = append(out, dedupSite{At: x, Key: x.Index, Set: setRoot(x.X), Test: t})
						break
					}
				}
			case *ssa.Call:
				callee := x.Call.StaticCallee()
				if callee == nil || x.Call.IsInvoke() {
					continue
				}
				p := dedupPredicate(callee)
				if p == nil || p.keyParam >= len(x.Call.Args) {
					continue
				}
				var set ssa.Value
				if p.setFree >= 0 {
					mc, ok := x.Call.Value.(*ssa.MakeClosure)
					if !ok || p.setFree >= len(mc.Bindings) {
						continue
					}
					set = setRoot(mc.Bindings[p.setFree])
				} else {
					set = setRoot(x.Call.Args[p.setParam])
				}
				for _, t := range core.TestsOf(x, core.IsTrue) {
					if core.RejectsOnly(t, nil, boolFail) {
						out = append(out, dedupSite{At: x, Key: x.Call.Args[p.keyParam], Set: set, Test: t})
						break
					}
				}
			}
		}
	}
	return out
}

// ---------------------------------------------------------------------------------------------
// control-dependence classification

// rejectingCtrl: the branch not taken towards the instruction leads only to failure returns (the instruction lies on the
// accepting side of a check).
func rejectingCtrl(ct core.Ctrl, boolFail *bool) bool {
	b := ct.If.Block()
	return core.RejectsOnly(core.Test{If: ct.If, Fail: b.Succs[1-ct.Taken], OK: b.Succs[ct.Taken]}, nil, boolFail)
}

// eqCtrl: the branch is taken exactly when `pred(slice of the condition)` holds and the condition is an equality that is true
// (==) or false (!=) on the taken edge, i.e. "x == K" holds on the way to the instruction.
func eqCtrl(ct core.Ctrl, pred func(sl map[ssa.Value]bool) bool) bool {
	bo, ok := ct.If.Cond.(*ssa.BinOp)
	if !ok {
		return false
	}
	if !(bo.Op == token.EQL && ct.Taken == 0) && !(bo.Op == token.NEQ && ct.Taken == 1) {
		return false
	}
	return pred(core.Slice(bo))
}

// onlyControlledBy records an obligation that every branch deciding whether `in` runs is of an allowed kind; loop conditions
// and the accepting sides of rejecting checks are always allowed. It returns the controllers not covered by those two.
func onlyControlledBy(c *core.Ctx, key, what string, in ssa.Instruction, boolFail *bool, allow func(ct core.Ctrl) bool) bool {
	ok := true
	for _, ct := range core.Controllers(in) {
		if core.IsLoopHeaderIf(ct.If) || rejectingCtrl(ct, boolFail) {
			continue
		}
		if allow != nil && allow(ct) {
			continue
		}
		ok = false
	}
	return c.Check(key, "control-scope", ok, in.Pos(), "%s must not be skipped under any condition other than the stated ones", what)
}

// decidingCtrls returns the branches that decide whether `in` runs, leaving out loop conditions and the accepting sides of
// rejecting checks (those only say "nothing failed before").
func decidingCtrls(in ssa.Instruction, boolFail *bool) []core.Ctrl {
	var out []core.Ctrl
	for _, ct := range core.Controllers(in) {
		if core.IsLoopHeaderIf(ct.If) || rejectingCtrl(ct, boolFail) {
			continue
		}
		out = append(out, ct)
	}
	return out
}
