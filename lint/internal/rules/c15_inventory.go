package rules

// c15Inventory: the explicit panic(...) sites and single-result type assertions in the call-graph closure of the network roots
// (C15.6), keyed by enclosing function + kind of the panic argument / asserted type (never by line). n is the number of sites of
// that kind in the function; fewer is fine, more is a new site. why is the invariant that keeps remote input away from the site.
// A site that is reachable from remote input today is marked "FINDING …" and must be listed in known_findings.json.
const (
	whyLocalDB   = "the condition reads only what this node stored itself (database, trie node, file write result): disk corruption or I/O failure, not message bytes"
	whyLocalType = "the dynamic type is fixed by local code: the only producer of the value stores exactly this type"
	whyReflect   = "the asserted type follows from the reflect.Type the codec was selected for (typeCache), i.e. from the Go type of the local target, not from the bytes decoded"
	whyLocalLogs = "the change log was produced by this node's own New*Log constructor during execution (received ChangeLogs are only compared by root, never replayed on this path); C07 checks constructor/undo/redo agreement"
	whyStoreSeq  = "store-internal sequencing: the block was put into UnConfirmBlocks by SetBlock under chainLock earlier on the same path (C08/C09 check the order); a received block reaches it only after VerifyAndSeal accepted it"
	whyDevAssert = "argument supplied by local code only (a nil database / key / zero value would fail on the first block of any node, independent of input)"
	whySafeAcc   = "SafeAccount's root/hash setters are never called: undo and redo fetch the raw *Account through LogProcessor.GetAccount → getRawAccount (C07.effects binds the processor to *LogProcessor); the VTA edge is an over-approximation"
)

var c15Inventory = map[string]c15Entry{
	// ---- chain/account
	"(*chain/account.Account).SetBalance#panic(var ErrNegativeBalance)":                  {1, "every debit is dominated by a balance test and no negative amount or gas price is accepted (C05.4 validated-use; D32 repaired: VerifyTxBody rejects a negative gas price for block transactions too)"},
	"(*chain/account.LogProcessor).RevertToSnapshot#assert(*account.Account)":            {2, whyLocalType + " (LogProcessor.GetAccount returns getRawAccount's *Account)"},
	"(*chain/account.LogProcessor).RevertToSnapshot#panic(call types.ChangeLog.Undo)":    {1, whyLocalLogs + "; D29 repaired (nil OldVal of a first equity credit)"},
	"(*chain/account.LogProcessor).RevertToSnapshot#panic(var ErrRevisionNotExist)":      {1, "the revision id is the one Snapshot() returned earlier in the same call frame (C07 pairing rule)"},
	"(*chain/account.LogProcessor).RevertToSnapshot#panic(var ErrWrongChangeLogVersion)": {1, "journal versions are contiguous per account and type (C07; D1 repaired: undo gives the provisional version back)"},
	"(*chain/account.Manager).AddEvent#panic(const string)":                              {1, "the event address is the executing contract's own address (vm.makeLog), a hash-derived creation address or the transaction's checked recipient, never the zero address with code"},
	"(*chain/account.Manager).GetCanonicalAccount#panic(value error)":                    {1, whyLocalDB},
	"(*chain/account.Manager).Reset#panic(call account.Manager.loadBaseBlock)":           {1, "the base block is the parent, which verifyParentHash found in the store before RunBlock (C02.1)"},
	"(*chain/account.Manager).loadBaseBlock#panic(value string)":                         {1, "the base block is the parent, which verifyParentHash found in the store before RunBlock (C02.1)"},
	"(*chain/account.Manager).getRawAccount#assert(*account.SafeAccount)":                {1, whyLocalType + " (Manager.GetAccount only caches NewSafeAccount values)"},
	"(*chain/account.Manager).getVersionTrie#panic(value error)":                         {1, whyLocalDB},
	"(*chain/account.Manager).updateVersion#assert(*types.Event)":                        {1, whyLocalLogs + " (NewAddEventLog stores *types.Event)"},
	"(*chain/account.ReadOnlyManager).GetAccount#panic(value error)":                     {1, whyLocalDB},
	"(*chain/account.SafeAccount).SetAssetCodeRoot#panic(const string)":                  {1, whySafeAcc},
	"(*chain/account.SafeAccount).SetAssetIdRoot#panic(const string)":                    {1, whySafeAcc},
	"(*chain/account.SafeAccount).SetCodeHash#panic(const string)":                       {1, whySafeAcc},
	"(*chain/account.SafeAccount).SetEquityRoot#panic(const string)":                     {1, whySafeAcc},
	"(*chain/account.SafeAccount).SetStorageRoot#panic(const string)":                    {1, whySafeAcc},
	"chain/account.IsValuable#assert(*types.AccountData)":                                {1, whyLocalLogs},
	"chain/account.IsValuable#assert([]byte)":                                            {2, whyLocalLogs},
	"chain/account.IsValuable#assert(big.Int)":                                           {6, whyLocalLogs},
	"chain/account.IsValuable#assert(common.Address)":                                    {2, whyLocalLogs},
	"chain/account.IsValuable#assert(types.Code)":                                        {1, whyLocalLogs},

	// ---- chain/consensus, deputynode
	"(*chain/consensus.ForkManager).GetHeadBlock#assert(*types.Block)":              {1, whyLocalType + " (SetHeadBlock is the only Store and takes *types.Block)"},
	"(*chain/consensus.ForkManager).SetHeadBlock#panic(var ErrNoHeadBlock)":         {1, "the head is chosen among stored, verified blocks (ChooseNewFork over the unconfirmed tree with the stable block as fallback), never taken from a message"},
	"(*chain/consensus.StableManager).StableBlock#panic(value error)":               {1, whyLocalDB + " (the genesis block is written at start-up)"},
	"chain/consensus.GetCorrectMiner#panic(const string)":                           {1, "D20 repaired: a mine time before the parent's is rejected first (order checked by C15.6/GetCorrectMiner:ErrSmallerMineTime≺panic) and every stored parent has Time ≥ genesis time ≥ 10^7 s"},
	"(*chain/deputynode.Manager).GetDeputyByDistance#panic(var ErrInvalidDistance)": {1, "distance = (passTime % loop)/timeout + 1 ≥ 1 because passTime ≥ 0 was tested first in GetCorrectMiner"},
	"(*chain/deputynode.Manager).GetDeputyByDistance#panic(var ErrMineGenesis)":     {1, "targetHeight = parent.Height+1 ≥ 1 for a stored parent (uint32 overflow would need 2^32 blocks)"},
	"(*chain/deputynode.Manager).SaveSnapshot#panic(var ErrMissingTerm)":            {1, "snapshot blocks become stable in height order (UpdateStable only moves forward, C03), so term indices arrive consecutively"},
	"chain/deputynode.NewTermRecord#panic(var ErrInvalidSnapshotHeight)":            {1, "called by saveSnapshot only under IsSnapshotBlock(height)"},
	"chain/deputynode.NewTermRecord#panic(var ErrNoDeputyInBlock)":                  {1, "a snapshot block's DeputyNodes equal the locally loaded top candidates (verifyDeputy, C02.1), which hold at least the genesis deputies"},
	"chain/deputynode.NewTermRecord#panic(var ErrInvalidDeputyRank)":                {1, "ranks are assigned 0..n-1 by LoadTopCandidates and compared by verifyDeputy (C02.1)"},
	"chain/deputynode.NewTermRecord#panic(var ErrInvalidDeputyVotes)":               {1, "FINDING D8: LoadTopCandidates takes the ranking from the parent's store view but the votes from the post-block account manager; a vote change inside the snapshot block yields non-monotone votes and every node panics when that block turns stable"},

	// ---- chain/transaction, txpool, types, vm
	"(*chain/transaction.CandidateVoteEnv).refundDeposit#panic(const string)": {1, "reached only for an account whose candidate profile was written by registerCandidate (IsCandidate tested first), which always sets the node id"},
	"(*chain/transaction.TxProcessor).Process#panic(var ErrInvalidGenesis)":   {1, "height = parent.Height+1 ≥ 1 was established by verifyHeight before RunBlock (C02.1)"},
	"chain/transaction.NewEVMContext#panic(const string)":                     {1, "header.MinerAddress equals the address of a registered deputy (verifySigner, C02.1), which is the candidate account that signed the registration, never the zero address"},
	"chain/transaction.Refund#panic(const string)":                            {2, "the deposit string was written by registerCandidate from a parsed big.Int, and the deposit pool holds the sum of all deposits (C05 conservation)"},
	"chain/transaction.getVotesChangesByLogs#assert(big.Int)":                 {2, whyLocalLogs + " (balance logs carry big.Int by NewBalanceLog)"},
	"(*chain/txpool.TxGuard).DelOldBlocks#panic(var ErrInvalidBaseTime)":      {1, "the stable block's Time ≥ genesis time (GetCorrectMiner rejects a child older than its parent) ≫ MaxTxLifeTime"},
	"(chain/txpool.BlockCache).IsAppearedOnFork#panic(value error)":           {2, "the start block is the parent (verifyParentHash, C02.1) or the current block, both inside the guard window [stable time − MaxTxLifeTime, …] kept by SaveBlock/DelOldBlocks (C04)"},
	"(*chain/types.GasPool).AddGas#panic(const string)":                       {1, "the pool starts at 0 + header.GasLimit and is only refunded what was subtracted before (C05 gas rules)"},
	"(*chain/types.Header).SignerNodeID#assert([]byte)":                       {1, whyLocalType + " (the atomic cache is only stored a []byte in the same function)"},
	"(*chain/types.Transaction).Hash#assert(common.Hash)":                     {1, whyLocalType + " (the atomic cache is only stored a common.Hash in the same function)"},
	"chain/types.formatInterface#assert(big.Int)":                             {1, "guarded by reflect.TypeOf(v) == the asserted type in the preceding condition"},
	"chain/types.formatInterface#assert(common.Address)":                      {1, "guarded by reflect.TypeOf(v) == the asserted type in the preceding condition"},
	"chain/types.formatInterface#assert(types.Signers)":                       {1, "guarded by reflect.TypeOf(v) == the asserted type in the preceding condition"},
	"(*chain/vm.Contract).AsDelegate#assert(*vm.Contract)":                    {1, whyLocalType + " (DelegateCall is only entered from opDelegateCall with the running *Contract as caller)"},
	"(*chain/vm.Memory).Set#panic(const string)":                              {1, "the interpreter resizes memory to the operation's memorySize (gas-charged, overflow-checked) before execute; C16 sandbox rules"},

	// ---- common
	"(*common/crypto/secp256k1.BitCurve).ScalarMult#panic(const string)": {1, "the scalar is the local private key D (≤ 32 bytes), never remote bytes"},
	"(*common/crypto/sha3.state).Write#panic(const string)":              {1, "a fresh hasher is created per Keccak256 call and written before it is read"},
	"(*common/subscribe.Feed).Send#panic(value subscribe.feedTypeError)": {1, "the value type sent on each feed is fixed in local code and equals the subscribers' channel element type"},
	"common/rlp.Encode#assert(*rlp.encbuf)":                              {1, whyLocalType + " (sync.Pool New returns *encbuf)"},
	"common/rlp.EncodeToBytes#assert(*rlp.encbuf)":                       {1, whyLocalType + " (sync.Pool New returns *encbuf)"},
	"common/rlp.decodeBigInt#assert(*big.Int)":                           {1, whyReflect},
	"common/rlp.decodeByteArray#assert([]byte)":                          {1, whyReflect},
	"common/rlp.decodeDecoder#assert(rlp.Decoder)":                       {1, whyReflect},
	"common/rlp.decodeDecoderNoPtr#assert(rlp.Decoder)":                  {1, whyReflect},
	"common/rlp.writeBigIntNoPtr#assert(big.Int)":                        {1, whyReflect},
	"common/rlp.writeBigIntPtr#assert(*big.Int)":                         {1, whyReflect},
	"common/rlp.writeEncoder#assert(rlp.Encoder)":                        {1, whyReflect},
	"common/rlp.writeEncoderNoPtr#assert(rlp.Encoder)":                   {1, whyReflect},

	// ---- network
	"network/p2p.exportPubKey#panic(const string)": {1, "called with the address of the freshly generated random key's PublicKey field, never nil"},

	// ---- store
	"(*store.AccountTrieDB).Collect#panic(call fmt.Sprintf)":       {1, whyLocalType + " (AccountTrieDB.Put stores *types.AccountData)"},
	"(*store.AccountTrieDB).Get#panic(call fmt.Sprintf)":           {1, whyLocalType + " (AccountTrieDB.Put stores *types.AccountData)"},
	"(*store.CandidateCache).Set#panic(const string)":              {1, "a candidate record is address + vote total; the total is bounded by the LEMO supply / VoteExchangeRate (C05 conservation), far below the 2^256 that would exceed ItemMaxSize"},
	"(*store.CandidateTrieDB).GetAll#panic(call fmt.Sprintf)":      {1, whyLocalType + " (CandidateTrieDB.Put stores *Candidate)"},
	"(*store.CandidateTrieDB).GetAll#panic(const string)":          {1, whyLocalType + " (CandidateTrieDB.Put stores non-nil *Candidate)"},
	"(*store.ChainDatabase).CandidatesRanking#panic(const string)": {3, whyStoreSeq},
	"(*store.ChainDatabase).GetActDatabase#panic(const string)":    {1, "the hash is the parent's (verifyParentHash found it, C02.1) or a block just stored; parent ∈ unconfirmed ∪ {stable} under chainLock"},
	"(*store.ChainDatabase).GetCandidatesTop#panic(const string)":  {3, "the hash is the parent's (verifyParentHash found it, C02.1): parent ∈ unconfirmed ∪ {stable}, each of which carries a Top list (D26 repaired)"},
	"(*store.ChainDatabase).blockCommit#panic(const string)":       {3, whyStoreSeq + "; SetStableBlock walks only stored ancestors above the last stable height"},
	"(*store.RunContext).writeFile#panic(const string)":            {2, whyLocalDB},
	"(*store.SyncFileDB).Get#panic(call fmt.Sprintf)":              {1, "route() indexes the fixed bitcask table built at start-up by the first key byte; never nil after Open"},
	"store.FileUtilsFlush#panic(const string)":                     {1, whyLocalDB},
	"store.insert#panic(const string)":                             {3, "pos is computed by the caller's search over the same child list; node is freshly allocated"},
	"(*store/trie.Trie).Commit#assert(trie.hashNode)":              {1, whyLocalType + " (hashRoot with force=true returns a hashNode)"},
	"(*store/trie.Trie).Commit#panic(const string)":                {1, whyDevAssert},
	"(*store/trie.Trie).Hash#assert(trie.hashNode)":                {1, whyLocalType + " (hashRoot with force=true returns a hashNode)"},
	"(*store/trie.Trie).delete#panic(call fmt.Sprintf)":            {1, "exhaustive switch over the closed set of trie node types"},
	"(*store/trie.Trie).insert#assert(trie.valueNode)":             {1, whyLocalType + " (TryUpdate wraps the value in valueNode)"},
	"(*store/trie.Trie).insert#panic(call fmt.Sprintf)":            {1, "exhaustive switch over the closed set of trie node types"},
	"(*store/trie.Trie).tryGet#panic(call fmt.Sprintf)":            {1, "exhaustive switch over the closed set of trie node types"},
	"(*store/trie.hasher).store#panic(value string)":               {1, "rlp encoding of the trie's own node types cannot fail"},
	"store/trie.New#panic(const string)":                           {1, whyDevAssert},
	"store/trie.NewSecure#panic(const string)":                     {1, whyDevAssert},
	"store/trie.mustDecodeNode#panic(call fmt.Sprintf)":            {1, whyLocalDB},
	"store/trie.newHasher#assert(*trie.hasher)":                    {1, whyLocalType + " (sync.Pool New returns *hasher)"},
}
