package rules

import (
	"go/constant"
	"go/token"
	"go/types"

	"golang.org/x/tools/go/ssa"

	"verif/lint/internal/core"
)

// edgeWhen decides, for an If whose condition compares one integer quantity with a constant, which successor is taken for
// given values of the quantity: it returns the successor index (0 = then, 1 = else) that is taken for every value in `at`
// and for no value in `notAt`. The comparison is *evaluated* (any of == != < <= > >=, either operand order, any number of
// negations), so `len(m) <= 0`, `len(m) == 0`, `len(m) < 1` and `!(len(m) > 0)` are the same condition to the rule.
func edgeWhen(ifi *ssa.If, isQuantity func(v ssa.Value) bool, at, notAt []int64) (int, bool) {
	cond := ifi.Cond
	neg := false
	for {
		u, ok := cond.(*ssa.UnOp)
		if !ok || u.Op != token.NOT {
			break
		}
		neg = !neg
		cond = u.X
	}
	b, ok := cond.(*ssa.BinOp)
	if !ok {
		return 0, false
	}
	var k int64
	qLeft := true
	if kc, isC := intConst(b.Y); isC && isQuantity(b.X) {
		k = kc
	} else if kc, isC := intConst(b.X); isC && isQuantity(b.Y) {
		k, qLeft = kc, false
	} else {
		return 0, false
	}
	eval := func(q int64) (bool, bool) {
		x, y := q, k
		if !qLeft {
			x, y = k, q
		}
		var r bool
		switch b.Op {
		case token.EQL:
			r = x == y
		case token.NEQ:
			r = x != y
		case token.LSS:
			r = x < y
		case token.LEQ:
			r = x <= y
		case token.GTR:
			r = x > y
		case token.GEQ:
			r = x >= y
		default:
			return false, false
		}
		return r != neg, true
	}
	for edge := 0; edge < 2; edge++ {
		want := edge == 0 // successor 0 is taken when the condition is true
		ok := true
		for _, q := range at {
			r, known := eval(q)
			if !known || r != want {
				ok = false
			}
		}
		for _, q := range notAt {
			r, known := eval(q)
			if !known || r == want {
				ok = false
			}
		}
		if ok {
			return edge, true
		}
	}
	return 0, false
}

func intConst(v ssa.Value) (int64, bool) {
	c, ok := v.(*ssa.Const)
	if !ok || c.Value == nil || c.Value.Kind() != constant.Int {
		return 0, false
	}
	return constant.Int64Val(c.Value)
}

// onlyVia: instruction x can only execute after the If took successor `edge` (the If dominates x and the other successor
// cannot reach x without passing the If again).
func onlyVia(ifi *ssa.If, edge int, x ssa.Instruction) bool {
	b := ifi.Block()
	if b == x.Block() || !b.Dominates(x.Block()) {
		return false
	}
	other := b.Succs[1-edge]
	if other == b.Succs[edge] {
		return false
	}
	return other != x.Block() && !core.CanReach(other, x.Block(), b)
}

// isLenOfField: v is len(<value read from field f>).
func isLenOfField(f *types.Var) func(v ssa.Value) bool {
	return func(v ssa.Value) bool {
		call, ok := v.(*ssa.Call)
		if !ok {
			return false
		}
		bi, ok := call.Call.Value.(*ssa.Builtin)
		if !ok || bi.Name() != "len" || len(call.Call.Args) != 1 {
			return false
		}
		return core.SliceHasField(core.Slice(call.Call.Args[0]), f)
	}
}

// isLoadOfField: v is a value read from field f (directly, no arithmetic).
func isLoadOfField(f *types.Var) func(v ssa.Value) bool {
	return func(v ssa.Value) bool {
		if core.FieldOf(v) == f {
			return true
		}
		if u, ok := v.(*ssa.UnOp); ok && u.Op == token.MUL {
			return core.FieldOf(u.X) == f
		}
		return false
	}
}

// builtinCalls lists the calls of the builtin `name` in fn.
func builtinCalls(fn *ssa.Function, name string) []*ssa.Call {
	var out []*ssa.Call
	for _, b := range fn.Blocks {
		for _, in := range b.Instrs {
			if call, ok := in.(*ssa.Call); ok {
				if bi, ok := call.Call.Value.(*ssa.Builtin); ok && bi.Name() == name {
					out = append(out, call)
				}
			}
		}
	}
	return out
}

// sliceHasBuiltin: the backward slice contains a call of the builtin `name`.
func sliceHasBuiltin(sl map[ssa.Value]bool, name string) bool {
	for v := range sl {
		if call, ok := v.(*ssa.Call); ok {
			if bi, ok := call.Call.Value.(*ssa.Builtin); ok && bi.Name() == name {
				return true
			}
		}
	}
	return false
}

// ifs lists the If instructions of fn.
func ifs(fn *ssa.Function) []*ssa.If {
	var out []*ssa.If
	for _, b := range fn.Blocks {
		if len(b.Instrs) == 0 {
			continue
		}
		if i, ok := b.Instrs[len(b.Instrs)-1].(*ssa.If); ok {
			out = append(out, i)
		}
	}
	return out
}

// sentinelTests: for error value v, the Ifs comparing v with nil or with one of the sentinel error variables, each with the
// successor taken when v *equals* that operand.
type eqTest struct {
	If    *ssa.If
	Equal *ssa.BasicBlock
	Other *ssa.BasicBlock
	Nil   bool
	Var   *types.Var
}

func sentinelTests(v ssa.Value, sentinels ...*types.Var) []eqTest {
	var out []eqTest
	for d := range core.Derived(v) {
		if d.Referrers() == nil {
			continue
		}
		for _, r := range *d.Referrers() {
			b, ok := r.(*ssa.BinOp)
			if !ok || (b.Op != token.EQL && b.Op != token.NEQ) {
				continue
			}
			other := b.Y
			if other == d {
				other = b.X
			}
			var t eqTest
			if core.IsNilConst(other) {
				t.Nil = true
			} else if ld, ok := other.(*ssa.UnOp); ok && ld.Op == token.MUL {
				g, ok := ld.X.(*ssa.Global)
				if !ok {
					continue
				}
				for _, s := range sentinels {
					if g.Object() == s {
						t.Var = s
					}
				}
				if t.Var == nil {
					continue
				}
			} else {
				continue
			}
			if b.Referrers() == nil {
				continue
			}
			for _, br := range *b.Referrers() {
				ifi, ok := br.(*ssa.If)
				if !ok || ifi.Cond != ssa.Value(b) {
					continue
				}
				eq, ne := ifi.Block().Succs[0], ifi.Block().Succs[1]
				if b.Op == token.NEQ {
					eq, ne = ne, eq
				}
				t2 := t
				t2.If, t2.Equal, t2.Other = ifi, eq, ne
				out = append(out, t2)
			}
		}
	}
	return out
}

// heededExcept: the error of call ci is heeded, where besides nil the listed sentinel errors count as accepted outcomes: once
// the edges "error == nil" and "error == sentinel" are cut, no possibly successful exit is reachable after the call. A test
// against nil must exist. Returns the sentinels that are actually tested.
func heededExcept(ci ssa.CallInstruction, sentinels ...*types.Var) (bool, map[*types.Var]bool, string) {
	v := core.ErrResult(ci)
	if v == nil {
		return false, nil, "the error result is dropped"
	}
	tests := sentinelTests(v, sentinels...)
	cut := map[[2]*ssa.BasicBlock]bool{}
	hasNil := false
	tested := map[*types.Var]bool{}
	for _, t := range tests {
		if !core.Dominates(ci, t.If) || t.Equal == t.Other {
			continue
		}
		cut[[2]*ssa.BasicBlock{t.If.Block(), t.Equal}] = true
		if t.Nil {
			hasNil = true
		} else {
			tested[t.Var] = true
		}
	}
	if !hasNil {
		return false, tested, "the error is never compared with nil"
	}
	fn := ci.Parent()
	r := core.ReachCut(ci.Block(), cut)
	d := core.Derived(v)
	for _, ret := range core.Returns(fn) {
		if r[ret.Block()] && core.ClassifyReturn(ret, d, nil) != core.RetFailure {
			return false, tested, "a possibly successful return is reachable although the error is neither nil nor an accepted sentinel"
		}
	}
	return true, tested, ""
}
