package rules

import (
	"go/token"
	"go/types"
	"sort"
	"strings"

	"golang.org/x/tools/go/ssa"

	"verif/lint/internal/core"
)

// Nondeterminism sources inside one package: wall clock, randomness, goroutines, select, order-sensitive map iteration.

// clockOrRandom classifies a static callee: "clock" (a value read from the wall clock), "timer" (scheduling by wall clock),
// "random", or "".
func clockOrRandom(fn *ssa.Function) string {
	if fn == nil || fn.Pkg == nil {
		if fn != nil && fn.Object() != nil && fn.Object().Pkg() != nil {
			return classifySrc(fn.Object().Pkg().Path(), fn.Name())
		}
		return ""
	}
	return classifySrc(fn.Pkg.Pkg.Path(), fn.Name())
}

func classifySrc(pkg, name string) string {
	switch pkg {
	case "time":
		switch name {
		case "Now", "Since", "Until":
			return "clock"
		case "After", "Tick", "NewTimer", "NewTicker", "AfterFunc", "Sleep":
			return "timer"
		}
	case "math/rand", "math/rand/v2", "crypto/rand":
		return "random"
	}
	return ""
}

// flowsOnlyInto checks that value v is consumed only by sinks accepted by `sink` (a call instruction taking the value as an
// argument), possibly after passing through local variables (also captured ones), conversions and functions of package time.
// It returns the first offending use.
func flowsOnlyInto(v ssa.Value, sink func(ci ssa.CallInstruction) bool) (bool, ssa.Instruction) {
	seen := map[ssa.Value]bool{}
	var bad ssa.Instruction
	var walk func(x ssa.Value) bool
	cellReaders := func(addr ssa.Value) []ssa.Value { return nil }
	var readers func(addr ssa.Value, depth int) ([]ssa.Value, bool)
	readers = func(addr ssa.Value, depth int) ([]ssa.Value, bool) {
		var out []ssa.Value
		if addr.Referrers() == nil || depth > 4 {
			return nil, depth <= 4
		}
		for _, r := range *addr.Referrers() {
			switch r := r.(type) {
			case *ssa.Store:
				if r.Addr != addr {
					return nil, false // the address itself is stored
				}
			case *ssa.UnOp:
				if r.Op == token.MUL {
					out = append(out, r)
				}
			case *ssa.DebugRef:
			case *ssa.MakeClosure:
				cf, ok := r.Fn.(*ssa.Function)
				if !ok {
					return nil, false
				}
				for i, b := range r.Bindings {
					if b == addr && i < len(cf.FreeVars) {
						rs, ok := readers(cf.FreeVars[i], depth+1)
						if !ok {
							return nil, false
						}
						out = append(out, rs...)
					}
				}
			default:
				return nil, false
			}
		}
		return out, true
	}
	_ = cellReaders
	walk = func(x ssa.Value) bool {
		if seen[x] {
			return true
		}
		seen[x] = true
		if x.Referrers() == nil {
			return true
		}
		for _, r := range *x.Referrers() {
			switch r := r.(type) {
			case *ssa.DebugRef:
			case *ssa.ChangeType:
				if !walk(r) {
					return false
				}
			case *ssa.Convert:
				if !walk(r) {
					return false
				}
			case *ssa.MakeInterface:
				if !walk(r) {
					return false
				}
			case *ssa.Store:
				al, ok := r.Addr.(*ssa.Alloc)
				if !ok || r.Val != x {
					bad = r
					return false
				}
				rs, ok := readers(al, 0)
				if !ok {
					bad = r
					return false
				}
				for _, ld := range rs {
					if !walk(ld) {
						return false
					}
				}
			case ssa.CallInstruction:
				if sink(r) {
					continue
				}
				if sc := r.Common().StaticCallee(); sc != nil && sc.Pkg != nil && sc.Pkg.Pkg.Path() == "time" {
					if val := r.Value(); val != nil && !walk(val) {
						return false
					}
					continue
				}
				bad = r
				return false
			default:
				bad = r
				return false
			}
		}
		return true
	}
	ok := walk(v)
	return ok, bad
}

// mapRange describes one `for ... range m` over a map.
type mapRange struct {
	Fn    *ssa.Function
	Range *ssa.Range
	Form  string // "keyed-copy", "commutative-accumulate" or "" (order may matter)
	Why   string
}

// mapRangesIn lists the map iterations of fn and classifies their bodies.
func mapRangesIn(fn *ssa.Function) []mapRange {
	var out []mapRange
	for _, b := range fn.Blocks {
		for _, in := range b.Instrs {
			rg, ok := in.(*ssa.Range)
			if !ok {
				continue
			}
			if _, isMap := rg.X.Type().Underlying().(*types.Map); !isMap {
				continue
			}
			mr := mapRange{Fn: fn, Range: rg}
			mr.Form, mr.Why = classifyMapLoop(rg)
			out = append(out, mr)
		}
	}
	return out
}

func classifyMapLoop(rg *ssa.Range) (form, why string) {
	var next *ssa.Next
	if rg.Referrers() != nil {
		for _, r := range *rg.Referrers() {
			if n, ok := r.(*ssa.Next); ok {
				if next != nil {
					return "", "the iterator is advanced in more than one place"
				}
				next = n
			}
		}
	}
	if next == nil {
		return "", "iterator never advanced"
	}
	body, header := core.LoopOf(next.Block())
	if body == nil || header != next.Block() {
		return "", "loop structure not recognised"
	}
	var key ssa.Value
	if next.Referrers() != nil {
		for _, r := range *next.Referrers() {
			if e, ok := r.(*ssa.Extract); ok && e.Index == 1 {
				key = e
			}
		}
	}
	// leaving the loop anywhere but at the header means the result depends on which key came first
	for b := range body {
		if b == header {
			continue
		}
		for _, s := range b.Succs {
			if !body[s] {
				return "", "the loop is left from inside its body (break/return): the outcome depends on iteration order"
			}
		}
	}
	nCopy, nAcc := 0, 0
	for b := range body {
		for _, in := range b.Instrs {
			switch x := in.(type) {
			case *ssa.Phi:
				for i, p := range b.Preds {
					if body[p] && b == header && x.Edges[i] != x {
						return "", "a value is carried from one iteration to the next"
					}
				}
			case *ssa.MapUpdate:
				if key != nil && x.Key == key && x.Map != rg.X {
					nCopy++
					continue
				}
				return "", "a map is updated under a key other than the iteration key"
			case *ssa.Store:
				return "", "the body assigns memory"
			case *ssa.Send, *ssa.Go, *ssa.Defer, *ssa.Return, *ssa.Panic:
				return "", "the body has an order-visible effect"
			case ssa.CallInstruction:
				cc := x.Common()
				if sc := cc.StaticCallee(); sc != nil && sc.Object() != nil && sc.Object().Pkg() != nil && sc.Object().Pkg().Path() == "math/big" && sc.Name() == "Add" &&
					len(cc.Args) == 3 && cc.Args[0] == cc.Args[1] && !definedIn(cc.Args[0], body) {
					nAcc++
					continue
				}
				return "", "the body calls a function whose effect may depend on order"
			}
		}
	}
	switch {
	case nAcc > 0 && nCopy == 0:
		return "commutative-accumulate", ""
	case nAcc == 0:
		return "keyed-copy", ""
	}
	return "commutative-accumulate+keyed-copy", ""
}

func definedIn(v ssa.Value, body map[*ssa.BasicBlock]bool) bool {
	in, ok := v.(ssa.Instruction)
	return ok && body[in.Block()]
}

// det16 is clause C16.6.
func det16(c *core.Ctx, vm string) {
	tracer := c.Named(vm + ".Tracer")
	isSink := func(ci ssa.CallInstruction) bool {
		cc := ci.Common()
		if cc.IsInvoke() {
			return types.Identical(cc.Value.Type(), tracer)
		}
		if sc := cc.StaticCallee(); sc != nil && strings.HasSuffix(core.RelPkg(sc), "common/log") {
			return true
		}
		return false
	}
	// execution closure: what can run as part of contract execution (static reach; Tracer implementations are entered only
	// through the Tracer interface and stay outside)
	var roots []*ssa.Function
	for _, n := range []string{"Call", "CallCode", "DelegateCall", "StaticCall", "Create", "TransferAssetTx", "AddEvent", "Cancel"} {
		roots = append(roots, c.Fn(vm+".EVM."+n))
	}
	roots = append(roots, c.Fn(vm+".run"), c.Fn(vm+".Interpreter.Run"), c.Fn(vm+".RunPrecompiledContract"), c.Fn(vm+".NewInstructionSet"), c.Fn(vm+".NewEVM"))
	pc := c.Named(vm + ".PrecompiledContract").Underlying().(*types.Interface)
	for _, name := range c.Pkg(vm).Scope().Names() {
		tn, ok := c.Pkg(vm).Scope().Lookup(name).(*types.TypeName)
		if !ok {
			continue
		}
		if _, isI := tn.Type().Underlying().(*types.Interface); isI {
			continue
		}
		pt := types.NewPointer(tn.Type())
		if !types.Implements(pt, pc) {
			continue
		}
		for i := 0; i < pc.NumMethods(); i++ {
			obj, _, _ := types.LookupFieldOrMethod(pt, true, c.Pkg(vm), pc.Method(i).Name())
			if m, ok := obj.(*types.Func); ok {
				if fn := c.FuncOf(m); fn != nil && fn.Blocks != nil {
					roots = append(roots, fn)
				}
			}
		}
	}
	exec, _ := staticReach(roots, nil)
	c.Floor("determinism/execution-closure", len(exec), 200)

	nFns, nSrc, nDefer := 0, 0, 0
	var goSel []string
	perFn := map[string]int{}
	var ranges []mapRange
	for _, fn := range c.SrcFuncs {
		if core.RelPkg(fn) != vm || isTestHelper(c, fn) {
			continue
		}
		nFns++
		for _, b := range fn.Blocks {
			for _, in := range b.Instrs {
				switch x := in.(type) {
				case *ssa.Go:
					goSel = append(goSel, "go@"+core.FuncName(fn))
				case *ssa.Select:
					goSel = append(goSel, "select@"+core.FuncName(fn))
				case *ssa.Defer:
					nDefer++
				case *ssa.Call:
					kind := clockOrRandom(x.Call.StaticCallee())
					if kind == "" {
						continue
					}
					nSrc++
					name := x.Call.StaticCallee().Object().Pkg().Name() + "." + x.Call.StaticCallee().Name()
					key := "nondet:" + name + "@" + shortFn(fn)
					perFn[key]++
					if perFn[key] > 1 {
						key += "#" + string(rune('a'+perFn[key]-1))
					}
					if kind != "clock" {
						c.Check(key, "determinism", false, x.Pos(), "%s in package vm: contract execution must not depend on %s", name, kind)
						continue
					}
					ok, bad := flowsOnlyInto(x, isSink)
					pos := x.Pos()
					what := ""
					if bad != nil {
						pos = bad.Pos()
						what = bad.String()
					}
					c.Check(key, "determinism", ok, pos, "a wall-clock value may only flow into the Tracer or the log; it reaches %s", what)
				}
			}
		}
		ranges = append(ranges, mapRangesIn(fn)...)
	}
	c.Floor("determinism/functions-scanned", nFns, 250)
	c.Floor("determinism/clock-sites(positive control)", nSrc, 6)
	c.Floor("determinism/defer-sites(positive control for the instruction scan)", nDefer, 5)
	sort.Strings(goSel)
	c.Check("no-go/select-in-vm", "determinism", len(goSel) == 0, token.NoPos, "package vm starts goroutines / selects: %s", strings.Join(goSel, ", "))

	perFn = map[string]int{}
	for _, mr := range ranges {
		key := "maprange@" + shortFn(mr.Fn)
		perFn[key]++
		if perFn[key] > 1 {
			key += "#" + string(rune('a'+perFn[key]-1))
		}
		switch {
		case mr.Form != "":
			c.Check(key, "determinism", true, mr.Range.Pos(), "map iteration is order-insensitive (%s)", mr.Form)
		case !exec[mr.Fn] && !exec[core.Outer(mr.Fn)]:
			c.Check(key, "determinism", true, mr.Range.Pos(), "order-sensitive map iteration (%s) in a function outside the execution closure (debug output)", mr.Why)
		default:
			c.Check(key, "determinism", false, mr.Range.Pos(), "order-sensitive map iteration in contract execution: %s", mr.Why)
		}
	}
	c.Floor("determinism/map-iterations", len(ranges), 3)

	// the abort flag: only Cancel sets it, only the read-only RPC path calls Cancel
	abort := c.FieldVar(vm+".EVM", "abort")
	loadI32 := c.StdFunc("sync/atomic", "LoadInt32")
	var setters []string
	nUse := 0
	for _, fn := range c.SrcFuncs {
		if isTestHelper(c, fn) {
			continue
		}
		for _, b := range fn.Blocks {
			for _, in := range b.Instrs {
				fa, ok := in.(*ssa.FieldAddr)
				if !ok || core.FieldOf(fa) != abort || fa.Referrers() == nil {
					continue
				}
				for _, r := range *fa.Referrers() {
					nUse++
					if ci, ok := r.(ssa.CallInstruction); ok && core.CalleeObj(ci) == loadI32 {
						continue
					}
					if u, ok := r.(*ssa.UnOp); ok && u.Op == token.MUL {
						continue
					}
					setters = append(setters, core.FuncName(fn))
				}
			}
		}
	}
	sort.Strings(setters)
	c.Check("EVM.abort:set-only-by-Cancel", "who-may-write", len(setters) == 1 && setters[0] == "(*"+vm+".EVM).Cancel", token.NoPos, "evm.abort is written by %s", strings.Join(setters, ", "))
	c.Floor("determinism/abort-uses", nUse, 2)
	closedCallers(c, "EVM.Cancel", []string{"(*chain/transaction.TxProcessor).ReadContract"}, c.Method(vm+".EVM", "Cancel"))
}
