package rules

import (
	"go/token"
	"go/types"
	"reflect"
	"sort"
	"strings"

	"golang.org/x/tools/go/ssa"

	"verif/lint/internal/core"
)

// encoderHalf checks only the EncodeRLP side of a shadow-struct codec (the decoder is hand-written and checked separately).
func encoderHalf(c *core.Ctx, name, domain, shadow string, exemptDomain map[string]string) int {
	D := c.Struct(domain)
	S := c.Struct(shadow)
	Sn := c.Named(shadow)
	enc := c.Fn(domain + ".EncodeRLP")
	calls, vals := rlpEncodeArgs(c, enc)
	var cell *ssa.Alloc
	ok := len(calls) >= 1
	for _, v := range vals {
		al := loadOfAlloc(v)
		if al == nil || !types.Identical(deref(al.Type()), Sn) {
			ok = false
			continue
		}
		cell = al
	}
	c.Check(name+".EncodeRLP:wire-type", "codec-wire-type", ok && cell != nil, enc.Pos(), "%s.EncodeRLP must encode a locally built %s", name, Sn.Obj().Name())
	if cell == nil {
		return 0
	}
	recv := ssa.Value(enc.Params[0])
	by := map[*types.Var][]ssa.Value{}
	for _, w := range fieldWrites(enc, func(v ssa.Value) bool { return v == ssa.Value(cell) }) {
		by[w.Top] = append(by[w.Top], w.Vals...)
	}
	n := 0
	for i := 0; i < S.NumFields(); i++ {
		f := S.Field(i)
		got := topFieldsRead(unionSlices(by[f]), recv, D)
		n++
		c.Check(name+".EncodeRLP#"+f.Name(), "codec-field", len(by[f]) > 0 && got[f.Name()] && len(got) == 1, enc.Pos(), "wire field %s must be filled from %s.%s only (stores=%d, reads %v)", f.Name(), name, f.Name(), len(by[f]), core.SortedKeys(got))
	}
	all := map[string]bool{}
	for _, b := range enc.Blocks {
		for _, in := range b.Instrs {
			if fa, ok := in.(*ssa.FieldAddr); ok && fa.X == recv {
				all[core.FieldOf(fa).Name()] = true
			}
		}
	}
	for i := 0; i < D.NumFields(); i++ {
		g := D.Field(i)
		if structField(S, g.Name()) != nil {
			continue
		}
		key := name + "~" + Sn.Obj().Name() + "#" + g.Name()
		reason, ex := exemptDomain[g.Name()]
		switch {
		case !ex:
			c.Check(key, "codec-field", false, enc.Pos(), "field %s.%s is neither encoded nor exempt", name, g.Name())
		case strings.HasPrefix(reason, "!"):
			c.Check(key, "codec-field-excluded", !all[g.Name()], enc.Pos(), "field %s must not take part in the encoding (%s)", g.Name(), reason[1:])
		default:
			c.CheckTrivial(key, "codec-field-exempt", true, enc.Pos(), "field %s exempt: %s", g.Name(), reason)
		}
	}
	return n
}

func c14ChangeLogCodec(c *core.Ctx) {
	c.Run("ChangeLog", func() {
		n := encoderHalf(c, "ChangeLog", c14Types+".ChangeLog", c14Types+".rlpChangeLog", map[string]string{"OldVal": "!used for undo only; never saved or sent, so it must not influence the encoding or the hash"})
		c.Exactly("ChangeLog/wire-fields", n, 5)

		S := c.Struct(c14Types + ".rlpChangeLog")
		cfg := c.Struct(c14Types + ".logConfig")
		dec := c.Fn(c14Types + ".ChangeLog.DecodeRLP")
		recv := ssa.Value(dec.Params[0])
		type step struct {
			call  ssa.CallInstruction
			field string
			via   string // logConfig field used for a dynamic decoder call
		}
		var steps []step
		// direct element decodes: s.Decode(&c.<field>)
		dcalls, dvals := streamDecodeArgs(c, dec)
		for i, ci := range dcalls {
			if fa, ok := dvals[i].(*ssa.FieldAddr); ok && fa.X == recv {
				steps = append(steps, step{ci, core.FieldOf(fa).Name(), ""})
			} else {
				c.Check("ChangeLog.DecodeRLP:stray-decode", "codec-order", false, ci.Pos(), "a Stream.Decode call in ChangeLog.DecodeRLP does not target a field of the receiver")
			}
		}
		// registered decoders: config.<X>Decoder(s), result stored into c.<field>
		for _, ci := range core.AllCalls(dec) {
			cc := ci.Common()
			if cc.IsInvoke() || cc.StaticCallee() != nil {
				continue
			}
			ld, ok := cc.Value.(*ssa.UnOp)
			if !ok || ld.Op != token.MUL {
				continue
			}
			via := core.FieldOf(ld.X)
			if via == nil || structField(cfg, via.Name()) != via {
				continue
			}
			res := core.ResultValues(ci)
			target := ""
			for _, w := range fieldWrites(dec, func(v ssa.Value) bool { return v == recv }) {
				if len(res) > 0 && res[0] != nil && w.Vals[0] == res[0] {
					target = w.Top.Name()
				}
			}
			steps = append(steps, step{ci, target, via.Name()})
		}
		sort.SliceStable(steps, func(i, j int) bool { return core.Dominates(steps[i].call, steps[j].call) })
		var got, want []string
		linear := true
		for i, s := range steps {
			got = append(got, s.field)
			if i > 0 && !core.Dominates(steps[i-1].call, s.call) {
				linear = false
			}
		}
		for i := 0; i < S.NumFields(); i++ {
			want = append(want, S.Field(i).Name())
		}
		c.Check("ChangeLog.DecodeRLP:element-order", "codec-order", linear && reflect.DeepEqual(got, want), dec.Pos(), "the hand-written decoder must read the list elements in the order of rlpChangeLog %v; it reads %v (linear=%v)", want, got, linear)
		wiring := map[string]string{"NewVal": "NewValDecoder", "Extra": "ExtraDecoder"}
		for _, s := range steps {
			ok, why := core.CallHeeded(s.call, core.ErrNonNil, nil)
			c.Check("ChangeLog.DecodeRLP→decode("+s.field+")", "heeded-guard", ok, s.call.Pos(), "an error while decoding element %s must be returned: %s", s.field, orOK(why))
			if s.via != "" || wiring[s.field] != "" {
				c.Check("ChangeLog.DecodeRLP:"+s.field+"←"+wiring[s.field], "codec-field", s.via == wiring[s.field], s.call.Pos(), "element %s must be decoded by the registered %s (uses %q)", s.field, wiring[s.field], s.via)
			}
		}
		// framing: List before the first element, ListEnd after the last one and its verdict is the function's verdict
		lists := core.CallsIn(dec, c.Method(c14Rlp+".Stream", "List"))
		ends := core.CallsIn(dec, c.Method(c14Rlp+".Stream", "ListEnd"))
		okList := len(lists) == 1 && len(steps) > 0 && core.Dominates(lists[0], steps[0].call)
		if okList {
			h, _ := core.CallHeeded(lists[0], core.ErrNonNil, nil)
			okList = h
		}
		c.Check("ChangeLog.DecodeRLP:List-first", "codec-order", okList, dec.Pos(), "the list header is entered (and its error heeded) before any element is read")
		okEnd := len(ends) == 1 && len(steps) > 0 && core.Dominates(steps[len(steps)-1].call, ends[0])
		if okEnd {
			d := core.Derived(ends[0].Value())
			for _, r := range core.Returns(dec) {
				if core.ClassifyReturn(r, nil, nil) != core.RetFailure && !d[core.RetVal(r, 0)] {
					okEnd = false
				}
			}
		}
		c.Check("ChangeLog.DecodeRLP:ListEnd-decides", "codec-order", okEnd, dec.Pos(), "after the last element ListEnd is called and every non-failing return hands back its verdict (trailing elements are rejected)")
		// the configuration is looked up by the decoded type and an unknown type is rejected
		logConfigs := c.Global(c14Types + ".logConfigs")
		nl := 0
		for _, b := range dec.Blocks {
			for _, in := range b.Instrs {
				lk, ok := in.(*ssa.Lookup)
				if !ok || !core.SliceHasGlobal(core.Slice(lk.X), logConfigs) {
					continue
				}
				nl++
				keyOK := topFieldsRead(core.Slice(lk.Index), recv, c.Struct(c14Types+".ChangeLog"))["LogType"]
				after := len(steps) > 0 && steps[0].field == "LogType" && core.Dominates(steps[0].call, lk)
				heeded := false
				if lk.CommaOk {
					for _, r := range *lk.Referrers() {
						if ex, ok := r.(*ssa.Extract); ok && ex.Index == 1 {
							heeded, _ = core.MustPassOK(lk, ex, core.IsFalse, nil)
						}
					}
				}
				c.Check("ChangeLog.DecodeRLP:config-by-decoded-type", "codec-order", keyOK && after && heeded, lk.Pos(), "the decoder table is indexed by the LogType just decoded and an unregistered type is rejected (key=%v after-decode=%v heeded=%v)", keyOK, after, heeded)
			}
		}
		c.Exactly("ChangeLog/config-lookups", nl, 1)

		// RegisterChangeLog stores each argument in the slot it is later read from
		reg := c.Fn(c14Types + ".RegisterChangeLog")
		slot := map[string]int{"TypeName": 1, "NewValDecoder": 2, "ExtraDecoder": 3, "Redo": 4, "Undo": 5}
		nreg := 0
		for _, al := range allocsOf(reg, c.Named(c14Types+".logConfig")) {
			for _, w := range fieldWrites(reg, func(v ssa.Value) bool { return v == ssa.Value(al) }) {
				idx, known := slot[w.Top.Name()]
				nreg++
				c.Check("RegisterChangeLog#"+w.Top.Name(), "codec-field", known && idx < len(reg.Params) && w.Vals[0] == ssa.Value(reg.Params[idx]), w.Instr.Pos(), "logConfig.%s must hold parameter #%d of RegisterChangeLog", w.Top.Name(), idx)
			}
		}
		c.Exactly("RegisterChangeLog/slots", nreg, 5)
		keyed := false
		for _, b := range reg.Blocks {
			for _, in := range b.Instrs {
				if mu, ok := in.(*ssa.MapUpdate); ok && core.SliceHasGlobal(core.Slice(mu.Map), logConfigs) && mu.Key == ssa.Value(reg.Params[0]) {
					keyed = true
				}
			}
		}
		c.Check("RegisterChangeLog:keyed-by-type", "codec-field", keyed, reg.Pos(), "the configuration is stored under the registered log type")
	})
}

func c14ProfileCodec(c *core.Ctx) {
	c.Run("Profile", func() {
		pair := c.Named(c14Types + ".Pair")
		ps := pair.Underlying().(*types.Struct)
		wire := types.NewSlice(pair)
		enc, dec := c.Fn(c14Types+".Profile.EncodeRLP"), c.Fn(c14Types+".Profile.DecodeRLP")
		calls, vals := rlpEncodeArgs(c, enc)
		ok := len(calls) >= 1
		for _, v := range vals {
			if v == nil || !types.Identical(v.Type(), wire) {
				ok = false
			}
		}
		c.Check("Profile.EncodeRLP:wire-type", "codec-wire-type", ok, enc.Pos(), "every rlp.Encode call of Profile.EncodeRLP writes a []Pair (%d call(s))", len(calls))
		dcalls, dvals := streamDecodeArgs(c, dec)
		ok = len(dcalls) == 1 && dvals[0] != nil && types.Identical(deref(dvals[0].Type()), wire)
		c.Check("Profile.DecodeRLP:wire-type", "codec-wire-type", ok, dec.Pos(), "Profile.DecodeRLP reads a []Pair, the type the encoder writes")
		if len(dcalls) == 1 {
			h, why := errHeededAfter(dcalls[0])
			c.Check("Profile.DecodeRLP→Stream.Decode", "heeded-guard", h, dcalls[0].Pos(), "a decoding error must be returned: %s", orOK(why))
		}
		// encoder: Pair.Key is a map key, Pair.Val is the map value looked up under that key
		recv := ssa.Value(enc.Params[0])
		fromMap := func(v ssa.Value) bool { // a Lookup in the receiver map
			for x := range core.Slice(v) {
				if lk, ok := x.(*ssa.Lookup); ok && core.Slice(lk.X)[recv] {
					return true
				}
			}
			return false
		}
		fromRange := func(v ssa.Value) bool { // a key produced by ranging over the receiver map
			for x := range core.Slice(v) {
				if ex, ok := x.(*ssa.Extract); ok && ex.Index == 1 {
					if nx, ok := ex.Tuple.(*ssa.Next); ok {
						if rg, ok := nx.Iter.(*ssa.Range); ok && core.Slice(rg.X)[recv] {
							return true
						}
					}
				}
			}
			return false
		}
		ne := 0
		for _, al := range allocsOf(enc, pair) {
			for _, w := range fieldWrites(enc, func(v ssa.Value) bool { return v == ssa.Value(al) }) {
				ne++
				switch w.Top.Name() {
				case "Key":
					c.Check("Profile.EncodeRLP#Key", "codec-field", fromRange(w.Vals[0]) && !fromMap(w.Vals[0]), w.Instr.Pos(), "Pair.Key must be a key of the profile map, not a value")
				case "Val":
					c.Check("Profile.EncodeRLP#Val", "codec-field", fromMap(w.Vals[0]), w.Instr.Pos(), "Pair.Val must be the value stored under the pair's key")
				}
			}
		}
		c.Exactly("Profile/pair-fields-encoded", ne, 2)
		// decoder: map[pair.Key] = pair.Val on the receiver map
		drecv := ssa.Value(dec.Params[0])
		nd := 0
		for _, b := range dec.Blocks {
			for _, in := range b.Instrs {
				mu, ok := in.(*ssa.MapUpdate)
				if !ok || !core.Slice(mu.Map)[drecv] {
					continue
				}
				nd++
				k, v := fieldsRead(core.Slice(mu.Key), ps), fieldsRead(core.Slice(mu.Value), ps)
				c.Check("Profile.DecodeRLP#map[Key]=Val", "codec-field", k["Key"] && len(k) == 1 && v["Val"] && len(v) == 1, mu.Pos(), "the decoded pair is stored as map[Key] = Val (key reads %v, value reads %v)", core.SortedKeys(k), core.SortedKeys(v))
			}
		}
		c.Exactly("Profile/map-updates-decoded", nd, 1)
	})
}

func c14TxCodec(c *core.Ctx) {
	c.Run("Transaction", func() {
		data := c.FieldVar(c14Types+".Transaction", "data")
		enc, dec := c.Fn(c14Types+".Transaction.EncodeRLP"), c.Fn(c14Types+".Transaction.DecodeRLP")
		calls, vals := rlpEncodeArgs(c, enc)
		ok := len(calls) == 1
		if ok {
			fa, isFA := vals[0].(*ssa.FieldAddr)
			ok = isFA && fa.X == ssa.Value(enc.Params[0]) && core.FieldOf(fa) == data
		}
		c.Check("Transaction.EncodeRLP:wire=&tx.data", "codec-wire-type", ok, enc.Pos(), "Transaction.EncodeRLP encodes exactly its own txdata")
		dcalls, dvals := streamDecodeArgs(c, dec)
		ok = len(dcalls) == 1
		if ok {
			fa, isFA := dvals[0].(*ssa.FieldAddr)
			ok = isFA && fa.X == ssa.Value(dec.Params[0]) && core.FieldOf(fa) == data
		}
		c.Check("Transaction.DecodeRLP:wire=&tx.data", "codec-wire-type", ok, dec.Pos(), "Transaction.DecodeRLP decodes into the same txdata field the encoder writes")
		if len(dcalls) == 1 {
			h, why := core.CallHeeded(dcalls[0], core.ErrNonNil, nil)
			c.Check("Transaction.DecodeRLP→Stream.Decode", "heeded-guard", h, dcalls[0].Pos(), "a decoding error must be returned: %s", orOK(why))
		}
		// struct tags of txdata: optional pointers are rlp:"nil", the JSON-only hash is rlp:"-", nothing else is tagged
		td := c.Struct(c14Types + ".txdata")
		bigInt := c.Pkg("math/big").Scope().Lookup("Int").Type()
		nTag := 0
		for i := 0; i < td.NumFields(); i++ {
			f := td.Field(i)
			tag := reflect.StructTag(td.Tag(i)).Get("rlp")
			want := ""
			if p, isPtr := f.Type().Underlying().(*types.Pointer); isPtr && !types.Identical(p.Elem(), bigInt) {
				want = "nil"
			}
			if f.Name() == "Hash" {
				want = "-"
			}
			if want != "" || tag != "" {
				nTag++
				c.Check("txdata#"+f.Name()+":rlp-tag", "codec-tag", tag == want, f.Pos(), "txdata.%s must carry rlp:%q (an optional pointer decodes from the empty string only with \"nil\"; the cached hash is JSON-only) — has %q", f.Name(), want, tag)
			}
		}
		c.Exactly("txdata/tagged-fields", nTag, 3)
	})
}

// c14OneSided: no named repository type implements only one of rlp.Encoder / rlp.Decoder; DeputyNode and the wire messages
// have neither (their wire order is the declaration order on both sides by construction).
func c14OneSided(c *core.Ctx) {
	c.Run("one-sided", func() {
		encI := c.Named(c14Rlp + ".Encoder").Underlying().(*types.Interface)
		decI := c.Named(c14Rlp + ".Decoder").Underlying().(*types.Interface)
		exempt := map[string]string{
			"store/trie.fullNode": "encode-only by design: trie nodes are parsed from raw list elements by trie.decodeNode, never through rlp.Decoder",
		}
		nBoth := 0
		var rels []string
		for rel := range c.ByPath {
			rels = append(rels, rel)
		}
		sort.Strings(rels)
		for _, rel := range rels {
			sc := c.ByPath[rel].Types.Scope()
			for _, name := range sc.Names() {
				tn, ok := sc.Lookup(name).(*types.TypeName)
				if !ok || tn.IsAlias() {
					continue
				}
				n, ok := tn.Type().(*types.Named)
				if !ok || n.TypeParams().Len() > 0 {
					continue
				}
				if _, isI := n.Underlying().(*types.Interface); isI {
					continue
				}
				e, d := implementsIface(n, encI), implementsIface(n, decI)
				if !e && !d {
					continue
				}
				key := "codec-pair:" + rel + "." + name
				if reason, ex := exempt[rel+"."+name]; ex {
					c.CheckTrivial(key, "codec-one-sided-exempt", e && !d, tn.Pos(), "%s: %s", name, reason)
					continue
				}
				if e && d {
					nBoth++
				}
				c.Check(key, "codec-one-sided", e && d, tn.Pos(), "%s.%s implements rlp.Encoder=%v rlp.Decoder=%v: a custom method on one side only cannot round-trip", rel, name, e, d)
			}
		}
		c.Floor("types-with-both-codec-methods", nBoth, 7)
		plain := []string{c14Types + ".DeputyNode", c14Types + ".SignData", "network.ProtocolHandshake", "network.LatestStatus", "network.GetLatestStatus", "network.BlockHashData", "network.GetBlocksData",
			"network.GetSingleBlockData", "network.BlockConfirmData", "network.GetConfirmInfo", "network.BlockConfirms", "network.DiscoverResData", "network.DiscoverReqData", c14Types + ".AssetEquity", c14Types + ".Asset", c14Types + ".SignAccount"}
		for _, spec := range plain {
			n := c.Named(spec)
			c.CheckTrivial("plain:"+spec, "codec-plain", implementsIface(n, encI) == implementsIface(n, decI), n.Obj().Pos(), "%s is encoded reflectively in declaration order on both sides (custom Encoder=%v Decoder=%v); it must not grow a one-sided custom codec method", spec, implementsIface(n, encI), implementsIface(n, decI))
		}
	})
}
