package rules

import (
	"go/types"

	"golang.org/x/tools/go/ssa"

	"verif/lint/internal/core"
)

func init() { register("C14", c14) }

const (
	c14Types = "chain/types"
	c14Acct  = "chain/account"
	c14Rlp   = "common/rlp"
)

func c14(c *core.Ctx) {
	c14Siblings(c)
	c14Hash(c)
	c14Registry(c)
	c14Canon(c)
	c14Maps(c)
	c14DecodePath(c)
	c14Extras(c)
	c14NoInvention(c)
	c14Consume(c)
	c14Narrow(c)

	c.Clause("C14.11", "identity survives the encoding: hash and signing hashes are computed from the encoded content only — the functions that compute them read no field of Transaction but data (and Hash its own memo)")
	c.Run("identity-from-content", func() { c04IdentityFromContent(c) })

	c.Clause("C14.12", "a value is never encoded or decoded with a half-built codec: every access to common/rlp's type-info cache holds typeCacheMutex (the generator publishes an empty placeholder before it fills it)")
	c.Run("typecache-locked", func() { c14TypeCacheLocked(c) })

	c.NotDecidedf("round-trip equality (decode(encode(x)) == x) and byte canonicity (encode(decode(b)) == b) as value properties; only the structural agreement of the two sides is decided")
	c.NotDecidedf("the base26 textual address form and its checksum; hexutil/JSON codecs beyond field-set agreement of txdata (value formats, Big10 signs, required-field handling)")
	c.NotDecidedf("the reflection-driven generic encoder/decoder of common/rlp (typecache, struct tags other than those of txdata), nil dereferences and arithmetic inside decoders, and that a custom DecodeRLP consumes exactly its own value")
}

// ---------------------------------------------------------------------------------------------
// C14.1 sibling agreement

// codecSpec describes one domain struct with a shadow wire struct and a pair of custom codec methods.
type codecSpec struct {
	name           string            // key prefix, e.g. "Header"
	domain, shadow string            // type specs
	exemptDomain   map[string]string // domain fields without a wire counterpart: reason ("!" = the encoder must not read it)
	exemptShadow   map[string]string // wire fields without a domain counterpart: reason (the encoder must leave them zero)
}

// rlpEncodeArg returns, for every call of rlp.Encode in fn, the concrete value handed over as the encoded object.
func rlpEncodeArgs(c *core.Ctx, fn *ssa.Function) (calls []ssa.CallInstruction, vals []ssa.Value) {
	for _, ci := range core.CallsIn(fn, c.FuncObj(c14Rlp+".Encode")) {
		a := ci.Common().Args
		if len(a) == 2 {
			calls = append(calls, ci)
			vals = append(vals, ifaceOperand(a[1]))
		}
	}
	return
}

// streamDecodeArgs returns, for every call of (*rlp.Stream).Decode in fn, the concrete pointer handed over as the target.
func streamDecodeArgs(c *core.Ctx, fn *ssa.Function) (calls []ssa.CallInstruction, vals []ssa.Value) {
	for _, ci := range core.CallsIn(fn, c.Method(c14Rlp+".Stream", "Decode")) {
		a := ci.Common().Args
		if len(a) == 2 {
			calls = append(calls, ci)
			vals = append(vals, ifaceOperand(a[1]))
		}
	}
	return
}

// loadOfAlloc: v is a load of a local composite (or the composite's address itself); returns the cell.
func loadOfAlloc(v ssa.Value) *ssa.Alloc {
	if v == nil {
		return nil
	}
	if al, ok := v.(*ssa.Alloc); ok {
		return al
	}
	if ld, ok := v.(*ssa.UnOp); ok {
		if al, ok := ld.X.(*ssa.Alloc); ok {
			return al
		}
	}
	return nil
}

func codecPair(c *core.Ctx, sp codecSpec) (nEnc, nDec int) {
	D := c.Struct(sp.domain)
	S := c.Struct(sp.shadow)
	Sn := c.Named(sp.shadow)
	enc := c.Fn(sp.domain + ".EncodeRLP")
	dec := c.Fn(sp.domain + ".DecodeRLP")

	// ---- encoder
	calls, vals := rlpEncodeArgs(c, enc)
	var encCell *ssa.Alloc
	okWire := len(calls) >= 1
	for _, v := range vals {
		al := loadOfAlloc(v)
		if v == nil || al == nil || !types.Identical(deref(al.Type()), Sn) {
			okWire = false
			continue
		}
		encCell = al
	}
	c.Check(sp.name+".EncodeRLP:wire-type", "codec-wire-type", okWire && encCell != nil, enc.Pos(), "%s.EncodeRLP must encode a locally built %s in every rlp.Encode call (%d call(s))", sp.name, Sn.Obj().Name(), len(calls))
	if encCell == nil {
		return
	}
	recv := ssa.Value(enc.Params[0])
	writes := fieldWrites(enc, func(v ssa.Value) bool { return v == encCell })
	byField := map[*types.Var][]ssa.Value{}
	for _, w := range writes {
		byField[w.Top] = append(byField[w.Top], w.Vals...)
	}
	readAnywhere := map[string]bool{}
	for i := 0; i < S.NumFields(); i++ {
		f := S.Field(i)
		key := sp.name + ".EncodeRLP#" + f.Name()
		if reason, ex := sp.exemptShadow[f.Name()]; ex {
			c.CheckTrivial(key, "codec-field-exempt", len(byField[f]) == 0, enc.Pos(), "wire field %s has no domain counterpart (%s) and must stay zero", f.Name(), reason)
			continue
		}
		if structField(D, f.Name()) == nil {
			c.Check(key, "codec-field", false, enc.Pos(), "wire field %s.%s has no same-named field in %s and no exemption", Sn.Obj().Name(), f.Name(), sp.name)
			continue
		}
		got := topFieldsRead(unionSlices(byField[f]), recv, D)
		for g := range got {
			readAnywhere[g] = true
		}
		others := ""
		for _, g := range core.SortedKeys(got) {
			if g != f.Name() && structField(S, g) != nil {
				others += " " + g
			}
		}
		nEnc++
		c.Check(key, "codec-field", len(byField[f]) > 0 && got[f.Name()] && others == "", enc.Pos(), "wire field %s must be filled from %s.%s and from no other encoded field (stores=%d, reads own=%v, reads others:%s)", f.Name(), sp.name, f.Name(), len(byField[f]), got[f.Name()], orNone(others))
	}
	// everything the encoder reads off the receiver, anywhere
	all := map[string]bool{}
	for _, b := range enc.Blocks {
		for _, in := range b.Instrs {
			if fa, ok := in.(*ssa.FieldAddr); ok && fa.X == recv {
				all[core.FieldOf(fa).Name()] = true
			}
		}
	}
	for i := 0; i < D.NumFields(); i++ {
		g := D.Field(i)
		key := sp.name + "~" + Sn.Obj().Name() + "#" + g.Name()
		if structField(S, g.Name()) != nil {
			continue
		}
		reason, ex := sp.exemptDomain[g.Name()]
		switch {
		case !ex:
			c.Check(key, "codec-field", false, enc.Pos(), "field %s.%s is neither encoded (no wire field of that name) nor exempt: it is lost in a round trip", sp.name, g.Name())
		case len(reason) > 0 && reason[0] == '!':
			c.Check(key, "codec-field-excluded", !all[g.Name()], enc.Pos(), "field %s must not take part in the encoding (%s)", g.Name(), reason[1:])
		default:
			c.CheckTrivial(key, "codec-field-exempt", true, enc.Pos(), "field %s exempt: %s", g.Name(), reason)
		}
	}

	// ---- decoder
	dcalls, dvals := streamDecodeArgs(c, dec)
	var decCell *ssa.Alloc
	okWire = len(dcalls) == 1
	for _, v := range dvals {
		al := loadOfAlloc(v)
		if v == nil || al == nil || !types.Identical(deref(al.Type()), Sn) {
			okWire = false
			continue
		}
		decCell = al
	}
	c.Check(sp.name+".DecodeRLP:wire-type", "codec-wire-type", okWire && decCell != nil, dec.Pos(), "%s.DecodeRLP must decode into a local %s, the same wire struct the encoder writes (%d Decode call(s))", sp.name, Sn.Obj().Name(), len(dcalls))
	if decCell == nil {
		return
	}
	ok, why := core.CallHeeded(dcalls[0], core.ErrNonNil, nil)
	c.Check(sp.name+".DecodeRLP→Stream.Decode", "heeded-guard", ok, dcalls[0].Pos(), "a decoding error must be returned: %s", orOK(why))
	drecv := ssa.Value(dec.Params[0])
	dw := fieldWrites(dec, func(v ssa.Value) bool { return v == drecv })
	dBy := map[*types.Var][]ssa.Value{}
	for _, w := range dw {
		dBy[w.Top] = append(dBy[w.Top], w.Vals...)
	}
	for i := 0; i < S.NumFields(); i++ {
		f := S.Field(i)
		if _, ex := sp.exemptShadow[f.Name()]; ex {
			continue
		}
		g := structField(D, f.Name())
		if g == nil {
			continue
		}
		key := sp.name + ".DecodeRLP#" + f.Name()
		got := topFieldsRead(unionSlices(dBy[g]), decCell, S)
		others := ""
		for _, o := range core.SortedKeys(got) {
			if o != f.Name() {
				others += " " + o
			}
		}
		nDec++
		c.Check(key, "codec-field", len(dBy[g]) > 0 && got[f.Name()] && others == "", dec.Pos(), "%s.%s must be assigned from the decoded wire field %s and from no other (writes=%d, reads own=%v, reads others:%s)", sp.name, g.Name(), f.Name(), len(dBy[g]), got[f.Name()], orNone(others))
	}
	return
}

func orNone(s string) string {
	if s == "" {
		return " none"
	}
	return s
}

func c14Siblings(c *core.Ctx) {
	c.Clause("C14.1", "encoder/decoder siblings agree: the EncodeRLP literal, the shadow wire struct and the DecodeRLP assignments carry the same fields, wired name to name, on both sides (Header incl. elided roots, ChangeLog manual decode order, AccountData, Profile pairs, Event/EventForStorage, Transaction txdata tags, DeputyNode and the plain wire messages have no one-sided custom method)")

	c.Run("Header", func() {
		e, d := codecPair(c, codecSpec{name: "Header", domain: c14Types + ".Header", shadow: c14Types + ".rlpHeader",
			exemptDomain: map[string]string{"signerNodeID": "!cache of the recovered signer, recomputed after decoding"}})
		c.Exactly("Header/wire-fields", e, 12)
		c.Exactly("Header/decoded-fields", d, 12)
		// elided roots: a field the encoder drops when it equals a package-level default must be restored to that default by the decoder
		enc, dec := c.Fn(c14Types+".Header.EncodeRLP"), c.Fn(c14Types+".Header.DecodeRLP")
		D := c.Struct(c14Types + ".Header")
		n := 0
		seen := map[string]bool{}
		for _, b := range enc.Blocks {
			for _, in := range b.Instrs {
				iff, ok := in.(*ssa.If)
				if !ok {
					continue
				}
				sl := core.Slice(iff.Cond)
				var gl *ssa.Global
				for v := range sl {
					if g, ok := v.(*ssa.Global); ok {
						gl = g
					}
				}
				fs := topFieldsRead(sl, enc.Params[0], D)
				if gl == nil || len(fs) != 1 {
					continue
				}
				f := core.SortedKeys(fs)[0]
				if seen[f] {
					continue
				}
				seen[f] = true
				n++
				restored := false
				for _, w := range fieldWrites(dec, func(v ssa.Value) bool { return v == ssa.Value(dec.Params[0]) }) {
					if w.Top.Name() == f && core.SliceHasGlobal(unionSlices(w.Vals), gl.Object().(*types.Var)) {
						restored = true
					}
				}
				c.Check("Header:elided-"+f+"-restored", "codec-elision", restored, dec.Pos(), "the encoder elides %s when it equals %s, so DecodeRLP must restore %s on an empty wire value", f, gl.Name(), gl.Name())
			}
		}
		c.Exactly("Header/elided-roots", n, 2)
	})

	c.Run("AccountData", func() {
		e, d := codecPair(c, codecSpec{name: "AccountData", domain: c14Types + ".AccountData", shadow: c14Types + ".rlpAccountData",
			exemptShadow: map[string]string{"TxHashList": "legacy wire slot kept for format compatibility, always empty", "TxCount": "legacy wire slot kept for format compatibility, always zero"}})
		c.Exactly("AccountData/wire-fields", e, 11)
		c.Exactly("AccountData/decoded-fields", d, 11)
		// nested shadow structs: rlpCandidate (Votes, Profile) and rlpVersionRecord (LogType = map key, Version, Height)
		enc, dec := c.Fn(c14Types+".AccountData.EncodeRLP"), c.Fn(c14Types+".AccountData.DecodeRLP")
		cand := c.Struct(c14Types + ".Candidate")
		rc := c.Named(c14Types + ".rlpCandidate")
		rcs := rc.Underlying().(*types.Struct)
		for _, al := range allocsOf(enc, rc) {
			for _, w := range fieldWrites(enc, func(v ssa.Value) bool { return v == ssa.Value(al) }) {
				got := fieldsRead(unionSlices(w.Vals), cand)
				c.Check("AccountData.EncodeRLP#Candidate."+w.Top.Name(), "codec-field", got[w.Top.Name()] && len(got) == 1, w.Instr.Pos(), "rlpCandidate.%s must be filled from Candidate.%s only (reads %v)", w.Top.Name(), w.Top.Name(), core.SortedKeys(got))
			}
		}
		nd := 0
		for _, b := range dec.Blocks {
			for _, in := range b.Instrs {
				st, ok := in.(*ssa.Store)
				if !ok {
					continue
				}
				r, p := addrPath(st.Addr)
				if r != ssa.Value(dec.Params[0]) || len(p) != 2 || p[0] == nil || p[1] == nil || p[0].Name() != "Candidate" {
					continue
				}
				got := fieldsRead(core.Slice(st.Val), rcs)
				nd++
				c.Check("AccountData.DecodeRLP#Candidate."+p[1].Name(), "codec-field", got[p[1].Name()] && len(got) == 1, st.Pos(), "Candidate.%s must be assigned from rlpCandidate.%s only (reads %v)", p[1].Name(), p[1].Name(), core.SortedKeys(got))
			}
		}
		c.Exactly("AccountData/candidate-fields-decoded", nd, 2)
		// version records
		vr := c.Struct(c14Types + ".VersionRecord")
		rv := c.Named(c14Types + ".rlpVersionRecord")
		rvs := rv.Underlying().(*types.Struct)
		ne := 0
		for _, al := range allocsOf(enc, rv) {
			for _, w := range fieldWrites(enc, func(v ssa.Value) bool { return v == ssa.Value(al) }) {
				sl := unionSlices(w.Vals)
				got := fieldsRead(sl, vr)
				ok := false
				if w.Top.Name() == "LogType" {
					// the map key of the range
					for v := range sl {
						if ex, isEx := v.(*ssa.Extract); isEx && ex.Index == 1 {
							if _, isNext := ex.Tuple.(*ssa.Next); isNext && len(got) == 0 {
								ok = true
							}
						}
					}
				} else {
					ok = got[w.Top.Name()] && len(got) == 1
				}
				ne++
				c.Check("AccountData.EncodeRLP#NewestRecords."+w.Top.Name(), "codec-field", ok, w.Instr.Pos(), "rlpVersionRecord.%s must be filled from the record's own %s (reads %v)", w.Top.Name(), w.Top.Name(), core.SortedKeys(got))
			}
		}
		c.Exactly("AccountData/record-fields-encoded", ne, 3)
		nm := 0
		for _, b := range dec.Blocks {
			for _, in := range b.Instrs {
				mu, ok := in.(*ssa.MapUpdate)
				if !ok {
					continue
				}
				ld, ok := mu.Map.(*ssa.UnOp)
				if !ok {
					continue
				}
				r, p := addrPath(ld.X)
				if r != ssa.Value(dec.Params[0]) || len(p) != 1 || p[0].Name() != "NewestRecords" {
					continue
				}
				nm++
				kg := fieldsRead(core.Slice(mu.Key), rvs)
				c.Check("AccountData.DecodeRLP#NewestRecords.key", "codec-field", kg["LogType"] && len(kg) == 1, mu.Pos(), "the record map key must be the decoded LogType (reads %v)", core.SortedKeys(kg))
				// value: a VersionRecord built field by field
				val := loadOfAlloc(mu.Value)
				if val == nil {
					c.Check("AccountData.DecodeRLP#NewestRecords.value", "codec-field", false, mu.Pos(), "the record value must be a locally built VersionRecord")
					continue
				}
				for _, w := range fieldWrites(dec, func(v ssa.Value) bool { return v == ssa.Value(val) }) {
					got := fieldsRead(unionSlices(w.Vals), rvs)
					c.Check("AccountData.DecodeRLP#NewestRecords."+w.Top.Name(), "codec-field", got[w.Top.Name()] && len(got) == 1, w.Instr.Pos(), "VersionRecord.%s must come from rlpVersionRecord.%s (reads %v)", w.Top.Name(), w.Top.Name(), core.SortedKeys(got))
				}
			}
		}
		c.Exactly("AccountData/record-map-updates", nm, 1)
	})

	c.Run("Event", func() {
		derived := "!derived by the node, not secured by consensus: an event's encoding and hash must not depend on where the miner placed the tx"
		e, d := codecPair(c, codecSpec{name: "Event", domain: c14Types + ".Event", shadow: c14Types + ".rlpEvent",
			exemptDomain: map[string]string{"TxHash": derived, "TxIndex": derived, "Index": derived, "Removed": derived}})
		c.Exactly("Event/wire-fields", e, 3)
		c.Exactly("Event/decoded-fields", d, 3)
		e, d = codecPair(c, codecSpec{name: "EventForStorage", domain: c14Types + ".EventForStorage", shadow: c14Types + ".rlpStorageEvent",
			exemptDomain: map[string]string{"Removed": "!reorganisation marker set by the filter layer, never stored"}})
		c.Exactly("EventForStorage/wire-fields", e, 6)
		c.Exactly("EventForStorage/decoded-fields", d, 6)
	})

	c14ChangeLogCodec(c)
	c14ProfileCodec(c)
	c14TxCodec(c)
	c14OneSided(c)
}
