package rules

import (
	"go/token"
	"go/types"
	"strings"

	"golang.org/x/tools/go/ssa"

	"verif/lint/internal/core"
)

func init() { register("C06", c06) }

// stateOf returns the values through which fn reaches the state behind parameter p: p itself, addresses of its fields and
// what is loaded from them (p.am, p.db, …).
func stateOf(p ssa.Value) map[ssa.Value]bool {
	out := map[ssa.Value]bool{}
	var walk func(v ssa.Value, d int)
	walk = func(v ssa.Value, d int) {
		if v == nil || out[v] || d > 4 {
			return
		}
		out[v] = true
		if v.Referrers() == nil {
			return
		}
		for _, r := range *v.Referrers() {
			switch x := r.(type) {
			case *ssa.FieldAddr:
				if x.X == v {
					walk(x, d+1)
				}
			case *ssa.Field:
				if x.X == v {
					walk(x, d+1)
				}
			case *ssa.UnOp:
				if x.Op == token.MUL && x.X == v {
					walk(x, d+1)
				}
			case *ssa.ChangeType:
				walk(x, d+1)
			case *ssa.MakeInterface:
				walk(x, d+1)
			}
		}
	}
	walk(p, 0)
	return out
}

func c06(c *core.Ctx) {
	const (
		typ = "chain/types"
		trx = "chain/transaction"
	)
	txm := func(m string) *types.Func { return c.Method(typ+".Transaction", m) }
	proc := func(m string) *types.Func { return c.Method(trx+".TxProcessor", m) }

	// -----------------------------------------------------------------------------------------
	c.Clause("C06.1", "signature verification dominates every state access of a transaction: applyTx touches the processor, the account manager and the gas pool only after VerifyTxBeforeApply accepted; the executing helpers are reachable through applyTx only")
	c.Run("verify-first", func() {
		fn := c.Fn(trx + ".TxProcessor.applyTx")
		guard := proc("VerifyTxBeforeApply")
		gs := heeded(c, fn, guard, core.ErrNonNil, 1, nil)
		c.Floor("applyTx/VerifyTxBeforeApply", len(gs), 1)
		for _, g := range gs {
			a := c4Args(g)
			c.Check("applyTx:VerifyTxBeforeApply(tx)", "value-flow", len(a) == 1 && isParam(fn, 3, a[0]), g.Pos(), "the transaction that is verified is the one that is applied")
		}
		// actions: every call of a TxProcessor method other than the verification family, and every call that is handed the gas pool.
		// (Plain reads such as tx.From() or p.am.GetAccount(..).GetBalance() may be moved freely.)
		verifyFamily := []*types.Func{guard, c.MethodIfExists(trx+".TxProcessor", "VerifyAssetTx"), proc("verifyTransactionSigs"), proc("checkSignersWeight")}
		procType := c.Named(trx + ".TxProcessor")
		gpool := stateOf(fn.Params[1])
		var actions []ssa.Instruction
		for _, ci := range core.AllCalls(fn) {
			obj := core.CalleeObj(ci)
			isVerify := false
			for _, v := range verifyFamily {
				if core.SameFamily(obj, v) {
					isVerify = true
				}
			}
			if isVerify {
				continue
			}
			act := false
			if obj != nil {
				if r := obj.Type().(*types.Signature).Recv(); r != nil {
					t := r.Type()
					if pt, isP := t.(*types.Pointer); isP {
						t = pt.Elem()
					}
					act = types.Identical(t, procType)
				}
			}
			// handed the gas pool as an argument, or a method of the gas pool that writes it (a getter such as Gas() is a plain read)
			for _, a := range c4Args(ci) {
				if gpool[a] {
					act = true
				}
			}
			if r := c4Recv(ci); r != nil && gpool[r] && writesReceiver(core.StaticFn(ci)) {
				act = true
			}
			if act {
				actions = append(actions, ci)
			}
		}
		c.Floor("applyTx/processor-actions", len(actions), 3)
		for _, a := range actions {
			ci := a.(ssa.CallInstruction)
			ok := false
			for _, g := range gs {
				if h, _ := core.HeededBefore(g, core.ErrNonNil, a); h {
					ok = true
				}
			}
			c.Check("applyTx:"+objName(core.CalleeObj(ci))+"-after-verify", "guarded-action", ok, a.Pos(), "%s acts for the transaction (processor method / gas pool) and must only run after VerifyTxBeforeApply accepted", objName(core.CalleeObj(ci)))
		}

		vfn := c.Fn(trx + ".TxProcessor.VerifyTxBeforeApply")
		for _, g := range heeded(c, vfn, proc("verifyTransactionSigs"), core.ErrNonNil, 1, nil) {
			a := c4Args(g)
			c.Check("VerifyTxBeforeApply:verifyTransactionSigs(tx)", "value-flow", len(a) == 1 && isParam(vfn, 1, a[0]), g.Pos(), "the signatures of the given transaction are verified")
		}
		// ... on every way to acceptance: no possibly-successful return of VerifyTxBeforeApply around the signature verification (a
		// transaction type that leaves through the asset pre-check alone is executed unsigned)
		sigPass := passers(vfn, proc("verifyTransactionSigs"), 2)
		skipping := skippingReturns(vfn, sigPass, nil)
		pos := vfn.Pos()
		if len(skipping) > 0 {
			pos = skipping[0].Pos()
		}
		c.Check("VerifyTxBeforeApply:no-acceptance-around-verifyTransactionSigs", "must-pass-through", len(sigPass) > 0 && len(skipping) == 0, pos, "every return of VerifyTxBeforeApply that may report success has passed verifyTransactionSigs (%d return(s) around it)", len(skipping))

		// box: sub transactions run through applyTx, each of them, failures abort
		rb := c.Fn(trx + ".BoxTxEnv.RunBoxTxs")
		at := core.CallsIn(rb, proc("applyTx"))
		c.Floor("RunBoxTxs/applyTx", len(at), 1)
		for _, g := range at {
			ok, why := heededInLoop(g, core.ErrNonNil, nil)
			c.Check("RunBoxTxs→applyTx", "heeded-guard", ok, g.Pos(), "every sub transaction of a box goes through applyTx (and so through its own signature check); a failure aborts the box: %s", orOK(why))
			a := c4Args(g)
			okA := len(a) == 6 && core.SliceHasField(core.Slice(a[2]), c.FieldVar(typ+".Box", "SubTxList")) && argHas(a[2], txm("Data")) && core.Slice(a[2])[rb.Params[2]]
			c.Check("RunBoxTxs:applyTx(each of box.SubTxList)", "value-flow", okA, g.Pos(), "the sub transactions applied are the ones decoded from the box's own data")
		}

		// who may execute
		closedCallers(c, "TxProcessor.handleTx", []string{core.FuncName(fn)}, proc("handleTx"))
		closedCallers(c, "TxProcessor.buyAndPayIntrinsicGas", []string{core.FuncName(fn)}, proc("buyAndPayIntrinsicGas"))
		closedCallers(c, "TxProcessor.buyGas", []string{core.FuncName(c.Fn(trx + ".TxProcessor.buyAndPayIntrinsicGas"))}, proc("buyGas"))
		closedCallers(c, "TxProcessor.refundGas", []string{core.FuncName(fn)}, proc("refundGas"))
		h := core.FuncName(c.Fn(trx + ".TxProcessor.handleTx"))
		n := 0
		for _, e := range [][2]string{
			{trx + ".CandidateVoteEnv", "CallVoteTx"}, {trx + ".CandidateVoteEnv", "RegisterOrUpdateToCandidate"},
			{trx + ".RunAssetEnv", "CreateAssetTx"}, {trx + ".RunAssetEnv", "IssueAssetTx"}, {trx + ".RunAssetEnv", "ReplenishAssetTx"}, {trx + ".RunAssetEnv", "ModifyAssetProfileTx"},
			{trx + ".SetMultisigAccountEnv", "ModifyMultisigTx"}, {trx + ".BoxTxEnv", "RunBoxTxs"}, {"chain/vm.EVM", "TransferAssetTx"},
		} {
			m := c.Method(e[0], e[1])
			n += len(closedCallers(c, objName(m), []string{h}, m))
		}
		c.Floor("executors-called-from-handleTx", n, 9)
	})

	// -----------------------------------------------------------------------------------------
	c.Clause("C06.2", "what is signed is the content: each signing hash covers the stated fields of the transaction, each GetSigners recovers over its own hash from its own signature list, and recoverSigners turns every signature into an address or fails")
	c.Run("signing-hashes", func() {
		st := c.Struct(typ + ".txdata")
		rlp := c.FuncObj(typ + ".rlpHash")
		common := map[string]string{
			"GasUsed":      "filled in by the miner after signing",
			"Sigs":         "the signatures themselves",
			"GasPayerSigs": "made later, over the sender's signatures",
			"Hash":         "JSON transport only",
		}
		with := func(extra map[string]string) map[string]string {
			m := map[string]string{}
			for k, v := range common {
				m[k] = v
			}
			for k, v := range extra {
				m[k] = v
			}
			return m
		}
		if s := hashSink(c, "DefaultSigner.Hash", c.Fn(typ+".DefaultSigner.Hash"), rlp); s != nil {
			fieldCover(c, "DefaultSigner.Hash", s.Pos(), s.Common().Args[0], st, with(nil))
		}
		if s := hashSink(c, "ReimbursementTxSigner.Hash", c.Fn(typ+".ReimbursementTxSigner.Hash"), rlp); s != nil {
			fieldCover(c, "ReimbursementTxSigner.Hash", s.Pos(), s.Common().Args[0], st, with(map[string]string{
				"GasPrice": "chosen and signed by the gas payer (GasPayerSigner.Hash#GasPrice)",
				"GasLimit": "chosen and signed by the gas payer (GasPayerSigner.Hash#GasLimit)",
			}))
		}
		if s := hashSink(c, "GasPayerSigner.Hash", c.Fn(typ+".GasPayerSigner.Hash"), rlp); s != nil {
			viaSigs := "bound through Sigs: the sender's signatures are made over it (ReimbursementTxSigner.Hash)"
			ex := map[string]string{"GasUsed": common["GasUsed"], "Hash": common["Hash"], "GasPayerSigs": "the signatures themselves"}
			for i := 0; i < st.NumFields(); i++ {
				f := st.Field(i).Name()
				if _, done := ex[f]; !done && f != "Sigs" && f != "GasPrice" && f != "GasLimit" {
					ex[f] = viaSigs
				}
			}
			fieldCover(c, "GasPayerSigner.Hash", s.Pos(), s.Common().Args[0], st, ex)
		}
		rec := c.FuncObj(typ + ".recoverSigners")
		for _, s := range [][2]string{{"DefaultSigner", "Sigs"}, {"ReimbursementTxSigner", "Sigs"}, {"GasPayerSigner", "GasPayerSigs"}} {
			fn := c.Fn(typ + "." + s[0] + ".GetSigners")
			calls := core.CallsIn(fn, rec)
			ok := len(calls) == 1
			if ok {
				a := calls[0].Common().Args
				other := "GasPayerSigs"
				if s[1] == other {
					other = "Sigs"
				}
				ok = len(a) == 2 && argHas(a[0], c.Method(typ+"."+s[0], "Hash")) && core.SliceHasField(core.Slice(a[1]), c.FieldVar(typ+".txdata", s[1])) &&
					!core.SliceHasField(core.Slice(a[1]), c.FieldVar(typ+".txdata", other))
				for _, r := range core.Returns(fn) {
					if !core.Slice(core.RetVal(r, 0))[calls[0].Value()] {
						ok = false
					}
				}
			}
			c.Check(s[0]+".GetSigners=recoverSigners(own Hash, "+s[1]+")", "value-flow", ok, fn.Pos(), "%s.GetSigners recovers over %s.Hash from the %s list and returns exactly that", s[0], s[0], s[1])
		}
		rfn := c.Fn(typ + ".recoverSigners")
		ec := core.CallsIn(rfn, c.FuncObj("common/crypto.Ecrecover"))
		c.Floor("recoverSigners/Ecrecover", len(ec), 1)
		for _, g := range ec {
			ok, why := heededInLoop(g, core.ErrNonNil, nil)
			c.Check("recoverSigners→Ecrecover", "heeded-guard", ok, g.Pos(), "every signature is recovered and an unrecoverable one fails the whole list: %s", orOK(why))
			a := g.Common().Args
			sigs := core.Derived(rfn.Params[1])
			whole := false
			for _, ct := range core.Controllers(g) {
				if core.IsLoopHeaderIf(ct.If) && core.SliceHasLenOf(core.Slice(ct.If.Cond), sigs) {
					whole = true
				}
			}
			c.Check("recoverSigners:Ecrecover(sigHash, every sigs[i])", "loop-coverage", whole && len(a) == 2 && core.Slice(a[0])[rfn.Params[0]] && core.Slice(a[1])[rfn.Params[1]], g.Pos(), "the loop runs over the whole signature list and recovers over the given hash")
			// what is returned holds, per signature, the address of the recovered key
			pub := core.ResultValues(g)[0]
			okS := false
			for _, b := range rfn.Blocks {
				for _, in := range b.Instrs {
					stI, isSt := in.(*ssa.Store)
					if !isSt {
						continue
					}
					ia, isIA := stI.Addr.(*ssa.IndexAddr)
					if !isIA || pub == nil || !core.Slice(stI.Val)[pub] || !argHas(stI.Val, c.FuncObj("common/crypto.PubToAddress")) {
						continue
					}
					for _, r := range core.Returns(rfn) {
						if core.ClassifyReturn(r, nil, nil) != core.RetFailure && core.Derived(ia.X)[r.Results[0]] || ia.X == r.Results[0] {
							okS = true
						}
					}
				}
			}
			c.Check("recoverSigners:result[i]=PubToAddress(recovered key)", "value-flow", okS, g.Pos(), "the signer list handed out is made of the addresses of the recovered keys")
		}
		condGuard(c, rfn, "len(sigs)=0", nil, func(sl map[ssa.Value]bool) bool {
			return core.SliceHasLenOf(sl, core.Derived(rfn.Params[1])) && core.SliceHasIntConst(sl, 0) && core.SliceHasOp(sl, token.EQL)
		})
	})

	// -----------------------------------------------------------------------------------------
	c.Clause("C06.3", "the decision: an empty signer list, a foreign signer of an ordinary account, a weight sum below the threshold and an unsigned foreign gas payer all reject; the weaker (gas-less) signing hash is accepted only together with verified payer signatures; a multisig configuration is validated before it is stored")
	c.Run("decision", func() {
		f := analyseSigners(c)
		fn := f.fn
		thr, _ := constInt(c.Const(trx + ".SignerWeightThreshold"))
		if f.signers == nil {
			c.Check("checkSignersWeight→GetSigners", "guard-call-present", false, fn.Pos(), "checkSignersWeight must obtain the recovered signer list exactly once")
			return
		}
		heeded(c, fn, c.Method(typ+".Signer", "GetSigners"), core.ErrNonNil, 1, nil)
		c.Check("checkSignersWeight:GetSigners(tx) on the given signer", "value-flow", isParam(fn, 3, c4Recv(f.getCall)) && isParam(fn, 2, c4Args(f.getCall)[0]), f.getCall.Pos(), "the list is recovered from the given transaction with the signer chosen by the caller")
		sd := core.Derived(f.signers)
		condGuard(c, fn, "len(signers)=0", nil, func(sl map[ssa.Value]bool) bool {
			return core.SliceHasLenOf(sl, sd) && core.SliceHasIntConst(sl, 0) && core.SliceHasOp(sl, token.EQL)
		})
		// the two deciding comparisons; every success path needs one of them to accept
		accSigners := c.Method(typ+".AccountAccessor", "GetSigners")
		var eqSender, weight []core.CondGuard
		for _, g := range core.CondGuards(fn, nil) {
			switch {
			case core.SliceHasOp(g.Slice, token.NEQ) && g.Slice[fn.Params[1]] && g.Slice[f.signers] && !core.SliceHasIntConst(g.Slice, thr):
				if bo, ok := g.If.Cond.(*ssa.BinOp); ok && bo.Op == token.NEQ && (isParam(fn, 1, bo.X) || isParam(fn, 1, bo.Y)) {
					eqSender = append(eqSender, g)
				}
			case sliceHasCmp(g.Slice, token.LSS, token.GEQ) && core.SliceHasIntConst(g.Slice, thr) && g.Slice[f.signers] && core.SliceHasCall(g.Slice, accSigners) && core.SliceHasOp(g.Slice, token.ADD):
				// "sum < threshold" rejects, written either way round
				if bo, ok := g.If.Cond.(*ssa.BinOp); ok {
					k, isK := constIntOf(bo.Y)
					tb := g.If.Block().Succs[0]
					if isK && k == thr && ((bo.Op == token.LSS && g.Fail == tb) || (bo.Op == token.GEQ && g.OK == tb)) {
						weight = append(weight, g)
					}
				}
			}
		}
		c.Check("checkSignersWeight?signer≠sender", "quantity-guard", len(eqSender) == 1, fn.Pos(), "an ordinary account accepts only a signature of the sender itself (%d comparison(s))", len(eqSender))
		c.Check("checkSignersWeight?Σweight<SignerWeightThreshold", "quantity-guard", len(weight) == 1, fn.Pos(), "a multisig account accepts only when the weights of the registered signers that signed reach the threshold (%d comparison(s))", len(weight))
		var tests []core.Test
		for _, g := range append(append([]core.CondGuard{}, eqSender...), weight...) {
			tests = append(tests, core.Test{If: g.If, Fail: g.Fail, OK: g.OK})
		}
		c.Check("checkSignersWeight:success⇒(signer=sender ∨ Σweight≥threshold)", "path-cut", core.SuccessNeedsOneOf(fn, tests, nil), fn.Pos(), "no successful exit without one of the two deciding comparisons having accepted")
		// which of the two applies is decided by the sender account's own signer list
		for _, g := range eqSender {
			ok := false
			for _, ct := range core.Controllers(g.If) {
				if eqCtrl(ct, func(sl map[ssa.Value]bool) bool {
					return core.SliceHasCall(sl, accSigners) && core.SliceHasIntConst(sl, 0) && sl[fn.Params[1]]
				}) {
					ok = true
				}
			}
			c.Check("checkSignersWeight:single-signature-rule⇔account-has-no-signers", "control-scope", ok, g.If.Pos(), "the single signature rule is used exactly when the sender account (looked up by the given address) has no registered signers")
		}
		for _, g := range core.CallsIn(fn, c.Method("chain/account.Manager", "GetAccount")) {
			a := c4Args(g)
			c.Check("checkSignersWeight:GetAccount(sender)", "value-flow", len(a) == 1 && isParam(fn, 1, a[0]), g.Pos(), "the registered signers are those of the account being authorised")
		}
		// the weight that is summed is the registered weight of the recovered signer
		for _, ia := range f.loopIdx {
			el := elemValue(ia)
			ok := false
			for _, g := range weight {
				for v := range g.Slice {
					if lk, isLk := v.(*ssa.Lookup); isLk && lk.Index == el && core.SliceHasCall(core.Slice(lk.X), accSigners) {
						ok = true
					}
				}
			}
			c.Check("checkSignersWeight:Σ registered weight of each recovered signer", "value-flow", ok && el != nil, ia.Pos(), "the sum is over the account's registered weight of each recovered signer")
		}

		// verifyTransactionSigs
		vfn := c.Fn(trx + ".TxProcessor.verifyTransactionSigs")
		csw := proc("checkSignersWeight")
		var fromCall, payerCall ssa.CallInstruction
		for _, g := range core.CallsIn(vfn, csw) {
			a := c4Args(g)
			switch {
			case len(a) == 3 && argHas(a[0], txm("From")) && !argHas(a[0], txm("GasPayer")):
				fromCall = g
			case len(a) == 3 && argHas(a[0], txm("GasPayer")) && !argHas(a[0], txm("From")):
				payerCall = g
			}
		}
		c.Floor("verifyTransactionSigs/checkSignersWeight", len(core.CallsIn(vfn, csw)), 2)
		if fromCall == nil || payerCall == nil {
			c.Check("verifyTransactionSigs→checkSignersWeight(from|gasPayer)", "guard-call-present", false, vfn.Pos(), "the sender and the gas payer must each be authorised by checkSignersWeight")
			return
		}
		okF, why := core.CallHeeded(fromCall, core.ErrNonNil, nil)
		c.Check("verifyTransactionSigs→checkSignersWeight(from)", "heeded-guard", okF && isParam(vfn, 1, c4Args(fromCall)[1]), fromCall.Pos(), "the sender's signatures are checked on every path and a failure rejects: %s", orOK(why))
		// payer: either payer signatures verified, or payer = sender
		var neq []core.CondGuard
		for _, g := range core.CondGuards(vfn, nil) {
			if bo, ok := g.If.Cond.(*ssa.BinOp); ok && bo.Op == token.NEQ && core.SliceHasCall(g.Slice, txm("GasPayer")) && core.SliceHasCall(g.Slice, txm("From")) && g.Fail == g.If.Block().Succs[0] {
				neq = append(neq, g)
			}
		}
		payerTests := rejectingTests(core.ErrResult(payerCall), core.ErrNonNil, nil)
		c.Check("verifyTransactionSigs→checkSignersWeight(gasPayer)", "heeded-guard", len(payerTests) > 0 && isParam(vfn, 1, c4Args(payerCall)[1]) && argHas(c4Args(payerCall)[2], c.FuncObj(typ+".MakeGasPayerSigner")), payerCall.Pos(), "a failed gas payer authorisation rejects; it is checked with the gas payer signer")
		c.Check("verifyTransactionSigs?gasPayer≠from", "quantity-guard", len(neq) == 1, vfn.Pos(), "without payer signatures somebody else than the sender paying is rejected (%d comparison(s))", len(neq))
		pt := append([]core.Test{}, payerTests...)
		for _, g := range neq {
			pt = append(pt, core.Test{If: g.If, Fail: g.Fail, OK: g.OK})
		}
		c.Check("verifyTransactionSigs:success⇒(payer-sigs-verified ∨ gasPayer=from)", "path-cut", core.SuccessNeedsOneOf(vfn, pt, nil), vfn.Pos(), "nobody pays for gas without either having signed for it or being the sender")
		// signer choice
		sgArg := c4Args(fromCall)[2]
		var reimb, deflt ssa.CallInstruction
		others := 0
		for v := range core.Slice(sgArg) {
			ci, isCall := v.(ssa.CallInstruction)
			if !isCall {
				continue
			}
			switch {
			case core.SameFamily(core.CalleeObj(ci), c.FuncObj(typ+".MakeReimbursementTxSigner")):
				reimb = ci
			case core.SameFamily(core.CalleeObj(ci), c.FuncObj(typ+".MakeSigner")):
				deflt = ci
			default:
				if sig := ci.Common().Signature(); sig.Results().Len() == 1 && types.Identical(sig.Results().At(0).Type(), c.Named(typ+".Signer")) {
					others++
				}
			}
		}
		c.Check("verifyTransactionSigs:fromSigner∈{DefaultSigner,ReimbursementTxSigner}", "value-flow", deflt != nil && others == 0, fromCall.Pos(), "the sender is authorised over the full signing hash or over the gas-less one, nothing else")
		if reimb != nil {
			// gas-less hash ⇒ the payer's signatures (which cover gas price and limit) were verified: same condition, same edge
			pc, rc := decidingCtrls(payerCall, nil), decidingCtrls(reimb, nil)
			ok := len(pc) == 1 && len(rc) == 1 && pc[0].Taken == rc[0].Taken && core.SameCond(pc[0].If.Cond, rc[0].If.Cond) &&
				core.SliceHasCall(core.Slice(pc[0].If.Cond), txm("GasPayerSigs"))
			c.Check("verifyTransactionSigs:ReimbursementTxSigner⇒payer-sigs-verified", "control-scope", ok, reimb.Pos(), "the signing hash without gas price and gas limit is used only under the very condition under which the gas payer's signatures are verified")
		}
		c.Floor("verifyTransactionSigs/reimbursement-signer", boolInt(reimb != nil), 1)
	})

	c.Run("multisig-config", func() {
		fn := c.Fn(trx + ".unmarshalAndVerifyData")
		maxN, _ := constInt(c.Const(trx + ".MaxSignersNumber"))
		thr, _ := constInt(c.Const(trx + ".SignerWeightThreshold"))
		wf := c.FieldVar(typ+".SignAccount", "Weight")
		af := c.FieldVar(typ+".SignAccount", "Address")
		sf := c.FieldVar(trx+".ModifySigners", "Signers")
		condGuard(c, fn, "len(Signers)>MaxSignersNumber", nil, func(sl map[ssa.Value]bool) bool {
			return core.SliceHasField(sl, sf) && core.SliceHasIntConst(sl, maxN) && core.SliceHasOp(sl, token.GTR) && !core.SliceHasField(sl, wf)
		})
		condGuardLoop(c, fn, "Weight<1", nil, func(sl map[ssa.Value]bool) bool {
			return core.SliceHasField(sl, wf) && core.SliceHasIntConst(sl, 1) && core.SliceHasOp(sl, token.LSS) && core.SliceHasField(sl, sf)
		})
		condGuardLoop(c, fn, "Weight>SignerWeightThreshold", nil, func(sl map[ssa.Value]bool) bool {
			return core.SliceHasField(sl, wf) && core.SliceHasIntConst(sl, thr) && core.SliceHasOp(sl, token.GTR) && core.SliceHasField(sl, sf)
		})
		dup := false
		for _, s := range dedupSites(fn, nil) {
			ks := core.Slice(s.Key)
			if core.SliceHasField(ks, af) && core.SliceHasField(ks, sf) && core.EveryIterationPasses(s.At) {
				dup = true
			}
		}
		c.Check("unmarshalAndVerifyData?Address-seen-twice", "test-and-insert", dup, fn.Pos(), "a configuration naming the same signer address twice is rejected")
		// what is returned is the validated list
		okR := true
		for _, r := range core.Returns(fn) {
			if core.ClassifyReturn(r, nil, nil) != core.RetFailure && !core.SliceHasField(core.Slice(r.Results[0]), sf) {
				okR = false
			}
		}
		c.Check("unmarshalAndVerifyData:returns-validated-list", "value-flow", okR, fn.Pos(), "the list handed on is the one that was validated")

		jfn := c.Fn(trx + ".judgeTotalWeight")
		condGuard(c, jfn, "ΣWeight<SignerWeightThreshold", nil, func(sl map[ssa.Value]bool) bool {
			return core.SliceHasField(sl, wf) && core.SliceHasIntConst(sl, thr) && core.SliceHasOp(sl, token.LSS) && core.SliceHasOp(sl, token.ADD) && sl[jfn.Params[0]]
		})
		sfn := c.Fn(trx + ".setMultisigAccount")
		set := c.Method(typ+".AccountAccessor", "SetSingers")
		heeded(c, sfn, c.FuncObj(trx+".judgeTotalWeight"), core.ErrNonNil, 1, nil)
		heededBefore(c, sfn, c.FuncObj(trx+".judgeTotalWeight"), core.ErrNonNil, "SetSingers", instrs(core.CallsIn(sfn, set)))
		for _, g := range core.CallsIn(sfn, c.FuncObj(trx+".judgeTotalWeight")) {
			same := false
			for _, s := range core.CallsIn(sfn, set) {
				if c4Args(s)[0] == g.Common().Args[0] {
					same = true
				}
			}
			c.Check("setMultisigAccount:SetSingers(judged list)", "value-flow", same && isParam(sfn, 0, g.Common().Args[0]), g.Pos(), "the list that is stored is the list whose total weight was judged")
		}
		heeded(c, sfn, set, core.ErrNonNil, 1, nil)
		// SafeAccount.SetSingers is the journalling wrapper of the same operation; redoSigner/undoSigner replay or revert a journalled (i.e. already
		// authorised) change and are reachable only through the change log processor
		closedCallers(c, "AccountAccessor.SetSingers", []string{core.FuncName(sfn), "(*chain/account.SafeAccount).SetSingers", "chain/account.redoSigner", "chain/account.undoSigner"}, set)

		mfn := c.Fn(trx + ".SetMultisigAccountEnv.ModifyMultisigTx")
		un := c.FuncObj(trx + ".unmarshalAndVerifyData")
		sm := c.FuncObj(trx + ".setMultisigAccount")
		heeded(c, mfn, un, core.ErrNonNil, 1, nil)
		heeded(c, mfn, sm, core.ErrNonNil, 1, nil)
		heededBefore(c, mfn, un, core.ErrNonNil, "setMultisigAccount", instrs(core.CallsIn(mfn, sm)))
		uc, sc := core.CallsIn(mfn, un), core.CallsIn(mfn, sm)
		if len(uc) == 1 && len(sc) == 1 {
			a := sc[0].Common().Args
			res := core.ResultValues(uc[0])[0]
			acc := core.CallsIn(mfn, c.Method("chain/account.Manager", "GetAccount"))
			ok := res != nil && core.Derived(res)[a[0]] && isParam(mfn, 3, uc[0].Common().Args[0]) && len(acc) == 1 && core.Derived(acc[0].Value())[a[1]] && isParam(mfn, 2, c4Args(acc[0])[0])
			c.Check("ModifyMultisigTx:setMultisigAccount(validated signers, account `to`)", "value-flow", ok, sc[0].Pos(), "the validated list decoded from the transaction data is stored on the account named by `to`")
			// another account than the sender's: only a temp address derived from the sender that has no signers yet
			fromTo := func(ct core.Ctrl) bool {
				bo, isB := ct.If.Cond.(*ssa.BinOp)
				if !isB || !((isParam(mfn, 1, bo.X) && isParam(mfn, 2, bo.Y)) || (isParam(mfn, 2, bo.X) && isParam(mfn, 1, bo.Y))) {
					return false
				}
				return (bo.Op == token.NEQ && ct.Taken == 0) || (bo.Op == token.EQL && ct.Taken == 1)
			}
			var tests []core.Test
			vt := core.CallsIn(mfn, c.FuncObj(trx+".verifyTempAddress"))
			okT := len(vt) == 1
			if okT {
				a := vt[0].Common().Args
				rt := rejectingTests(core.ErrResult(vt[0]), core.ErrNonNil, nil)
				okT = len(rt) > 0 && isParam(mfn, 1, a[0]) && isParam(mfn, 2, a[1])
				tests = append(tests, rt...)
				cs := decidingCtrls(vt[0], nil)
				okT = okT && len(cs) == 1 && fromTo(cs[0])
			}
			c.Check("ModifyMultisigTx:from≠to⇒verifyTempAddress(from,to)", "heeded-guard", okT, mfn.Pos(), "signers of an account other than the sender's can be set only on a temp address derived from the sender")
			okE := false
			for _, g := range core.CondGuards(mfn, nil) {
				if len(acc) == 1 && core.SliceHasCall(g.Slice, c.Method(typ+".AccountAccessor", "GetSigners")) && g.Slice[acc[0].Value()] && core.SliceHasIntConst(g.Slice, 0) && core.SliceHasOp(g.Slice, token.NEQ) {
					cs := core.Controllers(g.If)
					n := 0
					for _, ct := range cs {
						if fromTo(ct) {
							n++
						} else if !rejectingCtrl(ct, nil) {
							n = -100
						}
					}
					if n == 1 {
						okE = true
						tests = append(tests, core.Test{If: g.If, Fail: g.Fail, OK: g.OK})
					}
				}
			}
			c.Check("ModifyMultisigTx:from≠to⇒account-has-no-signers-yet", "quantity-guard", okE, mfn.Pos(), "a temp account that already has signers cannot be re-configured by its creator alone")
			// from = to is the only way around the two: with the from==to edge and the accepting edge of either check removed, the store is unreachable
			okOnly := okT && okE && len(tests) >= 2
			if okOnly {
				ct := decidingCtrls(vt[0], nil)[0]
				b := ct.If.Block()
				for _, t := range tests {
					if core.ReachableWithCut(sc[0].Block(), [2]*ssa.BasicBlock{b, b.Succs[1-ct.Taken]}, [2]*ssa.BasicBlock{t.If.Block(), t.OK}) {
						okOnly = false
					}
				}
			}
			c.Check("ModifyMultisigTx:store⇒(from=to ∨ (temp-address ∧ unset))", "path-cut", okOnly, sc[0].Pos(), "every path to the store runs over from=to or over both accepting checks")
		}
	})

	// -----------------------------------------------------------------------------------------
	c.Clause("C06.4", "distinct signers: in the loop that sums the weights every recovered signer address is tested against and inserted into a seen-set, a second signature of the same signer rejects")
	c.Run("distinct-signers", func() {
		f := analyseSigners(c)
		fn := f.fn
		c.Floor("checkSignersWeight/weight-loops", len(f.loopIdx), 1)
		for _, ia := range f.loopIdx {
			el := elemValue(ia)
			var site *dedupSite
			for _, s := range dedupSites(fn, nil) {
				s := s
				if el != nil && s.Key == el {
					site = &s
				}
			}
			c.Check("checkSignersWeight?signer-seen-twice", "test-and-insert", site != nil, ia.Pos(), "the weight loop must keep a set of the signer addresses already counted; a hit rejects, a miss inserts")
			if site == nil {
				continue
			}
			c.Check("checkSignersWeight?signer-seen-twice/every-signer", "loop-coverage", core.EveryIterationPasses(site.At) && core.InSameLoop(site.At, ia), site.At.Pos(), "every recovered signer passes the test, inside the summing loop")
			// the addition happens only on the accepting side of the test
			ok := false
			for _, b := range fn.Blocks {
				for _, in := range b.Instrs {
					bo, isB := in.(*ssa.BinOp)
					if !isB || bo.Op != token.ADD || !core.InSameLoop(bo, ia) {
						continue
					}
					sl := core.Slice(bo.Y)
					hasLk := false
					for v := range sl {
						if lk, isLk := v.(*ssa.Lookup); isLk && lk.Index == el {
							hasLk = true
						}
					}
					if !hasLk {
						continue
					}
					ok = (site.Test.OK == bo.Block() || site.Test.OK.Dominates(bo.Block())) && !core.CanReach(site.Test.Fail, bo.Block(), site.Test.If.Block(), loopHeader(ia))
				}
			}
			c.Check("checkSignersWeight:weight-added-only-after-first-sighting", "guarded-action", ok, site.At.Pos(), "a signer's weight is added only on the path where the signer was not seen before")
			// the set is not shared with anything that could pre-fill or clear it: created in this function
			_, isMk := site.Set.(*ssa.MakeMap)
			_, isCell := site.Set.(*ssa.Alloc)
			c.Check("checkSignersWeight:seen-set-is-local", "value-flow", isMk || isCell, site.At.Pos(), "the seen-set is created per call")
		}
	})

	c.Clause("C06.5", "the registered signer list of an account is its own: SetSingers stores a freshly allocated copy (an append into the old backing array would write through to the copies of the account kept by other blocks' state views, which share the slice); and every signing hash encodes a covered field in the same form as the transaction identity does")
	c.Run("signer-list-and-hash-forms", func() {
		fn := c.Fn("chain/account.Account.SetSingers")
		sig := c.FieldVar("chain/types.AccountData", "Signers")
		n := 0
		for _, b := range fn.Blocks {
			for _, in := range b.Instrs {
				st, ok := in.(*ssa.Store)
				if !ok || core.FieldOf(st.Addr) != sig {
					continue
				}
				n++
				// the stored slice is fresh: a make, or an append whose base is (derived from) a make stored into the field before
				fresh := false
				val := st.Val
				for {
					if ct, isCT := val.(*ssa.ChangeType); isCT {
						val = ct.X
						continue
					}
					break
				}
				switch v := val.(type) {
				case *ssa.MakeSlice:
					fresh = true
				case *ssa.Slice:
					// make(T, 0) with constant sizes is a slice of a new array
					if al, isAl := v.X.(*ssa.Alloc); isAl && al.Heap {
						fresh = true
					}
				case *ssa.Call:
					if bi, isB := v.Call.Value.(*ssa.Builtin); isB && bi.Name() == "append" {
						base := v.Call.Args[0]
						for x := range core.SliceShallow(base) {
							if _, isMk := x.(*ssa.MakeSlice); isMk {
								fresh = true
							}
						}
						if core.SliceHasField(core.SliceShallow(base), sig) {
							// appending to the field's current value: only fine when a fresh make was stored into the field on every path before
							fresh = freshStoreDominates(fn, sig, st)
						}
					}
				}
				c.Check("SetSingers:stores-a-fresh-list#"+string(rune('a'+n-1)), "reinitialised-before-copy", fresh, st.Pos(), "the signer list stored into the account is freshly allocated, never an append into the previous backing array")
			}
		}
		c.Floor("SetSingers/stores", n, 1)

		// hash forms: for each txdata field, the way its value enters Transaction.Hash and each signing hash (raw field, or an accessor that
		// returns exactly the field) must agree; an accessor that substitutes a default makes two distinct identities sign alike
		data := c.Struct("chain/types.txdata")
		form := func(fnSpec string) map[string]string {
			f := c.Fn(fnSpec)
			out := map[string]string{}
			for _, ci := range core.CallsIn(f, c.FuncObj("chain/types.rlpHash")) {
				for v := range core.SliceShallow(ci.Common().Args[0]) {
					switch x := v.(type) {
					case *ssa.FieldAddr, *ssa.Field:
						if fv := core.FieldOf(x.(ssa.Value)); fv != nil {
							for i := 0; i < data.NumFields(); i++ {
								if data.Field(i) == fv && out[fv.Name()] == "" {
									out[fv.Name()] = "raw"
								}
							}
						}
					case *ssa.Call:
						callee := core.StaticFn(x)
						if callee == nil || core.RelPkg(callee) != "chain/types" || callee.Blocks == nil {
							continue
						}
						// which field does the accessor return, and is it faithful to that field? An accessor may copy (new(big.Int).Set(f), *f) but it
						// must not draw on any other field of the transaction (a default taken from From makes two identities sign alike)
						fields := map[string]bool{}
						var collect func(fn *ssa.Function, depth int)
						collect = func(fn *ssa.Function, depth int) {
							for _, r := range core.Returns(fn) {
								for _, res := range r.Results {
									for y := range core.SliceShallow(core.ResolveSpill(res)) {
										if fv := core.FieldOf(y); fv != nil {
											for i := 0; i < data.NumFields(); i++ {
												if data.Field(i) == fv {
													fields[fv.Name()] = true
												}
											}
										}
										if call, isCall := y.(*ssa.Call); isCall && depth < 2 {
											// only other accessors of the transaction (methods without parameters) are followed
											if inner := core.StaticFn(call); inner != nil && core.RelPkg(inner) == "chain/types" && inner.Blocks != nil && inner != fn &&
												inner.Signature.Recv() != nil && inner.Signature.Params().Len() == 0 && namedPtr(inner.Signature.Recv().Type()) == "Transaction" &&
												len(fn.Params) > 0 && len(call.Call.Args) > 0 && call.Call.Args[0] == ssa.Value(fn.Params[0]) { // of this transaction, not of a sub transaction
												collect(inner, depth+1)
											}
										}
									}
								}
							}
						}
						collect(callee, 0)
						plain := len(fields) == 1
						for name := range fields {
							if plain {
								if out[name] == "" || out[name] == "raw" {
									out[name] = "raw"
								}
							} else {
								out[name] = "via " + callee.Name() + " (draws on " + strings.Join(core.SortedKeys(fields), "+") + ")"
							}
						}
					}
				}
			}
			return out
		}
		id := form("chain/types.Transaction.Hash")
		cmp := 0
		for _, spec := range []string{"chain/types.DefaultSigner.Hash", "chain/types.ReimbursementTxSigner.Hash", "chain/types.GasPayerSigner.Hash"} {
			sf := form(spec)
			for name, how := range sf {
				want, both := id[name]
				if !both {
					continue
				}
				cmp++
				short := spec[strings.LastIndex(spec, "/")+1:]
				c.Check("hash-form/"+short+"#"+name, "sibling-agreement", how == want, token.NoPos, "%s encodes %s %s; the transaction identity encodes it %s", short, name, how, want)
			}
		}
		c.Floor("hash-form/compared-fields", cmp, 20)
	})

	// C06.6: one signature, one encoding — the canonical-form clause (C04.5) and the identity clauses of C04 are necessary for authorisation as
	// well: a re-encoded copy of a signed transaction (or of its gas payer's signature) is a transaction nobody signed for, executed with the
	// signers' authority. Evaluated here under their C04 keys.
	c04(c)

	c.Clause("C06.7", "a change of the registered signers survives the block: IsValuable keeps a change log unless old and new value, compared whole, are equal (clause C12.7/C07.9, evaluated here as well — a weights-only change of a signer list that is judged 'no change' is dropped before the account is saved and the old weights keep their authority)")
	c.Run("IsValuable-whole-values", func() { c12IsValuable(c) })

	c.NotDecidedf("cryptographic soundness of ECDSA recovery and of keccak/RLP; that one signature has one encoding (the canonical low-s form is decided under C04.5 for every Ecrecover consumer; D6, repaired)")
	c.NotDecidedf("what the executors (EVM, asset, vote, candidate code) do with the authority of the sender once the transaction is authorised; contracts moving funds of accounts that called them")
	c.NotDecidedf("JSON/RLP re-encodings of a transaction, the temp-address derivation arithmetic of verifyTempAddress, correctness of Signers.ToSignerMap")
}

func boolInt(b bool) int {
	if b {
		return 1
	}
	return 0
}

// loopHeader returns the header block of the innermost loop around in (nil when there is none).
func loopHeader(in ssa.Instruction) *ssa.BasicBlock {
	_, h := core.LoopOf(in.Block())
	return h
}

// writesReceiver: the method stores through its receiver (directly or into one of its fields/elements). Unknown bodies count as writers.
func writesReceiver(fn *ssa.Function) bool {
	if fn == nil || fn.Blocks == nil || len(fn.Params) == 0 {
		return true
	}
	recv := fn.Params[0]
	for _, b := range fn.Blocks {
		for _, in := range b.Instrs {
			var addr ssa.Value
			switch x := in.(type) {
			case *ssa.Store:
				addr = x.Addr
			case *ssa.MapUpdate:
				addr = x.Map
			default:
				continue
			}
			for d := 0; addr != nil && d < 6; d++ {
				if addr == recv {
					return true
				}
				switch y := addr.(type) {
				case *ssa.FieldAddr:
					addr = y.X
				case *ssa.IndexAddr:
					addr = y.X
				case *ssa.UnOp:
					addr = y.X
				default:
					addr = nil
				}
			}
		}
	}
	return false
}
