package rules

import (
	"go/token"
	"go/types"
	"strings"

	"golang.org/x/tools/go/ssa"

	"verif/lint/internal/core"
)

func init() { register("C12", c12) }

// assetRules carries the resolved entities the C12 clauses are keyed on.
type assetRules struct {
	c                                     *core.Ctx
	bigAdd, bigSub, bigCmp, bigSign, newI *types.Func
	big0                                  *types.Var
	setEq, setSup, getEq, getSup          *types.Func
	equityF                               *types.Var // AssetEquity.Equity
	amountF                               map[*types.Var]string
}

// isZeroBig: v is big.NewInt(0) or the package variable common.Big0.
func (a *assetRules) isZeroBig(v ssa.Value) bool {
	if ci, ok := isCallOf(v, a.newI); ok {
		return len(ci.Common().Args) == 1 && intConstIs(ci.Common().Args[0], 0)
	}
	if u, ok := v.(*ssa.UnOp); ok && u.Op == token.MUL {
		if g, ok := u.X.(*ssa.Global); ok && g.Object() == a.big0 {
			return true
		}
	}
	return false
}

func (a *assetRules) isOneBig(v ssa.Value) bool {
	ci, ok := isCallOf(v, a.newI)
	return ok && len(ci.Common().Args) == 1 && intConstIs(ci.Common().Args[0], 1)
}

// signEdge is an If that tests the sign of a quantity; Neg is the successor index taken when the quantity is negative.
type signEdge struct {
	If  *ssa.If
	Neg int
}

// signTests lists the Ifs of fn that branch on Sign()/Cmp(zero) of a value of set A with a comparison that separates the
// negative values (<, <=, >, >= against 0).
func (a *assetRules) signTests(fn *ssa.Function, A map[ssa.Value]bool) []signEdge {
	var out []signEdge
	for _, ci := range core.AllCalls(fn) {
		f := core.CalleeObj(ci)
		if f == nil || ci.Value() == nil {
			continue
		}
		recv, args := recvArgs(ci)
		flipped := false
		switch {
		case f == a.bigSign && A[recv]:
		case f == a.bigCmp && len(args) == 1 && A[recv] && a.isZeroBig(args[0]):
		case f == a.bigCmp && len(args) == 1 && A[args[0]] && a.isZeroBig(recv):
			flipped = true
		default:
			continue
		}
		refs := ci.Value().Referrers()
		if refs == nil {
			continue
		}
		for _, r := range *refs {
			bo, ok := r.(*ssa.BinOp)
			if !ok {
				continue
			}
			op := bo.Op
			switch {
			case bo.X == ci.Value() && intConstIs(bo.Y, 0):
			case bo.Y == ci.Value() && intConstIs(bo.X, 0):
				op = mirrorV10(op)
			default:
				continue
			}
			if flipped {
				op = mirrorV10(op)
			}
			neg := -1
			switch op {
			case token.LSS, token.LEQ:
				neg = 0 // the comparison is true for negative values
			case token.GTR, token.GEQ:
				neg = 1
			}
			if neg < 0 {
				continue
			}
			out = append(out, ifsOn(bo, neg)...)
		}
	}
	return out
}

func mirrorV10(op token.Token) token.Token {
	switch op {
	case token.LSS:
		return token.GTR
	case token.LEQ:
		return token.GEQ
	case token.GTR:
		return token.LSS
	case token.GEQ:
		return token.LEQ
	}
	return op
}

// ifsOn lists the Ifs branching on boolean v (looking through `!`); idx is the successor index meant when v is true.
func ifsOn(v ssa.Value, idx int) []signEdge {
	var out []signEdge
	refs := v.Referrers()
	if refs == nil {
		return nil
	}
	for _, r := range *refs {
		switch x := r.(type) {
		case *ssa.If:
			out = append(out, signEdge{x, idx})
		case *ssa.UnOp:
			if x.Op == token.NOT {
				out = append(out, ifsOn(x, 1-idx)...)
			}
		}
	}
	return out
}

// guardedBy: one of the tests dominates the sink and its negative edge cannot reach the sink without re-running the test.
func guardedBy(tests []signEdge, sink ssa.Instruction) bool {
	for _, t := range tests {
		b := t.If.Block()
		if b == sink.Block() || !b.Dominates(sink.Block()) || b.Succs[0] == b.Succs[1] {
			continue
		}
		if !reachAvoiding(b.Succs[t.Neg], map[*ssa.BasicBlock]bool{b: true})[sink.Block()] {
			return true
		}
	}
	return false
}

// amountSet: every value of fn that carries field f of the object `base` points to (all loads of base.f and their copies).
func amountSet(fn *ssa.Function, base ssa.Value, f *types.Var) map[ssa.Value]bool {
	bases := core.Derived(base)
	out := map[ssa.Value]bool{}
	for _, b := range fn.Blocks {
		for _, in := range b.Instrs {
			v, ok := in.(ssa.Value)
			if !ok {
				continue
			}
			if bb, ff := fieldLoad(v); ff == f && bases[bb] {
				for d := range core.Derived(v) {
					out[d] = true
				}
			}
		}
	}
	return out
}

// signCheckedAt decides clause C12.1 for one (base.f → sink) flow in fn: directly, or through a validating decoder helper whose
// error is heeded before the sink.
func (a *assetRules) signCheckedAt(fn *ssa.Function, base ssa.Value, f *types.Var, sink ssa.Instruction) (bool, string) {
	A := amountSet(fn, base, f)
	if guardedBy(a.signTests(fn, A), sink) {
		return true, "sign test in " + shortFn(fn)
	}
	// a predicate helper of the same package that is given the amount, refuses (error) a negative one, and is heeded before the sink
	for _, ci := range core.AllCalls(fn) {
		h := core.StaticFn(ci)
		if h == nil || h.Pkg != fn.Pkg || h.Blocks == nil || core.ErrResult(ci) == nil {
			continue
		}
		for k, arg := range ci.Common().Args {
			if !A[arg] || k >= len(h.Params) {
				continue
			}
			tests := a.signTests(h, core.Derived(h.Params[k]))
			okh, n := true, 0
			for _, r := range core.Returns(h) {
				if r.Block() == h.Recover || retRejects(r) {
					continue
				}
				n++
				if !guardedBy(tests, r) {
					okh = false
				}
			}
			if okh && n > 0 {
				if ok, _ := core.HeededBefore(ci, core.ErrNonNil, sink); ok {
					return true, "sign test in predicate helper " + shortFn(h)
				}
			}
		}
	}
	ex, ok := base.(*ssa.Extract)
	if !ok || ex.Index != 0 {
		return false, "no dominating sign test on this amount and the struct does not come from a validating helper"
	}
	call, ok := ex.Tuple.(*ssa.Call)
	if !ok {
		return false, "no dominating sign test on this amount"
	}
	h := core.StaticFn(call)
	if h == nil || !core.InRepo(h) || h.Blocks == nil {
		return false, "no dominating sign test on this amount (the producing call is not a repository helper)"
	}
	if ok, why := core.HeededBefore(call, core.ErrNonNil, sink); !ok {
		return false, "the error of " + shortFn(h) + " is not heeded before the write: " + why
	}
	n := 0
	for _, r := range core.Returns(h) {
		if r.Block() == h.Recover {
			continue
		}
		rv := core.RetVal(r, 0)
		if core.IsNilConst(rv) {
			continue
		}
		n++
		if !guardedBy(a.signTests(h, amountSet(h, rv, f)), r) {
			return false, shortFn(h) + " can return the struct without having sign-tested the amount"
		}
	}
	if n == 0 {
		return false, shortFn(h) + " never returns a struct"
	}
	return true, "sign test in helper " + shortFn(h)
}

// amountLoadsIn lists the loads of an external amount field found in a slice: (load, base, field).
type amtLoad struct {
	v    ssa.Value
	base ssa.Value
	f    *types.Var
}

func (a *assetRules) amountLoadsIn(sl map[ssa.Value]bool) []amtLoad {
	var out []amtLoad
	for v := range sl {
		if b, f := fieldLoad(v); f != nil {
			if _, ok := a.amountF[f]; ok {
				out = append(out, amtLoad{v, b, f})
			}
		}
	}
	return out
}

// sameAmount: two operands denote the same amount: the same SSA value, or two reads of the same external amount field of the
// same decoded struct (nobody but the decoder writes those fields — checked separately).
func (a *assetRules) sameAmount(x, y ssa.Value) bool {
	if x == nil || y == nil {
		return false
	}
	if x == y {
		return true
	}
	bx, fx := fieldLoad(x)
	by, fy := fieldLoad(y)
	if fx == nil || fx != fy {
		return false
	}
	if _, ok := a.amountF[fx]; !ok {
		return false
	}
	return bx == by || core.Derived(bx)[by] || core.Derived(by)[bx]
}

// leaves expands phis (a value in `keep` is a leaf even when it is a phi).
func leaves(v ssa.Value, keep ...ssa.Value) []ssa.Value {
	seen := map[ssa.Value]bool{}
	var out []ssa.Value
	var walk func(x ssa.Value)
	walk = func(x ssa.Value) {
		if seen[x] {
			return
		}
		seen[x] = true
		for _, k := range keep {
			if k != nil && k == x {
				out = append(out, x)
				return
			}
		}
		if p, ok := x.(*ssa.Phi); ok {
			for _, e := range p.Edges {
				walk(e)
			}
			return
		}
		out = append(out, x)
	}
	walk(v)
	return out
}

// bigBin: v is z.Add(x,y) / z.Sub(x,y); returns the operation and operands.
func (a *assetRules) bigBin(v ssa.Value) (op *types.Func, x, y ssa.Value, call ssa.CallInstruction) {
	ci, ok := v.(ssa.CallInstruction)
	if !ok {
		return nil, nil, nil, nil
	}
	f := core.CalleeObj(ci)
	if f != a.bigAdd && f != a.bigSub {
		return nil, nil, nil, nil
	}
	_, args := recvArgs(ci)
	if len(args) != 2 {
		return nil, nil, nil, nil
	}
	return f, args[0], args[1], ci
}

// divisibleBranch: block b is entered only through the edge of an If on Asset.IsDivisible; returns the value IsDivisible has there.
func divisibleBranch(b *ssa.BasicBlock, isDiv *types.Var) (val, ok bool) {
	for x := b; x != nil; x = x.Idom() {
		d := x.Idom()
		if d == nil {
			return false, false
		}
		ifi := ifOf(d)
		if ifi == nil {
			continue
		}
		under, idx := boolEdges(ifi.Cond)
		if _, f := fieldLoad(under); f != isDiv {
			continue
		}
		for k := 0; k < 2; k++ {
			s := d.Succs[k]
			if (s == b || s.Dominates(b)) && edgeOnly(d, s) {
				return k == idx, true
			}
		}
		return false, false
	}
	return false, false
}

// c12SharedMutation: the functions that mutate a *big.Int they did not allocate, confirmed by reading.
var c12SharedMutation = map[string]string{
	"(*account.Account).SetBalance": "the account's own balance counter: AccountData.Copy gives every account copy its own big.Int (C09.6), GetBalance hands out copies, and the value set is copied in (Set), not stored",
}

func c12(c *core.Ctx) {
	const tx = "chain/transaction"
	a := &assetRules{c: c, amountF: map[*types.Var]string{}}
	ok := false
	c.Run("anchors", func() {
		a.bigAdd, a.bigSub = c.StdFunc("math/big", "Int.Add"), c.StdFunc("math/big", "Int.Sub")
		a.bigCmp, a.bigSign, a.newI = c.StdFunc("math/big", "Int.Cmp"), c.StdFunc("math/big", "Int.Sign"), c.StdFunc("math/big", "NewInt")
		a.big0 = c.Global("common.Big0")
		a.setEq = c.Method("chain/types.AccountAccessor", "SetEquityState")
		a.setSup = c.Method("chain/types.AccountAccessor", "SetAssetCodeTotalSupply")
		a.getEq = c.Method("chain/types.AccountAccessor", "GetEquityState")
		a.getSup = c.Method("chain/types.AccountAccessor", "GetAssetCodeTotalSupply")
		a.equityF = c.FieldVar("chain/types.AssetEquity", "Equity")
		for _, t := range []string{"IssueAsset", "ReplenishAsset", "TransferAsset"} {
			a.amountF[c.FieldVar("chain/types."+t, "Amount")] = t
		}
		ok = true
	})
	if !ok {
		return
	}
	issue := func() *ssa.Function { return c.Fn(tx + ".RunAssetEnv.IssueAssetTx") }
	repl := func() *ssa.Function { return c.Fn(tx + ".RunAssetEnv.ReplenishAssetTx") }
	modify := func() *ssa.Function { return c.Fn(tx + ".RunAssetEnv.ModifyAssetProfileTx") }
	transfer := func() *ssa.Function { return c.Fn("chain/vm.EVM.TransferAssetTx") }
	writesOf := func(fn *ssa.Function) []ssa.CallInstruction { return core.CallsIn(fn, a.setEq, a.setSup) }
	// sinksUnreachableWithout: with the "guard passes" edges removed no equity/supply write of fn can be reached from the entry.
	sinksCut := func(fn *ssa.Function, sinks []ssa.CallInstruction, cut map[[2]*ssa.BasicBlock]bool) bool {
		if len(sinks) == 0 || len(cut) == 0 {
			return false
		}
		r := reachCutV10(fn, cut)
		for _, s := range sinks {
			if r[s.Block()] {
				return false
			}
		}
		return true
	}
	edge := func(b *ssa.BasicBlock, k int) [2]*ssa.BasicBlock { return [2]*ssa.BasicBlock{b, b.Succs[k]} }

	// ------------------------------------------------------------------------------------------------------------------
	c.Clause("C12.1", "externally supplied amounts (IssueAsset.Amount, ReplenishAsset.Amount, TransferAsset.Amount) are sign-tested — Sign()/Cmp(0) on the same value, negative outcome never reaching the write — before every SetEquityState / SetAssetCodeTotalSupply they flow into; only the JSON decoder of each struct writes the field")
	c.Run("sign-checked", func() {
		n := 0
		perType := map[string]int{}
		for _, fn := range []*ssa.Function{issue(), repl(), transfer()} {
			for i, s := range writesOf(fn) {
				_, args := recvArgs(s)
				sl := map[ssa.Value]bool{}
				for _, x := range args {
					for v := range pointeeSlice(x, s) {
						sl[v] = true
					}
				}
				seen := map[[2]interface{}]bool{}
				for _, al := range a.amountLoadsIn(sl) {
					k := [2]interface{}{al.base, al.f}
					if seen[k] {
						continue
					}
					seen[k] = true
					n++
					perType[a.amountF[al.f]]++
					okk, how := a.signCheckedAt(fn, al.base, al.f, s)
					c.Check(shortFn(fn)+":"+objName(core.CalleeObj(s))+"#"+string(rune('a'+i))+"←"+a.amountF[al.f]+".Amount-sign-tested", "validated-use", okk, s.Pos(),
						"%s.Amount reaches this write; a heeded sign test on the same value must dominate it: %s", a.amountF[al.f], how)
				}
			}
		}
		c.Exactly("amount→write flows", n, 8)
		for _, t := range []string{"IssueAsset", "ReplenishAsset", "TransferAsset"} {
			c.Floor("flows-from-"+t+".Amount", perType[t], 2)
		}
		// writers of the amount fields
		for _, t := range []string{"IssueAsset", "ReplenishAsset", "TransferAsset"} {
			f := c.FieldVar("chain/types."+t, "Amount")
			dec := c.Method("chain/types."+t, "UnmarshalJSON")
			for _, fn := range c.SrcFuncs {
				if isTestHelper(c, fn) {
					continue
				}
				for _, b := range fn.Blocks {
					for _, in := range b.Instrs {
						if st, ok := in.(*ssa.Store); ok && core.FieldOf(st.Addr) == f {
							c.Check("writer-of-"+t+".Amount@"+core.FuncName(core.Outer(fn)), "who-may-write", core.Outer(fn).Object() == dec, st.Pos(), "only %s.UnmarshalJSON may assign %s.Amount (two reads of the field denote one value)", t, t)
						}
					}
				}
			}
		}
	})

	// ------------------------------------------------------------------------------------------------------------------
	c.Clause("C12.2", "authorisation guards dominate every equity / supply write: issuer = sender (issue, modify), judgeReplenish (exists under the sender, not frozen, replenishable, divisible) heeded, asset id belongs to the asset code (replenish), freeze test (issue, transfer), sender equity ≥ amount for divisible assets (transfer); the supply record written is the one the tests were made on")
	c.Run("issue", func() {
		fn := issue()
		sender := fn.Params[1]
		sinks := writesOf(fn)
		c.Exactly("IssueAssetTx/writes", len(sinks), 2)
		issuerGuard(c, a, fn, sender, sinks, sinksCut, edge)
		freezeGuard(c, a, fn, sinks, sinksCut, edge)
		// the account tested is the sender's and the supply written is that account's record for the same code
		gac := c.Method("chain/types.AccountAccessor", "GetAssetCode")
		okSame := false
		for _, g := range core.CallsIn(fn, gac) {
			gr, ga := recvArgs(g)
			for _, s := range core.CallsIn(fn, a.setSup) {
				sr, sa := recvArgs(s)
				if gr == sr && len(ga) == 1 && len(sa) == 2 && ga[0] == sa[0] && accountOf(c, gr, sender) {
					okSame = true
				}
			}
		}
		c.Check("IssueAssetTx:supply-written-on-tested-issuer-record", "value-flow", okSame, fn.Pos(), "the supply record changed is (sender's account, asset code) — the very record whose Issuer was compared with the sender")
	})
	c.Run("modify", func() {
		fn := modify()
		sinks := core.CallsIn(fn, c.Method("chain/types.AccountAccessor", "SetAssetCodeState"))
		c.Floor("ModifyAssetProfileTx/writes", len(sinks), 1)
		issuerGuard(c, a, fn, fn.Params[1], sinks, sinksCut, edge)
		okRecv := len(sinks) > 0
		for _, s := range sinks {
			r, _ := recvArgs(s)
			if !accountOf(c, r, fn.Params[1]) {
				okRecv = false
			}
		}
		c.Check("ModifyAssetProfileTx:writes-on-sender-account", "value-flow", okRecv, fn.Pos(), "the profile changed is stored under the sender's own account")
	})
	c.Run("replenish", func() {
		fn := repl()
		sender := fn.Params[1]
		sinks := writesOf(fn)
		c.Exactly("ReplenishAssetTx/writes", len(sinks), 2)
		jr := c.FuncObj(tx + ".judgeReplenish")
		heededBefore(c, fn, jr, core.ErrNonNil, "equity/supply-write", instrs(sinks))
		// arguments: (account of sender, repl.AssetCode) and the supply write uses the same two
		okArgs := false
		for _, g := range core.CallsIn(fn, jr) {
			ga := g.Common().Args
			for _, s := range core.CallsIn(fn, a.setSup) {
				sr, sa := recvArgs(s)
				if len(ga) == 2 && ga[0] == sr && ga[1] == sa[0] && accountOf(c, sr, sender) {
					if _, f := fieldLoad(ga[1]); f == c.FieldVar("chain/types.ReplenishAsset", "AssetCode") {
						okArgs = true
					}
				}
			}
		}
		c.Check("ReplenishAssetTx:judgeReplenish(sender account, repl.AssetCode)=supply-record-written", "value-flow", okArgs, fn.Pos(), "the asset judged is (sender's account, requested code) and that record's supply is the one increased")
		// asset id belongs to the code
		cut := map[[2]*ssa.BasicBlock]bool{}
		for _, b := range fn.Blocks {
			ifi := ifOf(b)
			if ifi == nil {
				continue
			}
			bo, isB := ifi.Cond.(*ssa.BinOp)
			if !isB || (bo.Op != token.NEQ && bo.Op != token.EQL) {
				continue
			}
			sl := core.Slice(bo)
			if core.SliceHasField(sl, c.FieldVar("chain/types.AssetEquity", "AssetCode")) && core.SliceHasField(sl, c.FieldVar("chain/types.ReplenishAsset", "AssetCode")) {
				k := 0
				if bo.Op == token.NEQ {
					k = 1
				}
				cut[edge(b, k)] = true
			}
		}
		c.Check("ReplenishAssetTx?equity.AssetCode=repl.AssetCode", "guarded-action", sinksCut(fn, sinks, cut), fn.Pos(), "an asset id that belongs to another asset code cannot be replenished")
		// inside judgeReplenish
		jf := c.Fn(tx + ".judgeReplenish")
		gac := c.Method("chain/types.AccountAccessor", "GetAssetCode")
		for _, g := range heeded(c, jf, gac, core.ErrNonNil, 1, nil) {
			r, ga := recvArgs(g)
			c.Check("judgeReplenish:GetAssetCode(params)", "value-flow", r == jf.Params[0] && len(ga) == 1 && ga[0] == jf.Params[1], g.Pos(), "the asset looked up is the one named by the arguments")
		}
		freezeGuardRet(c, a, jf)
		for _, fld := range []string{"IsReplenishable", "IsDivisible"} {
			fv := c.FieldVar("chain/types.Asset", fld)
			cut := map[[2]*ssa.BasicBlock]bool{}
			for _, b := range jf.Blocks {
				ifi := ifOf(b)
				if ifi == nil {
					continue
				}
				under, idx := boolEdges(ifi.Cond)
				if base, f := fieldLoad(under); f == fv && core.SliceHasCall(core.Slice(base), gac) {
					cut[edge(b, idx)] = true // the edge taken when the flag is true is the accepting one
				}
			}
			c.Check("judgeReplenish?asset."+fld, "quantity-guard", len(cut) > 0 && noAcceptWithout(jf, cut), jf.Pos(), "judgeReplenish refuses when %s is false", fld)
		}
	})
	c.Run("transfer", func() {
		fn := transfer()
		caller := fn.Params[1]
		sinks := writesOf(fn)
		c.Exactly("TransferAssetTx/writes", len(sinks), 4)
		freezeGuard(c, a, fn, sinks, sinksCut, edge)
		// sender equity ≥ amount (divisible)
		var xfer ssa.Value // the decoded struct
		for _, g := range core.CallsIn(fn, c.FuncObj("chain/types.GetTransferAsset")) {
			xfer = core.ResultValues(g)[0]
		}
		amtF := c.FieldVar("chain/types.TransferAsset", "Amount")
		isDiv := c.FieldVar("chain/types.Asset", "IsDivisible")
		A := map[ssa.Value]bool{}
		if xfer != nil {
			A = amountSet(fn, xfer, amtF)
		}
		cut := map[[2]*ssa.BasicBlock]bool{}
		provOK := false
		for _, ci := range core.CallsIn(fn, a.bigCmp) {
			recv, args := recvArgs(ci)
			if len(args) != 1 || ci.Value() == nil || ci.Value().Referrers() == nil {
				continue
			}
			// equity.Cmp(amount) or, mirrored, amount.Cmp(equity)
			eqV, flipped := recv, false
			switch {
			case A[args[0]] && !A[recv]:
			case A[recv] && !A[args[0]]:
				eqV, flipped = args[0], true
			default:
				continue
			}
			base, f := fieldLoad(eqV)
			if f != a.equityF {
				continue
			}
			// the equity compared is the caller's equity of the requested asset id
			if senderEquityOf(c, a, base, caller, xfer) {
				provOK = true
			}
			for _, r := range *ci.Value().Referrers() {
				bo, ok := r.(*ssa.BinOp)
				if !ok {
					continue
				}
				op := bo.Op
				switch {
				case bo.X == ci.Value() && intConstIs(bo.Y, 0):
				case bo.Y == ci.Value() && intConstIs(bo.X, 0):
					op = mirrorV10(op)
				default:
					continue
				}
				if flipped {
					op = mirrorV10(op)
				}
				// op now relates (equity ? amount); the accepting edge is the one on which the equity is not smaller
				acc := -1
				switch op {
				case token.LSS, token.LEQ:
					acc = 1
				case token.GEQ, token.GTR:
					acc = 0
				}
				if acc < 0 {
					continue
				}
				for _, e := range ifsOn(bo, 0) {
					// e.Neg is the successor index when bo is true
					k := e.Neg
					if acc == 1 {
						k = 1 - k
					}
					cut[edge(e.If.Block(), k)] = true
				}
			}
		}
		nCmp := len(cut)
		var cmpBlocks []*ssa.BasicBlock
		for e := range cut {
			cmpBlocks = append(cmpBlocks, e[0])
		}
		for _, b := range fn.Blocks {
			ifi := ifOf(b)
			if ifi == nil {
				continue
			}
			under, idx := boolEdges(ifi.Cond)
			if _, f := fieldLoad(under); f == isDiv {
				// only a divisibility test chained (&&) with the comparison belongs to this guard: one hangs directly off the other
				chained := false
				for _, cb := range cmpBlocks {
					if cb != b && (edgeOnlyPred(b, cb) || edgeOnlyPred(cb, b)) {
						chained = true
					}
				}
				if chained {
					cut[edge(b, 1-idx)] = true // indivisible edge accepts
				}
			}
		}
		c.Check("TransferAssetTx?senderEquity<amount∧divisible", "guarded-action", nCmp > 0 && sinksCut(fn, sinks, cut), fn.Pos(), "a divisible transfer of more than the sender holds reaches no equity/supply write")
		c.Check("TransferAssetTx:compared-equity-is-caller's-for-requested-id", "value-flow", provOK, fn.Pos(), "the equity compared with the amount is GetEquityState(transferAsset.AssetId) of the caller's account")
	})

	// ------------------------------------------------------------------------------------------------------------------
	c.Clause("C12.3", "supply and equity move together by the same amount: issue/replenish add one and the same amount (constant 1 to the supply on the indivisible branch) to the supply record and to the receiver's equity, both on every successful path; transfer credits (or, to the zero address, reduces the supply by) the same SSA amount it debits, exactly one credit/burn precedes the debit and no accepting exit lies between them")
	c.Run("issue-replenish", func() {
		for _, fn := range []*ssa.Function{issue(), repl()} {
			name := strings.TrimPrefix(shortFn(fn), "(*transaction.RunAssetEnv).")
			sup := core.CallsIn(fn, a.setSup)
			eq := core.CallsIn(fn, a.setEq)
			c.Exactly(name+"/supply-writes", len(sup), 1)
			c.Exactly(name+"/equity-writes", len(eq), 1)
			if len(sup) != 1 || len(eq) != 1 {
				continue
			}
			mustCall(c, fn, a.setSup, nil)
			mustCall(c, fn, a.setEq, nil)
			inLoop := false
			for _, s := range []ssa.CallInstruction{sup[0], eq[0]} {
				if core.ReachableAfter(s, s) {
					inLoop = true
				}
			}
			c.Check(name+":each-write-once", "order", !inLoop, fn.Pos(), "neither write can execute twice in one transaction")
			// supply: old + amount | old + 1 (indivisible)
			sr, sa := recvArgs(sup[0])
			var supAmt ssa.Value
			supOK := true
			nLeaves := 0
			for _, lf := range leaves(sa[1]) {
				nLeaves++
				op, x, y, call := a.bigBin(lf)
				if op != a.bigAdd {
					supOK = false
					continue
				}
				old, d := x, y
				if !a.isOldSupply(old, sr, sa[0]) {
					old, d = y, x
				}
				if !a.isOldSupply(old, sr, sa[0]) {
					supOK = false
					continue
				}
				if a.isOneBig(d) {
					if v, ok := divisibleBranch(call.Block(), c.FieldVar("chain/types.Asset", "IsDivisible")); !ok || v {
						supOK = false
					}
					continue
				}
				if len(a.amountLoadsIn(map[ssa.Value]bool{d: true})) == 0 {
					supOK = false
					continue
				}
				if supAmt != nil && !a.sameAmount(supAmt, d) {
					supOK = false
				}
				supAmt = d
			}
			c.Check(name+":supply=old+amount", "value-identity", supOK && supAmt != nil && nLeaves >= 1, sup[0].Pos(), "the new total supply is the old supply of the same record plus the transaction's amount (plus 1 only on the !IsDivisible branch)")
			// equity: amount | old + amount
			er, ea := recvArgs(eq[0])
			eqOK, nSt := true, 0
			for _, st := range fieldStoresInto(ea[1], eq[0]) {
				if core.FieldOf(st.Addr) != a.equityF {
					continue
				}
				for _, lf := range leaves(st.Val) {
					nSt++
					if a.sameAmount(lf, supAmt) {
						continue
					}
					op, x, y, _ := a.bigBin(lf)
					if op != a.bigAdd {
						eqOK = false
						continue
					}
					if !(a.sameAmount(x, supAmt) && a.isOldEquity(y, er)) && !(a.sameAmount(y, supAmt) && a.isOldEquity(x, er)) {
						eqOK = false
					}
				}
			}
			c.Check(name+":equity=old+same-amount", "value-identity", eqOK && nSt >= 1 && supAmt != nil, eq[0].Pos(), "the receiver's new equity is its old equity (or nothing) plus exactly the amount added to the supply (%d assignment(s))", nSt)
			// receiver account
			c.Check(name+":equity-written-on-receiver", "value-flow", accountOf(c, er, fn.Params[2]), eq[0].Pos(), "the equity credited belongs to the transaction's receiver")
		}
	})
	c.Run("transfer-moves", func() {
		fn := transfer()
		caller := fn.Params[1]
		isDiv := c.FieldVar("chain/types.Asset", "IsDivisible")
		var debit ssa.CallInstruction
		var credits, burns []ssa.CallInstruction
		for _, s := range core.CallsIn(fn, a.setEq) {
			r, _ := recvArgs(s)
			if callerAccount(c, r, caller) {
				if debit != nil {
					c.Check("TransferAssetTx:single-debit", "order", false, s.Pos(), "more than one equity write on the caller's account")
				}
				debit = s
			} else {
				credits = append(credits, s)
			}
		}
		burns = core.CallsIn(fn, a.setSup)
		c.Exactly("TransferAssetTx/credit-writes", len(credits), 2)
		c.Exactly("TransferAssetTx/burn-writes", len(burns), 1)
		if debit == nil {
			c.Check("TransferAssetTx:debit-present", "value-identity", false, fn.Pos(), "no equity write on the caller's account")
			return
		}
		// debit = re-read equity of the caller − amount
		dr, da := recvArgs(debit)
		var amt ssa.Value
		var minuends []ssa.Value
		debOK, n := true, 0
		for _, st := range fieldStoresInto(da[1], debit) {
			if core.FieldOf(st.Addr) != a.equityF {
				continue
			}
			for _, lf := range leaves(st.Val) {
				n++
				op, x, y, _ := a.bigBin(lf)
				if op != a.bigSub || !a.isOldEquity(x, dr) {
					debOK = false
					continue
				}
				if amt != nil && amt != y {
					debOK = false
				}
				amt = y
				minuends = append(minuends, x)
			}
		}
		fromInput := amt != nil && len(a.amountLoadsIn(core.Slice(amt))) > 0
		c.Check("TransferAssetTx:debit=caller-equity−amount", "value-identity", debOK && n >= 1 && fromInput, debit.Pos(), "the caller's new equity is its current equity minus the transferred amount")
		// the equity re-read for the debit happens after every credit (transfer to self)
		reread, nBase := true, 0
		for _, g := range core.CallsIn(fn, a.getEq) {
			r, _ := recvArgs(g)
			if r != dr || !core.Dominates(g, debit) {
				continue
			}
			used := false
			for _, m := range minuends {
				if rv := core.ResultValues(g)[0]; rv != nil && core.Slice(m)[rv] {
					used = true
				}
			}
			if !used {
				continue
			}
			nBase++
			for _, cr := range credits {
				if core.ReachableAfter(g, cr) {
					reread = false
				}
			}
		}
		c.Check("TransferAssetTx:debit-base-read-after-credit", "order", reread && nBase >= 1, debit.Pos(), "the equity the debit starts from is read after the credit (a transfer to oneself must not lose the credit)")
		// credits
		for i, cr := range credits {
			r, ca := recvArgs(cr)
			okc, m := true, 0
			for _, st := range fieldStoresInto(ca[1], cr) {
				if core.FieldOf(st.Addr) != a.equityF {
					continue
				}
				for _, lf := range leaves(st.Val, amt) {
					m++
					if lf == amt {
						continue
					}
					op, x, y, _ := a.bigBin(lf)
					if op != a.bigAdd || !((x == amt && a.isOldEquity(y, r)) || (y == amt && a.isOldEquity(x, r))) {
						okc = false
					}
				}
			}
			c.Check("TransferAssetTx:credit#"+string(rune('a'+i))+"=recipient-equity+debited-amount", "value-identity", okc && m >= 1 && amt != nil, cr.Pos(), "the recipient is credited exactly the SSA amount the caller is debited")
		}
		// burn
		for _, bn := range burns {
			sr, sa := recvArgs(bn)
			okb, m := true, 0
			for _, lf := range leaves(sa[1]) {
				m++
				op, x, y, call := a.bigBin(lf)
				if op != a.bigSub || !a.isOldSupply(x, sr, sa[0]) {
					okb = false
					continue
				}
				v, known := divisibleBranch(call.Block(), isDiv)
				switch {
				case y == amt && known && v:
				case a.isOneBig(y) && known && !v:
				default:
					okb = false
				}
			}
			c.Check("TransferAssetTx:burn=supply−debited-amount", "value-identity", okb && m >= 1 && amt != nil, bn.Pos(), "sending to the zero address reduces the supply by the debited amount (by 1 on the !IsDivisible branch)")
		}
		// exactly one credit/burn before the debit, none after, none twice
		pre := append(append([]ssa.CallInstruction{}, credits...), burns...)
		avoid := map[*ssa.BasicBlock]bool{}
		for _, p := range pre {
			avoid[p.Block()] = true
		}
		c.Check("TransferAssetTx:debit-preceded-by-credit-or-burn", "order", len(pre) > 0 && !reachAvoiding(fn.Blocks[0], avoid)[debit.Block()], debit.Pos(), "no path reaches the debit without a credit or a supply reduction")
		excl := true
		for _, p := range pre {
			for _, q := range pre {
				if core.ReachableAfter(p, q) {
					excl = false
				}
			}
			if core.ReachableAfter(debit, p) {
				excl = false
			}
		}
		if core.ReachableAfter(debit, debit) {
			excl = false
		}
		c.Check("TransferAssetTx:one-credit-or-burn-and-one-debit-per-path", "order", excl, debit.Pos(), "credit/burn sites exclude each other, none follows the debit, nothing repeats")
		// after a credit/burn every exit that is not a rejection passes the debit or a revert to the snapshot
		snapOK := true
		revBlocks := map[*ssa.BasicBlock]bool{debit.Block(): true}
		var snap ssa.Value
		for _, s := range core.CallsIn(fn, c.Method("chain/vm.AccountManager", "Snapshot")) {
			snap = s.Value()
		}
		for _, rv := range core.CallsIn(fn, c.Method("chain/vm.AccountManager", "RevertToSnapshot")) {
			_, ra := recvArgs(rv)
			if snap != nil && len(ra) == 1 && core.Derived(snap)[ra[0]] {
				revBlocks[rv.Block()] = true
			}
		}
		for _, p := range pre {
			// successors of the write's block (the write itself ends in the error test)
			for _, s := range p.Block().Succs {
				for b := range reachAvoiding(s, revBlocks) {
					if len(b.Instrs) == 0 {
						continue
					}
					if ret, ok := b.Instrs[len(b.Instrs)-1].(*ssa.Return); ok && !retRejects(ret) {
						snapOK = false
					}
				}
			}
		}
		c.Check("TransferAssetTx:credit⇒debit-or-revert-or-reject", "pairing", snapOK && snap != nil, debit.Pos(), "once the recipient is credited (or the supply reduced) the transaction cannot be accepted without the debit or a revert to the snapshot")
	})

	// ------------------------------------------------------------------------------------------------------------------
	c.Clause("C12.4", "closed writer sets: outside package account SetEquityState has 5 call sites and SetAssetCodeTotalSupply 3, all in IssueAssetTx / ReplenishAssetTx / EVM.TransferAssetTx; the only writes that subtract are the transfer's debit — applied to the caller's own account — and the burn")
	c.Run("writers", func() {
		allowed := []string{"(*chain/transaction.RunAssetEnv).IssueAssetTx", "(*chain/transaction.RunAssetEnv).ReplenishAssetTx", "(*chain/vm.EVM).TransferAssetTx"}
		outside := func(sites []core.CallSite) (out []core.CallSite) {
			for _, s := range sites {
				if core.RelPkg(s.Caller) != "chain/account" {
					out = append(out, s)
				}
			}
			return
		}
		allow := map[string]bool{}
		for _, x := range allowed {
			allow[x] = true
		}
		count := func(target *types.Func, label string, want int) []core.CallSite {
			_, sites := callersOf(c, target)
			sites = outside(sites)
			seen := map[string]bool{}
			for _, s := range sites {
				n := core.FuncName(core.Outer(s.Caller))
				if !seen[n] {
					seen[n] = true
					c.Check(label+"@"+n, "who-may-call", allow[n], s.Instr.Pos(), "caller %s of %s is not one of the three asset transactions", n, label)
				}
			}
			c.Exactly(label+"/call-sites-outside-account", len(sites), want)
			return sites
		}
		eqSites := count(a.setEq, "SetEquityState", 5)
		supSites := count(a.setSup, "SetAssetCodeTotalSupply", 3)
		// subtracting writes
		nSub := 0
		for _, s := range append(eqSites, supSites...) {
			_, args := recvArgs(s.Instr)
			sl := map[ssa.Value]bool{}
			for _, x := range args {
				for v := range pointeeSlice(x, s.Instr) {
					sl[v] = true
				}
			}
			if !core.SliceHasCall(sl, a.bigSub) && !core.SliceHasCall(sl, c.StdFunc("math/big", "Int.Neg")) {
				continue
			}
			nSub++
			fn := s.Caller
			okk := fn == transfer()
			if okk && core.SameFamily(core.CalleeObj(s.Instr), a.setEq) {
				r, _ := recvArgs(s.Instr)
				okk = callerAccount(c, r, fn.Params[1])
			}
			c.Check("subtracting-write@"+shortFn(fn)+":"+objName(core.CalleeObj(s.Instr)), "who-may-write", okk, s.Instr.Pos(), "a write computed by subtraction must be the transfer's debit on the caller's own account or the burn")
		}
		c.Exactly("subtracting-writes", nSub, 2)
		// inside package account the holdings move only with their journal: the equity trie root of an account (dropping it drops every
		// holding of that account while the recorded supply stays) is stored by the raw setter and by the trie update at finalisation, and the
		// raw setter is reached only from the redo / undo of the EquityRootLog
		rootF := c.FieldVar("chain/types.AccountData", "EquityRoot")
		closedWriters(c, "AccountData.EquityRoot", []string{"(*chain/account.Account).SetEquityRoot", "(*chain/account.Account).updateTrie", "(*chain/types.AccountData).DecodeRLP", "(*chain/types.AccountData).UnmarshalJSON", "(*chain/types.AccountData).Copy"}, fieldStores(c, rootF))
		rawRoot := c.Method("chain/account.Account", "SetEquityRoot")
		accRoot := c.Method("chain/types.AccountAccessor", "SetEquityRoot")
		closedCallers(c, "SetEquityRoot", []string{"chain/account.redoEquityRoot", "chain/account.undoEquityRoot"}, rawRoot, accRoot)
	})

	// ------------------------------------------------------------------------------------------------------------------
	c.Clause("C12.5", "TransferAssetTx takes its snapshot before the first equity/supply write and, when the recipient's code fails (error edge of run), reverts to that same snapshot before any exit")
	c.Run("snapshot", func() {
		fn := transfer()
		snaps := core.CallsIn(fn, c.Method("chain/vm.AccountManager", "Snapshot"))
		c.Exactly("TransferAssetTx/Snapshot-calls", len(snaps), 1)
		if len(snaps) != 1 {
			return
		}
		snap := snaps[0]
		okDom := true
		for _, w := range writesOf(fn) {
			if !core.Dominates(snap, w) {
				okDom = false
			}
		}
		c.Check("TransferAssetTx:Snapshot≺writes", "order", okDom, snap.Pos(), "the snapshot is taken before the first equity/supply write")
		runs := core.CallsIn(fn, c.FuncObj("chain/vm.run"))
		c.Exactly("TransferAssetTx/run-calls", len(runs), 1)
		rev := map[*ssa.BasicBlock]bool{}
		for _, rv := range core.CallsIn(fn, c.Method("chain/vm.AccountManager", "RevertToSnapshot")) {
			_, ra := recvArgs(rv)
			if len(ra) == 1 && core.Derived(snap.Value())[ra[0]] {
				rev[rv.Block()] = true
			}
		}
		for _, r := range runs {
			ev := core.ErrResult(r)
			okk := false
			if ev != nil {
				for _, t := range core.TestsOf(ev, core.ErrNonNil) {
					if !core.Dominates(r, t.If) || t.Fail == t.OK {
						continue
					}
					leak := false
					for b := range reachAvoiding(t.Fail, rev) {
						if len(b.Instrs) > 0 {
							if _, isRet := b.Instrs[len(b.Instrs)-1].(*ssa.Return); isRet {
								leak = true
							}
						}
					}
					if !leak {
						okk = true
					}
				}
			}
			c.Check("TransferAssetTx:run-error⇒RevertToSnapshot(snapshot)", "pairing", okk, r.Pos(), "a failing recipient contract undoes credit and debit: the error edge of run reaches no exit without RevertToSnapshot of the snapshot taken before the writes")
			// run starts after the debit
			after := true
			for _, w := range writesOf(fn) {
				if core.ReachableAfter(r, w) {
					after = false
				}
			}
			c.Check("TransferAssetTx:writes≺run", "order", after, r.Pos(), "no equity/supply write of TransferAssetTx itself follows the contract run")
		}
	})

	c.Clause("C12.6", "amounts are values, not shared counters: in the transaction, consensus and account packages and in the EVM's entry points no mutating *big.Int method (Add, Sub, Set, …) is called on a receiver that is not freshly allocated — an amount taken from a decoded transaction or read from state that is changed in place changes for everybody who holds the pointer (the supply is raised by the mutated amount)")
	c.Run("no-shared-bigint-mutation", func() {
		n, nFn := 0, 0
		seq := map[string]int{}
		for _, fn := range c.SrcFuncs {
			r := core.RelPkg(fn)
			if isTestHelper(c, fn) || !(r == "chain/transaction" || r == "chain/consensus" || r == "chain/account" || (r == "chain/vm" && strings.HasSuffix(c.Fset.Position(fn.Pos()).Filename, "/evm.go"))) {
				continue
			}
			nFn++
			for _, call := range sharedBigMutations(fn) {
				n++
				name := shortFn(fn)
				seq[name]++
				why, listed := c12SharedMutation[name]
				c.Check("bigint-mutated-in-place@"+name+seqSuffix(seq[name]), "alias-write", listed, call.Pos(), "%s calls %s on a *big.Int that is not freshly allocated; listed=%v: %s", name, core.CalleeObj(call).Name(), listed, why)
			}
		}
		c.Floor("functions-scanned", nFn, 200)
		c.Note("in-place big.Int mutations on shared receivers: %d", n)
	})

	c.Clause("C12.7", "a change of the supply record survives log merging in both directions: IsValuable keeps a log unless old and new value are equal — every comparison of old and new in it is an (in)equality, never an ordering test (a burn is a decrease; a dropped supply log leaves the issuer's asset-code trie unsaved while the holder's equity went down)")
	c.Run("IsValuable-symmetric", func() { c12IsValuable(c) })

	c.Clause("C12.8", "equity and supply roll back together: the journalling setters of the four asset records push their change log (which records the old value by reading the account) before they write the account — a log made after the write restores nothing, and a reverted issue would keep the equity while the supply goes back")
	c.Run("asset-setters-journal-first", func() {
		push := c.Method("chain/account.LogProcessor", "PushChangeLog")
		n := 0
		for _, m := range []string{"SetEquityState", "SetAssetCodeTotalSupply", "SetAssetCodeState", "SetAssetIdState", "SetAssetCode"} {
			fn := c.Fn("chain/account.SafeAccount." + m)
			raw := c.Method("chain/account.Account", m)
			for _, w := range core.CallsIn(fn, raw) {
				n++
				ok := false
				for _, p := range performsCalls(fn, push, 2) {
					if core.Dominates(p, w) {
						ok = true
					}
				}
				c.Check("SafeAccount."+m+":PushChangeLog≺Account."+m, "journal-before-write", ok, w.Pos(), "the change log of %s is pushed (its old value read) before the raw write", m)
			}
		}
		c.Floor("asset-setters/raw-writes", n, 5)
	})

	c.Clause("C12.9", "supply and equity of a branch are what that branch's transactions made them: the account an execution writes never aliases the value a stored view keeps (clause C09.6, evaluated here as well — a candidate block's Finalise would write its roots into the stable state's account)")
	c.Run("copy-at-the-boundary", func() { c09CopyAtBoundary(c) })

	c.NotDecidedf("Σ equity over all holders = recorded total supply as an invariant over histories of transactions (arithmetic over runtime state; only the per-transaction shape — same amount on both sides, guards, closed writer sets — is decided)")
	c.NotDecidedf("that no holder's equity becomes negative as a value: decided only structurally (non-negative amount; debit guarded by equity ≥ amount on the divisible path; indivisible path debits the whole holding)")
	c.NotDecidedf("the journalled undo of the equity / supply logs (C07), the contents of Account.SetEquityState / SetAssetCodeTotalSupply themselves, and error exits after a failed READ between the two writes (they return a transaction-level error; the caller discards the whole transaction)")
	c.NotDecidedf("asset creation / profile limits (CreateAssetTx, metadata length) and the indivisible categories' supply convention (supply counts issues, not equity)")
}

// accountOf: acc is the result of GetAccount(addr) on an account manager, addr being the given parameter (possibly via a local cell).
func accountOf(c *core.Ctx, acc ssa.Value, addr ssa.Value) bool {
	ci, ok := acc.(ssa.CallInstruction)
	if !ok {
		return false
	}
	f := core.CalleeObj(ci)
	if f == nil || f.Name() != "GetAccount" {
		return false
	}
	if !core.SameFamily(f, c.Method("chain/account.Manager", "GetAccount")) && !core.SameFamily(f, c.Method("chain/vm.AccountManager", "GetAccount")) {
		return false
	}
	_, args := recvArgs(ci)
	return len(args) == 1 && (args[0] == addr || core.Derived(addr)[args[0]])
}

// callerAccount: acc = GetAccount(caller.GetAddress()).
func callerAccount(c *core.Ctx, acc ssa.Value, caller ssa.Value) bool {
	ci, ok := acc.(ssa.CallInstruction)
	if !ok {
		return false
	}
	if !core.SameFamily(core.CalleeObj(ci), c.Method("chain/vm.AccountManager", "GetAccount")) {
		return false
	}
	_, args := recvArgs(ci)
	if len(args) != 1 {
		return false
	}
	g, ok := args[0].(ssa.CallInstruction)
	if !ok || !core.SameFamily(core.CalleeObj(g), c.Method("chain/vm.ContractRef", "GetAddress")) {
		return false
	}
	r, _ := recvArgs(g)
	return r == caller || core.Derived(caller)[r]
}

// senderEquityOf: base is the *AssetEquity returned by GetEquityState(xfer.AssetId) on the caller's account.
func senderEquityOf(c *core.Ctx, a *assetRules, base ssa.Value, caller ssa.Value, xfer ssa.Value) bool {
	ex, ok := base.(*ssa.Extract)
	if !ok {
		return false
	}
	g, ok := ex.Tuple.(ssa.CallInstruction)
	if !ok || !core.SameFamily(core.CalleeObj(g), a.getEq) {
		return false
	}
	r, args := recvArgs(g)
	if !callerAccount(c, r, caller) || len(args) != 1 {
		return false
	}
	b, f := fieldLoad(args[0])
	return f == c.FieldVar("chain/types.TransferAsset", "AssetId") && xfer != nil && core.Derived(xfer)[b]
}

// isOldSupply: v is the supply read by GetAssetCodeTotalSupply(code) on the same account the write goes to.
func (a *assetRules) isOldSupply(v ssa.Value, acc ssa.Value, code ssa.Value) bool {
	ex, ok := v.(*ssa.Extract)
	if !ok || ex.Index != 0 {
		return false
	}
	g, ok := ex.Tuple.(ssa.CallInstruction)
	if !ok || !core.SameFamily(core.CalleeObj(g), a.getSup) {
		return false
	}
	r, args := recvArgs(g)
	if r != acc || len(args) != 1 {
		return false
	}
	if args[0] == code {
		return true
	}
	// two reads of the same field of the same object
	b1, f1 := fieldLoad(args[0])
	b2, f2 := fieldLoad(code)
	return f1 != nil && f1 == f2 && b1 == b2
}

// isOldEquity: v is a read of the Equity field of an object obtained (possibly via Clone / a fresh zero entry) from
// GetEquityState on the account acc.
func (a *assetRules) isOldEquity(v ssa.Value, acc ssa.Value) bool {
	_, f := fieldLoad(v)
	if f != a.equityF {
		return false
	}
	for x := range core.Slice(v) {
		if g, ok := isCallOf(x, a.getEq); ok {
			if r, _ := recvArgs(g); r == acc {
				return true
			}
		}
	}
	return false
}

// issuerGuard: an (in)equality test between Asset.Issuer — of the asset looked up under the sender's account — and the sender,
// whose "equal" edge is the only way to the writes.
func issuerGuard(c *core.Ctx, a *assetRules, fn *ssa.Function, sender ssa.Value, sinks []ssa.CallInstruction,
	sinksCut func(*ssa.Function, []ssa.CallInstruction, map[[2]*ssa.BasicBlock]bool) bool, edge func(*ssa.BasicBlock, int) [2]*ssa.BasicBlock) {
	issuerF := c.FieldVar("chain/types.Asset", "Issuer")
	gac := c.Method("chain/types.AccountAccessor", "GetAssetCode")
	cut := map[[2]*ssa.BasicBlock]bool{}
	prov := false
	for _, b := range fn.Blocks {
		ifi := ifOf(b)
		if ifi == nil {
			continue
		}
		bo, ok := ifi.Cond.(*ssa.BinOp)
		if !ok || (bo.Op != token.NEQ && bo.Op != token.EQL) {
			continue
		}
		var issuerLoad ssa.Value
		switch {
		case isFieldLoadOf(bo.X, issuerF) && (bo.Y == sender || core.Derived(sender)[bo.Y]):
			issuerLoad = bo.X
		case isFieldLoadOf(bo.Y, issuerF) && (bo.X == sender || core.Derived(sender)[bo.X]):
			issuerLoad = bo.Y
		default:
			continue
		}
		k := 0
		if bo.Op == token.NEQ {
			k = 1
		}
		cut[edge(b, k)] = true
		base, _ := fieldLoad(issuerLoad)
		if ex, ok := base.(*ssa.Extract); ok {
			if g, ok := ex.Tuple.(ssa.CallInstruction); ok && core.SameFamily(core.CalleeObj(g), gac) {
				if r, _ := recvArgs(g); accountOf(c, r, sender) {
					prov = true
				}
			}
		}
	}
	name := strings.TrimPrefix(shortFn(fn), "(*transaction.RunAssetEnv).")
	c.Check(name+"?asset.Issuer=sender", "guarded-action", sinksCut(fn, sinks, cut), fn.Pos(), "only the edge on which the asset's issuer equals the sender leads to a write")
	c.Check(name+":issuer-read-from-asset-under-sender-account", "value-flow", prov, fn.Pos(), "the asset whose Issuer is compared was looked up under the sender's account")
}

// edgeOnlyPred: block b has exactly one predecessor, p.
func edgeOnlyPred(b, p *ssa.BasicBlock) bool { return len(b.Preds) == 1 && b.Preds[0] == p }

func isFieldLoadOf(v ssa.Value, f *types.Var) bool {
	_, ff := fieldLoad(v)
	return ff == f
}

// freezeEdges finds the freeze test of fn: GetAssetCodeState(code, AssetFreeze) compared with "true"; returns the edges that let
// execution continue (state ≠ "true", and lookup error).
func freezeEdges(c *core.Ctx, fn *ssa.Function, edge func(*ssa.BasicBlock, int) [2]*ssa.BasicBlock) (map[[2]*ssa.BasicBlock]bool, []ssa.CallInstruction) {
	gacs := c.Method("chain/types.AccountAccessor", "GetAssetCodeState")
	freezeKey := c.Const("chain/types.AssetFreeze")
	cut := map[[2]*ssa.BasicBlock]bool{}
	var calls []ssa.CallInstruction
	for _, g := range core.CallsIn(fn, gacs) {
		_, ga := recvArgs(g)
		if len(ga) != 2 || !constEquals(ga[1], freezeKey) {
			continue
		}
		rs := core.ResultValues(g)
		if rs[0] == nil {
			continue
		}
		found := false
		for d := range core.Derived(rs[0]) {
			if d.Referrers() == nil {
				continue
			}
			for _, r := range *d.Referrers() {
				bo, ok := r.(*ssa.BinOp)
				if !ok || (bo.Op != token.EQL && bo.Op != token.NEQ) {
					continue
				}
				other := bo.Y
				if other == d {
					other = bo.X
				}
				k, isC := other.(*ssa.Const)
				if !isC || k.Value == nil || k.Value.ExactString() != `"true"` {
					continue
				}
				for _, e := range ifsOn(bo, 0) {
					idx := e.Neg // successor when bo is true
					if bo.Op == token.EQL {
						idx = 1 - idx // continue on "not equal"
					}
					cut[edge(e.If.Block(), idx)] = true
					found = true
				}
			}
		}
		if !found {
			continue
		}
		calls = append(calls, g)
		if ev := core.ErrResult(g); ev != nil {
			for _, t := range core.TestsOf(ev, core.ErrNonNil) {
				for k, s := range t.If.Block().Succs {
					if s == t.Fail {
						cut[edge(t.If.Block(), k)] = true
					}
				}
			}
		}
	}
	return cut, calls
}

func freezeGuard(c *core.Ctx, a *assetRules, fn *ssa.Function, sinks []ssa.CallInstruction,
	sinksCut func(*ssa.Function, []ssa.CallInstruction, map[[2]*ssa.BasicBlock]bool) bool, edge func(*ssa.BasicBlock, int) [2]*ssa.BasicBlock) {
	cut, calls := freezeEdges(c, fn, edge)
	name := shortFn(fn)
	name = name[strings.LastIndex(name, ".")+1:]
	c.Check(name+"?frozen", "guarded-action", len(calls) > 0 && sinksCut(fn, sinks, cut), fn.Pos(), "when the freeze state of the asset reads \"true\" no equity/supply write is reachable")
	// the state is read from the record whose supply / whose issuer the transaction is about
	okRec := false
	for _, g := range calls {
		gr, ga := recvArgs(g)
		for _, s := range core.CallsIn(fn, a.setSup, c.Method("chain/types.AccountAccessor", "GetAssetCode")) {
			sr, sa := recvArgs(s)
			if sr != gr || len(sa) < 1 {
				continue
			}
			if sa[0] == ga[0] {
				okRec = true
			}
			b1, f1 := fieldLoad(sa[0])
			b2, f2 := fieldLoad(ga[0])
			if f1 != nil && f1 == f2 && b1 == b2 {
				okRec = true
			}
		}
	}
	c.Check(name+":freeze-read-from-the-asset's-own-record", "value-flow", okRec, fn.Pos(), "the freeze state is read from the same (account, asset code) record the transaction reads the asset / writes the supply of")
}

// freezeGuardRet is the freeze test of a predicate helper (rejection = error return).
func freezeGuardRet(c *core.Ctx, a *assetRules, fn *ssa.Function) {
	edge := func(b *ssa.BasicBlock, k int) [2]*ssa.BasicBlock { return [2]*ssa.BasicBlock{b, b.Succs[k]} }
	cut, calls := freezeEdges(c, fn, edge)
	okArgs := false
	for _, g := range calls {
		r, ga := recvArgs(g)
		if r == fn.Params[0] && ga[0] == fn.Params[1] {
			okArgs = true
		}
	}
	c.Check("judgeReplenish?frozen", "quantity-guard", len(calls) > 0 && okArgs && noAcceptWithout(fn, cut), fn.Pos(), "judgeReplenish refuses when the freeze state of the judged asset reads \"true\"")
}

// c12IsValuable: every old/new comparison in account.IsValuable is symmetric. Evaluated under C12.7 and C07.9.
func c12IsValuable(c *core.Ctx) {
	fn := c.Fn("chain/account.IsValuable")
	n := 0
	for _, b := range fn.Blocks {
		for _, in := range b.Instrs {
			bo, ok := in.(*ssa.BinOp)
			if !ok {
				continue
			}
			switch bo.Op {
			case token.EQL, token.NEQ, token.LSS, token.GTR, token.LEQ, token.GEQ:
			default:
				continue
			}
			// a comparison of a three-way compare result (big.Int.Cmp, bytes.Compare) with a constant
			var cmp *ssa.Call
			for _, x := range []ssa.Value{bo.X, bo.Y} {
				if call, isCall := x.(*ssa.Call); isCall {
					if o := core.CalleeObj(call); o != nil && (o.Name() == "Cmp" || o.Name() == "Compare") {
						cmp = call
					}
				}
			}
			if cmp == nil {
				continue
			}
			n++
			c.Check("IsValuable:symmetric#"+string(rune('a'+n-1)), "comparison-shape", bo.Op == token.EQL || bo.Op == token.NEQ, bo.Pos(), "old and new value are compared for (in)equality (found %s)", bo.Op)
		}
	}
	c.Floor("IsValuable/three-way-comparisons", n, 2)

	// a log judged "no change" is dropped from the published logs, so the judgement compares the two values whole: where OldVal and NewVal
	// meet in one comparison, each side is the (type-asserted) value itself — not a field, an element or the result of a function of it
	// (two different values with equal projections would be dropped although redo has an effect)
	oldF, newF := c.FieldVar("chain/types.ChangeLog", "OldVal"), c.FieldVar("chain/types.ChangeLog", "NewVal")
	side := func(v ssa.Value) (hasOld, hasNew bool, projection string) {
		for x := range core.SliceShallow(v) {
			switch y := x.(type) {
			case *ssa.FieldAddr:
				switch core.FieldOf(y) {
				case oldF:
					hasOld = true
				case newF:
					hasNew = true
				default:
					projection = "field " + core.FieldOf(y).Name()
				}
			case *ssa.Field:
				projection = "field " + core.FieldOf(y).Name()
			case *ssa.Call:
				if core.BuiltinCallName(y) == "" {
					projection = "call of " + objName(core.CalleeObj(y))
				}
			case *ssa.Index, *ssa.IndexAddr, *ssa.Lookup, *ssa.Slice:
				projection = "element or sub-slice"
			case *ssa.Phi:
				projection = "a choice between values"
			}
		}
		return
	}
	m := 0
	for _, b := range fn.Blocks {
		for _, in := range b.Instrs {
			var ops []ssa.Value
			switch x := in.(type) {
			case *ssa.BinOp:
				if x.Op == token.EQL || x.Op == token.NEQ {
					ops = []ssa.Value{x.X, x.Y}
				}
			case *ssa.Call:
				if core.BuiltinCallName(x) == "" && len(x.Call.Args) == 2 {
					ops = x.Call.Args
				}
			}
			if len(ops) != 2 {
				continue
			}
			o0, n0, p0 := side(ops[0])
			o1, n1, p1 := side(ops[1])
			if !((o0 && n1 && !n0 && !o1) || (n0 && o1 && !o0 && !n1)) {
				continue
			}
			m++
			why := p0
			if why == "" {
				why = p1
			}
			// a comparison handed to a function is whole only for the comparators of the standard library (a repository helper may look at
			// part of the values: two signer lists with the same addresses and different weights)
			if call, isCall := in.(*ssa.Call); isCall && why == "" {
				if o := core.CalleeObj(call); o == nil || o.Pkg() == nil || strings.HasPrefix(o.Pkg().Path(), core.ModPath) {
					why = "comparison delegated to " + objName(o)
				}
			}
			c.Check("IsValuable:whole-values#"+string(rune('a'+m-1)), "comparison-shape", why == "", in.Pos(), "old and new value are compared whole: %s", orOK(why))
		}
	}
	c.Floor("IsValuable/old-new-comparisons", m, 5)
}
