package rules

import (
	"go/token"
	"go/types"
	"strings"

	"golang.org/x/tools/go/ssa"

	"verif/lint/internal/core"
)

func init() { register("C03", c03) }

// builtinCallW3 reports whether v is a call of the named builtin (len, append, ...).
func builtinCallW3(v ssa.Value, name string) (*ssa.Call, bool) {
	call, ok := v.(*ssa.Call)
	if !ok {
		return nil, false
	}
	b, ok := call.Call.Value.(*ssa.Builtin)
	if !ok || b.Name() != name {
		return nil, false
	}
	return call, true
}

// appendedElems returns the element values of `append(base, e1, e2...)` (a variadic call packs them into a fresh array);
// ok=false when the second operand is an arbitrary slice (`append(a, b...)`) whose elements cannot be enumerated.
func appendedElems(call *ssa.Call) (elems []ssa.Value, ok bool) {
	if len(call.Call.Args) != 2 {
		return nil, false
	}
	sl, isSl := call.Call.Args[1].(*ssa.Slice)
	if !isSl {
		return nil, false
	}
	arr, isAl := sl.X.(*ssa.Alloc)
	if !isAl || arr.Referrers() == nil {
		return nil, false
	}
	for _, r := range *arr.Referrers() {
		switch r := r.(type) {
		case *ssa.IndexAddr:
			if r.Referrers() == nil {
				return nil, false
			}
			for _, u := range *r.Referrers() {
				st, isSt := u.(*ssa.Store)
				if !isSt || st.Addr != r {
					return nil, false
				}
				elems = append(elems, st.Val)
			}
		case *ssa.Slice:
		default:
			return nil, false
		}
	}
	return elems, len(elems) > 0
}

// sliceSources walks a slice value back through phis and appends and returns the append calls that contribute elements plus
// whether every other source is empty (nil or make(_, 0, _)).
func sliceSources(v ssa.Value) (appends []*ssa.Call, closed bool) {
	closed = true
	seen := map[ssa.Value]bool{}
	var walk func(x ssa.Value)
	walk = func(x ssa.Value) {
		if seen[x] {
			return
		}
		seen[x] = true
		x = core.ResolveSpill(x)
		switch t := x.(type) {
		case *ssa.Phi:
			for _, e := range t.Edges {
				walk(e)
			}
		case *ssa.MakeSlice:
			if k, ok := t.Len.(*ssa.Const); !ok || k.Value == nil || k.Int64() != 0 {
				closed = false
			}
		case *ssa.Const:
			if !core.IsNilConst(t) {
				closed = false
			}
		case *ssa.Call:
			if call, ok := builtinCallW3(t, "append"); ok {
				appends = append(appends, call)
				walk(call.Call.Args[0])
				return
			}
			closed = false
		default:
			closed = false
		}
	}
	walk(v)
	return
}

// sameMap: two map operands denote the same map object created in this function.
func sameMap(a, b ssa.Value) bool {
	if a == b {
		return true
	}
	var ma *ssa.MakeMap
	for v := range core.Slice(a) {
		if m, ok := v.(*ssa.MakeMap); ok {
			if ma != nil {
				return false
			}
			ma = m
		}
	}
	if ma == nil {
		return false
	}
	n := 0
	same := false
	for v := range core.Slice(b) {
		if m, ok := v.(*ssa.MakeMap); ok {
			n++
			same = m == ma
		}
	}
	return n == 1 && same
}

func c03(c *core.Ctx) {
	const cons = "chain/consensus"
	blk := func(m string) *types.Func { return c.Method("chain/types.Block", m) }

	// ------------------------------------------------------------------------------------------------------------
	c.Clause("C03.1", "the stable pointer moves only through StableManager.UpdateStable, where SetStableBlock is dominated by a strict height test against the current stable block and by the heeded quorum test; the quorum test compares len(Confirms)+1 with >= against a two-thirds quantity of the deputy count")
	c.Run("quorum", func() {
		us := c.Fn(cons + ".StableManager.UpdateStable")
		setStable := c.Method(cons+".StableBlockStore", "SetStableBlock")
		ice := c.FuncObj(cons + ".IsConfirmEnough")
		acts := core.CallsIn(us, setStable)
		c.Floor("UpdateStable/SetStableBlock-calls", len(acts), 1)
		block := us.Params[1]
		stableSrc := []*types.Func{c.Method(cons+".StableManager", "StableBlock"), c.Method(cons+".StableBlockStore", "LoadLatestBlock")}
		for _, act := range acts {
			fwd := false
			for _, g := range actionGuards(act) {
				op, x, y, ok := g.cmpOnAccept()
				if !ok || op != token.GTR {
					continue
				}
				xs, ys := core.Slice(x), core.Slice(y)
				if sliceCallOn(xs, blk("Height"), block) && !ys[block] && core.SliceHasCall(ys, blk("Height")) &&
					(core.SliceHasCall(ys, stableSrc[0]) || core.SliceHasCall(ys, stableSrc[1])) {
					fwd = true
				}
			}
			c.Check("UpdateStable?block.Height>stable.Height≺SetStableBlock", "guarded-action", fwd, act.Pos(),
				"SetStableBlock must be reachable only when the block's height is strictly greater than the current stable block's height")
			a := act.Common().Args
			c.Check("UpdateStable:SetStableBlock(block.Hash)", "value-flow", len(a) >= 1 && sliceCallOn(core.Slice(a[len(a)-1]), blk("Hash"), block), act.Pos(),
				"the hash made stable is the hash of the block that passed the tests")
		}
		heededBefore(c, us, ice, core.IsFalse, "SetStableBlock", instrs(acts))
		for _, g := range core.CallsIn(us, ice) {
			a := g.Common().Args
			c.Check("UpdateStable:IsConfirmEnough(block)", "value-flow", len(a) == 2 && a[0] == block &&
				core.SliceHasField(core.Slice(a[1]), c.FieldVar(cons+".StableManager", "dm")), g.Pos(), "the quorum test is applied to the block that is made stable, with the manager's deputy table")
		}
		// StableBlock() is the store's latest stable block
		sb := c.Fn(cons + ".StableManager.StableBlock")
		okSB := false
		for _, r := range core.Returns(sb) {
			if core.SliceHasCall(core.Slice(core.RetVal(r, 0)), stableSrc[1]) {
				okSB = true
			}
		}
		c.CheckTrivial("StableManager.StableBlock←LoadLatestBlock", "value-flow", okSB, sb.Pos(), "StableBlock returns the store's latest stable block")

		// shape of the quorum test
		iceFn := c.Fn(cons + ".IsConfirmEnough")
		confirms := c.FieldVar("chain/types.Block", "Confirms")
		ceil := c.StdFunc("math", "Ceil")
		ttc := c.Method("chain/deputynode.Manager", "TwoThirdDeputyCount")
		twoThirds := func(sl map[ssa.Value]bool) bool {
			return sliceHasNumConst(sl, 2) && sliceHasNumConst(sl, 3) && core.SliceHasOp(sl, token.MUL) && core.SliceHasOp(sl, token.QUO) && core.SliceHasCall(sl, ceil)
		}
		signerCount := func(v ssa.Value) bool {
			b, ok := stripConvW3(v).(*ssa.BinOp)
			if !ok || b.Op != token.ADD {
				return false
			}
			l, one := b.X, b.Y
			if k, isK := l.(*ssa.Const); isK && k.Value != nil {
				l, one = b.Y, b.X
			}
			k, isK := one.(*ssa.Const)
			if !isK || k.Value == nil || k.Int64() != 1 {
				return false
			}
			lc, isLen := builtinCallW3(l, "len")
			if !isLen {
				return false
			}
			sl := core.Slice(lc.Call.Args[0])
			return core.SliceHasField(sl, confirms) && sl[iceFn.Params[0]]
		}
		nCmp := 0
		quorumRel := func(op token.Token, x, y ssa.Value, ok bool) bool {
			if !ok {
				return false
			}
			if op == token.LEQ {
				op, x, y = token.GEQ, y, x
			}
			if op != token.GEQ || !signerCount(x) {
				return false
			}
			ys := core.Slice(y)
			if ys[iceFn.Params[0]] && !sliceCallOn(ys, blk("Height"), iceFn.Params[0]) {
				return false
			}
			if core.SliceHasCall(ys, ttc) {
				return sliceCallOn(ys, blk("Height"), iceFn.Params[0]) && ys[iceFn.Params[1]]
			}
			return twoThirds(ys) && core.SliceHasField(ys, c.FieldVar("chain/deputynode.Manager", "DeputyCount")) && ys[iceFn.Params[1]]
		}
		okAll := true
		for _, r := range core.Returns(iceFn) {
			v := core.RetVal(r, 0)
			if bv, isC := core.BoolConst(v); isC {
				if !bv {
					continue
				}
				// `return true` must sit behind a quorum comparison that holds on the way in
				ok := false
				for _, g := range actionGuards(r) {
					op, x, y, k := cmpWhen(g.If.Cond, !g.RejectOnTrue)
					if quorumRel(op, x, y, k) {
						ok = true
						nCmp++
					}
				}
				if !ok {
					okAll = false
				}
				continue
			}
			op, x, y, k := cmpWhen(v, true)
			if quorumRel(op, x, y, k) {
				nCmp++
			} else {
				okAll = false
			}
		}
		c.Check("IsConfirmEnough?len(Confirms)+1>=two-thirds", "quantity-guard", okAll, iceFn.Pos(),
			"every `true` outcome of IsConfirmEnough is `len(block.Confirms)+1 >= q` with q a two-thirds quantity of the deputy table (operator and +1 operand checked)")
		c.Floor("IsConfirmEnough/quorum-comparisons", nCmp, 1)

		// the threshold itself: ceil(len(deputies at that height) * 2 / 3)
		ttcFn := c.Fn("chain/deputynode.Manager.TwoThirdDeputyCount")
		gd := c.Method("chain/deputynode.Manager", "GetDeputiesByHeight")
		okT := len(core.Returns(ttcFn)) > 0
		for _, r := range core.Returns(ttcFn) {
			sl := core.Slice(core.RetVal(r, 0))
			hasLen := false
			for v := range sl {
				if lc, isLen := builtinCallW3(v, "len"); isLen && core.SliceHasCall(core.Slice(lc.Call.Args[0]), gd) {
					hasLen = true
				}
			}
			if !twoThirds(sl) || !hasLen || !sl[ttcFn.Params[1]] {
				okT = false
			}
		}
		c.Check("TwoThirdDeputyCount?ceil(len(deputies(height))*2/3)", "quantity-guard", okT, ttcFn.Pos(),
			"the threshold is computed from the number of deputies of the given height with the constants 2 and 3 and a ceiling")
	})

	// ------------------------------------------------------------------------------------------------------------
	c.Clause("C03.2", "nobody else moves the stable pointer: closed caller sets of SetStableBlock / blockCommit / leveldb.SetCurrentBlock and closed writer set of ChainDatabase.LastConfirm; the block made stable is looked up in the unconfirmed tree and committed along its path to the old stable block")
	c.Run("who-moves-stable", func() {
		sites := closedCallers(c, "ChainDatabase.SetStableBlock", []string{"(*chain/consensus.StableManager).UpdateStable", "chain.SetupGenesisBlock"},
			c.Method("store.ChainDatabase", "SetStableBlock"))
		c.Floor("SetStableBlock-callers", len(sites), 2)
		sites = closedCallers(c, "ChainDatabase.blockCommit", []string{"(*store.ChainDatabase).SetStableBlock"}, c.Method("store.ChainDatabase", "blockCommit"))
		c.Floor("blockCommit-callers", len(sites), 1)
		sites = closedCallers(c, "leveldb.SetCurrentBlock", []string{"(*store.ChainDatabase).blockCommit", "(*store.ChainDatabase).commitStableBlock"},
			c.FuncObj("store/leveldb.SetCurrentBlock"))
		c.Floor("SetCurrentBlock-callers", len(sites), 3)
		// the dead replay hook must stay without a caller that could move the pointer backwards or sideways
		closedCallers(c, "ChainDatabase.commitStableBlock", []string{"(*store.ChainDatabase).AfterScan"}, c.Method("store.ChainDatabase", "commitStableBlock"))
		w := closedWriters(c, "ChainDatabase.LastConfirm", []string{"store.NewChainDataBase", "(*store.ChainDatabase).SetStableBlock"},
			fieldStores(c, c.FieldVar("store.ChainDatabase", "LastConfirm")))
		c.Floor("LastConfirm-writers", len(w), 2)
		ss := structStores(c, c.Named("store.ChainDatabase"))
		c.Check("ChainDatabase:no-whole-struct-store", "who-may-write", len(ss) == 0, token.NoPos, "no `*db = ChainDatabase{...}` store may overwrite LastConfirm (%d found)", len(ss))
	})
	c.Run("stable-is-descendant", func() {
		ssb := c.Fn("store.ChainDatabase.SetStableBlock")
		lastConfirm := c.FieldVar("store.ChainDatabase", "LastConfirm")
		unconf := c.FieldVar("store.ChainDatabase", "UnConfirmBlocks")
		commitObj := c.Method("store.ChainDatabase", "blockCommit")
		collect := c.Method("store.CBlock", "CollectToParent")
		// the closure that advances LastConfirm
		var adv *ssa.Function
		var advStore *ssa.Store
		n := 0
		var find func(fn *ssa.Function)
		find = func(fn *ssa.Function) {
			for _, s := range fieldStoresInW3(fn, lastConfirm) {
				adv, advStore = fn, s.St
				n++
			}
			for _, a := range fn.AnonFuncs {
				find(a)
			}
		}
		find(ssb)
		c.Exactly("SetStableBlock/LastConfirm-stores", n, 1)
		if n != 1 {
			return
		}
		// (a) the new LastConfirm is an element of the list handed in, and its blockCommit succeeded first
		fromParam := false
		var listParam *ssa.Parameter
		sl := core.Slice(advStore.Val)
		for _, p := range adv.Params {
			if sl[p] {
				fromParam, listParam = true, p
			}
		}
		c.Check("SetStableBlock:LastConfirm←element of the collected path", "value-flow", adv != ssb && fromParam, advStore.Pos(),
			"LastConfirm is advanced only to a member of the list the commit closure is given")
		heededBefore(c, adv, commitObj, core.ErrNonNil, "LastConfirm-store", []ssa.Instruction{advStore})
		for _, g := range core.CallsIn(adv, commitObj) {
			a := g.Common().Args
			c.Check("SetStableBlock:blockCommit(hash of the same element)", "value-flow", listParam != nil && len(a) == 2 && core.Slice(a[1])[listParam] &&
				core.SliceHasCall(core.Slice(a[1]), blk("Hash")), g.Pos(), "the block committed to disk is the element that becomes LastConfirm")
		}
		// (a') every other branch is pruned at every step: after the store, a pruning call receives the root that was LastConfirm
		// immediately before this step (a load of LastConfirm that precedes the store in the SAME iteration) and the element stored
		pr := 0
		for _, ci := range core.AllCalls(adv) {
			if !core.Dominates(advStore, ci) || ci.Common().StaticCallee() != nil && core.RelPkg(ci.Common().StaticCallee()) != "store" {
				continue
			}
			a := ci.Common().Args
			// the pruning code inlined into the committing function: its Walk(old root; excluded = new root) is the pruning step
			if o := core.CalleeObj(ci); o != nil && o.Name() == "Walk" && len(a) == 3 {
				a = []ssa.Value{a[0], a[2]}
			}
			if len(a) != 2 || !(core.Derived(advStore.Val)[a[1]] || a[1] == advStore.Val) {
				continue
			}
			pr++
			ok := false
			old := a[0]
			for v := range core.SliceShallow(a[0]) {
				if ld, isLd := v.(*ssa.UnOp); isLd && core.FieldOf(ld.X) == lastConfirm {
					old = ld
				}
			}
			if ld, isLd := old.(*ssa.UnOp); isLd && core.FieldOf(ld.X) == lastConfirm && core.Dominates(ld, advStore) {
				_, hl := core.LoopOf(ld.Block())
				_, hs := core.LoopOf(advStore.Block())
				ok = hl == hs
			}
			c.Check("SetStableBlock:prune(previous stable root of this step, new root)", "value-flow", ok, ci.Pos(),
				"the branches that do not descend from the new stable block are pruned from the root that was stable immediately before this step (read in the same iteration of the commit loop)")
		}
		c.Floor("SetStableBlock/prune-calls-after-advance", pr, 1)
		// (b) that list is CollectToParent(UnConfirmBlocks[hash], LastConfirm)
		mk := closureSite(ssb, adv)
		var call ssa.CallInstruction
		if mk != nil {
			d := core.Derived(mk.(*ssa.MakeClosure))
			for _, ci := range core.AllCalls(ssb) {
				if d[ci.Common().Value] {
					call = ci
				}
			}
		}
		if call == nil {
			c.Check("SetStableBlock:commit(CollectToParent(UnConfirmBlocks[hash], LastConfirm))", "value-flow", false, ssb.Pos(), "the commit closure must be called directly in SetStableBlock")
			return
		}
		okPath := false
		var lookup *ssa.Lookup
		for v := range core.Slice(call.Common().Args[0]) {
			ci, isCall := v.(ssa.CallInstruction)
			if !isCall || !core.SameFamily(core.CalleeObj(ci), collect) {
				continue
			}
			a := ci.Common().Args
			if len(a) != 2 {
				continue
			}
			for r := range core.Slice(a[0]) {
				if lk, isLk := r.(*ssa.Lookup); isLk && core.SliceHasField(core.Slice(lk.X), unconf) && core.Slice(lk.Index)[ssb.Params[1]] {
					lookup = lk
				}
			}
			if lookup != nil && core.SliceHasField(core.Slice(a[1]), lastConfirm) {
				okPath = true
			}
		}
		c.Check("SetStableBlock:commit(CollectToParent(UnConfirmBlocks[hash], LastConfirm))", "value-flow", okPath, call.Pos(),
			"the blocks committed are the path from the unconfirmed-tree node of the given hash up to the old stable block")
		if lookup != nil {
			ok, why := core.ValueHeededBefore(lookup, lookup, core.IsNil, call)
			c.Check("SetStableBlock?UnConfirmBlocks[hash]≠nil≺commit", "guarded-action", ok, lookup.Pos(), "a hash that is not in the unconfirmed tree (not a descendant of the stable block) must be refused: %s", orOK(why))
		}
	})

	// ------------------------------------------------------------------------------------------------------------
	c.Clause("C03.3", "only verified deputy signatures are appended: closed writer set of Block.Confirms and closed caller chains of the appenders; every element VerifyNewConfirms returns was appended behind an accepted RecoverNodeID over the block hash and a non-nil GetDeputyByNodeID for the recovered id")
	confirms := func() *types.Var { return c.FieldVar("chain/types.Block", "Confirms") }
	c.Run("confirm-writers", func() {
		w := closedWriters(c, "Block.Confirms", []string{
			"(*chain/consensus.DPoVP).VerifyAndSeal",            // replaced by the verified subset
			"(*chain/consensus.Confirmer).TryConfirm",           // the node's own signature
			"(*store.ChainDatabase).appendConfirm",              // reached only from Confirmer.SaveConfirm (below)
			"(*chain/types.Block).SetConfirms",                  // Seal, argument checked below
			"(*network.ProtocolManager).mergeConfirmsFromCache", // raw block, before InsertBlock verifies it
			"(*chain/types.Block).UnmarshalJSON",                // generated codec
			"(*chain/types.Block).ShallowCopy",                  // copies the field
		}, fieldStores(c, confirms()))
		c.Floor("Block.Confirms-writers", len(w), 7)
		ss := structStores(c, c.Named("chain/types.Block"))
		closedWriters(c, "Block(whole value)", []string{"(*chain/types.Block).DecodeRLP"}, ss)

		// Seal: SetConfirms(argument) where the argument is Seal's parameter; callers pass nil or the input block's filtered confirms
		closedCallers(c, "Block.SetConfirms", []string{"(*chain/consensus.BlockAssembler).Seal"}, blk("SetConfirms"))
		seal := c.Fn(cons + ".BlockAssembler.Seal")
		for _, g := range core.CallsIn(seal, blk("SetConfirms")) {
			a := g.Common().Args
			c.Check("Seal:SetConfirms(confirms param)", "value-flow", len(a) == 2 && a[1] == seal.Params[3], g.Pos(), "Seal stores exactly the confirm list it was given")
		}
		sealSites := closedCallers(c, "BlockAssembler.Seal", []string{"(*chain/consensus.BlockAssembler).RunBlock", "(*chain/consensus.BlockAssembler).MineBlock"}, c.Method(cons+".BlockAssembler", "Seal"))
		for _, s := range sealSites {
			a := s.Instr.Common().Args
			arg := a[len(a)-1]
			ok := core.IsNilConst(arg)
			if !ok && len(s.Caller.Params) > 1 {
				sl := core.Slice(arg)
				ok = core.SliceHasField(sl, confirms()) && sl[s.Caller.Params[1]] && countCalls(sl) == 0
			}
			c.Check("Seal-caller:"+shortFn(s.Caller)+":confirms=nil|input.Confirms", "value-flow", ok, s.Instr.Pos(), "%s seals with nil or with the Confirms field of its own input block", shortFn(s.Caller))
		}
		c.Floor("Seal-callers", len(sealSites), 2)
		// RunBlock's input block had its confirms filtered before (C02.3 decides that the stores in VerifyAndSeal take VerifyNewConfirms' result)
		vas := c.Fn(cons + ".DPoVP.VerifyAndSeal")
		vnc := c.Method(cons+".Validator", "VerifyNewConfirms")
		closedCallers(c, "BlockAssembler.RunBlock", []string{"(*chain/consensus.DPoVP).VerifyAndSeal"}, c.Method(cons+".BlockAssembler", "RunBlock"))
		for _, rb := range core.CallsIn(vas, c.Method(cons+".BlockAssembler", "RunBlock")) {
			ok := false
			for _, s := range fieldStoresInW3(vas, confirms()) {
				if core.SliceHasCall(core.Slice(s.St.Val), vnc) && core.Dominates(s.St, rb) {
					// no later store of anything else
					later := false
					for _, o := range fieldStoresInW3(vas, confirms()) {
						if o.St != s.St && core.ReachableAfter(s.St, o.St) && core.ReachableAfter(o.St, rb) {
							later = true
						}
					}
					ok = !later
				}
			}
			c.Check("VerifyAndSeal:Confirms←VerifyNewConfirms≺RunBlock", "order", ok, rb.Pos(), "the last store into block.Confirms before RunBlock is the verified subset")
		}
		for _, g := range core.CallsIn(vas, vnc) {
			a := g.Common().Args
			c.Check("VerifyAndSeal:VerifyNewConfirms(block, …)", "value-flow", len(a) == 4 && a[1] == vas.Params[1], g.Pos(), "the confirms are verified against the block they are attached to")
		}

		// store side: appendConfirm ← setConfirm ← SetConfirms ← Confirmer.SaveConfirm ← {insertConfirms, tryConfirmStable}
		closedCallers(c, "ChainDatabase.appendConfirm", []string{"(*store.ChainDatabase).setConfirm"}, c.Method("store.ChainDatabase", "appendConfirm"))
		closedCallers(c, "ChainDatabase.setConfirm", []string{"(*store.ChainDatabase).SetConfirms"}, c.Method("store.ChainDatabase", "setConfirm"))
		closedCallers(c, "ChainDatabase.SetConfirms", []string{"(*chain/consensus.Confirmer).SaveConfirm"}, c.Method("store.ChainDatabase", "SetConfirms"))
		saveConfirm := c.Method(cons+".Confirmer", "SaveConfirm")
		closedCallers(c, "Confirmer.SaveConfirm", []string{"(*chain/consensus.DPoVP).insertConfirms", "(*chain/consensus.Confirmer).tryConfirmStable"}, saveConfirm)
		sc := c.Fn(cons + ".Confirmer.SaveConfirm")
		for _, g := range core.CallsIn(sc, c.Method("store.ChainDatabase", "SetConfirms")) {
			a := g.Common().Args
			c.Check("SaveConfirm:SetConfirms(block.Hash, sigList)", "value-flow", len(a) == 2 && a[1] == sc.Params[2] && sliceCallOn(core.Slice(a[0]), blk("Hash"), sc.Params[1]), g.Pos(),
				"SaveConfirm stores exactly its list under the hash of its block")
		}
		ic := c.Fn(cons + ".DPoVP.insertConfirms")
		vcp := c.Method(cons+".Validator", "VerifyConfirmPacket")
		for _, g := range core.CallsIn(ic, saveConfirm) {
			a := g.Common().Args
			ok := false
			vs := core.CallsIn(ic, vcp)
			if len(vs) == 1 && len(a) == 3 {
				res := core.ResultValues(vs[0])[0]
				ok = res != nil && core.Derived(res)[a[2]] && core.Dominates(vs[0], g)
				// the packet was verified for the same hash the block was loaded by
				va := vs[0].Common().Args
				if len(va) != 4 || va[2] != ic.Params[2] || va[3] != ic.Params[3] {
					ok = false
				}
				if !core.SliceHasCall(core.Slice(a[1]), c.Method("store/protocol.ChainDB", "GetBlockByHash")) || !core.Slice(a[1])[ic.Params[2]] {
					ok = false
				}
			}
			c.Check("insertConfirms:SaveConfirm(block by hash, VerifyConfirmPacket result)", "value-flow", ok, g.Pos(), "network confirms are stored only after VerifyConfirmPacket, for the block of the same hash")
		}
		tcs := c.Fn(cons + ".Confirmer.tryConfirmStable")
		cb := c.Method(cons+".Confirmer", "confirmBlock")
		for _, g := range core.CallsIn(tcs, saveConfirm) {
			a := g.Common().Args
			ok := false
			cbs := core.CallsIn(tcs, cb)
			if len(cbs) == 1 && len(a) == 3 && a[1] == tcs.Params[1] && cbs[0].Common().Args[1] == tcs.Params[1] {
				sig := core.ResultValues(cbs[0])[0]
				// the list is a one-element literal holding that signature
				if s, isS := a[2].(*ssa.Slice); isS {
					if arr, isA := s.X.(*ssa.Alloc); isA && arrLen(arr) == 1 && sig != nil && core.Slice(a[2])[sig] {
						ok = true
					}
				}
				if k, _ := core.HeededBefore(cbs[0], core.ErrNonNil, g); !k {
					ok = false
				}
			}
			c.Check("tryConfirmStable:SaveConfirm(block, [own signature])", "value-flow", ok, g.Pos(), "the only other stored confirm is the node's own signature over the same block")
		}
		// VerifyConfirmPacket hands out VerifyNewConfirms' result for the block loaded by hash, after the height test
		vcpFn := c.Fn(cons + ".Validator.VerifyConfirmPacket")
		vs := core.CallsIn(vcpFn, vnc)
		ok := len(vs) == 1
		if ok {
			res := core.ResultValues(vs[0])[0]
			for _, r := range core.Returns(vcpFn) {
				v := core.RetVal(r, 0)
				if !core.IsNilConst(v) && !(res != nil && core.Derived(res)[v]) && !(vs[0].Value() != nil && r.Results[0] == res) {
					ok = false
				}
			}
			a := vs[0].Common().Args
			gbh := c.Method(cons+".BlockLoader", "GetBlockByHash")
			if len(a) != 4 || a[2] != vcpFn.Params[3] || !core.SliceHasCall(core.Slice(a[1]), gbh) || !core.Slice(a[1])[vcpFn.Params[2]] {
				ok = false
			}
		}
		c.Check("VerifyConfirmPacket:returns VerifyNewConfirms(block by hash, sigList)", "value-flow", ok, vcpFn.Pos(), "the packet's signatures are verified against the block named by the packet's hash")
		condGuard(c, vcpFn, "block.Height≠height", nil, func(sl map[ssa.Value]bool) bool {
			return core.SliceHasCall(sl, blk("Height")) && sl[vcpFn.Params[1]] && core.SliceHasOp(sl, token.NEQ)
		})

		// TryConfirm: what is appended is the node's own signature over this block's hash, after the error and duplicate tests
		tc := c.Fn(cons + ".Confirmer.TryConfirm")
		for _, s := range fieldStoresInW3(tc, confirms()) {
			ok, why := false, "the stored value is not an append of named elements to block.Confirms"
			if ap, isAp := builtinCallW3(s.St.Val, "append"); isAp {
				elems, known := appendedElems(ap)
				bs := core.Slice(ap.Call.Args[0])
				cbs := core.CallsIn(tc, cb)
				if known && len(elems) == 1 && len(cbs) == 1 && core.SliceHasField(bs, confirms()) && bs[tc.Params[1]] && countCalls(bs) == 0 {
					sig := core.ResultValues(cbs[0])[0]
					why = "the appended element is not confirmBlock(block)'s signature"
					if sig != nil && core.Derived(sig)[elems[0]] && cbs[0].Common().Args[1] == tc.Params[1] {
						k1, w1 := core.HeededBefore(cbs[0], core.ErrNonNil, s.St)
						k2, w2 := false, "no IsConfirmExist(own signature) test"
						for _, g := range core.CallsIn(tc, blk("IsConfirmExist")) {
							a := g.Common().Args
							if len(a) == 2 && a[0] == tc.Params[1] && core.Derived(sig)[a[1]] {
								k2, w2 = core.HeededBefore(g, core.IsTrue, s.St)
							}
						}
						ok, why = k1 && k2, w1+w2
					}
				}
			}
			c.Check("TryConfirm:Confirms←append(Confirms, own signature)", "guarded-action", ok, s.St.Pos(), "TryConfirm appends only the node's own signature over the block, once: %s", orOK(why))
		}
		cbFn := c.Fn(cons + ".Confirmer.confirmBlock")
		signObj := c.FuncObj(cons + ".SignBlock")
		okCB := false
		if sg := core.CallsIn(cbFn, signObj); len(sg) == 1 {
			okCB = sliceCallOn(core.Slice(sg[0].Common().Args[0]), blk("Hash"), cbFn.Params[1])
			if k, _ := core.CallHeeded(sg[0], core.ErrNonNil, nil); !k {
				okCB = false
			}
			raw := core.ResultValues(sg[0])[0]
			for _, r := range core.Returns(cbFn) {
				if core.ClassifyReturn(r, nil, nil) != core.RetFailure && (raw == nil || !core.Slice(core.RetVal(r, 0))[raw]) {
					okCB = false
				}
			}
		}
		c.Check("confirmBlock:returns SignBlock(block.Hash())", "value-flow", okCB, cbFn.Pos(), "the node's confirm is its signature over the hash of the given block")
		// appendConfirm: appends elements of its argument only
		acFn := c.Fn("store.ChainDatabase.appendConfirm")
		for _, s := range fieldStoresInW3(acFn, confirms()) {
			ok := false
			if ap, isAp := builtinCallW3(s.St.Val, "append"); isAp {
				elems, known := appendedElems(ap)
				bs := core.Slice(ap.Call.Args[0])
				ok = known && len(elems) == 1 && core.Slice(elems[0])[acFn.Params[2]] && countCalls(core.Slice(elems[0])) == 0 &&
					core.SliceHasField(bs, confirms()) && bs[acFn.Params[1]] && countCalls(bs) == 0 && s.St.Addr.(*ssa.FieldAddr).X == acFn.Params[1]
			}
			c.Check("appendConfirm:Confirms←append(Confirms, element of the argument)", "value-flow", ok, s.St.Pos(), "appendConfirm adds nothing but members of the list it is given to the block it is given")
		}

		// network side: confirms merged from the cache go into the raw block that InsertBlock verifies next
		merge := c.Method("network.ProtocolManager", "mergeConfirmsFromCache")
		insertBlock := c.Method("network.BlockChain", "InsertBlock")
		sites := c.CallSites(merge)
		c.Floor("mergeConfirmsFromCache-callers", len(sites), 1)
		for _, s := range sites {
			// the merged block goes to InsertBlock next: an InsertBlock call on the same value that the merge dominates and that no path
			// from the merge gets around (to a return, or back to the merge for the next block)
			ok := false
			ma := s.Instr.Common().Args
			for _, i := range core.CallsIn(s.Caller, insertBlock) {
				ia := i.Common().Args
				if len(ia) == 0 || len(ma) == 0 || !sameRead(ia[len(ia)-1], ma[len(ma)-1]) || !core.Dominates(s.Instr, i) {
					continue
				}
				if i.Block() == s.Instr.Block() {
					ok = true
					continue
				}
				around := core.ReachCutAvoid(s.Instr.Block(), nil, map[*ssa.BasicBlock]bool{i.Block(): true})
				escapes := false
				for b := range around {
					if b == s.Instr.Block() {
						// reached again only through a cycle
						for _, p := range b.Preds {
							if around[p] {
								escapes = true
							}
						}
						continue
					}
					if len(b.Instrs) > 0 {
						if _, isRet := b.Instrs[len(b.Instrs)-1].(*ssa.Return); isRet {
							escapes = true
						}
					}
				}
				if !escapes {
					ok = true
				}
			}
			c.Check("mergeConfirmsFromCache(b)≺InsertBlock(b)@"+shortFn(s.Caller), "order", ok, s.Instr.Pos(), "cached confirms are merged only into the block that is handed to InsertBlock (which filters them) right after")
		}
	})

	type vncAppend struct {
		ap     *ssa.Call
		nodeID ssa.Value
		sfx    string
	}
	var vncAppends []vncAppend
	c.Run("VerifyNewConfirms", func() {
		fn := c.Fn(cons + ".Validator.VerifyNewConfirms")
		block, sigList := fn.Params[1], fn.Params[2]
		rec := c.Method("chain/types.SignData", "RecoverNodeID")
		gd := c.Method("chain/deputynode.Manager", "GetDeputyByNodeID")
		var appends []*ssa.Call
		closed := true
		for _, r := range core.Returns(fn) {
			as, cl := sliceSources(core.RetVal(r, 0))
			if !cl {
				closed = false
			}
			for _, a := range as {
				dup := false
				for _, o := range appends {
					if o == a {
						dup = true
					}
				}
				if !dup {
					appends = append(appends, a)
				}
			}
		}
		c.Check("VerifyNewConfirms:result=∅+guarded appends", "value-flow", closed, fn.Pos(), "the returned list starts empty and grows only by append calls in this function")
		c.Floor("VerifyNewConfirms/appends", len(appends), 1)
		for i, ap := range appends {
			sfx := ""
			if len(appends) > 1 {
				sfx = "#" + string(rune('a'+i))
			}
			elems, ok := appendedElems(ap)
			c.Check("VerifyNewConfirms:append-elements-known"+sfx, "value-flow", ok && len(elems) == 1, ap.Pos(), "the append adds individually named signatures (not a whole unverified slice)")
			if !ok || len(elems) != 1 {
				continue
			}
			elem := elems[0]
			es := core.Slice(elem)
			// the element comes from sigList[i]
			var src *ssa.IndexAddr
			for v := range es {
				if ia, isIA := v.(*ssa.IndexAddr); isIA && ia.X == sigList {
					src = ia
				}
			}
			// the RecoverNodeID call on the same element, over the block's hash, accepted
			var recCall ssa.CallInstruction
			for _, g := range core.CallsIn(fn, rec) {
				a := g.Common().Args
				if len(a) != 2 || src == nil || !core.Slice(a[0])[src] {
					continue
				}
				if !sliceCallOn(core.Slice(a[1]), blk("Hash"), block) {
					continue
				}
				if k, _ := core.HeededBefore(g, core.ErrNonNil, ap); k {
					recCall = g
				}
			}
			c.Check("VerifyNewConfirms→SignData.RecoverNodeID(block.Hash)≺append"+sfx, "guarded-action", recCall != nil, ap.Pos(),
				"the appended signature itself must have been recovered over the hash of this block, and a recovery error must skip it")
			if recCall == nil {
				continue
			}
			nodeID := core.ResultValues(recCall)[0]
			// deputy membership of the recovered id at the block's height
			okDep := false
			for _, g := range core.CallsIn(fn, gd) {
				a := g.Common().Args
				if len(a) != 3 || nodeID == nil || !core.Derived(nodeID)[a[2]] || !sliceCallOn(core.Slice(a[1]), blk("Height"), block) {
					continue
				}
				if k, _ := core.HeededBefore(g, core.IsNil, ap); k {
					okDep = true
				}
			}
			c.Check("VerifyNewConfirms→GetDeputyByNodeID(block.Height, recovered id)≺append"+sfx, "guarded-action", okDep, ap.Pos(),
				"the recovered node id must be a deputy of the block's term, otherwise the signature is skipped")

			vncAppends = append(vncAppends, vncAppend{ap, nodeID, sfx})
		}
	})
	c.Clause("C03.4", "distinct signers: in VerifyNewConfirms the append is dominated by a membership test in a set keyed by the node id recovered from the signature; the set is seeded with the header signer and the signers of the block's existing confirms and receives every accepted id")
	c.Run("distinct-signers", func() {
		fn := c.Fn(cons + ".Validator.VerifyNewConfirms")
		block := fn.Params[1]
		rec := c.Method("chain/types.SignData", "RecoverNodeID")
		c.Floor("VerifyNewConfirms/appends-with-recovered-id", len(vncAppends), 1)
		for _, va := range vncAppends {
			ap, nodeID, sfx := va.ap, va.nodeID, va.sfx
			var seen ssa.Value
			okDistinct := false
			for _, b := range fn.Blocks {
				for _, in := range b.Instrs {
					lk, isLk := in.(*ssa.Lookup)
					if !isLk || !lk.CommaOk || nodeID == nil || !core.Slice(lk.Index)[nodeID] {
						continue
					}
					if _, isMap := lk.X.Type().Underlying().(*types.Map); !isMap {
						continue
					}
					var found ssa.Value
					if lk.Referrers() != nil {
						for _, r := range *lk.Referrers() {
							if e, isE := r.(*ssa.Extract); isE && e.Index == 1 {
								found = e
							}
						}
					}
					if found == nil {
						continue
					}
					if k, _ := core.ValueHeededBefore(lk, found, core.IsTrue, ap); k {
						okDistinct, seen = true, lk.X
					}
				}
			}
			c.Check("VerifyNewConfirms?seen[recovered node id]≺append"+sfx, "guarded-action", okDistinct, ap.Pos(),
				"a signature whose *recovered node id* was already counted must be skipped (deduplication by signature bytes lets one deputy count twice)")
			if !okDistinct {
				continue
			}
			var okSelf, okMiner, okOld bool
			for _, b := range fn.Blocks {
				for _, in := range b.Instrs {
					mu, isMU := in.(*ssa.MapUpdate)
					if !isMU || !sameMap(mu.Map, seen) {
						continue
					}
					ks := core.Slice(mu.Key)
					switch {
					case ks[nodeID]:
						// recorded on the accepting path of the same iteration
						if core.Dominates(mu, ap) || core.Dominates(ap, mu) {
							if gs := actionGuards(mu); len(gs) > 0 && sameGuards(gs, actionGuards(ap)) {
								okSelf = true
							}
						}
					case sliceCallOn(ks, blk("SignerNodeID"), block):
						okMiner = precedesLoop(mu, ap)
					case core.SliceHasCall(ks, rec) && core.SliceHasField(ks, confirms()) && ks[block]:
						okOld = precedesLoop(mu, ap)
					}
				}
			}
			c.Check("VerifyNewConfirms:seen[id]←accepted signer"+sfx, "value-flow", okSelf, ap.Pos(), "the id of every accepted signature is recorded in the same iteration, behind the same tests as the append")
			c.Check("VerifyNewConfirms:seen←header signer"+sfx, "value-flow", okMiner, ap.Pos(), "the block's own signer (counted as +1 by the quorum test) is in the set before the first signature is examined")
			c.Check("VerifyNewConfirms:seen←signers of block.Confirms"+sfx, "value-flow", okOld, ap.Pos(), "the signers of the confirms the block already carries are in the set before the first signature is examined")
		}
	})

	// ------------------------------------------------------------------------------------------------------------
	c.Run("own-confirm-distinct", func() {
		// The second appender of countable confirms is Confirmer.TryConfirm (the node's own signature on a block it just accepted). The
		// node must not count itself twice: either signatures have one canonical encoding (RecoverNodeID refuses the high-s twin, so
		// byte equality is identity for an honest own key), or the append is guarded by a test that recovers signer identities.
		tc := c.Fn(cons + ".Confirmer.TryConfirm")
		recFn := c.Fn("chain/types.SignData.RecoverNodeID")
		inScope := func(fn *ssa.Function) bool {
			rel := core.RelPkg(fn)
			return rel == "chain/consensus" || rel == "chain/types" || rel == "chain/deputynode" || rel == "common/crypto"
		}
		canonical := reachBelow(c, []*ssa.Function{recFn}, inScope)[c.Fn("common/crypto.ValidateSignatureValues")]
		byName := methodIndex(c)
		stores := fieldStoresInW3(tc, confirms())
		c.Floor("TryConfirm/Confirms-stores", len(stores), 1)
		for _, s := range stores {
			identity := false
			for _, g := range actionGuards(s.St) {
				for v := range core.Slice(g.If.Cond) {
					ci, isCall := v.(ssa.CallInstruction)
					if !isCall {
						continue
					}
					if fs := calleeFuncs(byName, ci); len(fs) > 0 && reachBelow(c, fs, inScope)[recFn] {
						identity = true
					}
				}
			}
			c.Check("TryConfirm?own node id not yet counted≺append(own signature)", "guarded-action", canonical || identity, s.St.Pos(),
				"the node's own confirm must not count the node twice: RecoverNodeID accepts both encodings of a signature (canonical-s check reachable: %v) and no test guarding the append recovers the signers already counted (identity test: %v)", canonical, identity)
		}
	})

	c.Clause("C03.5", "head follows stable: UpdateStable precedes UpdateFork / UpdateForkForConfirm, which are given StableBlock() evaluated after it; when the current fork was cut both re-pick the head with ChooseNewFork(stable), whose candidates are the stable block and the blocks IterateUnConfirms visits")
	c.Run("head-follows-stable", func() {
		upd := c.Method(cons+".DPoVP", "UpdateStable")
		stable := c.Method(cons+".DPoVP", "StableBlock")
		type site struct {
			fn   *ssa.Function
			fork *types.Func
			argI int
		}
		for _, s := range []site{
			{c.Fn(cons + ".DPoVP.saveNewBlock"), c.Method(cons+".ForkManager", "UpdateFork"), 2},
			{c.Fn(cons + ".DPoVP.InsertConfirms"), c.Method(cons+".ForkManager", "UpdateForkForConfirm"), 1},
		} {
			ordered(c, s.fn, upd, s.fork)
			heededBefore(c, s.fn, upd, core.ErrNonNil, objName(s.fork), instrs(core.CallsIn(s.fn, s.fork)))
			us := core.CallsIn(s.fn, upd)
			for _, f := range core.CallsIn(s.fn, s.fork) {
				a := f.Common().Args
				ok := false
				if len(a) > s.argI {
					if sc, isCall := a[s.argI].(ssa.CallInstruction); isCall && core.SameFamily(core.CalleeObj(sc), stable) {
						for _, u := range us {
							if core.Dominates(u, sc) {
								ok = true
							}
						}
					}
				}
				c.Check(shortFn(s.fn)+":"+objName(s.fork)+"(StableBlock() after UpdateStable)", "order", ok, f.Pos(), "the fork choice is given the stable block as it is after the update")
			}
		}
		// DPoVP.StableBlock is the stable manager's (= the store's) block
		dsb := c.Fn(cons + ".DPoVP.StableBlock")
		okS := false
		for _, r := range core.Returns(dsb) {
			if core.SliceHasCall(core.Slice(core.RetVal(r, 0)), c.Method(cons+".StableManager", "StableBlock")) {
				okS = true
			}
		}
		c.CheckTrivial("DPoVP.StableBlock←StableManager.StableBlock", "value-flow", okS, dsb.Pos(), "DPoVP.StableBlock returns the stable manager's block")

		// the node remembers what it signed: once confirmBlock has produced a signature, lastSig names that block before control can leave —
		// inside confirmBlock, or on every path of every caller from the successful call to a return. needConfirm refuses a sibling of the
		// block lastSig names; a signature that is not recorded lets the node confirm two conflicting blocks.
		cb := c.Fn(cons + ".Confirmer.confirmBlock")
		setLast := c.Method(cons+".Confirmer", "SetLastSig")
		okSig := successNeeds(cb, setLast, 2)
		whySig := ""
		if !okSig {
			okSig = true
			_, sites := callersOf(c, c.Method(cons+".Confirmer", "confirmBlock"))
			if len(sites) == 0 {
				okSig = false
			}
			for _, cs := range sites {
				g := cs.Caller
				avoid := map[*ssa.BasicBlock]bool{}
				for _, p := range passers(g, setLast, 2) {
					avoid[p.Block()] = true
				}
				ev := core.ErrResult(cs.Instr)
				covered := false
				for _, t := range core.TestsOf(ev, core.ErrNonNil) {
					if !core.Dominates(cs.Instr, t.If) || t.OK == t.Fail {
						continue
					}
					covered = true
					r := core.ReachCutAvoid(t.OK, nil, avoid)
					for _, ret := range core.Returns(g) {
						if ret.Block() != g.Recover && r[ret.Block()] && !avoid[ret.Block()] {
							okSig = false
							whySig = shortFn(g) + " can return after a successful confirmBlock without SetLastSig"
						}
					}
				}
				if !covered {
					okSig = false
					whySig = shortFn(g) + " does not test confirmBlock's error"
				}
			}
		}
		c.Check("confirmBlock:signature⇒SetLastSig", "must-call", okSig, cb.Pos(), "every signature the node makes for a confirm is recorded in lastSig before control leaves: %s", orOK(whySig))
		// isCurrentForkCut asks the store whether the head is still among the unconfirmed blocks and takes ErrBlockNotExist for "pruned":
		// GetUnConfirmByHeight must therefore answer from UnConfirmBlocks only — a block it hands out comes out of that map (through Parent
		// links), never from the confirmed chain on disk
		gu := c.Fn("store.ChainDatabase.GetUnConfirmByHeight")
		unconfF := c.FieldVar("store.ChainDatabase", "UnConfirmBlocks")
		okU, nSucc := true, 0
		for _, r := range core.Returns(gu) {
			if r.Block() == gu.Recover || core.ClassifyReturn(r, nil, nil) == core.RetFailure {
				continue
			}
			nSucc++
			sl := core.Slice(core.RetVal(r, 0))
			fromMap := false
			for v := range sl {
				if lk, ok := v.(*ssa.Lookup); ok && core.SliceHasField(core.SliceShallow(lk.X), unconfF) {
					fromMap = true
				}
			}
			hasLoader := false
			for v := range sl {
				if ci, ok := v.(ssa.CallInstruction); ok {
					if sf := core.StaticFn(ci); sf != nil && core.RelPkg(sf) == "store" && strings.HasPrefix(sf.Name(), "UtilsGet") {
						hasLoader = true
					}
				}
			}
			if !fromMap || hasLoader {
				okU = false
			}
		}
		c.Check("GetUnConfirmByHeight:answers-from-UnConfirmBlocks-only", "value-flow", okU && nSucc > 0, gu.Pos(), "every block GetUnConfirmByHeight hands out comes from the UnConfirmBlocks map; for a confirmed height it fails (isCurrentForkCut reads that failure as: the head's fork was pruned)")
		icf := c.Fn(cons + ".ForkManager.isCurrentForkCut")
		okC := false
		for _, r := range core.Returns(icf) {
			sl := core.Slice(core.RetVal(r, 0))
			if core.SliceHasCall(sl, c.Method(cons+".BlockLoader", "GetUnConfirmByHeight")) && core.SliceHasGlobal(sl, c.Global("store.ErrBlockNotExist")) && core.SliceHasCall(sl, c.Method(cons+".ForkManager", "GetHeadBlock")) {
				okC = true
			}
		}
		c.Check("isCurrentForkCut:GetUnConfirmByHeight(head)=ErrBlockNotExist", "value-flow", okC, icf.Pos(), "the fork counts as cut exactly when the store no longer finds the head among the unconfirmed blocks")
		cut := c.Method(cons+".ForkManager", "isCurrentForkCut")
		choose := c.Method(cons+".ForkManager", "ChooseNewFork")
		setHead := c.Method(cons+".ForkManager", "SetHeadBlock")
		for _, spec := range []struct {
			name  string
			param int
		}{{"UpdateFork", 2}, {"UpdateForkForConfirm", 1}} {
			fn := c.Fn(cons + ".ForkManager." + spec.name)
			cuts := core.CallsIn(fn, cut)
			// where the head is set: SetHeadBlock(x) in fn, or a same-package helper that is handed x and calls SetHeadBlock with it
			type headSite struct {
				in  ssa.CallInstruction
				arg ssa.Value
			}
			var heads []headSite
			for _, h := range core.CallsIn(fn, setHead) {
				heads = append(heads, headSite{h, h.Common().Args[1]})
			}
			for _, ci := range core.AllCalls(fn) {
				hf := core.StaticFn(ci)
				if hf == nil || hf.Pkg != fn.Pkg || hf.Blocks == nil || hf == fn || core.CalleeObj(ci) == setHead {
					continue
				}
				for _, hs := range core.CallsIn(hf, setHead) {
					for i, q := range hf.Params {
						if hs.Common().Args[1] == ssa.Value(q) && i < len(ci.Common().Args) {
							heads = append(heads, headSite{ci, ci.Common().Args[i]})
						}
					}
				}
			}
			ok := len(cuts) == 1 && len(heads) >= 1
			why := "needs exactly one isCurrentForkCut call and a SetHeadBlock call"
			if ok {
				ok = false
				why = "isCurrentForkCut's result is not branched on"
				for _, t := range core.TestsOf(cuts[0].Value(), core.IsTrue) {
					cutEdge := t.Fail // successor taken when the fork was cut
					if len(cutEdge.Preds) != 1 {
						why = "the cut branch is shared with other paths"
						continue
					}
					okHead := true
					for _, hd := range heads {
						h := hd.in
						if !core.CanReach(cutEdge, h.Block()) {
							okHead, why = false, "SetHeadBlock is not reachable from the cut branch"
							continue
						}
						arg := hd.arg
						vals := []ssa.Value{}
						if phi, isPhi := arg.(*ssa.Phi); isPhi {
							for i, p := range phi.Block().Preds {
								if p == cutEdge || cutEdge.Dominates(p) {
									vals = append(vals, phi.Edges[i])
								}
							}
						} else {
							vals = append(vals, arg)
						}
						if len(vals) == 0 {
							okHead, why = false, "the new head does not depend on the cut branch"
						}
						for _, v := range vals {
							ci, isCall := v.(ssa.CallInstruction)
							if !isCall || !core.SameFamily(core.CalleeObj(ci), choose) || ci.Common().Args[1] != fn.Params[spec.param] ||
								!(ci.Block() == cutEdge || cutEdge.Dominates(ci.Block())) {
								okHead, why = false, "on the cut branch the new head is not ChooseNewFork(stableBlock)"
							}
						}
					}
					if okHead {
						ok, why = true, ""
					}
				}
			}
			c.Check(spec.name+"?isCurrentForkCut→SetHeadBlock(ChooseNewFork(stable))", "guard-scope", ok, fn.Pos(), "when the current fork was pruned the head is re-picked among the descendants of the stable block: %s", orOK(why))
		}
		// ChooseNewFork: candidates = {stable param} ∪ {blocks visited by IterateUnConfirms}
		cf := c.Fn(cons + ".ForkManager.ChooseNewFork")
		iter := c.Method(cons+".BlockLoader", "IterateUnConfirms")
		ok := false
		why := "the result is not a local cell"
		for _, r := range core.Returns(cf) {
			ld, isLd := r.Results[0].(*ssa.UnOp)
			if !isLd || ld.Op != token.MUL {
				continue
			}
			cell, isCell := ld.X.(*ssa.Alloc)
			if !isCell {
				continue
			}
			ok, why = true, ""
			for _, ref := range *cell.Referrers() {
				switch x := ref.(type) {
				case *ssa.Store:
					if x.Addr == cell && x.Val != cf.Params[1] {
						ok, why = false, "ChooseNewFork itself stores something else than the stable block"
					}
				case *ssa.MakeClosure:
					inner := x.Fn.(*ssa.Function)
					// the closure is the visitor handed to IterateUnConfirms
					passed := false
					for _, ci := range core.CallsIn(cf, iter) {
						for _, a := range ci.Common().Args {
							if a == ssa.Value(x) {
								passed = true
							}
						}
					}
					if !passed {
						ok, why = false, "a closure over the result is not the IterateUnConfirms visitor"
					}
					for _, b := range inner.Blocks {
						for _, in := range b.Instrs {
							if st, isSt := in.(*ssa.Store); isSt {
								if _, fv := st.Addr.(*ssa.FreeVar); fv && (len(inner.Params) != 1 || st.Val != inner.Params[0]) {
									ok, why = false, "the visitor stores something else than the visited block"
								}
							}
						}
					}
				case *ssa.UnOp:
				default:
					ok, why = false, "the result cell escapes"
				}
			}
		}
		c.Check("ChooseNewFork:candidates⊆{stable}∪IterateUnConfirms", "value-flow", ok, cf.Pos(), "the new head is the stable block or a block of the unconfirmed tree: %s", orOK(why))
	})

	c.Clause("C03.6", "signers are looked up in the set the quorum counts: every per-height deputy query of deputynode.Manager takes its nodes from GetDeputiesByHeight(height, true), which cuts the term's node list to DeputyCount")
	c.Run("one-deputy-set", func() { oneDeputySet(c) })

	c.Clause("C03.7", "one deputy counts once also when its confirms arrive in two packets at the same time: the distinct-signer filter and the save of what it let through hold the engine's chain lock (clause of C19.1, evaluated here as well)")
	c.Run("filter-and-save-under-one-hold", func() { c03FilterAndSaveUnderOneHold(c) })

	c.NotDecidedf("fork-choice correctness (longest / smallest hash), needSwitchFork's distance arithmetic and the value test `newHead != oldHead` before SetHeadBlock")
	c.NotDecidedf("'never forks' across nodes (a distributed property); float rounding and integer width of the two-thirds threshold; that CBlock.CollectToParent / UnConfirmBlocks really hold only descendants of the stable block")
	c.NotDecidedf("that the node's own key always produces the same signature bytes for a hash (deterministic RFC 6979 signing), on which the byte comparison in Block.IsConfirmExist relies for TryConfirm / tryConfirmStable; confirms appended to already stable blocks (tryConfirmStable → appendConfirm) are deduplicated by bytes only, which cannot move the stable pointer")
	c.NotDecidedf("crash atomicity between blockCommit's batch and the stable pointer (C08, D25)")
}

// countCalls counts the non-builtin calls in a slice.
func countCalls(sl map[ssa.Value]bool) int {
	n := 0
	for v := range sl {
		if call, ok := v.(*ssa.Call); ok {
			if _, isB := call.Call.Value.(*ssa.Builtin); !isB {
				n++
			}
		}
	}
	return n
}

func arrLen(al *ssa.Alloc) int64 {
	if p, ok := al.Type().Underlying().(*types.Pointer); ok {
		if a, ok := p.Elem().Underlying().(*types.Array); ok {
			return a.Len()
		}
	}
	return -1
}

// sameGuards: every guard of b is also a guard of a (a is protected by at least the tests that protect b).
func sameGuards(a, b []actGuard) bool {
	for _, gb := range b {
		found := false
		for _, ga := range a {
			if ga.If == gb.If && ga.Reject == gb.Reject {
				found = true
			}
		}
		if !found {
			return false
		}
	}
	return true
}

// precedesLoop: instruction a can run before b, never after it (a is not part of b's loop).
func precedesLoop(a, b ssa.Instruction) bool {
	return core.ReachableAfter(a, b) && !core.ReachableAfter(b, a)
}

// oneDeputySet: every per-height deputy query of deputynode.Manager answers from GetDeputiesByHeight(height, true), which cuts the term's
// node list to DeputyCount. Evaluated under C03 (signers are looked up in the set the quorum counts) and C13 (round length and rotation
// are computed over one and the same list).
func oneDeputySet(c *core.Ctx) {
	const dn = "chain/deputynode"
	gdh := c.Method(dn+".Manager", "GetDeputiesByHeight")
	n := 0
	for _, name := range []string{"GetDeputiesCount", "TwoThirdDeputyCount", "GetDeputyByAddress", "GetDeputyByNodeID", "GetDeputyByDistance", "GetMinerDistance"} {
		fn := c.Fn(dn + ".Manager." + name)
		calls := core.CallsIn(fn, gdh)
		ok := len(calls) == 1
		if ok {
			a := calls[0].Common().Args
			bv, isC := core.BoolConst(a[2])
			ok = a[1] == fn.Params[1] && isC && bv
		}
		// every non-nil, non-constant result is computed from that list
		if ok {
			for _, r := range core.Returns(fn) {
				v := core.RetVal(r, 0)
				if core.IsNilConst(v) {
					continue
				}
				if _, isConst := v.(*ssa.Const); isConst {
					continue
				}
				if !core.Slice(v)[calls[0].Value()] {
					ok = false
				}
			}
		}
		n++
		c.Check("Manager."+name+"←GetDeputiesByHeight(height,true)", "sibling-agreement", ok, fn.Pos(), "%s answers from the deputy list of the height it is asked about (the list the quorum threshold is computed from), and from nothing else", name)
	}
	c.Floor("deputy-queries", n, 6)
	g := c.Fn(dn + ".Manager.GetDeputiesByHeight")
	cut := core.CallsIn(g, c.Method(dn+".TermRecord", "GetDeputies"))
	okc := len(cut) >= 1
	for _, ci := range cut {
		if !core.SliceHasField(core.Slice(ci.Common().Args[1]), c.FieldVar(dn+".Manager", "DeputyCount")) {
			okc = false
		}
	}
	for _, r := range core.Returns(g) {
		v := core.RetVal(r, 0)
		sl := core.Slice(v)
		from := false
		for _, ci := range cut {
			if sl[ci.Value()] {
				from = true
			}
		}
		if !from {
			// the empty list on error
			if _, isMk := v.(*ssa.MakeSlice); !isMk && !core.IsNilConst(v) {
				if len(sl) > 3 {
					okc = false
				}
			}
		}
	}
	c.Check("GetDeputiesByHeight:cut-to-DeputyCount", "value-flow", okc, g.Pos(), "the deputy list handed out is the term's node list cut to DeputyCount (or empty)")
}
